#!/bin/bash
# tools/mut.sh new            : (re)create the scratch copy /tmp/mrepo of /repo to edit a mutant in
# tools/mut.sh save <name> <rule> <expect-key-substring> [benign] [notest]
#     diff /tmp/mrepo against /repo, check it builds (+ pinned suite green unless notest), check the
#     rule reports (or, benign, does not report) the key, store it under selftest/mutants/<name>.
set -u
export GOFLAGS=-mod=mod GOPROXY=off GOSUMDB=off GOTOOLCHAIN=local
M=/tmp/mrepo
case "${1:-}" in
new)
  rm -rf $M; rsync -a --exclude .git /repo/ $M/; echo "scratch at $M";;
save)
  name=$2; rule=$3; expect=$4; benign=false; notest=false
  for a in "${@:5}"; do [ "$a" = benign ] && benign=true; [ "$a" = notest ] && notest=true; done
  d=/verif/selftest/mutants/$name; mkdir -p $d
  (cd /tmp && diff -ruN --exclude=.git --exclude='*.orig' --exclude='*.rej' /repo mrepo | sed -e 's#^--- /repo/#--- a/#' -e 's#^+++ mrepo/#+++ b/#' -e 's#^diff -ruN .* /repo/\(.*\) mrepo/\(.*\)#diff -ruN a/\1 b/\2#') > $d/patch.diff
  [ -s $d/patch.diff ] || { echo "empty diff"; rm -rf $d; exit 1; }
  (cd $M && go build ./... ) || { echo "DOES NOT BUILD"; rm -rf $d; cd /; rm -rf $M; rsync -a --exclude .git /repo/ $M/; exit 1; }
  if ! $notest; then
    (cd $M && go test -vet=off -count=1 -timeout 90s ./... 2>&1 | grep -v "^ok\|no test files" | head -4 | cut -c1-220)
    (cd $M && go test -vet=off -count=1 -timeout 90s ./... >/dev/null 2>&1) && suite=green || suite=RED
  else suite=untested; fi
  out=$(${VCHECK:-/verif/bin/vcheck} -rule $rule -repo $M 2>&1 | grep -E "^(violation|undecided)" | grep -F -- "$expect")
  hit=false; [ -n "$out" ] && hit=true
  printf '{"rule": "%s", "expect_key": "%s", "benign": %s, "suite": "%s"}\n' "$rule" "$expect" $benign $suite > $d/meta.json
  echo "mutant $name: suite=$suite rule-hit=$hit benign=$benign"; echo "$out" | head -3
  cd /; rm -rf $M; rsync -a --exclude .git /repo/ $M/;;
*) echo usage; exit 2;;
esac
