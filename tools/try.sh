#!/bin/bash
# tools/try.sh <patch.diff> <rule> : run one rule on a scratch copy of /repo with the patch applied
T=/tmp/try-$$; rsync -a --exclude .git /repo/ $T/; (cd $T && patch -p1 -s < $1) || { rm -rf $T; echo "patch failed"; exit 1; }
${VCHECK:-/verif/bin/vcheck} -rule $2 -repo $T 2>&1 | grep -A1 "^violation\|^undecided" | cut -c1-${3:-260}
rm -rf $T
