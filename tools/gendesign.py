#!/usr/bin/env python3
"""tools/gendesign.py : regenerate the generated appendices of /verif/DESIGN.md (between the
<!-- BEGIN GENERATED --> / <!-- END GENERATED --> markers) from the rule registry (vcheck -list),
known_findings.json, selftest/mutants/*/meta.json and seeded/*/meta.json."""
import json, glob, os, subprocess, collections, re

V = '/verif'
out = []

# ---- A. rule registry
lst = subprocess.run([V + '/bin/vcheck', '-list'], capture_output=True, text=True).stdout
rules = []
for line in lst.splitlines():
    m = re.match(r'^(R-[A-Z0-9]+)\s+(\S+)\s+(.*)$', line)
    if m:
        rules.append(m.groups())
out.append('## Appendix A. Rule registry (generated from `vcheck -list`)\n')
out.append('| rule | properties | what is decided on every run |')
out.append('|---|---|---|')
for r, props, doc in rules:
    out.append('| %s | %s | %s |' % (r, props.replace(',', ' '), doc.replace('|', '\\|')))
out.append('')

# per property
byprop = collections.defaultdict(list)
for r, props, _ in rules:
    for p in props.split(','):
        byprop[p].append(r)
out.append('### Rules per property\n')
out.append('| property | rules |')
out.append('|---|---|')
for p in sorted(byprop):
    out.append('| %s | %s |' % (p, ' '.join(byprop[p])))
out.append('')

# ---- B. findings
k = json.load(open(V + '/known_findings.json'))['findings']
fixed = collections.OrderedDict()
known = collections.OrderedDict()
for x in k:
    d = fixed if x['status'] == 'fixed' else known
    e = d.setdefault((x['finding'], x.get('commit', '')), {'props': set(), 'rules': set(), 'keys': [], 'what': x['what_fails']})
    e['props'].add(x['property']); e['rules'].add(x['rule'])
    if x['key'] not in e['keys']:
        e['keys'].append(x['key'])
out.append('## Appendix B. Findings (generated from `known_findings.json`)\n')
out.append('### B.1 Repaired by `fix:` commits in /repo\n')
out.append('| finding | commit | properties | reporting rule / construct | what failed |')
out.append('|---|---|---|---|---|')
for (f, c), e in fixed.items():
    what = re.sub(r'^fixed: property=\S+ \S+ ', '', e['what'])
    out.append('| %s | %s | %s | %s `%s`%s | %s |' % (f, c, ' '.join(sorted(e['props'])), ' '.join(sorted(e['rules'])), e['keys'][0], ' (+%d)' % (len(e['keys']) - 1) if len(e['keys']) > 1 else '', what.replace('|', '\\|')))
out.append('')
out.append('### B.2 Known findings (genuine, recorded, not repaired)\n')
out.append('| finding | properties | reporting rule / constructs | what fails |')
out.append('|---|---|---|---|')
for (f, c), e in known.items():
    out.append('| %s | %s | %s: %s | %s |' % (f, ' '.join(sorted(e['props'])), ' '.join(sorted(e['rules'])), ', '.join('`%s`' % x for x in e['keys']), e['what'].replace('|', '\\|')))
out.append('')

# ---- C. selftest mutants
out.append('## Appendix C. Selftest corpus (generated from `selftest/mutants/*/meta.json`)\n')
out.append('Every entry is a patch against the current /repo tree. The thorough tier applies each to a scratch copy and requires the named rule to report the named construct (mutant) or to stay silent on it (benign variant).\n')
per = collections.defaultdict(lambda: [0, 0])
rows = []
for d in sorted(glob.glob(V + '/selftest/mutants/*/')):
    try:
        m = json.load(open(d + 'meta.json'))
    except Exception:
        continue
    per[m['rule']][1 if m.get('benign') else 0] += 1
    rows.append((os.path.basename(d.rstrip('/')), m['rule'], 'benign variant: silent on' if m.get('benign') else 'reports', m.get('expect_key', ''), m.get('suite', '')))
out.append('| rule | mutants | benign variants |')
out.append('|---|---|---|')
for r in sorted(per):
    out.append('| %s | %d | %d |' % (r, per[r][0], per[r][1]))
out.append('')
out.append('| mutant | rule | expectation | construct | pinned suite with the patch |')
out.append('|---|---|---|---|---|')
for n, r, e, kx, s in rows:
    out.append('| %s | %s | %s | `%s` | %s |' % (n, r, e, kx, s))
out.append('')

# ---- D. seeded
out.append('## Appendix D. Changes seeded by independent sub-agents (generated from `seeded/*/meta.json`)\n')
out.append('| id | property broken | suite with patch | demo without / with patch | caught by quick checks of |')
out.append('|---|---|---|---|---|')
tot = caught = 0
for d in sorted(glob.glob(V + '/seeded/*/')):
    try:
        m = json.load(open(d + 'meta.json'))
    except Exception:
        continue
    c = m.get('confirmed', {})
    cb = [x for x in m.get('caught_by_quick_checks', []) if x]
    tot += 1
    caught += 1 if cb else 0
    out.append('| %s | %s | %s | %s / %s | %s |' % (m['id'], m['breaks_property'], 'green' if c.get('suite_rc_with_patch') == 0 else 'RED', 'pass' if c.get('demo_rc_without_patch') == 0 else 'FAIL', 'fail' if c.get('demo_rc_with_patch') != 0 else 'PASS', ' '.join(cb) if cb else '**missed**'))
out.append('')
out.append('%d of %d seeded changes are reported by at least one quick check.\n' % (caught, tot))

gen = '\n'.join(out)
p = V + '/DESIGN.md'
s = open(p).read()
b, e = '<!-- BEGIN GENERATED -->', '<!-- END GENERATED -->'
if b in s and e in s:
    s = s[:s.index(b) + len(b)] + '\n\n' + gen + '\n' + s[s.index(e):]
else:
    s = s.rstrip('\n') + '\n\n' + b + '\n\n' + gen + '\n' + e + '\n'
open(p, 'w').write(s)
print('DESIGN.md appendices regenerated: %d rules, %d fixed, %d known, %d mutants, %d seeded' % (len(rules), len(fixed), len(known), len(rows), tot))
