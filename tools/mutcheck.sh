#!/bin/bash
# tools/mutcheck.sh : every selftest mutant must still apply to the current /repo tree
cd /repo
bad=0
for d in /verif/selftest/mutants/*/; do
  n=$(basename $d)
  if ! git apply --check $d/patch.diff 2>/dev/null; then echo "STALE $n"; bad=$((bad+1)); fi
done
echo "stale: $bad"
