#!/usr/bin/env python3
"""tools/kf.py {fixed|known} <finding> <props,comma> <rule> <key> <commit-or--> <what fails>"""
import json,sys
status,finding,props,rule,key,commit,what=sys.argv[1:8]
k=json.load(open('/verif/known_findings.json'))
for p in props.split(','):
    e={"finding":finding,"property":p,"rule":rule,"key":key,"status":status,"what_fails":what if status=="known" else f"fixed: property={p} {commit} {what}"}
    if commit!='-': e["commit"]=commit
    k['findings']=[x for x in k['findings'] if not (x['property']==p and x['rule']==rule and x['key']==key and x.get('finding')==finding)]
    k['findings'].append(e)
json.dump(k,open('/verif/known_findings.json','w'),indent=1,ensure_ascii=False)
print("ok",len(k['findings']))
