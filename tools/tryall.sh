#!/bin/bash
# tools/tryall.sh <patch.diff> : run every property's quick check on a scratch copy of /repo with the patch applied; print what fires
T=/tmp/tryall-$$; rsync -a --exclude .git /repo/ $T/; (cd $T && patch -p1 -s < $1) || { rm -rf $T; echo "patch failed"; exit 1; }
caught=""
for p in $(jq -r '.checks[].property_id' /verif/MANIFEST.json); do
  out=$(${VCHECK:-/verif/bin/vcheck} -property $p -no-evidence -repo $T 2>&1); rc=$?
  if [ $rc -ne 0 ]; then caught="$caught $p"; echo "$out" | grep -B2 "^VIOLATION" | grep -v "^VIOLATION\|^--" | head -4 | cut -c1-${2:-230}
    echo "$out" | grep -q "^VIOLATION" || { echo "!! $p rc=$rc without a VIOLATION line:"; echo "$out" | tail -3 | cut -c1-300; }; fi
done
echo "caught_by:${caught:- NONE}"
rm -rf $T
