#!/bin/bash
# run every registered quick check on the current tree; print one line per property; exit 1 if any fails
cd /verif
rc=0
for p in $(jq -r '.checks[].property_id' MANIFEST.json); do
  out=$(bin/vcheck -property $p "$@" 2>&1); r=$?
  echo "$out" | tail -1
  if [ $r -ne 0 ]; then rc=1; echo "$out" | grep -B3 "^VIOLATION" | head -12; fi
done
python3-vt - <<'PY'
import json,jsonschema,glob
jsonschema.validate(json.load(open('/verif/MANIFEST.json')), json.load(open('/root/.vp/MANIFEST.schema.json')))
for f in glob.glob('/verif/evidence/*.json'):
    jsonschema.validate(json.load(open(f)), json.load(open('/root/.vp/EVIDENCE.schema.json')))
print("manifest and evidence valid")
PY
exit $rc
