#!/bin/bash
# tools/mutfrom.sh <patch.diff> <name> <rule> <expect-substring> : store an existing patch as a selftest mutant
set -e
/verif/tools/mut.sh new >/dev/null
(cd /tmp/mrepo && patch -p1 -s < "$1" && find . -name '*.orig' -delete)
/verif/tools/mut.sh save "$2" "$3" "$4" 2>&1 | cut -c1-180 | head -4
