#!/bin/bash
# tools/build.sh : build vcheck and move it into place atomically (safe while other runs use it)
export GOFLAGS=-mod=mod GOPROXY=off GOSUMDB=off GOTOOLCHAIN=local GOWORK=off
cd /verif/checker && go build -o /verif/bin/.vcheck.new ./cmd/vcheck && mv -f /verif/bin/.vcheck.new /verif/bin/vcheck
