#!/bin/bash
# tools/build.sh [dev] : build vcheck and move it into place atomically (safe while other runs use it);
# with "dev" the binary goes to /tmp/vcheck-dev instead (use VCHECK=/tmp/vcheck-dev with try.sh / mut.sh)
export GOFLAGS=-mod=mod GOPROXY=off GOSUMDB=off GOTOOLCHAIN=local GOWORK=off
if [ "${1:-}" = dev ]; then cd /verif/checker && go build -o /tmp/vcheck-dev ./cmd/vcheck; exit $?; fi
cd /verif/checker && go build -o /verif/bin/.vcheck.new ./cmd/vcheck && mv -f /verif/bin/.vcheck.new /verif/bin/vcheck
