#!/bin/bash
# tools/seed.sh <prop> <n> <pkgdir-for-demo_test.go|-> <demo-run-regex>
# Confirms a sub-agent's change (/tmp/out-<prop>/<n>): suite green with patch, demo fails with / passes without,
# then runs every property's quick check against /repo with the patch applied (and undoes it), and stores
# the change under /verif/seeded/<prop>-<n>/.
set -u
export GOFLAGS=-mod=mod GOPROXY=off GOSUMDB=off GOTOOLCHAIN=local
prop=$1; n=$2; pkg=$3; run=${4:-.}
id=$prop-$n; src=${SEED_SRC:-/tmp/out-$prop/$n}; [ -f $src/patch.diff ] || src=/verif/seeded/$id
[ -f $src/patch.diff ] || { echo "no patch"; exit 1; }
S=/tmp/seedrepo-$$; rm -rf $S; rsync -a --exclude .git /repo/ $S/
race=""; [ -f $src/race ] && race=-race   # a demo that only fails under the race detector carries a marker file
[ -f $src/tags ] && race="$race -tags $(cat $src/tags)"   # a demo that needs build tags (purego) names them in a file
denv=""; [ -f $src/env ] && denv="env $(cat $src/env)"   # a demo that needs another target (GOARCH=386) names it in a file
demo() { # $1 = label
  if [ "$pkg" != "-" ]; then cp $src/demo_test.go $S/$pkg/zz_demo_test.go; (cd $S && $denv go test $race -count=1 -timeout 180s -run "$run" ./$pkg/ >/tmp/seed-demo-$1.log 2>&1); rc=$?; rm -f $S/$pkg/zz_demo_test.go; return $rc
  else (cd $src/demo && sed -i "s#=> .*#=> $S#" go.mod && cp $S/go.sum . 2>/dev/null; go run . >/tmp/seed-demo-$1.log 2>&1); return $?; fi; }
demo clean; clean=$?
(cd $S && patch -p1 -s < $src/patch.diff) || { echo "patch does not apply"; exit 1; }
(cd $S && go build ./...) || { echo "does not build"; exit 1; }
(cd $S && go test -vet=off -count=1 -timeout 120s ./... >/tmp/seed-suite.log 2>&1); suite=$?
demo patched; patched=$?
echo "suite_rc=$suite demo_clean_rc=$clean demo_patched_rc=$patched"
# checks against /repo itself (or, with SEED_SCRATCH=1, against the patched scratch copy so that /repo stays untouched)
R=/repo
if [ -n "${SEED_SCRATCH:-}" ]; then R=$S; else git -C /repo apply $src/patch.diff || { echo "git apply failed"; exit 1; }; fi
caught=""
# the 20 property checks are independent: run them 6 at a time, each into its own log
L=/tmp/seedchk-$$; rm -rf $L; mkdir -p $L
VC=${VCHECK:-/verif/bin/vcheck}
jq -r '.checks[].property_id' /verif/MANIFEST.json | xargs -P 6 -I{} sh -c "$VC -property {} -no-evidence -repo $R > $L/{}.out 2>&1; echo \$? > $L/{}.rc"
for p in $(jq -r '.checks[].property_id' /verif/MANIFEST.json); do
  rc=$(cat $L/$p.rc 2>/dev/null || echo 2)
  if [ "$rc" != "0" ]; then caught="$caught $p"; echo "--- $p rc=$rc"; grep -B2 "^VIOLATION" $L/$p.out | grep -v "^VIOLATION" | head -6 | cut -c1-260; fi
done
rm -rf $L
[ -n "${SEED_SCRATCH:-}" ] || git -C /repo checkout -- .
echo "caught_by:${caught:- NONE}"
d=/verif/seeded/$id; mkdir -p $d; if [ "$src" != "$d" ]; then cp $src/patch.diff $d/; cp -r $src/demo_test.go $src/demo $src/race $src/tags $src/env $d/ 2>/dev/null; cp $src/README.md $d/AGENT_README.md 2>/dev/null; fi
ran="rsync copy of /repo; patch -p1; go build ./...; go test -count=1 -timeout 120s ./...; demo with and without patch; git -C /repo apply; vcheck -property <each> -no-evidence; git -C /repo checkout -- ."; [ -n "${SEED_SCRATCH:-}" ] && ran="rsync copy of /repo; patch -p1; go build ./...; go test -count=1 -timeout 120s ./...; demo with and without patch; vcheck -property <each> -no-evidence -repo <the patched copy>; copy removed"
jq -n --arg ran "$ran" --arg prop "$prop" --arg id "$id" --arg caught "${caught# }" --argjson suite $suite --argjson clean $clean --argjson patched $patched --arg pkg "$pkg" --arg run "$run" \
  '{id:$id, breaks_property:$prop, source:"independent sub-agent given only the property text and a scratch worktree", confirmed:{suite_rc_with_patch:$suite, demo_rc_without_patch:$clean, demo_rc_with_patch:$patched}, demo:{package_dir:$pkg, run:$run}, caught_by_quick_checks:($caught|split(" ")), what_i_ran:$ran}' > $d/meta.json
rm -rf $S
