#!/bin/bash
# tools/commit.sh "<message>" : rebuild, regenerate the manifest, run every quick check on the clean tree, commit only if all pass
/verif/tools/build.sh || exit 1
cd /verif && bin/vcheck -write-manifest >/dev/null || exit 1
if [ -n "$(git -C /repo status --porcelain)" ]; then echo "REFUSED: /repo has uncommitted changes"; exit 1; fi
out=$(tools/all.sh 2>&1); rc=$?
echo "$out" | grep -v "^WARN" | grep -v "violations=0"
if [ $rc -ne 0 ]; then echo "REFUSED: a check fails on the unchanged tree"; exit 1; fi
git add -A && git commit -qm "$1" && echo "committed: $1"
