#!/bin/bash
# tools/reseed.sh [-P n] : re-evaluate every stored seeded change with a frozen copy of the current
# vcheck binary (scratch mode: /repo is not touched), rewriting seeded/<id>/meta.json.
P=${2:-3}
cp /verif/bin/vcheck /tmp/vcheck-frozen
cd /verif
ls seeded | while read id; do
  m=seeded/$id/meta.json
  prop=${id%-*}; n=${id##*-}
  pkg=$(jq -r '.demo.package_dir // "-"' $m 2>/dev/null); run=$(jq -r '.demo.run // "."' $m 2>/dev/null)
  echo "$prop $n $pkg $run"
done | xargs -P $P -L 1 sh -c 'VCHECK=/tmp/vcheck-frozen SEED_SCRATCH=1 SEED_SRC=/verif/seeded/$0-$1 /verif/tools/seed.sh "$0" "$1" "$2" "$3" > /tmp/reseed-$0-$1.log 2>&1; echo "$0-$1 $(grep -h "suite_rc\|caught_by\|does not" /tmp/reseed-$0-$1.log | tr "\n" " ")"'
