#!/bin/bash
# tools/mutbuild.sh : every selftest mutant (and seeded change) must still apply AND build on the current /repo tree
export GOFLAGS=-mod=mod GOPROXY=off GOSUMDB=off GOTOOLCHAIN=local
one() { d=$1; n=$(basename $d); T=/tmp/mb-$$-$n; rm -rf $T; rsync -a --exclude .git /repo/ $T/; if ! (cd $T && patch -p1 -s < $d/patch.diff >/dev/null 2>&1); then echo "NOAPPLY $d"; elif ! (cd $T && go build ./... >/dev/null 2>&1); then echo "NOBUILD $d"; fi; rm -rf $T; }
export -f one
ls -d /verif/selftest/mutants/*/ /verif/seeded/*/ | sed 's#/$##' | xargs -P ${P:-6} -I{} bash -c 'one {}'
echo "mutbuild done"
