package main

import "verif/checker/rules"

// runFixtures replays, in the thorough tier, the mutant corpus of the rules serving the property.
func runFixtures(rs []*rules.Rule) (notes []string, failed int) {
	return runMutantCorpus(rs)
}
