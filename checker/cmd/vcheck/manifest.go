package main

import (
	"encoding/json"
	"fmt"
	"os"
	"path/filepath"
	"strings"

	"verif/checker/rules"
)

var allProps = []string{"C01", "C02", "C03", "C04", "C05", "C06", "C07", "C08", "C09", "C10",
	"C11", "C12", "C13", "C14", "C15", "C16", "C17", "C18", "C19", "C20"}

// notApplicableReason is used for a property that no registered rule serves.
var notApplicableReason = map[string]string{}

func writeManifest() int {
	type level struct {
		Category  string `json:"category"`
		Text      string `json:"text"`
		DesignRef string `json:"design_ref"`
	}
	type check struct {
		PropertyID string `json:"property_id"`
		Quick      string `json:"quick_cmd"`
		Thorough   string `json:"thorough_cmd"`
		Evidence   string `json:"evidence_file"`
		Replay     string `json:"replay_cmd_template"`
		Engine     string `json:"engine"`
		Level      level  `json:"level_claimed"`
		Note       string `json:"level_note"`
		Technique  string `json:"technique"`
	}
	type na struct {
		PropertyID string `json:"property_id"`
		Reason     string `json:"reason"`
	}
	var checks []check
	var nas []na
	var served []string
	for _, p := range allProps {
		rs := rules.ForProperty(p)
		if len(rs) == 0 {
			r := notApplicableReason[p]
			if r == "" {
				r = "no sound static rule implemented for this property (see DESIGN.md §4): its statement quantifies over runtime values that the structural analyses in reach cannot bound"
			}
			nas = append(nas, na{p, r})
			continue
		}
		served = append(served, p)
		var ids []string
		for _, r := range rs {
			ids = append(ids, r.ID)
		}
		checks = append(checks, check{
			PropertyID: p,
			Quick:      "/verif/bin/vcheck -property " + p + " -tier quick",
			Thorough:   "/verif/bin/vcheck -property " + p + " -tier thorough",
			Evidence:   "/verif/evidence/" + p + ".json",
			Replay:     "/verif/bin/vcheck -replay {path}",
			Engine:     "vcheck",
			Level: level{
				Category: "other",
				Text: "Static analysis deciding structural necessary conditions of " + p + " on every path of the current source (rules " + strings.Join(ids, ", ") +
					"): a firing names a construct whose shape makes the property false for some input; silence means these mechanisms are intact, not that the behaviour is proved. Not decided: " + notDecided[p] + ".",
				DesignRef: "DESIGN.md §3 (rules), §4 " + p,
			},
			Note: "Trusted: go/types+go/ssa+VTA call graph of x/tools v0.29.0 (no pointer analysis; aliasing approximated by type), GOROOT sources as oracle for runtime ABI and encoding/json tables, " +
				"specification tables transcribed in the checker, per-rule exception tables (one reason each, in the rule source). Quick analyses linux/amd64; thorough adds arm64, -tags purego and the mutant corpus.",
			Technique: "static analysis: " + techniqueOf(rs),
		})
	}
	m := map[string]any{
		"version":   1,
		"setup_cmd": "cd /verif/checker && GOWORK=off GOFLAGS=-mod=mod GOPROXY=off GOSUMDB=off GOTOOLCHAIN=local go build -o /verif/bin/vcheck ./cmd/vcheck",
		"hooks": map[string]any{
			"guard":            "verif",
			"enable":           "none needed: the checker reads /repo's source; no hooks or instrumentation exist",
			"baseline_off_cmd": "cd /repo && go test -vet=off -count=1 -timeout 25m ./...",
			"source_commits":   []string{},
			"add_only":         true,
		},
		"engines": []map[string]any{{
			"name": "vcheck", "path": "/verif/checker", "serves_properties": served,
			"kind_free_text": "repository-specific static analyses (go/packages + go/types AST rules, go/ssa dataflow/typestate/dominance rules, VTA call-graph reachability) written for segmentio/encoding",
		}},
		"checks":         checks,
		"not_applicable": nas,
		"notes":          "Every check is a static decision over /repo's current source; no repo code is executed. Known genuine defects are listed in /verif/known_findings.json and printed as KNOWN-FINDING lines.",
	}
	if nas == nil {
		m["not_applicable"] = []na{}
	}
	data, _ := json.MarshalIndent(m, "", " ")
	if err := os.WriteFile(filepath.Join(*flagVerif, "MANIFEST.json"), append(data, '\n'), 0o644); err != nil {
		return fail("%v", err)
	}
	fmt.Printf("MANIFEST.json: %d checks, %d not applicable\n", len(checks), len(nas))
	return 0
}

func techniqueOf(rs []*rules.Rule) string {
	var t []string
	for _, r := range rs {
		t = append(t, r.ID)
	}
	return "custom SSA/AST/call-graph rules " + strings.Join(t, ", ")
}
