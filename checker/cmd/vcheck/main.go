// vcheck decides structural necessary conditions of properties C01..C20 of segmentio/encoding
// from /repo's current source (type-checked AST + SSA + call graph). It never runs repo code.
//
//	vcheck -property C03 -tier quick      decide C03's rules, write evidence/C03.json
//	vcheck -replay evidence/replay/x.json re-run one rule instance and print it
//	vcheck -list                          list rules and the properties they serve
//	vcheck -rule R-LINKABI                run one rule, print all its obligations
package main

import (
	"encoding/json"
	"flag"
	"fmt"
	"os"
	"path/filepath"
	"sort"
	"strconv"
	"strings"
	"time"

	"verif/checker/core"
	"verif/checker/rules"
)

var (
	flagProp    = flag.String("property", "", "property id (C01..C20)")
	flagTier    = flag.String("tier", "", "quick | thorough (default: $VERIF_TIER or quick)")
	flagRepo    = flag.String("repo", "/repo", "repository working tree to analyse")
	flagVerif   = flag.String("verif", "/verif", "verification directory (evidence, known findings, fixtures)")
	flagReplay  = flag.String("replay", "", "replay file written by a failed check")
	flagRule    = flag.String("rule", "", "run a single rule and print every obligation")
	flagList    = flag.Bool("list", false, "list rules")
	flagManif   = flag.Bool("write-manifest", false, "regenerate MANIFEST.json from the rule registry")
	flagArch    = flag.String("goarch", "", "GOARCH of the configuration to analyse (default amd64)")
	flagTags    = flag.String("tags", "", "build tags of the configuration to analyse")
	flagVerbose = flag.Bool("v", false, "print every obligation")
	flagNoEvid  = flag.Bool("no-evidence", false, "do not write evidence (used for scratch-copy runs)")
	flagFixture = flag.String("fixture", "", "analyse a fixture directory (module root) instead of the repository; prints obligations")
)

func main() {
	flag.Parse()
	switch {
	case *flagList:
		for _, r := range rules.All() {
			fmt.Printf("%-14s %-40s %s\n", r.ID, strings.Join(r.Props, ","), r.Doc)
		}
	case *flagManif:
		os.Exit(writeManifest())
	case *flagReplay != "":
		os.Exit(replay(*flagReplay))
	case *flagRule != "":
		os.Exit(runRule(*flagRule))
	case *flagProp != "":
		os.Exit(runProperty(*flagProp))
	default:
		flag.Usage()
		os.Exit(2)
	}
}

func tier() string {
	t := *flagTier
	if t == "" {
		t = os.Getenv("VERIF_TIER")
	}
	if t != "thorough" {
		t = "quick"
	}
	return t
}

func seed() int {
	n, _ := strconv.Atoi(os.Getenv("VERIF_SEED"))
	return n
}

func fail(format string, a ...any) int {
	fmt.Fprintf(os.Stderr, "vcheck: FAILED CHECK (not a pass): "+format+"\n", a...)
	return 2
}

type config struct {
	core.Config
	deciding bool
}

func configs(t string) []config {
	base := core.Config{RepoDir: *flagRepo, GOARCH: *flagArch, Tags: *flagTags}
	if t != "thorough" || *flagArch != "" || *flagTags != "" {
		return []config{{base, true}}
	}
	return []config{
		{core.Config{RepoDir: *flagRepo, GOARCH: "amd64"}, true},
		{core.Config{RepoDir: *flagRepo, GOARCH: "amd64", Tags: "purego"}, true},
		{core.Config{RepoDir: *flagRepo, GOARCH: "arm64"}, true},
		{core.Config{RepoDir: *flagRepo, GOARCH: "arm64", Tags: "purego"}, true},
	}
}

func runRules(c *core.Ctx, rs []*rules.Rule) (obs []core.Obligation, err error) {
	for _, r := range rs {
		func() {
			defer func() {
				if p := recover(); p != nil {
					err = fmt.Errorf("rule %s panicked: %v", r.ID, p)
					if os.Getenv("VCHECK_PANIC") != "" {
						panic(p)
					}
				}
			}()
			o := r.Run(c)
			// an obligation assigned to a property the rule is not registered for would never
			// be counted by that property's check: a mistake of the checker, reported loudly
			for _, ob := range o {
				for _, p := range ob.Props {
					ok := false
					for _, rp := range r.Props {
						if rp == p {
							ok = true
						}
					}
					if !ok {
						panic(fmt.Sprintf("obligation %s is assigned to %s, for which rule %s is not registered", ob.Key, p, r.ID))
					}
				}
			}
			obs = append(obs, o...)
		}()
		if err != nil {
			return nil, err
		}
	}
	sort.SliceStable(obs, func(i, j int) bool {
		if obs[i].Rule != obs[j].Rule {
			return obs[i].Rule < obs[j].Rule
		}
		return obs[i].Key < obs[j].Key
	})
	return obs, nil
}

func runRule(id string) int {
	r := rules.ByID(id)
	if r == nil {
		return fail("unknown rule %s", id)
	}
	c, err := core.Load(core.Config{RepoDir: *flagRepo, GOARCH: *flagArch, Tags: *flagTags})
	if err != nil {
		return fail("%v", err)
	}
	obs, err := runRules(c, []*rules.Rule{r})
	if err != nil {
		return fail("%v", err)
	}
	n := 0
	for _, o := range obs {
		fmt.Printf("%-10s %s %s [%s] %s\n      %s\n", o.Verdict, o.Rule, o.Key, strings.Join(o.Props, ","), o.Pos, o.Msg)
		for _, p := range o.Path {
			fmt.Printf("        · %s\n", p)
		}
		if o.Verdict == core.Violation || o.Verdict == core.Undecided {
			n++
		}
	}
	fmt.Printf("%d obligations, %d violations/undecided\n", len(obs), n)
	if n > 0 {
		return 1
	}
	return 0
}

type evidence struct {
	PropertyID  string         `json:"property_id"`
	Tier        string         `json:"tier"`
	Seed        int            `json:"seed"`
	Level       string         `json:"level"`
	Coverage    map[string]any `json:"coverage"`
	Assumptions []string       `json:"assumptions"`
	WallS       float64        `json:"wall_s"`
	Violations  int            `json:"violations"`
}

type replayFile struct {
	Property   string          `json:"property"`
	Config     string          `json:"config"`
	GOARCH     string          `json:"goarch"`
	Tags       string          `json:"tags"`
	Obligation core.Obligation `json:"obligation"`
}

func runProperty(prop string) int {
	start := time.Now()
	t := tier()
	rs := rules.ForProperty(prop)
	if len(rs) == 0 {
		return fail("no rule serves property %s", prop)
	}
	known, err := core.LoadKnown(filepath.Join(*flagVerif, "known_findings.json"))
	if err != nil {
		return fail("%v", err)
	}

	type perCfg struct {
		cfg   config
		obs   []core.Obligation
		stats map[string]int
	}
	var runs []perCfg
	for _, cf := range configs(t) {
		c, err := core.Load(cf.Config)
		if err != nil {
			return fail("[%s] %v", cf.Config, err)
		}
		if len(c.Pkgs) < 6 && len(cf.Patterns) == 0 {
			return fail("[%s] only %d repo packages loaded (expected >= 6)", cf.Config, len(c.Pkgs))
		}
		obs, err := runRules(c, rs)
		if err != nil {
			return fail("[%s] %v", cf.Config, err)
		}
		var mine []core.Obligation
		for _, o := range obs {
			if o.For(prop) {
				mine = append(mine, o)
			}
		}
		st := map[string]int{"packages": len(c.Pkgs), "functions": len(c.RepoFunctions())}
		runs = append(runs, perCfg{cf, mine, st})
	}

	// fixtures (thorough): every rule's seeded-violation fixture must fire, its repaired twin must not.
	var fixtureNotes []string
	fixtureFail := 0
	if t == "thorough" {
		notes, bad := runFixtures(rs)
		fixtureNotes = notes
		fixtureFail = bad
	}

	// verdicts
	var out []string
	violations := 0
	knownHits := map[string]bool{}
	replayDir := filepath.Join(*flagVerif, "evidence", "replay")
	ruleInst := map[string]int{}
	total, discharged := 0, 0
	seen := map[string]bool{}
	var samples []any
	var vioSamples []any
	for _, run := range runs {
		perRule := map[string]int{}
		for _, o := range run.obs {
			perRule[o.Rule]++
			id := o.Rule + "|" + o.Key + "|" + o.Verdict
			first := !seen[id]
			seen[id] = true
			if first {
				total++
				ruleInst[o.Rule]++
			}
			switch o.Verdict {
			case core.Discharged, core.Info:
				if first {
					if o.Verdict == core.Discharged {
						discharged++
					} else {
						total-- // informational: not an obligation
					}
					if len(samples) < 14 && (ruleInst[o.Rule] <= 2) {
						samples = append(samples, map[string]any{"rule": o.Rule, "construct": o.Key, "verdict": o.Verdict, "at": o.Pos, "why": o.Msg})
					}
				}
				if o.Verdict == core.Info && first {
					out = append(out, fmt.Sprintf("INFO: property=%s %s %s at %s: %s", prop, o.Rule, o.Key, o.Pos, o.Msg))
				}
			case core.Violation, core.Undecided:
				if !first {
					continue
				}
				if k := known.Match(prop, o); k != nil {
					if !knownHits[o.Rule+"|"+o.Key] {
						knownHits[o.Rule+"|"+o.Key] = true
						out = append(out, fmt.Sprintf("KNOWN-FINDING: property=%s %s [%s %s at %s]", prop, k.WhatFails, o.Rule, o.Key, o.Pos))
						vioSamples = append(vioSamples, map[string]any{"rule": o.Rule, "construct": o.Key, "verdict": "known-finding", "at": o.Pos, "why": o.Msg})
					}
					continue
				}
				violations++
				rp := filepath.Join(replayDir, fmt.Sprintf("%s-%d.json", prop, violations))
				if !*flagNoEvid {
					os.MkdirAll(replayDir, 0o755)
					data, _ := json.MarshalIndent(replayFile{Property: prop, Config: run.cfg.Config.String(), GOARCH: run.cfg.GOARCH, Tags: run.cfg.Tags, Obligation: o}, "", " ")
					os.WriteFile(rp, data, 0o644)
				}
				tag := ""
				if o.Verdict == core.Undecided {
					tag = " (UNDECIDED: idiom not recognised at a site the rule must decide)"
				}
				out = append(out, fmt.Sprintf("  %s %s at %s [%s]%s\n    %s", o.Rule, o.Key, o.Pos, run.cfg.Config, tag, o.Msg))
				for _, p := range o.Path {
					out = append(out, "      · "+p)
				}
				out = append(out, fmt.Sprintf("VIOLATION property=%s replay=%s", prop, rp))
				vioSamples = append(vioSamples, map[string]any{"rule": o.Rule, "construct": o.Key, "verdict": o.Verdict, "at": o.Pos, "why": o.Msg})
			}
		}
		// minimum instance counts: a rule that matched nothing fails
		for _, r := range rs {
			if min := r.Min[prop]; perRule[r.ID] < min {
				violations++
				rp := filepath.Join(replayDir, fmt.Sprintf("%s-%d.json", prop, violations))
				o := core.Obligation{Rule: r.ID, Key: "min-instances", Verdict: core.Undecided, Props: []string{prop},
					Msg: fmt.Sprintf("rule produced %d obligations for %s, fewer than the %d confirmed by hand: its anchors no longer resolve", perRule[r.ID], prop, min)}
				if !*flagNoEvid {
					os.MkdirAll(replayDir, 0o755)
					data, _ := json.MarshalIndent(replayFile{Property: prop, Config: run.cfg.Config.String(), GOARCH: run.cfg.GOARCH, Tags: run.cfg.Tags, Obligation: o}, "", " ")
					os.WriteFile(rp, data, 0o644)
				}
				out = append(out, fmt.Sprintf("  %s [%s] %s", r.ID, run.cfg.Config, o.Msg))
				out = append(out, fmt.Sprintf("VIOLATION property=%s replay=%s", prop, rp))
			}
		}
	}
	if fixtureFail > 0 {
		// a broken fixture means the rule can no longer see what it was written to see
		violations += fixtureFail
		for _, n := range fixtureNotes {
			if strings.HasPrefix(n, "FIXTURE-FAIL") {
				out = append(out, "  "+n)
			}
		}
		out = append(out, fmt.Sprintf("VIOLATION property=%s replay=%s", prop, filepath.Join(*flagVerif, "fixtures")))
	}

	for _, l := range out {
		fmt.Println(l)
	}
	var ruleDocs []string
	var cfgNames []string
	for _, r := range rs {
		ruleDocs = append(ruleDocs, r.ID+": "+r.Doc)
	}
	for _, run := range runs {
		cfgNames = append(cfgNames, run.cfg.Config.String())
	}
	fmt.Printf("vcheck %s tier=%s configs=%v rules=%d obligations=%d discharged=%d known-findings=%d violations=%d (%.1fs)\n",
		prop, t, cfgNames, len(rs), total, discharged, len(knownHits), violations, time.Since(start).Seconds())

	if !*flagNoEvid {
		ev := evidence{
			PropertyID: prop, Tier: t, Seed: seed(), Level: "other",
			Coverage: map[string]any{
				"explanation":        explanation(prop),
				"obligations":        total,
				"discharged":         discharged,
				"known_findings":     len(knownHits),
				"rule_instances":     ruleInst,
				"rules":              ruleDocs,
				"configurations":     cfgNames,
				"functions_analysed": runs[0].stats["functions"],
				"packages":           runs[0].stats["packages"],
				"samples":            append(samples, vioSamples...),
				"fixtures":           fixtureNotes,
				"checker_cmd":        strings.Join(os.Args, " "),
				"trusted_base": []string{"go/types, go/ssa, callgraph/vta of golang.org/x/tools v0.29.0", "the Go toolchain's GOROOT sources used as oracles (runtime signatures, encoding/json tables)",
					"specification tables transcribed into the checker"},
				"exhaustive": false,
			},
			Assumptions: assumptions(prop),
			WallS:       time.Since(start).Seconds(),
			Violations:  violations,
		}
		os.MkdirAll(filepath.Join(*flagVerif, "evidence"), 0o755)
		data, _ := json.MarshalIndent(ev, "", " ")
		if err := os.WriteFile(filepath.Join(*flagVerif, "evidence", prop+".json"), append(data, '\n'), 0o644); err != nil {
			return fail("%v", err)
		}
	}
	if violations > 0 {
		return 1
	}
	return 0
}

func replay(path string) int {
	data, err := os.ReadFile(path)
	if err != nil {
		return fail("%v", err)
	}
	var rf replayFile
	if err := json.Unmarshal(data, &rf); err != nil {
		return fail("%v", err)
	}
	r := rules.ByID(rf.Obligation.Rule)
	if r == nil {
		return fail("unknown rule %s", rf.Obligation.Rule)
	}
	c, err := core.Load(core.Config{RepoDir: *flagRepo, GOARCH: rf.GOARCH, Tags: rf.Tags})
	if err != nil {
		return fail("%v", err)
	}
	obs, err := runRules(c, []*rules.Rule{r})
	if err != nil {
		return fail("%v", err)
	}
	fmt.Printf("replay of %s %s (property %s, configuration %s)\nrule: %s\nrecorded: %s at %s\n  %s\n", rf.Obligation.Rule, rf.Obligation.Key, rf.Property, rf.Config, r.Doc, rf.Obligation.Verdict, rf.Obligation.Pos, rf.Obligation.Msg)
	found := false
	rc := 0
	for _, o := range obs {
		if o.Key == rf.Obligation.Key {
			found = true
			fmt.Printf("now: %s at %s\n  %s\n", o.Verdict, o.Pos, o.Msg)
			for _, p := range o.Path {
				fmt.Printf("      · %s\n", p)
			}
			if o.Verdict == core.Violation || o.Verdict == core.Undecided {
				rc = 1
			}
		}
	}
	if !found {
		fmt.Println("now: the construct is no longer reported by the rule")
	}
	return rc
}
