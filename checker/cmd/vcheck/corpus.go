package main

import (
	"bytes"
	"encoding/json"
	"fmt"
	"os"
	"os/exec"
	"path/filepath"
	"sort"
	"strings"

	"verif/checker/rules"
)

// A mutant is a patch against /repo that breaks one rule instance while compiling and passing
// the pinned suite. The corpus lives in /verif/selftest/mutants/<name>/{patch.diff,meta.json}.
type mutantMeta struct {
	Rule   string `json:"rule"`
	Expect string `json:"expect_key"` // substring of the construct key the rule must report
	Benign bool   `json:"benign"`     // benign variant: the rule must report nothing new
}

// runMutantCorpus applies each mutant that targets one of rs to a scratch copy of the repository
// (outside /repo and /verif, removed immediately), runs the rule in a fresh process and requires
// that the expected construct is reported (or, for benign variants, that nothing is).
func runMutantCorpus(rs []*rules.Rule) (notes []string, failed int) {
	dir := filepath.Join(*flagVerif, "selftest", "mutants")
	ents, err := os.ReadDir(dir)
	if err != nil {
		return []string{"no mutant corpus"}, 0
	}
	want := map[string]bool{}
	for _, r := range rs {
		want[r.ID] = true
	}
	self, _ := os.Executable()
	var names []string
	for _, e := range ents {
		names = append(names, e.Name())
	}
	sort.Strings(names)
	for _, name := range names {
		var m mutantMeta
		data, err := os.ReadFile(filepath.Join(dir, name, "meta.json"))
		if err != nil || json.Unmarshal(data, &m) != nil || !want[m.Rule] {
			continue
		}
		scratch, err := os.MkdirTemp("", "vcheck-mutant-")
		if err != nil {
			notes = append(notes, "FIXTURE-FAIL "+name+": "+err.Error())
			failed++
			continue
		}
		func() {
			defer os.RemoveAll(scratch)
			if out, err := exec.Command("rsync", "-a", "--exclude", ".git", *flagRepo+"/", scratch+"/").CombinedOutput(); err != nil {
				notes = append(notes, fmt.Sprintf("FIXTURE-FAIL %s: rsync: %v %s", name, err, out))
				failed++
				return
			}
			ap := exec.Command("patch", "-p1", "-s", "-i", filepath.Join(dir, name, "patch.diff"))
			ap.Dir = scratch
			if out, err := ap.CombinedOutput(); err != nil {
				// the tree has moved on (e.g. a later fix: commit touched the same lines): skip, not fail
				notes = append(notes, fmt.Sprintf("mutant %s: patch no longer applies (skipped): %s", name, strings.TrimSpace(string(out))))
				return
			}
			cmd := exec.Command(self, "-rule", m.Rule, "-repo", scratch, "-verif", *flagVerif)
			var buf bytes.Buffer
			cmd.Stdout, cmd.Stderr = &buf, &buf
			cmd.Run()
			hit := false
			for _, l := range strings.Split(buf.String(), "\n") {
				if (strings.HasPrefix(l, "violation") || strings.HasPrefix(l, "undecided")) && strings.Contains(l, m.Expect) {
					hit = true
				}
			}
			switch {
			case m.Benign && hit:
				notes = append(notes, fmt.Sprintf("FIXTURE-FAIL benign variant %s: %s reported %q", name, m.Rule, m.Expect))
				failed++
			case !m.Benign && !hit:
				notes = append(notes, fmt.Sprintf("FIXTURE-FAIL mutant %s: %s did not report %q", name, m.Rule, m.Expect))
				failed++
			case m.Benign:
				notes = append(notes, fmt.Sprintf("benign variant %s: %s silent on %q", name, m.Rule, m.Expect))
			default:
				notes = append(notes, fmt.Sprintf("mutant %s: %s reports %q", name, m.Rule, m.Expect))
			}
		}()
	}
	return notes, failed
}
