package main

import "verif/checker/rules"

// explanation returns, per property, what the static check decides and what it does not.
// The text is assembled from the rules actually registered for the property, so the evidence
// always describes the rules that ran.
func explanation(prop string) string {
	s := "Static analysis of /repo's current source (type-checked AST, SSA, VTA call graph); no repo code is executed. " +
		"Decides structural NECESSARY conditions of " + prop + ", not the behaviour itself. Rules applied: "
	for i, r := range rules.ForProperty(prop) {
		if i > 0 {
			s += "; "
		}
		s += r.ID + " (" + r.Doc + ")"
	}
	if nd, ok := notDecided[prop]; ok {
		s += ". NOT decided: " + nd
	}
	return s
}

var notDecided = map[string]string{
	"C01": "value-level byte equality with encoding/json (number formatting, tag/embedding resolution, key order, HTML/U+2028 sequencing)",
	"C02": "numeric parsing results, string unquoting results, key matching, merge semantics with prior target state",
	"C03": "value equality after a round trip, wantzero/inline flag semantics, determinism",
	"C04": "value equality after a round trip, union/optional semantics, cross-protocol content equivalence",
	"C05": "that the string scanner (fast paths with word-at-a-time quote search) accepts exactly the RFC 8259 strings; numbers are decided exactly by R-NUMGRAMMAR",
	"C06": "index safety of the hand-written scanners (needs value reasoning), termination of individual loops",
	"C07": "that inserting unknown fields leaves the decoded value unchanged; exact errors / partial results; allocation factor",
	"C08": "that a skipped field leaves the value unchanged; precise error classes for every truncation offset",
	"C09": "determinism of results under all schedules; races through memory reached by unsafe arithmetic on user values",
	"C10": "lifetime effects of Decoder buffer compaction on zero-copy values; user Unmarshal* implementations",
	"C11": "equality of the value stream with encoding/json's Decoder, Buffered() contents, exact offsets",
	"C12": "agreement with the reference implementation on values (zig-zag formulas, sign extension, map entry layout)",
	"C13": "bit-level varint encoding (delegated to encoding/binary), content equivalence across alternative encodings",
	"C14": "equality of decoded generic values across flag subsets",
	"C15": "equality of the appended bytes with Append(nil, ...)",
	"C16": "byte equality with Marshal; behaviour of user MarshalTo",
	"C17": "Depth/Index/IsKey against encoding/json's token stream; termination needs value reasoning about the scanners",
	"C18": "daysSinceEpoch and the leap-year arithmetic as numbers, equality of Parse's instant with time.Parse's for every accepted string (the grammar of Valid for all 32 flag sets and the word-at-a-time digit test are decided, R-ISOGRAMMAR / R-SWAR)",
	"C19": "that untouched fields are carried over byte-for-byte; BitOr semantics per kind",
	"C20": "the slice and string predicates themselves (they live in github.com/segmentio/asm, assembly and word-at-a-time Go, outside /repo); the four scalar predicates are evaluated exactly",
}

func assumptions(prop string) []string {
	a := []string{
		"go/types, go/ssa and callgraph/vta (x/tools v0.29.0) model the program faithfully; heap aliasing is approximated by type (no pointer analysis available)",
		"GOROOT sources of the toolchain that builds /repo are the oracle for runtime signatures and encoding/json tables",
		"only the default build configuration is analysed in the quick tier (linux/amd64, no tags); thorough adds arm64 and -tags purego",
	}
	if nd, ok := notDecided[prop]; ok {
		a = append(a, "not decided by this check: "+nd)
	}
	return a
}
