package rules

import (
	"fmt"
	"go/ast"
	"go/constant"
	"go/token"
	"go/types"
	"sort"
	"strings"

	"golang.org/x/tools/go/ssa"

	"verif/checker/core"
)

// R-LIMIT — the nesting limit is the one encoding/json enforces, and every test against it admits
// the same documents: encoding/json accepts a document whose deepest container is at depth
// maxNestingDepth and rejects one level more (after pushing, len(parseState) <= maxNestingDepth).
// Every comparison with json.maxNestingDepth is classified by what its other operand counts — the
// containers open including the one being opened (post-increment), or excluding it
// (pre-increment) — and the operator must reject exactly "more than maxNestingDepth open".
func init() {
	Register(&Rule{
		ID:    "R-LIMIT",
		Doc:   "json.maxNestingDepth equals encoding/json's constant (read from GOROOT); every comparison that mentions it (found through the type-checker's uses of the constant object, mapped to the SSA comparison) rejects exactly depths above the limit: 'counter after increment > limit' or 'counter before increment >= limit'; a comparison whose operand cannot be placed relative to the increment and that is not '>' is undecided",
		Props: []string{"C02", "C05", "C06", "C17"},
		Min:   map[string]int{"C02": 10, "C05": 3, "C06": 10},
		Run:   runLimit,
	})
}

func runLimit(c *core.Ctx) []core.Obligation {
	b := newOb(c, "R-LIMIT")
	base := []string{"C02", "C05", "C06"}
	jp := c.Pkg("json")
	if jp == nil {
		b.addP(base, core.Undecided, "limit:const", "-", "package json not loaded")
		return b.out
	}
	obj, _ := jp.Types.Scope().Lookup("maxNestingDepth").(*types.Const)
	if obj == nil {
		b.addP(base, core.Undecided, "limit:const", "-", "json.maxNestingDepth not found")
		return b.out
	}
	// oracle: encoding/json's constant
	var std *types.Const
	if p := c.Dep("encoding/json"); p != nil {
		std, _ = p.Types.Scope().Lookup("maxNestingDepth").(*types.Const)
	}
	switch {
	case std == nil:
		b.addP(base, core.Undecided, "limit:const", "-", "encoding/json.maxNestingDepth not found in GOROOT")
	case constant.Compare(std.Val(), token.EQL, obj.Val()):
		b.addP(base, core.Discharged, "limit:const", c.PosOf(obj.Pos()), "json.maxNestingDepth = encoding/json.maxNestingDepth = "+obj.Val().String())
	default:
		b.addP(base, core.Violation, "limit:const", c.PosOf(obj.Pos()), fmt.Sprintf("json.maxNestingDepth is %s, encoding/json rejects documents nested deeper than %s: the two packages accept different documents", obj.Val(), std.Val()))
	}
	// comparisons that mention the constant
	opPos := map[token.Pos]bool{}
	var otherUses []token.Pos
	for _, f := range jp.Syntax {
		var stack []ast.Node
		ast.Inspect(f, func(n ast.Node) bool {
			if n == nil {
				stack = stack[:len(stack)-1]
				return true
			}
			stack = append(stack, n)
			id, ok := n.(*ast.Ident)
			if !ok || jp.TypesInfo.Uses[id] != types.Object(obj) {
				return true
			}
			for i := len(stack) - 2; i >= 0; i-- {
				switch p := stack[i].(type) {
				case *ast.ParenExpr:
					continue
				case *ast.BinaryExpr:
					switch p.Op {
					case token.GTR, token.GEQ, token.LSS, token.LEQ, token.EQL, token.NEQ:
						opPos[p.OpPos] = true
						return true
					}
				}
				break
			}
			otherUses = append(otherUses, id.Pos())
			return true
		})
	}
	for _, p := range otherUses {
		b.addP(base, core.Undecided, "limit:use:"+c.PosOf(p), c.PosOf(p), "json.maxNestingDepth is used outside a comparison: the rule cannot tell which depths this use admits")
	}
	type site struct {
		fn *ssa.Function
		bo *ssa.BinOp
	}
	var sites []site
	for _, fn := range c.RepoFunctions() {
		if fn.Blocks == nil || fn.Pkg == nil || fn.Pkg.Pkg != jp.Types {
			continue
		}
		for _, blk := range fn.Blocks {
			for _, in := range blk.Instrs {
				if bo, ok := in.(*ssa.BinOp); ok && opPos[bo.Pos()] {
					sites = append(sites, site{fn, bo})
				}
			}
		}
	}
	sort.Slice(sites, func(i, j int) bool { return sites[i].bo.Pos() < sites[j].bo.Pos() })
	if len(sites) < len(opPos) {
		b.addP(base, core.Undecided, "limit:unmapped", "-", fmt.Sprintf("%d comparisons mention json.maxNestingDepth in the source, %d were found in the SSA form", len(opPos), len(sites)))
	}
	count := map[string]int{}
	for _, s := range sites {
		name := shortName(s.fn)
		count[name]++
		key := "limit:cmp:" + name
		if count[name] > 1 {
			key += fmt.Sprintf("#%d", count[name])
		}
		props := base
		if strings.Contains(name, "Tokenizer") || strings.Contains(name, "(*stack)") {
			props = []string{"C17", "C06"}
		}
		x, op := s.bo.X, s.bo.Op
		if _, isK := x.(*ssa.Const); isK { // limit OP x  ==  x flip(OP) limit
			x = s.bo.Y
			switch op {
			case token.GTR:
				op = token.LSS
			case token.GEQ:
				op = token.LEQ
			case token.LSS:
				op = token.GTR
			case token.LEQ:
				op = token.GEQ
			}
		}
		when := counterPhase(x, s.bo)
		pos := c.InstrPos(s.bo)
		// the true edge of an If on the comparison must be the rejecting one for > and >=; the
		// accepting one for <= and <. Only the admitted set is compared here.
		admits := "" // "≤limit" | "≤limit-1" | "≤limit+1" | "?"
		switch {
		case when == "post" && (op == token.GTR || op == token.LEQ):
			admits = "≤limit"
		case when == "post" && (op == token.GEQ || op == token.LSS):
			admits = "≤limit-1"
		case when == "pre" && (op == token.GEQ || op == token.LSS):
			admits = "≤limit"
		case when == "pre" && (op == token.GTR || op == token.LEQ):
			admits = "≤limit+1"
		case when == "other" && (op == token.GTR || op == token.LEQ):
			admits = "≤limit (taking the operand to count the container being opened, as in every sibling)"
		default:
			admits = "?"
		}
		switch {
		case when == "unstored":
			b.addP(props, core.Violation, key, pos, fmt.Sprintf("%s compares the depth plus one with the limit but never stores the incremented depth: every nested value starts from the same depth again, the limit is never reached and a deeply nested document exhausts the stack", name))
		case strings.HasPrefix(admits, "≤limit-1"):
			b.addP(props, core.Violation, key, pos, fmt.Sprintf("%s rejects a document whose deepest container is at depth maxNestingDepth (the operand counts the container being opened and is compared with %s): encoding/json and the other paths of this package accept it", name, op))
		case strings.HasPrefix(admits, "≤limit+1"):
			b.addP(props, core.Violation, key, pos, fmt.Sprintf("%s accepts one level more than maxNestingDepth (the operand does not count the container being opened yet and is compared with %s)", name, op))
		case admits == "?":
			b.addP(props, core.Undecided, key, pos, fmt.Sprintf("%s compares %s %s maxNestingDepth and the rule cannot place the operand relative to the increment", name, texpr(x, 0), op))
		default:
			b.addP(props, core.Discharged, key, pos, "admits depths "+admits+" ("+when+"-increment operand, "+op.String()+")")
		}
		// the container is counted on every path that accepts it: each success return of the
		// function (outside its null arm) is dominated by the comparison
		dkey := strings.Replace(key, "limit:cmp:", "limit:counted:", 1)
		badRet := ""
		for _, blk := range s.fn.Blocks {
			ret, ok := blk.Instrs[len(blk.Instrs)-1].(*ssa.Return)
			if !ok || len(ret.Results) == 0 || !isNilConst(ret.Results[len(ret.Results)-1]) {
				continue
			}
			if s.bo.Block() == blk || s.bo.Block().Dominates(blk) {
				continue
			}
			nullArm := false
			for _, e := range dominatingEdges(blk) {
				if call, isCall := e.ifi.Cond.(*ssa.Call); isCall && e.succ == 0 {
					if f := staticCallee(call.Common()); f != nil && f.Name() == "hasNullPrefix" {
						nullArm = true
					}
				}
			}
			if !nullArm {
				badRet = c.InstrPos(ret)
			}
		}
		// a helper that returns the comparison (func (d *decoder) tooDeep() bool): the containers
		// are counted where the helper is called, and each caller is held to the same obligation
		isHelper := false
		for _, r := range returnsOf(s.fn) {
			for _, res := range r.Results {
				for _, o := range origins(res) {
					if o == ssa.Value(s.bo) {
						isHelper = true
					}
				}
			}
		}
		if isHelper {
			if node := c.CallGraph().Nodes[s.fn]; node != nil {
				seenCaller := map[ssa.Instruction]bool{}
				for _, e := range node.In {
					if e.Site == nil || e.Site.Common().IsInvoke() || seenCaller[e.Site] || !c.InRepo(e.Caller.Func) {
						continue
					}
					seenCaller[e.Site] = true
					caller := e.Caller.Func
					cname := shortName(caller)
					count[cname]++
					ckey := "limit:cmp:" + cname
					if count[cname] > 1 {
						ckey += fmt.Sprintf("#%d", count[cname])
					}
					b.addP(props, core.Discharged, ckey, c.InstrPos(e.Site), "the depth is counted and tested through "+s.fn.Name())
					cbad := ""
					for _, blk := range caller.Blocks {
						ret, ok := blk.Instrs[len(blk.Instrs)-1].(*ssa.Return)
						if !ok || len(ret.Results) == 0 || !isNilConst(ret.Results[len(ret.Results)-1]) {
							continue
						}
						if e.Site.Block() == blk || e.Site.Block().Dominates(blk) {
							continue
						}
						nullArm := false
						for _, de := range dominatingEdges(blk) {
							if call, isCall := de.ifi.Cond.(*ssa.Call); isCall && de.succ == 0 {
								if f := staticCallee(call.Common()); f != nil && f.Name() == "hasNullPrefix" {
									nullArm = true
								}
							}
						}
						if !nullArm {
							cbad = c.InstrPos(ret)
						}
					}
					cdkey := strings.Replace(ckey, "limit:cmp:", "limit:counted:", 1)
					if cbad != "" {
						b.addP(props, core.Violation, cdkey, cbad, cname+" returns success on a path that does not count the container it consumed against the nesting limit")
					} else {
						b.addP(props, core.Discharged, cdkey, c.InstrPos(e.Site), "every success return outside the null arm is dominated by the limit test")
					}
				}
			}
			continue
		}
		if badRet != "" {
			b.addP(props, core.Violation, dkey, badRet, name+" returns success on a path that does not count the container it consumed against the nesting limit: a document one level deeper than encoding/json accepts passes through this path")
		} else {
			b.addP(props, core.Discharged, dkey, pos, "every success return outside the null arm is dominated by the limit test")
		}
	}
	return b.out
}

// counterPhase: "post" when x is L+1 and is stored back to L (the counter after the increment);
// "pre" when x is a load of L and L+1 is stored to L afterwards under the comparison; else "other".
func counterPhase(x ssa.Value, cmp *ssa.BinOp) string {
	if add, ok := x.(*ssa.BinOp); ok && add.Op == token.ADD {
		if k, isK := constInt(add.Y); isK && k == 1 {
			if ld, isLoad := add.X.(*ssa.UnOp); isLoad && ld.Op == token.MUL {
				for _, ref := range *add.Referrers() {
					if st, isStore := ref.(*ssa.Store); isStore && st.Val == ssa.Value(add) && sameAddr(st.Addr, ld.X) {
						return "post"
					}
				}
				return "unstored"
			}
		}
	}
	if ld, ok := x.(*ssa.UnOp); ok && ld.Op == token.MUL {
		for _, blk := range cmp.Parent().Blocks {
			for _, in := range blk.Instrs {
				st, isStore := in.(*ssa.Store)
				if !isStore || !sameAddr(st.Addr, ld.X) {
					continue
				}
				add, isAdd := st.Val.(*ssa.BinOp)
				if !isAdd || add.Op != token.ADD {
					continue
				}
				if instrDominates(cmp, st) {
					return "pre"
				}
				if st.Block() == ld.Block() && instrIndex(st) < instrIndex(ld) {
					return "post" // reloaded right after the increment
				}
			}
		}
	}
	// len-of-field accessor called after a call on the same receiver that appends to that field
	if call, ok := x.(*ssa.Call); ok {
		if f := staticCallee(call.Common()); f != nil && len(call.Call.Args) == 1 {
			if fld, isLen := returnsLenOfField(f); isLen {
				for _, blk := range cmp.Parent().Blocks {
					for _, in := range blk.Instrs {
						prev, isCall := in.(*ssa.Call)
						if !isCall || prev == call || !instrDominates(prev, call) || len(prev.Call.Args) == 0 || !sameObject(prev.Call.Args[0], call.Call.Args[0]) {
							continue
						}
						if g := staticCallee(prev.Common()); g != nil && appendsToField(g, fld) {
							return "post"
						}
					}
				}
			}
		}
	}
	return "other"
}

func returnsLenOfField(f *ssa.Function) (int, bool) {
	if len(f.Blocks) != 1 || len(f.Params) != 1 {
		return 0, false
	}
	ret, ok := f.Blocks[0].Instrs[len(f.Blocks[0].Instrs)-1].(*ssa.Return)
	if !ok || len(ret.Results) != 1 {
		return 0, false
	}
	call, ok := ret.Results[0].(*ssa.Call)
	if !ok {
		return 0, false
	}
	if bi, isB := call.Call.Value.(*ssa.Builtin); !isB || bi.Name() != "len" {
		return 0, false
	}
	ld, ok := call.Call.Args[0].(*ssa.UnOp)
	if !ok {
		return 0, false
	}
	fa, ok := ld.X.(*ssa.FieldAddr)
	if !ok || fa.X != ssa.Value(f.Params[0]) {
		return 0, false
	}
	return fa.Field, true
}

func appendsToField(f *ssa.Function, fld int) bool {
	if f.Blocks == nil || len(f.Params) == 0 {
		return false
	}
	for _, blk := range f.Blocks {
		for _, in := range blk.Instrs {
			st, ok := in.(*ssa.Store)
			if !ok {
				continue
			}
			fa, ok := st.Addr.(*ssa.FieldAddr)
			if !ok || fa.Field != fld || fa.X != ssa.Value(f.Params[0]) {
				continue
			}
			if call, isCall := st.Val.(*ssa.Call); isCall {
				if bi, isB := call.Call.Value.(*ssa.Builtin); isB && bi.Name() == "append" {
					return true
				}
			}
		}
	}
	return false
}

func sameObject(a, b ssa.Value) bool {
	if a == b {
		return true
	}
	la, ok1 := a.(*ssa.UnOp)
	lb, ok2 := b.(*ssa.UnOp)
	return ok1 && ok2 && la.Op == token.MUL && lb.Op == token.MUL && sameAddr(la.X, lb.X)
}

func sameAddr(a, b ssa.Value) bool {
	if a == b {
		return true
	}
	fa, ok1 := a.(*ssa.FieldAddr)
	fb, ok2 := b.(*ssa.FieldAddr)
	return ok1 && ok2 && fa.Field == fb.Field && fa.X == fb.X
}
