package rules

import (
	"fmt"
	"go/token"
	"go/types"
	"math/big"
	"sort"
	"strings"

	"golang.org/x/tools/go/ssa"

	"verif/checker/core"
)

// R-INDEX — an index or slice bound computed from input data (a field id / field number read from
// the wire, the result of a byte search) is proven in range by the dominating comparisons.
func init() {
	Register(&Rule{
		ID:    "R-INDEX",
		Doc:   "every slice index whose value derives from the input (thrift field id, proto field number, bytes.IndexByte result) is dominated by tests 0 <= i and i < len(x) (interval reasoning over the dominating branch edges); every slice expression b[k:i] with such an i has i >= k proven",
		Props: []string{"C06", "C07", "C08", "C19", "C13", "C04"},
		Min:   map[string]int{"C06": 2, "C07": 1, "C08": 1, "C19": 1},
		Run:   runIndex,
	})
}

// dataDerivedIndex: the value depends on a conversion of a wire quantity (thrift Field.ID, proto
// field number) or on a search result.
func dataDerivedIndex(v ssa.Value) (string, bool) {
	why := ""
	ok := dependsOn(v, func(x ssa.Value) bool {
		switch y := x.(type) {
		case *ssa.Convert:
			switch namedKey(y.X.Type()) {
			case "proto.fieldNumber", "proto.FieldNumber":
				why = "a field number read from the wire"
				return true
			}
			if bt, ok := y.X.Type().Underlying().(*types.Basic); ok && bt.Kind() == types.Int16 {
				if f, ok := fieldOfLoad(y.X); ok && strings.HasSuffix(f, "Field.ID") {
					why = "a thrift field id read from the wire"
					return true
				}
			}
		case *ssa.Call:
			if calleeName(y.Common()) == "bytes.IndexByte" {
				why = "the result of bytes.IndexByte"
				return true
			}
		}
		return false
	})
	return why, ok
}

func runIndex(c *core.Ctx) []core.Obligation {
	b := newOb(c, "R-INDEX")
	var fns []*ssa.Function
	for _, fn := range c.RepoFunctions() {
		n := shortName(fn)
		if fn.Blocks != nil && fn.Synthetic == "" && (strings.HasPrefix(n, "json.") || strings.HasPrefix(n, "proto.") || strings.HasPrefix(n, "thrift.")) {
			fns = append(fns, fn)
		}
	}
	sort.Slice(fns, func(i, j int) bool { return shortName(fns[i]) < shortName(fns[j]) })
	for _, fn := range fns {
		name := shortName(fn)
		props := []string{"C06"}
		switch {
		case strings.HasPrefix(name, "proto.") && strings.Contains(name, "Rewrite"):
			props = []string{"C19"}
		case strings.HasPrefix(name, "proto."):
			props = []string{"C07"}
		case strings.HasPrefix(name, "thrift."):
			// a panic on an id or count a conformant peer may send is also a conformant encoding
			// that is not accepted
			props = []string{"C08", "C13", "C04"}
		}
		kn := map[string]int{}
		nk := func(kind string) string {
			kn[kind]++
			if kn[kind] == 1 {
				return fmt.Sprintf("%s:%s", kind, name)
			}
			return fmt.Sprintf("%s:%s#%d", kind, name, kn[kind])
		}
		for _, blk := range fn.Blocks {
			for _, in := range blk.Instrs {
				switch x := in.(type) {
				case *ssa.IndexAddr:
					if _, isSlice := x.X.Type().Underlying().(*types.Slice); !isSlice {
						continue
					}
					if _, isK := constInt(x.Index); isK {
						continue
					}
					if isBitsetType(x.X.Type()) {
						continue // word index i/64: decided by R-BITSET
					}
					why, ok := dataDerivedIndex(x.Index)
					if !ok {
						continue
					}
					key := nk("index")
					lo, _ := rangeFacts(x.Index, blk)
					upper := false
					for _, e := range dominatingEdges(blk) {
						bo, ok := e.ifi.Cond.(*ssa.BinOp)
						if !ok {
							continue
						}
						if (bo.Op == token.LSS && bo.X == x.Index && e.succ == 0) || (bo.Op == token.GEQ && bo.X == x.Index && e.succ == 1) {
							if la, ok := lenArg(bo.Y); ok && sameSliceSource(la, x.X) {
								upper = true
							}
						}
					}
					switch {
					case lo == nil || lo.Sign() < 0:
						b.addP(props, core.Violation, key, c.InstrPos(x), fmt.Sprintf("%s indexes a slice with %s with no dominating test that it is >= 0: a negative value panics", name, why))
					case !upper:
						b.addP(props, core.Violation, key, c.InstrPos(x), fmt.Sprintf("%s indexes a slice with %s with no dominating test i < len(slice) (an off-by-one such as i <= len is not enough): the first value past the end panics with index out of range", name, why))
					default:
						b.addP(props, core.Discharged, key, c.InstrPos(x), "0 <= i < len(slice) on every path ("+why+")")
					}
				case *ssa.Slice:
					if x.High == nil {
						// b[i+1:] with a searched i: covered by the High obligation of the sibling slice
						continue
					}
					if _, isK := constInt(x.High); isK {
						continue
					}
					why, ok := dataDerivedIndex(x.High)
					if !ok {
						continue
					}
					lowK := int64(0)
					if x.Low != nil {
						k, isK := constInt(x.Low)
						if !isK {
							continue
						}
						lowK = k
					}
					key := nk("slice")
					lo := lowerBound(x.High, blk, 0)
					if lo != nil && lo.Cmp(big.NewInt(lowK)) >= 0 {
						b.addP(props, core.Discharged, key, c.InstrPos(x), fmt.Sprintf("high bound >= %d proven (%s)", lowK, why))
					} else {
						have := "nothing"
						if lo != nil {
							have = ">= " + lo.String()
						}
						b.addP(props, core.Violation, key, c.InstrPos(x), fmt.Sprintf("%s slices [%d:i] where i is %s and only i %s is proven: when the searched byte is missing the slice bounds are inverted and the decoder panics", name, lowK, why, have))
					}
				}
			}
		}
	}
	return b.out
}

// sameSliceSource: two slice values are the same slice (same SSA value or loads of the same
// field / captured variable).
func sameSliceSource(a, b ssa.Value) bool {
	if a == b || sameSource(a, b) {
		return true
	}
	fa, ok1 := fieldOfLoad(a)
	fb, ok2 := fieldOfLoad(b)
	if ok1 && ok2 && fa == fb {
		return true
	}
	ua, ok1 := a.(*ssa.UnOp)
	ub, ok2 := b.(*ssa.UnOp)
	if ok1 && ok2 {
		if _, isFV := ua.X.(*ssa.FreeVar); isFV && ua.X == ub.X {
			return true
		}
	}
	return false
}

// lowerBound: a lower bound of v at blk from constants, arithmetic, non-negative callees, φ (per
// incoming edge, with the facts that hold in the predecessor) and the dominating branch edges.
func lowerBound(v ssa.Value, blk *ssa.BasicBlock, depth int) *big.Int {
	if depth > 8 {
		return nil
	}
	best := func(a, b *big.Int) *big.Int {
		if a == nil {
			return b
		}
		if b == nil || a.Cmp(b) >= 0 {
			return a
		}
		return b
	}
	var lb *big.Int
	if blk != nil {
		lb, _ = rangeFacts(v, blk)
	}
	switch x := v.(type) {
	case *ssa.Const:
		if k, ok := constBig(x); ok {
			lb = best(lb, k)
		}
	case *ssa.Convert:
		lb = best(lb, lowerBound(x.X, blk, depth+1))
	case *ssa.BinOp:
		switch x.Op {
		case token.ADD:
			a, bb := lowerBound(x.X, blk, depth+1), lowerBound(x.Y, blk, depth+1)
			if a != nil && bb != nil {
				lb = best(lb, new(big.Int).Add(a, bb))
			}
		case token.QUO, token.SHR:
			if a := lowerBound(x.X, blk, depth+1); a != nil && a.Sign() >= 0 {
				if k, ok := constInt(x.Y); ok && k > 0 {
					lb = best(lb, big.NewInt(0))
				}
			}
		}
	case *ssa.Call:
		switch n := calleeName(x.Common()); {
		case n == "builtin:len" || n == "builtin:copy" || n == "builtin:cap" || strings.HasPrefix(n, "math/bits.TrailingZeros") || strings.HasPrefix(n, "math/bits.Len"):
			lb = best(lb, big.NewInt(0))
		case n == "bytes.IndexByte" || n == "bytes.Index" || n == "strings.IndexByte":
			lb = best(lb, big.NewInt(-1))
		}
	case *ssa.Phi:
		var m *big.Int
		okAll := true
		for i, e := range x.Edges {
			if e == ssa.Value(x) {
				continue
			}
			l := lowerBound(e, x.Block().Preds[i], depth+1)
			if l == nil {
				okAll = false
				break
			}
			if m == nil || l.Cmp(m) < 0 {
				m = l
			}
		}
		if okAll && m != nil {
			lb = best(lb, m)
		}
	}
	return lb
}

// R-CONSTINDEX — a constant index into a slice that the function itself has advanced (x = x[k:])
// is proven in range by the dominating length tests, or the site is in the table of invariants
// confirmed by reading. After an advance nothing is known about what remains: s[0] on a string
// that ends right after an escape sequence panics.
func init() {
	Register(&Rule{
		ID:    "R-CONSTINDEX",
		Doc:   "in the json parser and decoder functions, every b[c] with constant c on a slice value that is (a φ of) a reslice made in the same function is dominated by a length fact len(b) > c (interval reasoning over branch edges, hasPrefix-style guards included), or is listed with the validated-input invariant that makes it safe",
		Props: []string{"C06", "C17"},
		Min:   map[string]int{"C06": 5, "C17": 5},
		Run:   runConstIndex,
	})
}

// constIndexInvariants: sites whose safety rests on an invariant established elsewhere.
var constIndexInvariants = map[string]string{
	"constindex:json.(encoder).encodeTime:[0]":              "h is the last five bytes of what Time.AppendFormat(RFC3339Nano) produced, which ends in Z or ±hh:mm (the Z case is excluded by the switch): the same indexing as time.Time.appendStrictRFC3339",
	"constindex:json.(encoder).encodeTime:[1]":              "as above",
	"constindex:json.(decoder).decodeFromStringToInt:[0]":   "reached only when hasLeadingZeroes(v) returned true, which requires at least two bytes",
	"constindex:json.(decoder).decodeFromStringToInt:[0]#2": "reached only when hasLeadingZeroes(v) returned true, which requires at least two bytes",
	"constindex:json.(decoder).decodeInterface:[0]":         "v is the value returned by a successful parseValue: at least one byte",
	"constindex:json.(decoder).parseStringUnquote:[0]":      "s was validated by parseString: every backslash is followed by an escape character, so one byte remains after the backslash",
}

func runConstIndex(c *core.Ctx) []core.Obligation {
	b := newOb(c, "R-CONSTINDEX")
	props := []string{"C06", "C17"}
	for _, fn := range c.RepoFunctions() {
		name := shortName(fn)
		if fn.Blocks == nil || fn.Synthetic != "" || !strings.HasPrefix(name, "json.") {
			continue
		}
		if bufParam(fn) == nil && !strings.Contains(name, "Tokenizer") && !strings.Contains(name, "Decoder") {
			continue // only code that consumes input text
		}
		// the scanners are also handed empty text (the unquoted text of an empty key, the rest of a
		// truncated document): there the parameter itself is held to the same standard
		scanner := strings.HasPrefix(name, "json.(decoder).parse") || strings.HasPrefix(name, "json.constructIntegerKeyDecodeFunc$")
		bp := bufParam(fn)
		isResliced := func(v ssa.Value) bool {
			for _, o := range origins(v) {
				if scanner && bp != nil && o == ssa.Value(bp) {
					return true
				}
				switch x := o.(type) {
				case *ssa.Slice:
					if x.Low != nil {
						if k, isK := constInt(x.Low); !isK || k > 0 {
							return true
						}
					}
				case *ssa.Call, *ssa.Extract:
					return true // a remainder handed back by another parser
				}
			}
			return false
		}
		kn := map[int64]int{}
		for _, blk := range fn.Blocks {
			for _, in := range blk.Instrs {
				ia, ok := in.(*ssa.IndexAddr)
				if !ok {
					continue
				}
				if _, isSlice := ia.X.Type().Underlying().(*types.Slice); !isSlice {
					continue
				}
				k, isK := constInt(ia.Index)
				if !isK {
					continue
				}
				// a field re-loaded after this block advanced it (t.json = t.json[1:]; … t.json[0]):
				// nothing that was known about the old value holds for the new one
				advanced := false
				if ld, isLd := ia.X.(*ssa.UnOp); isLd && ld.Op == token.MUL {
					if fa, isFA := ld.X.(*ssa.FieldAddr); isFA {
						seenLoad := false
						for i := len(blk.Instrs) - 1; i >= 0; i-- {
							if blk.Instrs[i] == ssa.Instruction(ld) {
								seenLoad = true
								continue
							}
							if !seenLoad {
								continue
							}
							st, isSt := blk.Instrs[i].(*ssa.Store)
							if !isSt {
								continue
							}
							fa2, isFA2 := st.Addr.(*ssa.FieldAddr)
							if !isFA2 || fa2.X != fa.X || fa2.Field != fa.Field {
								continue
							}
							if sl, isSl := st.Val.(*ssa.Slice); isSl && sl.Low != nil {
								if lk, isLK := constInt(sl.Low); !isLK || lk > 0 {
									advanced = true
								}
							}
							break
						}
					}
				}
				if !advanced && !isResliced(ia.X) {
					continue
				}
				kn[k]++
				key := fmt.Sprintf("constindex:%s:[%d]", name, k)
				if kn[k] > 1 {
					key = fmt.Sprintf("%s#%d", key, kn[k])
				}
				lo, _, excl := lenInterval(ia.X, blk)
				low := int64(0)
				if lo != nil {
					low = lo.Int64()
				}
				for excl[low] {
					low++ // len(x) != low
				}
				proven := low > k
				for _, o := range origins(ia.X) {
					if mk, ok := o.(*ssa.MakeSlice); ok {
						if n, isK := constInt(mk.Len); isK && n > k && len(origins(ia.X)) == 1 {
							proven = true
						}
					}
				}
				if !proven {
					// hasPrefix(x, "..") true edge
					for _, cond := range trueAtoms(blk, 0) {
						if call, ok := cond.(*ssa.Call); ok {
							if f := staticCallee(call.Common()); f != nil && strings.HasPrefix(strings.ToLower(f.Name()), "hasprefix") && len(call.Common().Args) >= 1 && sameSliceSource(call.Common().Args[0], ia.X) {
								proven = true
							}
						}
					}
				}
				switch {
				case proven:
					b.addP(props, core.Discharged, key, c.InstrPos(ia), "len > index proven by the dominating tests")
				case constIndexInvariants[key] != "":
					b.addP(props, core.Discharged, key, c.InstrPos(ia), "invariant: "+constIndexInvariants[key])
				default:
					b.addP(props, core.Violation, key, c.InstrPos(ia), fmt.Sprintf("%s reads element %d of a slice it has just advanced, with no dominating test that %d more bytes remain: input that ends at that point panics with index out of range instead of being rejected", name, k, k+1))
				}
			}
		}
	}
	return b.out
}
