package rules

import (
	"fmt"
	"go/token"
	"go/types"
	"sort"
	"strings"

	"golang.org/x/tools/go/callgraph"
	"golang.org/x/tools/go/ssa"

	"verif/checker/core"
)

// R-REC — every data-driven recursion is depth-guarded, the guard is keyed by the pointee, and the
// guard's state is threaded through the recursion.
func init() {
	Register(&Rule{
		ID:    "R-REC",
		Doc:   "type-resolved call graph (VTA) restricted to steady-state code: every cycle that follows input nesting or value indirection contains a function with a depth guard (increment of a counter in the by-value state or a parameter, compared with a limit); the pointer-cycle guard of json's encodePointer is keyed by the loaded pointee and its state is passed on; re-entry through Append resets that state",
		Props: []string{"C06", "C07", "C08", "C02", "C05", "C14", "C01"},
		Min:   map[string]int{"C06": 20, "C07": 1, "C08": 1, "C02": 8, "C05": 3},
		Run:   runRec,
	})
}

// hasDepthGuard: the function increments an integer counter held in a parameter (or a field of a
// by-value struct parameter) and compares it with a limit.
func hasDepthGuard(fn *ssa.Function) bool {
	if depthGuardIn(fn) {
		return true
	}
	// a helper called with the address of this function's own state
	for _, ci := range callsIn(fn) {
		callee := staticCallee(ci.Common())
		if callee == nil || callee.Blocks == nil || callee == fn || !depthGuardIn(callee) {
			continue
		}
		for _, a := range ci.Common().Args {
			if al := rootLocal(a); al != nil && isPointerLike(a.Type()) {
				for _, s := range cellStores(al) {
					if _, isP := s.(*ssa.Parameter); isP {
						return true
					}
				}
			}
		}
	}
	return false
}

func depthGuardIn(fn *ssa.Function) bool {
	for _, blk := range fn.Blocks {
		for _, in := range blk.Instrs {
			add, ok := in.(*ssa.BinOp)
			if !ok || add.Op != token.ADD {
				continue
			}
			if k, ok := constInt(add.Y); !ok || k != 1 {
				continue
			}
			// counter: load of a field of the state parameter, or an int parameter
			isCounter := false
			switch x := add.X.(type) {
			case *ssa.Parameter:
				isCounter = true
			case *ssa.UnOp:
				if fa, ok := x.X.(*ssa.FieldAddr); ok {
					if _, isP := fa.X.(*ssa.Parameter); isP {
						isCounter = true
					}
					if al := rootLocal(fa.X); al != nil {
						for _, s := range cellStores(al) {
							if _, isP := s.(*ssa.Parameter); isP {
								isCounter = true
							}
						}
					}
				}
			}
			if !isCounter {
				continue
			}
			// compared with something
			// the incremented value must go somewhere (stored back, or handed to a callee): a
			// comparison of depth+1 that is never kept does not count anything
			kept := false
			for _, ref := range *add.Referrers() {
				switch ref.(type) {
				case *ssa.Store, ssa.CallInstruction, *ssa.Phi:
					kept = true
				}
			}
			for _, ref := range *add.Referrers() {
				if cmp, ok := ref.(*ssa.BinOp); ok && kept {
					switch cmp.Op {
					case token.GEQ, token.GTR, token.LSS, token.LEQ:
						return true
					}
				}
				if st, ok := ref.(*ssa.Store); ok {
					// e.ptrDepth++ stores then reloads before the comparison
					if fa, ok := st.Addr.(*ssa.FieldAddr); ok {
						for _, b2 := range fn.Blocks {
							for _, in2 := range b2.Instrs {
								cmp, ok := in2.(*ssa.BinOp)
								if !ok {
									continue
								}
								if ld, ok := cmp.X.(*ssa.UnOp); ok {
									if fa2, ok := ld.X.(*ssa.FieldAddr); ok && fa2.Field == fa.Field && sameBase(fa2.X, fa.X) {
										switch cmp.Op {
										case token.GEQ, token.GTR, token.LSS, token.LEQ:
											return true
										}
									}
								}
							}
						}
					}
				}
			}
		}
	}
	return false
}

// keyPointerComponents: the pointer-typed parts of a map key (the key itself, or the pointer
// fields stored into a struct-literal key).
func keyPointerComponents(k ssa.Value, fn *ssa.Function) []ssa.Value {
	if isPointerLike(k.Type()) {
		return []ssa.Value{k}
	}
	var out []ssa.Value
	ld, ok := k.(*ssa.UnOp)
	if !ok {
		return nil
	}
	al, ok := ld.X.(*ssa.Alloc)
	if !ok {
		return nil
	}
	for _, blk := range fn.Blocks {
		for _, in := range blk.Instrs {
			if st, ok := in.(*ssa.Store); ok {
				if fa, ok := st.Addr.(*ssa.FieldAddr); ok && fa.X == ssa.Value(al) && isPointerLike(st.Val.Type()) {
					out = append(out, st.Val)
				}
			}
		}
	}
	return out
}

// followsReference: the function loads a pointer, map, slice or interface through its data
// parameter (or rebuilds a reflect.Value over it): what it encodes next is chosen by the value.
func followsReference(fn *ssa.Function) bool {
	dp := dataParam(fn)
	if dp == nil {
		return false
	}
	for _, blk := range fn.Blocks {
		for _, in := range blk.Instrs {
			switch x := in.(type) {
			case *ssa.UnOp:
				if x.Op != token.MUL || !derivesFromValue(x.X, dp) {
					continue
				}
				switch x.Type().Underlying().(type) {
				case *types.Pointer, *types.Map, *types.Slice, *types.Interface:
					return true
				case *types.Basic:
					if isPointerLike(x.Type()) {
						return true
					}
				}
			case *ssa.Call:
				if calleeName(x.Common()) == "reflect.NewAt" && len(x.Common().Args) == 2 && derivesFromValue(x.Common().Args[1], dp) {
					return true
				}
			}
		}
	}
	return false
}

// opensContainer: the function compares an input byte with '[' or '{'.
func opensContainer(fn *ssa.Function) bool {
	for _, blk := range fn.Blocks {
		for _, in := range blk.Instrs {
			if bo, ok := in.(*ssa.BinOp); ok && (bo.Op == token.EQL || bo.Op == token.NEQ) {
				for _, v := range []ssa.Value{bo.X, bo.Y} {
					if k, ok := constInt(v); ok && (k == '[' || k == '{') {
						if bt, ok := v.Type().Underlying().(*types.Basic); ok && bt.Kind() == types.Uint8 {
							return true
						}
					}
				}
			}
		}
	}
	return false
}

// tarjan SCCs over a function graph.
func sccs(nodes []*ssa.Function, succ func(*ssa.Function) []*ssa.Function) [][]*ssa.Function {
	index := map[*ssa.Function]int{}
	low := map[*ssa.Function]int{}
	on := map[*ssa.Function]bool{}
	var stack []*ssa.Function
	var out [][]*ssa.Function
	n := 0
	var strong func(v *ssa.Function)
	strong = func(v *ssa.Function) {
		index[v], low[v] = n, n
		n++
		stack = append(stack, v)
		on[v] = true
		for _, w := range succ(v) {
			if _, seen := index[w]; !seen {
				strong(w)
				if low[w] < low[v] {
					low[v] = low[w]
				}
			} else if on[w] && index[w] < low[v] {
				low[v] = index[w]
			}
		}
		if low[v] == index[v] {
			var comp []*ssa.Function
			for {
				w := stack[len(stack)-1]
				stack = stack[:len(stack)-1]
				on[w] = false
				comp = append(comp, w)
				if w == v {
					break
				}
			}
			out = append(out, comp)
		}
	}
	for _, v := range nodes {
		if _, seen := index[v]; !seen {
			strong(v)
		}
	}
	return out
}

// realFunc maps synthetic wrappers (thunks, bound methods) to the method they wrap.
func realFunc(c *core.Ctx, fn *ssa.Function) *ssa.Function {
	if fn == nil {
		return nil
	}
	if fn.Synthetic != "" && fn.Parent() == nil {
		if o, ok := fn.Object().(*types.Func); ok && o != nil {
			if f := c.FuncOf(o); f != nil {
				return f
			}
		}
	}
	return fn
}

// encodeBounded: reference-following encoder methods whose recursion is bounded without a guard.
var encodeBounded = map[string]string{
	"json.(encoder).encodeEmbeddedStructPointer": "embedded pointers are flattened into the parent's field list with a visited-type set, so the chain is bounded by the static type",
	"json.(encoder).encodeInterface":             "an interface holds a by-value box; a cycle needs a pointer, map or slice inside it, and those are guarded",
	"json.(encoder).encodeMaybeEmptyInterface":   "same as encodeInterface",
	"json.constructNilKeyEncodeFunc$1":           "map-key adapter: loads the key pointer only to compare it with nil and forwards the same address to the key encoder (MarshalText of the key); it adds no reference step of its own",
}

func runRec(c *core.Ctx) []core.Obligation {
	b := newOb(c, "R-REC")
	g := c.CallGraph()
	ss := steadyState(c)
	succ := func(fn *ssa.Function) []*ssa.Function {
		var out []*ssa.Function
		seen := map[*ssa.Function]bool{}
		var visit func(n *callgraph.Node, depth int)
		visit = func(n *callgraph.Node, depth int) {
			if n == nil {
				return
			}
			for _, e := range n.Out {
				callee := e.Callee.Func
				r := realFunc(c, callee)
				if r != callee || (callee.Synthetic != "" && callee.Parent() == nil) {
					// look through the wrapper
					if r != callee && ss[r] && !seen[r] {
						seen[r] = true
						out = append(out, r)
					} else if depth < 2 {
						visit(g.Nodes[callee], depth+1)
					}
					continue
				}
				if ss[callee] && !seen[callee] {
					seen[callee] = true
					out = append(out, callee)
				}
			}
		}
		visit(g.Nodes[fn], 0)
		return out
	}
	var nodes []*ssa.Function
	for fn := range ss {
		nodes = append(nodes, fn)
	}
	sort.Slice(nodes, func(i, j int) bool { return shortName(nodes[i]) < shortName(nodes[j]) })

	// direction of a function
	direction := func(fn *ssa.Function) string {
		n := shortName(fn)
		pkg := n[:strings.Index(n, ".")]
		// by receiver / signature
		if recv := fn.Signature.Recv(); recv != nil {
			switch namedKey(recv.Type()) {
			case "json.encoder":
				return "json:encode"
			case "json.decoder":
				if strings.HasPrefix(fn.Name(), "parse") {
					return "json:parse"
				}
				return "json:decode"
			case "thrift.structDecoder":
				return "thrift:decode"
			case "thrift.structEncoder":
				return "thrift:encode"
			}
		}
		base := fn
		for base.Parent() != nil {
			base = base.Parent()
		}
		bn := base.Name()
		switch {
		case pkg == "json" && (strings.Contains(bn, "Encode") || bn == "Append"):
			return "json:encode"
		case pkg == "json" && (strings.Contains(bn, "Decode") || bn == "Parse"):
			return "json:decode"
		case pkg == "proto" && strings.Contains(strings.ToLower(bn), "decode"):
			return "proto:decode"
		case pkg == "proto" && strings.Contains(strings.ToLower(bn), "size"):
			return "proto:size"
		case pkg == "proto" && strings.Contains(strings.ToLower(bn), "encode"):
			return "proto:encode"
		case pkg == "thrift" && (strings.Contains(strings.ToLower(bn), "decode") || strings.HasPrefix(bn, "skip") || strings.HasPrefix(bn, "read")):
			return "thrift:decode"
		case pkg == "thrift" && strings.Contains(strings.ToLower(bn), "encode"):
			return "thrift:encode"
		}
		return pkg + ":other"
	}
	propsOf := map[string][]string{
		"json:encode": {"C06"}, "json:decode": {"C06", "C02"}, "json:parse": {"C06", "C05"},
		"proto:decode": {"C07"}, "thrift:decode": {"C08"},
	}
	// exception table: re-entry through user code / bounded by the static nesting of Go types
	userReentry := func(fn *ssa.Function) bool {
		n := fn.Name()
		return strings.Contains(n, "Marshaler") || strings.Contains(n, "Unmarshaler") || strings.Contains(shortName(fn), "customCodecOf") || strings.Contains(shortName(fn), "messageCodecOf") || strings.Contains(shortName(fn), "custom") || strings.Contains(shortName(fn), "message")
	}

	comps := sccs(nodes, succ)
	found := map[string]bool{}
	for _, comp := range comps {
		if len(comp) == 1 {
			self := false
			for _, s := range succ(comp[0]) {
				if s == comp[0] {
					self = true
				}
			}
			if !self {
				continue
			}
		}
		dirs := map[string]int{}
		guarded := false
		var names []string
		for _, fn := range comp {
			dirs[direction(fn)]++
			if hasDepthGuard(fn) {
				guarded = true
			}
			if !userReentry(fn) {
				names = append(names, shortName(fn))
			}
		}
		sort.Strings(names)
		// dominant direction
		dir, best := "", 0
		for d, n := range dirs {
			if n > best || (n == best && d < dir) {
				dir, best = d, n
			}
		}
		props, tracked := propsOf[dir]
		if !tracked || len(names) == 0 {
			continue
		}
		key := "cycle:" + dir
		if found[key] {
			key = key + ":" + names[0]
		}
		found[key] = true
		show := names
		if len(show) > 6 {
			show = append(append([]string{}, show[:6]...), fmt.Sprintf("… (%d functions)", len(names)))
		}
		_ = guarded
		{
			// a guard only cuts the cycles that pass through the guarded function: look for a
			// cycle that remains once guarded functions are removed
			rest := map[*ssa.Function]bool{}
			for _, fn := range comp {
				if !hasDepthGuard(fn) {
					rest[fn] = true
				}
			}
			var restNodes []*ssa.Function
			for fn := range rest {
				restNodes = append(restNodes, fn)
			}
			sort.Slice(restNodes, func(i, j int) bool { return shortName(restNodes[i]) < shortName(restNodes[j]) })
			restSucc := func(fn *ssa.Function) []*ssa.Function {
				var out []*ssa.Function
				for _, s := range succ(fn) {
					if rest[s] {
						out = append(out, s)
					}
				}
				return out
			}
			rem := sccs(restNodes, restSucc)
			var cyc []string
			for _, rc := range rem {
				cyclic := len(rc) > 1
				if !cyclic {
					for _, s := range restSucc(rc[0]) {
						if s == rc[0] {
							cyclic = true
						}
					}
				}
				if cyclic && (strings.HasPrefix(dir, "json:de") || strings.HasPrefix(dir, "json:pa")) {
					// only cycles that consume a container delimiter follow the input's nesting;
					// the others (pointer to pointer, ",string", interface holding a pointer)
					// are bounded by the static nesting of the target's type
					opens := false
					for _, fn := range rc {
						if opensContainer(fn) {
							opens = true
						}
					}
					cyclic = cyclic && opens
				}
				if cyclic && dir == "json:encode" {
					// a cycle in the value needs a reference: only functions that load one
					// through the data pointer can follow it
					follows := false
					for _, fn := range rc {
						if _, exempt := encodeBounded[shortName(fn)]; !exempt && followsReference(fn) {
							follows = true
						}
					}
					cyclic = follows
				}
				if cyclic {
					for _, fn := range rc {
						if !userReentry(fn) {
							cyc = append(cyc, shortName(fn))
						}
					}
				}
			}
			sort.Strings(cyc)
			if len(cyc) == 0 {
				b.addP(props, core.Discharged, key, c.FuncPos(comp[0]), fmt.Sprintf("every cycle of the recursion %v passes through a function with a depth guard (%d of %d functions are guarded)", show, len(comp)-len(rest), len(comp)))
				continue
			}
			if len(cyc) > 8 {
				cyc = append(cyc[:8:8], fmt.Sprintf("… (%d functions)", len(cyc)))
			}
			if dir == "json:encode" {
				b.addP(props, core.Violation, key, c.FuncPos(comp[0]), fmt.Sprintf("encode recursion that does not pass through the guarded pointer encoder: %v — a value that refers to itself through a slice, map or interface (m[\"a\"] = m) recurses until the stack is exhausted", cyc))
				continue
			}
			show = cyc
		}
		b.addP(props, core.Violation, key, c.FuncPos(comp[0]), fmt.Sprintf("recursion %v follows the nesting of the input with no depth guard: deeply nested input exhausts the goroutine stack (a fatal error, not a returned error), and nesting deeper than encoding/json's limit of 10000 is accepted", show))
	}
	for _, want := range []string{"cycle:json:parse", "cycle:json:decode", "cycle:json:encode", "cycle:proto:decode", "cycle:thrift:decode"} {
		if !found[want] {
			b.addP(propsOf[strings.TrimPrefix(want, "cycle:")], core.Undecided, want, "-", "expected recursion not found in the call graph: the graph construction no longer sees the codec closures")
		}
	}

	// ---- ping-pong recursion that consumes nothing: two decoder methods that call each other with
	// the input unchanged must do so under contradictory tests of the first byte
	{
		var ms []*ssa.Function
		for _, fn := range c.RepoFunctions() {
			recv := fn.Signature.Recv()
			if recv != nil && namedKey(recv.Type()) == "json.decoder" && fn.Synthetic == "" && fn.Blocks != nil && bufParam(fn) != nil {
				ms = append(ms, fn)
			}
		}
		sort.Slice(ms, func(i, j int) bool { return shortName(ms[i]) < shortName(ms[j]) })
		// first-byte values under which fn calls g with its input unchanged (nil: no such call)
		firstBytes := func(fn, g *ssa.Function) *[4]uint64 {
			bp := bufParam(fn)
			var acc *[4]uint64
			for _, ci := range callsIn(fn) {
				if staticCallee(ci.Common()) != g {
					continue
				}
				same := false
				for _, a := range ci.Common().Args {
					if a == ssa.Value(bp) {
						same = true
					}
				}
				if !same {
					continue
				}
				set := [4]uint64{^uint64(0), ^uint64(0), ^uint64(0), ^uint64(0)}
				for _, e := range dominatingEdges(ci.Block()) {
					bo, ok := e.ifi.Cond.(*ssa.BinOp)
					if !ok || (bo.Op != token.EQL && bo.Op != token.NEQ) {
						continue
					}
					k, isK := constInt(bo.Y)
					ld, isLd := bo.X.(*ssa.UnOp)
					if !isK || !isLd {
						continue
					}
					ia, isIA := ld.X.(*ssa.IndexAddr)
					if !isIA || ia.X != ssa.Value(bp) {
						continue
					}
					if z, isZ := constInt(ia.Index); !isZ || z != 0 {
						continue
					}
					eq := (bo.Op == token.EQL) == (e.succ == 0)
					var only [4]uint64
					only[k/64] = 1 << uint(k%64)
					for w := 0; w < 4; w++ {
						if eq {
							set[w] &= only[w]
						} else {
							set[w] &^= only[w]
						}
					}
				}
				if acc == nil {
					acc = &[4]uint64{}
				}
				for w := 0; w < 4; w++ {
					acc[w] |= set[w]
				}
			}
			return acc
		}
		n := 0
		for i, f := range ms {
			for _, g2 := range ms[i+1:] {
				a, bb := firstBytes(f, g2), firstBytes(g2, f)
				if a == nil || bb == nil {
					continue
				}
				n++
				key := "ping-pong:" + shortName(f) + "<->" + shortName(g2)
				overlap := false
				for w := 0; w < 4; w++ {
					if a[w]&bb[w] != 0 {
						overlap = true
					}
				}
				if overlap {
					b.addP([]string{"C06", "C02"}, core.Violation, key, c.FuncPos(f), fmt.Sprintf("%s and %s call each other with the input unchanged, and some first byte allows both calls: for such input they recurse without consuming anything until the stack overflows", shortName(f), shortName(g2)))
				} else {
					b.addP([]string{"C06", "C02"}, core.Discharged, key, c.FuncPos(f), "the two calls are made under contradictory tests of the first byte")
				}
			}
		}
		if n == 0 {
			b.addP([]string{"C06", "C02"}, core.Discharged, "ping-pong:none", "json", "no two decoder methods call each other with the input unchanged")
		}
	}

	// ---- every json function that opens a container counts it
	nOpen := 0
	for _, fn := range c.RepoFunctions() {
		recv := fn.Signature.Recv()
		if recv == nil || namedKey(recv.Type()) != "json.decoder" || fn.Synthetic != "" || fn.Blocks == nil || !opensContainer(fn) {
			continue
		}
		consumes := false
		for _, blk := range fn.Blocks {
			for _, in := range blk.Instrs {
				if sl, ok := in.(*ssa.Slice); ok && sl.Low != nil && sl.High == nil {
					if k, ok := constInt(sl.Low); ok && k == 1 {
						consumes = true
					}
				}
			}
		}
		if !consumes {
			continue // dispatches on the first byte (parseValue, decodeBytes), consumes nothing itself
		}
		nOpen++
		props := []string{"C06", "C02"}
		if strings.HasPrefix(fn.Name(), "parse") {
			props = []string{"C06", "C05"}
		}
		if hasDepthGuard(fn) {
			b.addP(props, core.Discharged, "container-guard:"+shortName(fn), c.FuncPos(fn), "increments the nesting depth and compares it with the limit")
		} else {
			b.addP(props, core.Violation, "container-guard:"+shortName(fn), c.FuncPos(fn), fmt.Sprintf("%s consumes an opening '[' or '{' without counting it against the nesting limit: documents nested deeper than encoding/json's limit are accepted through this path, and if the function recurses the stack is exhausted", shortName(fn)))
		}
	}
	if nOpen == 0 {
		b.addP([]string{"C06"}, core.Undecided, "container-guard", "-", "no container-opening decoder method found")
	}

	// ---- cycle guards of the json encoder: counter present, keyed by what the value refers to
	guardFns := 0
	for _, fn := range c.RepoFunctions() {
		recv := fn.Signature.Recv()
		if recv == nil || namedKey(recv.Type()) != "json.encoder" || fn.Synthetic != "" || fn.Blocks == nil {
			continue
		}
		dp := dataParam(fn)
		n, bad := 0, ""
		for _, blk := range fn.Blocks {
			for _, in := range blk.Instrs {
				var m, k ssa.Value
				switch x := in.(type) {
				case *ssa.Lookup:
					m, k = x.X, x.Index
				case *ssa.MapUpdate:
					m, k = x.Map, x.Key
				default:
					continue
				}
				if f, ok := fieldOfLoad(m); !ok || !strings.HasSuffix(f, "encoder.ptrSeen") {
					continue
				}
				n++
				okKey := false
				for _, comp := range keyPointerComponents(k, fn) {
					for _, o := range origins(comp) {
						if ld, ok := o.(*ssa.UnOp); ok && ld.Op == token.MUL && dp != nil && derivesFromValue(ld.X, dp) && isPointerLike(ld.Type()) {
							okKey = true
						}
					}
				}
				if !okKey {
					bad = c.InstrPos(in)
				}
			}
		}
		if n == 0 {
			continue
		}
		guardFns++
		key := "cycle-guard:key:" + shortName(fn)
		if bad != "" {
			b.addP([]string{"C06"}, core.Violation, key, bad, fmt.Sprintf("%s keys the cycle detector by something other than the reference loaded from the value (the pointee, the map, the slice's backing array): slots reached through fresh temporaries (map values, top-level values) never repeat, so cycles through them are not detected", shortName(fn)))
		} else {
			b.addP([]string{"C06"}, core.Discharged, key, c.FuncPos(fn), "ptrSeen is keyed by the reference loaded from the value")
		}
		// every entry added to the set is removed when the frame returns: the set is the path from
		// the root to the current value, and a map shared by all the by-value encoder copies below
		// the frame that allocated it — an entry left behind makes the second reference to the same
		// pointer (siblings, a DAG) look like a cycle
		{
			unreleased := ""
			nUpd := 0
			for _, blk := range fn.Blocks {
				for i, in := range blk.Instrs {
					mu, ok := in.(*ssa.MapUpdate)
					if !ok {
						continue
					}
					if f, ok := fieldOfLoad(mu.Map); !ok || !strings.HasSuffix(f, "encoder.ptrSeen") {
						continue
					}
					nUpd++
					released := false
					for _, blk2 := range fn.Blocks {
						for j, in2 := range blk2.Instrs {
							df, ok := in2.(*ssa.Defer)
							if !ok {
								continue
							}
							bi, isB := df.Call.Value.(*ssa.Builtin)
							if !isB || bi.Name() != "delete" || len(df.Call.Args) != 2 {
								continue
							}
							if f, ok := fieldOfLoad(df.Call.Args[0]); !ok || !strings.HasSuffix(f, "encoder.ptrSeen") {
								continue
							}
							if !sameKeyValue(df.Call.Args[1], mu.Key) {
								continue
							}
							if (blk2 == blk && j > i) || (blk2 != blk && blk.Dominates(blk2)) {
								// and nothing recursive in between: the defer is registered before
								// the nested value is encoded
								released = true
							}
						}
					}
					if !released {
						unreleased = c.InstrPos(mu)
					}
				}
			}
			if nUpd > 0 {
				rk := "cycle-guard:released:" + shortName(fn)
				if unreleased != "" {
					b.addP([]string{"C01", "C06"}, core.Violation, rk, unreleased, fmt.Sprintf("%s records the reference in ptrSeen without a deferred delete of the same key: the map is shared by every encoder copy below the frame that allocated it, so the entry outlives the value and the second reference to the same pointer — two fields pointing to one node, no cycle — is reported as a cycle once the nesting is deep enough for the detector to run; encoding/json encodes it", shortName(fn)))
				} else {
					b.addP([]string{"C01", "C06"}, core.Discharged, rk, c.FuncPos(fn), "every ptrSeen entry is removed by a deferred delete of the same key")
				}
			}
		}
		// the guard comes before every recursive step of the function: a fast path (the unsorted
		// map encoding) that recurses before the counter is touched is outside the detector
		var incBlk *ssa.BasicBlock
		for _, blk := range fn.Blocks {
			for _, in := range blk.Instrs {
				if st, ok := in.(*ssa.Store); ok {
					if fa, isFA := st.Addr.(*ssa.FieldAddr); isFA && strings.HasSuffix(fieldAddrID(fa), "encoder.ptrDepth") {
						if _, isAdd := st.Val.(*ssa.BinOp); isAdd && incBlk == nil {
							incBlk = blk
						}
					}
				}
			}
		}
		if incBlk != nil {
			outside := ""
			for _, ci := range callsIn(fn) {
				cc := ci.Common()
				recursive := false
				if f := staticCallee(cc); f != nil {
					if f.Signature.Recv() != nil && namedKey(f.Signature.Recv().Type()) == "json.encoder" {
						switch f.Name() {
						case "appendValue", "encodeInterface", "encodeMaybeEmptyInterface", "encodeStruct", "encodeMapStringInterface":
							recursive = true
						default:
							// an encoder method that is handed the encoder of a component
							for i := 0; i < f.Signature.Params().Len(); i++ {
								if strings.Contains(f.Signature.Params().At(i).Type().String(), "encodeFunc") {
									recursive = true
								}
							}
						}
					}
				} else if !cc.IsInvoke() {
					if _, isB := cc.Value.(*ssa.Builtin); !isB && strings.Contains(cc.Value.Type().String(), "encodeFunc") {
						recursive = true
					}
				}
				if recursive && !(incBlk == ci.Block() || incBlk.Dominates(ci.Block())) {
					outside = c.InstrPos(ci)
				}
			}
			if outside != "" {
				b.addP([]string{"C06", "C14"}, core.Violation, "cycle-guard:dominates:"+shortName(fn), outside, fmt.Sprintf("%s encodes nested values on a path that does not pass through its cycle guard (the depth counter is incremented elsewhere in the function): a value that contains itself through that path — a map[string]any holding itself, encoded without SortMapKeys — recurses until the stack is exhausted, while the other flag settings report the cycle", shortName(fn)))
			} else {
				b.addP([]string{"C06", "C14"}, core.Discharged, "cycle-guard:dominates:"+shortName(fn), c.FuncPos(fn), "every nested encoding step comes after the cycle guard")
			}
		}
		if hasDepthGuard(fn) {
			b.addP([]string{"C06"}, core.Discharged, "cycle-guard:counter:"+shortName(fn), c.FuncPos(fn), "ptrDepth is incremented and compared with the limit")
		} else {
			b.addP([]string{"C06"}, core.Violation, "cycle-guard:counter:"+shortName(fn), c.FuncPos(fn), "ptrDepth is no longer incremented and tested here: the cycle detector never starts")
		}
	}
	if guardFns == 0 {
		b.addP([]string{"C06"}, core.Undecided, "cycle-guard", "-", "no json encoder method uses encoder.ptrSeen")
	}

	// ---- continuity: encoder state is passed on, not rebuilt
	nDrop := 0
	for _, fn := range c.RepoFunctions() {
		recv := fn.Signature.Recv()
		if recv == nil || namedKey(recv.Type()) != "json.encoder" || fn.Synthetic != "" {
			continue
		}
		for _, ci := range callsIn(fn) {
			call, ok := ci.(*ssa.Call)
			if !ok {
				continue
			}
			if f := staticCallee(call.Common()); f != nil && f.Name() == "Append" && f.Pkg != nil && f.Pkg.Pkg.Name() == "json" && f.Signature.Recv() == nil {
				nDrop++
				b.addP([]string{"C06", "C01"}, core.Violation, "state-dropped:"+shortName(fn), c.InstrPos(call), fmt.Sprintf("%s re-enters Append, which starts from a fresh encoder{}: the pointer depth and the set of visited pointers are lost at every interface boundary, so a cycle through an interface value is never detected", shortName(fn)))
			}
		}
	}
	if nDrop == 0 {
		b.addP([]string{"C06", "C01"}, core.Discharged, "state-threaded", "-", "no encoder method re-enters Append with a fresh state")
	}
	// the same for decoding: a decoder method that re-enters Parse / Unmarshal starts a new
	// decoder whose depth is 0 — the nesting limit is then counted per interface boundary, not per
	// document, and a target that points back to itself through an interface follows the input as
	// deep as it goes
	nDropD := 0
	for _, fn := range c.RepoFunctions() {
		recv := fn.Signature.Recv()
		if recv == nil || namedKey(recv.Type()) != "json.decoder" || fn.Synthetic != "" {
			continue
		}
		for _, ci := range callsIn(fn) {
			call, ok := ci.(*ssa.Call)
			if !ok {
				continue
			}
			if f := staticCallee(call.Common()); f != nil && (f.Name() == "Parse" || f.Name() == "Unmarshal") && f.Pkg != nil && f.Pkg.Pkg.Name() == "json" && f.Signature.Recv() == nil {
				nDropD++
				b.addP([]string{"C06", "C02", "C05"}, core.Violation, "state-dropped:"+shortName(fn), c.InstrPos(call), fmt.Sprintf("%s re-enters %s, which starts from a fresh decoder{}: the nesting depth counted so far is lost at every interface that holds a pointer, so the limit is not enforced across it (a target whose interface field points back to the target follows {\"F\":{\"F\":… as deep as the input goes, until the stack is exhausted) and the whole remaining input is re-scanned at each level", shortName(fn), f.Name()))
			}
		}
	}
	// and a decoder method that calls another decoder method does so on its own decoder: a fresh
	// decoder{…} literal carries neither the parse flags (UseNumber, zero-copy options, …) nor —
	// unless copied by hand — the depth
	{
		nRecv, badRecv := 0, ""
		for _, fn := range c.RepoFunctions() {
			recv := fn.Signature.Recv()
			if recv == nil || namedKey(recv.Type()) != "json.decoder" || fn.Synthetic != "" || fn.Blocks == nil || len(fn.Params) == 0 {
				continue
			}
			self := fn.Params[0]
			for _, ci := range callsIn(fn) {
				g := staticCallee(ci.Common())
				if g == nil || g.Signature.Recv() == nil || namedKey(g.Signature.Recv().Type()) != "json.decoder" || len(ci.Common().Args) == 0 {
					continue
				}
				// the value decoders; the scanners (parseNumber, parseString, …) are also run on text
				// other than the input — an unquoted literal — for which the input's hints do not hold
				if !(g.Name() == "parse" || strings.HasPrefix(g.Name(), "decode")) {
					continue
				}
				nRecv++
				a0 := ci.Common().Args[0]
				own := a0 == ssa.Value(self)
				if ld, ok := a0.(*ssa.UnOp); ok && ld.Op == token.MUL {
					if cell := cellOf(ld.X); cell != nil {
						for _, sv := range cellStores(cell) {
							if sv == ssa.Value(self) {
								own = true
							}
						}
					}
				}
				if !own {
					badRecv = c.InstrPos(ci) + " (" + shortName(fn) + " calls " + g.Name() + ")"
				}
			}
		}
		switch {
		case nRecv == 0:
			b.addP([]string{"C14", "C02"}, core.Undecided, "state-threaded:decoder-receiver", "-", "no call between decoder methods found")
		case badRecv != "":
			b.addP([]string{"C14", "C02", "C06"}, core.Violation, "state-threaded:decoder-receiver", badRecv, "a decoder method continues on a decoder other than its own at "+badRecv+": a decoder built on the spot has no parse flags, so below this point UseNumber, UseInt64, the zero-copy options and DisallowUnknownFields are forgotten (a number under a named empty-interface type comes back as float64 whatever the flags say)")
		default:
			b.addP([]string{"C14", "C02"}, core.Discharged, "state-threaded:decoder-receiver", "-", fmt.Sprintf("%d calls between decoder methods, each on the caller's own decoder", nRecv))
		}
	}
	if nDropD == 0 {
		b.addP([]string{"C06", "C02"}, core.Discharged, "state-threaded:decode", "-", "no decoder method re-enters Parse with a fresh state")
	}
	return b.out
}

// R-MEMOKEY — the type compilers terminate on recursive types: every cycle among the functions
// that compile a type (those threading the memo map) passes through a function that consults the
// memo before recursing.
func init() {
	Register(&Rule{
		ID:    "R-MEMOKEY",
		Doc:   "static call graph restricted to the type-compiler functions of each package (functions with a map[reflect.Type]/memo parameter): after removing the functions that look the type up in the memo and return the memoised codec, no cycle remains — otherwise a recursive type that reaches the cycle (type T []T, type M map[string]M) recurses until the stack overflows while its codec is built",
		Props: []string{"C06", "C03", "C04", "C07", "C12", "C09", "C01"},
		Min:   map[string]int{"C06": 1, "C03": 1, "C04": 1},
		Run:   runMemoKey,
	})
}

func memoParam(fn *ssa.Function) *ssa.Parameter {
	for _, p := range fn.Params {
		if m, ok := p.Type().Underlying().(*types.Map); ok {
			k := types.TypeString(m.Key(), nil)
			if k == "reflect.Type" || strings.HasSuffix(k, "structTypeKey") {
				return p
			}
		}
	}
	return nil
}

// cutsRecursion: the function records the type in the memo before every call back into the type
// compiler (a lookup alone, with the memo filled in after the recursion returns, cuts nothing).
func cutsRecursion(fn *ssa.Function, in map[*ssa.Function]bool) bool {
	mp := memoParam(fn)
	if mp == nil {
		return false
	}
	var updates []ssa.Instruction
	for _, blk := range fn.Blocks {
		for _, ins := range blk.Instrs {
			if mu, ok := ins.(*ssa.MapUpdate); ok && mu.Map == ssa.Value(mp) {
				updates = append(updates, mu)
			}
		}
	}
	if len(updates) == 0 {
		return false
	}
	for _, ci := range callsIn(fn) {
		callee := staticCallee(ci.Common())
		if callee == nil || !in[callee] {
			continue
		}
		dominated := false
		for _, u := range updates {
			if instrDominates(u, ci) {
				dominated = true
			}
		}
		if !dominated {
			return false
		}
	}
	return true
}

func runMemoKey(c *core.Ctx) []core.Obligation {
	b := newOb(c, "R-MEMOKEY")
	for _, spec := range []struct {
		pkg   string
		props []string
	}{{"json", []string{"C06"}}, {"proto", []string{"C03"}}, {"thrift", []string{"C04"}}} {
		var nodes []*ssa.Function
		in := map[*ssa.Function]bool{}
		for _, fn := range c.RepoFunctions() {
			if fn.Blocks == nil || fn.Synthetic != "" || !strings.HasPrefix(shortName(fn), spec.pkg+".") || memoParam(fn) == nil {
				continue
			}
			nodes = append(nodes, fn)
			in[fn] = true
		}
		sort.Slice(nodes, func(i, j int) bool { return shortName(nodes[i]) < shortName(nodes[j]) })
		key := "memo:" + spec.pkg
		if len(nodes) == 0 {
			b.addP(spec.props, core.Undecided, key, "-", "no type-compiler function with a memo parameter found")
			continue
		}
		// a codec published in the memo before its components are compiled is found, incomplete, by
		// the recursive references to its type; what those read at construction time — the wire
		// type, which goes into the tags they precompute — must be set before the recursion
		if spec.pkg == "proto" {
			wkey := key + ":published-with-wire-type"
			bad, sites := "", 0
			for _, fn := range nodes {
				mp := memoParam(fn)
				for _, blk := range fn.Blocks {
					for _, ins := range blk.Instrs {
						mu, ok := ins.(*ssa.MapUpdate)
						if !ok || mu.Map != ssa.Value(mp) {
							continue
						}
						cv := mu.Value
						if !strings.HasSuffix(cv.Type().String(), "proto.codec") {
							continue // the memo of the Type descriptions holds no wire-level data
						}
						// a later call back into the compiler
						var rec ssa.Instruction
						for _, ci := range callsIn(fn) {
							g := staticCallee(ci.Common())
							if g == nil || !in[g] {
								continue
							}
							if instrDominates(mu, ci.(ssa.Instruction)) && rec == nil {
								rec = ci.(ssa.Instruction)
							}
						}
						if rec == nil {
							continue
						}
						sites++
						set := false
						for _, b2 := range fn.Blocks {
							for _, in2 := range b2.Instrs {
								st, ok := in2.(*ssa.Store)
								if !ok {
									continue
								}
								fa, ok := st.Addr.(*ssa.FieldAddr)
								if !ok || fieldNameOf(fa) != "wire" || fa.X != cv {
									continue
								}
								if instrDominates(st, rec) {
									set = true
								}
							}
						}
						if !set {
							if bad != "" {
								bad += ", "
							}
							bad += c.InstrPos(mu) + " (" + shortName(fn) + ")"
						}
					}
				}
			}
			switch {
			case bad != "":
				b.addP([]string{"C03", "C12"}, core.Violation, wkey, bad, "a codec is published in the memo and the compiler is re-entered before the codec's wire type is set: a recursive reference to the type (type R struct{ Kids []*R } reached through a *R field) finds the incomplete codec and precomputes its tags with wire type 0 — the elements are written as varint fields (08 …) and the message does not decode")
			case sites == 0:
				b.addP([]string{"C03"}, core.Undecided, wkey, "-", "no codec is published before a recursive compilation")
			default:
				b.addP([]string{"C03", "C12"}, core.Discharged, wkey, "-", fmt.Sprintf("%d codec(s) published before a recursive compilation, each with its wire type already set", sites))
			}
		}
		// what a compiler function returns from the memo is determined by the key alone: a function
		// whose result also depends on another parameter (the field a repeated codec is compiled
		// for: its number and wire type are baked into the codec) must make that parameter part of
		// the key or not answer from the memo
		{
			kkey := key + ":key-determines-result"
			bad, sites := "", 0
			for _, fn := range nodes {
				mp := memoParam(fn)
				for _, blk := range fn.Blocks {
					for _, ins := range blk.Instrs {
						lk, ok := ins.(*ssa.Lookup)
						if !ok || lk.X != ssa.Value(mp) {
							continue
						}
						returned := false
						for _, r := range returnsOf(fn) {
							for _, res := range r.Results {
								if dependsOn(res, func(x ssa.Value) bool { return x == ssa.Value(lk) }) {
									returned = true
								}
							}
						}
						if !returned {
							continue
						}
						sites++
						for _, p := range fn.Params {
							if p == mp || p.Referrers() == nil || len(*p.Referrers()) == 0 {
								continue
							}
							if fn.Signature.Recv() != nil && p == fn.Params[0] {
								continue
							}
							if !dependsOnThroughLocals(lk.Index, p, fn) {
								bad = fmt.Sprintf("%s (%s answers from the memo whatever its parameter %s)", c.InstrPos(lk), shortName(fn), p.Name())
							}
						}
					}
				}
			}
			kprops := spec.props
			if spec.pkg == "proto" {
				kprops = []string{"C03", "C12"}
			}
			switch {
			case bad != "":
				b.addP(kprops, core.Violation, kkey, bad, "a type-compiler function returns the memoised codec of the type although what it compiles also depends on another parameter: "+bad+" — two repeated fields of the same Go type ([]string twice) share the codec of the first, with its field number and wire type baked in, so the second is written under the first one's number")
			case sites == 0:
				b.addP(kprops, core.Info, kkey, "-", "no compiler function returns a memo lookup")
			default:
				b.addP(kprops, core.Discharged, kkey, "-", fmt.Sprintf("%d memo lookup(s) returned, each keyed by every parameter the function uses", sites))
			}
		}
		// json's process-wide codec cache is keyed by the type alone and holds the codec compiled
		// for a top-level value of that type (not addressable when it came through Marshal,
		// addressable through Unmarshal): the type compilers, whose result depends on the
		// addressability of the component they compile, never answer from it — otherwise the codec of
		// []T depends on which call saw T first, for the life of the process
		if spec.pkg == "json" {
			ckey := key + ":compilers-do-not-read-the-global-cache"
			bad := ""
			for _, fn := range nodes {
				for _, ci := range callsIn(fn) {
					if g := staticCallee(ci.Common()); g != nil && g.Name() == "cacheLoad" {
						bad = c.InstrPos(ci) + " (" + shortName(fn) + ")"
					}
				}
			}
			if c.Lookup("json.cacheLoad") == nil {
				b.addP([]string{"C09", "C01"}, core.Undecided, ckey, "-", "json.cacheLoad not found")
			} else if bad != "" {
				b.addP([]string{"C09", "C01"}, core.Violation, ckey, bad, "a type-compiler function reads the process-wide codec cache at "+bad+": the cache is keyed by the type alone, but the codec of a component depends on whether it is addressable (pointer-receiver MarshalJSON/MarshalText of slice elements, of fields of addressable structs) — the codec compiled for []T then depends on whether Marshal(T{}) or Unmarshal(&T) ran first, and two goroutines racing on first use get different encodings for the life of the process")
			} else {
				b.addP([]string{"C09", "C01"}, core.Discharged, ckey, "-", fmt.Sprintf("none of the %d type-compiler functions calls cacheLoad", len(nodes)))
			}
		}
		// an entry found in the memo may be one that is still being compiled (that is what cuts the
		// recursion): a compiler function that gets a description back from a memo-answering compiler
		// may keep the pointer, and may read it when the codec runs, but must not read its contents
		// while compiling — they are not there yet for a type that contains itself
		if spec.pkg == "json" {
			ikey := key + ":in-progress-entry-not-read"
			answers := map[*ssa.Function]bool{}
			for _, fn := range nodes {
				mp := memoParam(fn)
				for _, blk := range fn.Blocks {
					for _, ins := range blk.Instrs {
						lk, ok := ins.(*ssa.Lookup)
						if !ok || lk.X != ssa.Value(mp) {
							continue
						}
						for _, r := range returnsOf(fn) {
							for _, res := range r.Results {
								if dependsOn(res, func(x ssa.Value) bool { return x == ssa.Value(lk) }) {
									answers[fn] = true
								}
							}
						}
					}
				}
			}
			bad, sites := "", 0
			for _, fn := range nodes {
				for _, ci := range callsIn(fn) {
					g := staticCallee(ci.Common())
					call, isCall := ci.(*ssa.Call)
					if g == nil || !answers[g] || !isCall || g == fn {
						continue
					}
					sites++
					// loads of a field of the returned description, in the compiler's own body
					for _, blk := range fn.Blocks {
						for _, ins := range blk.Instrs {
							fa, ok := ins.(*ssa.FieldAddr)
							if !ok {
								continue
							}
							fromCall := false
							for _, o := range origins(fa.X) {
								if o == ssa.Value(call) {
									fromCall = true
								}
							}
							if !fromCall || fa.Referrers() == nil {
								continue
							}
							for _, ref := range *fa.Referrers() {
								if u, isLoad := ref.(*ssa.UnOp); isLoad && u.Op == token.MUL {
									bad = fmt.Sprintf("%s (%s reads .%s of what %s returned)", c.InstrPos(u), shortName(fn), fieldNameOf(fa), g.Name())
								}
							}
						}
					}
				}
			}
			switch {
			case bad != "":
				b.addP([]string{"C01"}, core.Violation, ikey, bad, "a type compiler reads, while compiling, the contents of a description it got from the memo: "+bad+" — for mutually recursive types the description is the one still under construction, its field list is empty, and the fields promoted through the embedded pointer are lost: type A struct{B *B; X int}; type B struct{*A; Y int}; Marshal(&A{B: &B{A: &A{X: 1}, Y: 2}, X: 3}) gives {\"B\":{\"Y\":2},\"X\":3}, encoding/json {\"B\":{\"B\":null,\"X\":1,\"Y\":2},\"X\":3}")
			case sites == 0:
				b.addP([]string{"C01"}, core.Info, ikey, "-", "no compiler function calls a memo-answering compiler")
			default:
				b.addP([]string{"C01"}, core.Discharged, ikey, "-", fmt.Sprintf("%d call(s) of memo-answering compilers: the contents of the result are not read at compile time", sites))
			}
		}
		// the memo is threaded: a compiler function hands its own memo to the compiler functions
		// it calls. A fresh map for an inner compilation forgets the types in progress, and a type
		// that refers to itself through that call (a map value, a synthetic entry struct) is
		// compiled again and again until the stack is exhausted.
		{
			tkey := key + ":threaded"
			bad, sites := "", 0
			for _, fn := range nodes {
				mp := memoParam(fn)
				for _, ci := range callsIn(fn) {
					g := staticCallee(ci.Common())
					if g == nil || !in[g] {
						continue
					}
					gp := memoParam(g)
					gi := -1
					for i, p := range g.Params {
						if p == gp {
							gi = i
						}
					}
					if gi < 0 || gi >= len(ci.Common().Args) {
						continue
					}
					sites++
					for _, o := range origins(ci.Common().Args[gi]) {
						if isNilConst(o) {
							continue // a leaf type compiled without a memo (json's pointers to Number, Duration, Time, RawMessage)
						}
						if o != ssa.Value(mp) {
							bad = c.InstrPos(ci) + " (" + shortName(fn) + " calls " + g.Name() + ")"
						}
					}
				}
			}
			switch {
			case bad != "":
				b.addP(append([]string{"C07"}, spec.props...), core.Violation, tkey, bad, "a type-compiler function calls another one with a memo that is not its own (a fresh map): the types being compiled are forgotten for that call, and a type that refers to itself through it — type Node struct{Children map[string]Node} — is compiled without end: fatal stack overflow on first use, for every input")
			case sites == 0:
				b.addP(spec.props, core.Undecided, tkey, "-", "no call between type-compiler functions found")
			default:
				b.addP(spec.props, core.Discharged, tkey, "-", fmt.Sprintf("%d call(s) between type-compiler functions, each passes the caller's memo", sites))
			}
		}
		succAll := func(fn *ssa.Function) []*ssa.Function {
			var out []*ssa.Function
			// calls made where the kind is known to be Ptr only descend through pointer types:
			// the only recursive type that stays on such edges is type P *P, which has no value
			// other than nil chains and is not an encodable shape
			ptrOnly := map[*ssa.BasicBlock]bool{}
			for _, blk := range fn.Blocks {
				for _, ins := range blk.Instrs {
					if v, ok := ins.(ssa.Value); ok && isKindValue(v) {
						if _, isCall := ins.(*ssa.Call); isCall {
							for bb, set := range kindFlow(fn, v) {
								if set == 1<<22 {
									ptrOnly[bb] = true
								}
							}
						}
					}
				}
			}
			for _, ci := range callsIn(fn) {
				if ptrOnly[ci.Block()] {
					continue
				}
				if callee := staticCallee(ci.Common()); callee != nil && in[callee] {
					out = append(out, callee)
				}
			}
			return out
		}
		rest := map[*ssa.Function]bool{}
		var restNodes []*ssa.Function
		memoised := 0
		for _, fn := range nodes {
			if cutsRecursion(fn, in) {
				memoised++
				continue
			}
			rest[fn] = true
			restNodes = append(restNodes, fn)
		}
		restSucc := func(fn *ssa.Function) []*ssa.Function {
			var out []*ssa.Function
			for _, s := range succAll(fn) {
				if rest[s] {
					out = append(out, s)
				}
			}
			return out
		}
		var cyc []string
		for _, comp := range sccs(restNodes, restSucc) {
			cyclic := len(comp) > 1
			if !cyclic {
				for _, s := range restSucc(comp[0]) {
					if s == comp[0] {
						cyclic = true
					}
				}
			}
			if cyclic {
				for _, fn := range comp {
					cyc = append(cyc, shortName(fn))
				}
			}
		}
		sort.Strings(cyc)
		if len(cyc) == 0 {
			b.addP(spec.props, core.Discharged, key, c.FuncPos(nodes[0]), fmt.Sprintf("%d type-compiler functions, %d record the type in the memo before recursing; every cycle passes through one of them", len(nodes), memoised))
		}
		for _, name := range cyc {
			b.addP(spec.props, core.Violation, key+":"+name, c.FuncPos(c.Lookup(name)), fmt.Sprintf("%s is on a cycle of the type compiler %v that recurses without recording the type in the memo first: a recursive type that reaches it without passing through a memoised kind (type T []T, type M map[string]M) recurses until the stack overflows the first time it is encoded or decoded", name, cyc))
		}
	}
	return b.out
}

// sameKeyValue: the two values are the same SSA value or loads of the same local cell (a composite
// literal key spilled to a local is loaded once per use).
func sameKeyValue(a, b ssa.Value) bool {
	if a == b {
		return true
	}
	la, ok1 := a.(*ssa.UnOp)
	lb, ok2 := b.(*ssa.UnOp)
	if ok1 && ok2 && la.Op == token.MUL && lb.Op == token.MUL && la.X == lb.X {
		if _, isAlloc := la.X.(*ssa.Alloc); isAlloc {
			return true
		}
	}
	return false
}
