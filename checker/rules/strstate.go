package rules

import (
	"fmt"
	"go/constant"
	"go/token"
	"sort"
	"strings"

	"golang.org/x/tools/go/ssa"

	"verif/checker/core"
)

// R-STRSTATE — the in-string tracker of json.appendCompactEscapeHTML is the JSON string lexer.
// The function compacts trusted raw JSON (RawMessage, Marshaler output) when EscapeHTML is set: it
// deletes whitespace outside strings and escapes <, >, & (and U+2028/9) inside them, so it has to
// know at every byte whether it is inside a string. Its loop carries that knowledge in boolean
// variables. The loop body is evaluated for every reachable assignment of those booleans and every
// class of the current byte (the classes induced by the constants the byte is compared with), which
// gives the complete transition and action table of the loop; that table must be a homomorphic
// image of the reference lexer: outside --"--> inside, inside --\--> escaped --any--> inside,
// inside --"--> outside, whitespace deleted only outside, HTML escapes only inside and unescaped.
func init() {
	Register(&Rule{
		ID:    "R-STRSTATE",
		Doc:   "exhaustive evaluation of the loop body of json.appendCompactEscapeHTML over (boolean loop state × byte class): conditions on the state variables and on the current byte are decided, every other condition forks; the resulting transition/action table is compared state by state with the three-state JSON string lexer (outside, inside, after backslash) starting from the initial state; a loop state that would have to stand for two lexer states, or an action (delete, escape) in the wrong lexer state, is a violation with the byte-class sequence that reaches it",
		Props: []string{"C01", "C14"},
		Min:   map[string]int{"C01": 1, "C14": 1},
		Run:   runStrState,
	})
}

type ssAction struct {
	next   string // encoded bool state
	action string // none | delete | escape
}

func runStrState(c *core.Ctx) []core.Obligation {
	b := newOb(c, "R-STRSTATE", "C01", "C14")
	key := "strstate:json.appendCompact"
	fn := c.Lookup("json.appendCompact")
	if fn == nil {
		fn = c.Lookup("json.appendCompactEscapeHTML")
	}
	if fn == nil {
		b.und(key, "-", "json.appendCompact not found")
		return b.out
	}
	// an escapeHTML parameter, if any, is part of the input space
	var mode *ssa.Parameter
	for _, p := range fn.Params {
		if p.Type().Underlying().String() == "bool" {
			mode = p
		}
	}
	modeVal := true
	// loop header: the block with boolean φs
	var header *ssa.BasicBlock
	var bools []*ssa.Phi
	var ints []*ssa.Phi
	for _, h := range loopHeaders(fn) {
		var bs, is []*ssa.Phi
		for _, in := range h.Instrs {
			phi, ok := in.(*ssa.Phi)
			if !ok {
				break
			}
			switch phi.Type().Underlying().String() {
			case "bool":
				bs = append(bs, phi)
			case "int":
				is = append(is, phi)
			}
		}
		if len(bs) > 0 {
			header, bools, ints = h, bs, is
		}
	}
	if header == nil || len(bools) > 4 {
		b.und(key, c.FuncPos(fn), "no loop carrying boolean state found (or more than four state variables)")
		return b.out
	}
	body := loopBlocks(header)
	// the current byte: a load of src[idx] where idx is derived from an int φ of the header by +1 or is the φ
	isIndex := func(v ssa.Value) bool {
		if bo, ok := v.(*ssa.BinOp); ok && bo.Op == token.ADD {
			if k, isK := constInt(bo.Y); isK && k == 1 {
				if phi, isPhi := bo.X.(*ssa.Phi); isPhi && phi.Block() == header && strings.Contains(phi.Comment, "rangeindex") {
					return true
				}
			}
		}
		return false
	}
	var cur ssa.Value
	for blk := range body {
		for _, in := range blk.Instrs {
			if ld, ok := in.(*ssa.UnOp); ok && ld.Op == token.MUL {
				if ia, isIA := ld.X.(*ssa.IndexAddr); isIA && isIndex(ia.Index) {
					cur = ld
				}
			}
		}
	}
	if cur == nil {
		b.und(key, c.FuncPos(fn), "the byte examined by the loop (src[i] of a range loop) was not found")
		return b.out
	}
	// byte classes: constants compared with cur
	consts := map[int64]bool{}
	for _, ref := range *cur.Referrers() {
		if bo, ok := ref.(*ssa.BinOp); ok && (bo.Op == token.EQL || bo.Op == token.NEQ) {
			for _, op := range []ssa.Value{bo.X, bo.Y} {
				if k, isK := constInt(op); isK {
					consts[k] = true
				}
			}
		}
	}
	var classes []int64
	for k := range consts {
		classes = append(classes, k)
	}
	sort.Slice(classes, func(i, j int) bool { return classes[i] < classes[j] })
	classes = append(classes, -1) // any other byte
	className := func(k int64) string {
		if k < 0 {
			return "other"
		}
		if k >= 0x21 && k < 0x7f {
			return fmt.Sprintf("'%c'", rune(k))
		}
		return fmt.Sprintf("0x%02x", k)
	}
	// the "start" variable: an int φ whose back-edge inputs are index+const
	var start *ssa.Phi
	for _, phi := range ints {
		if strings.Contains(phi.Comment, "rangeindex") {
			continue
		}
		start = phi
	}
	bodyEntry := (*ssa.BasicBlock)(nil)
	if ifi, ok := header.Instrs[len(header.Instrs)-1].(*ssa.If); ok {
		_ = ifi
		for _, s := range header.Succs {
			if body[s] && s != header {
				bodyEntry = s
			}
		}
	}
	if bodyEntry == nil {
		b.und(key, c.FuncPos(fn), "loop body entry not found")
		return b.out
	}
	enc := func(st []bool) string {
		s := ""
		for _, v := range st {
			if v {
				s += "1"
			} else {
				s += "0"
			}
		}
		return s
	}
	undecided := ""
	// step: all (next state, action) pairs for one state and class
	step := func(st []bool, class int64) []ssAction {
		type frame struct {
			blk, prev *ssa.BasicBlock
			env       map[ssa.Value]int // 0/1 for bools
			escaped   bool
		}
		var out []ssAction
		seenOut := map[ssAction]bool{}
		init := map[ssa.Value]int{}
		for i, phi := range bools {
			if st[i] {
				init[phi] = 1
			} else {
				init[phi] = 0
			}
		}
		if mode != nil {
			if modeVal {
				init[mode] = 1
			} else {
				init[mode] = 0
			}
		}
		work := []frame{{bodyEntry, header, init, false}}
		for steps := 0; len(work) > 0 && steps < 5000; steps++ {
			f := work[len(work)-1]
			work = work[:len(work)-1]
			if f.blk == header {
				// read the back-edge inputs
				idx := -1
				for i, p := range header.Preds {
					if p == f.prev {
						idx = i
					}
				}
				next := make([]bool, len(bools))
				for i, phi := range bools {
					e := phi.Edges[idx]
					v, ok := boolOf(e, f.env)
					if !ok {
						undecided = "the next value of " + phi.Comment + " is not a constant or a state variable"
						return nil
					}
					next[i] = v
				}
				act := "none"
				if start != nil && start.Edges[idx] != ssa.Value(start) {
					act = "delete"
					if f.escaped {
						act = "escape"
					}
				}
				a := ssAction{enc(next), act}
				if !seenOut[a] {
					seenOut[a] = true
					out = append(out, a)
				}
				continue
			}
			if !body[f.blk] {
				continue // leaves the loop: not a transition
			}
			env := f.env
			escaped := f.escaped
			copied := false
			set := func(v ssa.Value, x int) {
				if !copied {
					n := map[ssa.Value]int{}
					for k, vv := range env {
						n[k] = vv
					}
					env, copied = n, true
				}
				env[v] = x
			}
			for _, in := range f.blk.Instrs {
				switch x := in.(type) {
				case *ssa.Phi:
					for i, p := range f.blk.Preds {
						if p == f.prev {
							if v, ok := boolOf(x.Edges[i], env); ok {
								if v {
									set(x, 1)
								} else {
									set(x, 0)
								}
							}
						}
					}
				case *ssa.BinOp:
					if x.Op == token.EQL || x.Op == token.NEQ {
						var k int64
						var isCur bool
						if x.X == cur {
							k, isCur = constIntOK(x.Y)
						} else if x.Y == cur {
							k, isCur = constIntOK(x.X)
						}
						if isCur {
							eq := class == k
							if x.Op == token.NEQ {
								eq = !eq
							}
							if eq {
								set(x, 1)
							} else {
								set(x, 0)
							}
						}
					}
				case *ssa.UnOp:
					if x.Op == token.NOT {
						if v, ok := boolOf(x.X, env); ok {
							if v {
								set(x, 0)
							} else {
								set(x, 1)
							}
						}
					}
				case *ssa.Call:
					if bi, ok := x.Call.Value.(*ssa.Builtin); ok && bi.Name() == "append" && len(x.Call.Args) == 2 {
						if k, isK := x.Call.Args[1].(*ssa.Const); isK && k.Value != nil && k.Value.Kind() == constant.String && strings.HasPrefix(constant.StringVal(k.Value), `\u`) {
							escaped = true
						}
					}
				case *ssa.If:
					if v, ok := boolOf(x.Cond, env); ok {
						t := f.blk.Succs[1]
						if v {
							t = f.blk.Succs[0]
						}
						work = append(work, frame{t, f.blk, env, escaped})
					} else {
						work = append(work, frame{f.blk.Succs[0], f.blk, env, escaped}, frame{f.blk.Succs[1], f.blk, env, escaped})
					}
				case *ssa.Jump:
					work = append(work, frame{f.blk.Succs[0], f.blk, env, escaped})
				}
			}
		}
		return out
	}
	// reference lexer
	ref := func(r string, class int64) (string, map[string]bool) {
		switch r {
		case "outside":
			switch class {
			case '"':
				return "inside", map[string]bool{"none": true}
			case ' ', '\n', '\r', '\t':
				return "outside", map[string]bool{"delete": true}
			}
			return "outside", map[string]bool{"none": true}
		case "inside":
			switch class {
			case '\\':
				return "escaped", map[string]bool{"none": true}
			case '"':
				return "outside", map[string]bool{"none": true}
			case '<', '>', '&':
				if !modeVal {
					return "inside", map[string]bool{"none": true}
				}
				return "inside", map[string]bool{"escape": true}
			case 0xE2:
				if !modeVal {
					return "inside", map[string]bool{"none": true}
				}
				return "inside", map[string]bool{"none": true, "escape": true}
			}
			return "inside", map[string]bool{"none": true}
		}
		return "inside", map[string]bool{"none": true} // escaped: any byte is taken literally
	}
	for _, must := range []int64{'"', '\\', ' ', '<', '>', '&'} {
		if !consts[must] {
			b.bad(key, c.FuncPos(fn), fmt.Sprintf("the loop never compares the current byte with %s: it cannot track strings, delete whitespace and escape HTML characters", className(must)))
			return b.out
		}
	}
	init := make([]bool, len(bools))
	for i, phi := range bools {
		for j, p := range header.Preds {
			if !body[p] {
				v, ok := boolOf(phi.Edges[j], nil)
				if !ok {
					b.und(key, c.FuncPos(fn), "initial value of "+phi.Comment+" is not a constant")
					return b.out
				}
				init[i] = v
			}
		}
	}
	modes := []bool{true}
	if mode != nil {
		modes = []bool{true, false}
	}
	total := 0
	var hLast map[string]string
	for _, mv := range modes {
		modeVal = mv
		modeDesc := ""
		if mode != nil {
			modeDesc = fmt.Sprintf(" with %s=%v", mode.Name(), mv)
		}
		h := map[string]string{enc(init): "outside"}
		path := map[string]string{enc(init): ""}
		dec := func(s string) []bool {
			out := make([]bool, len(s))
			for i := range s {
				out[i] = s[i] == '1'
			}
			return out
		}
		queue := []string{enc(init)}
		transitions := 0
		for len(queue) > 0 {
			s := queue[0]
			queue = queue[1:]
			for _, cl := range classes {
				outs := step(dec(s), cl)
				if undecided != "" {
					b.und(key, c.FuncPos(fn), undecided)
					return b.out
				}
				wantNext, wantActs := ref(h[s], cl)
				where := fmt.Sprintf("after the byte classes [%s] (lexer state: %s)%s, on %s", strings.TrimSpace(path[s]), h[s], modeDesc, className(cl))
				if len(outs) == 0 {
					b.und(key, c.FuncPos(fn), "no path back to the loop header "+where)
					return b.out
				}
				for _, o := range outs {
					transitions++
					if !wantActs[o.action] {
						b.bad(key, c.FuncPos(fn), fmt.Sprintf("%s the loop performs %q where the string lexer allows %v: whitespace is deleted only outside strings, HTML characters are escaped only inside them", where, o.action, keysOf(wantActs)))
						return b.out
					}
					if prev, ok := h[o.next]; ok {
						if prev != wantNext {
							b.bad(key, c.FuncPos(fn), fmt.Sprintf("%s the loop moves to the state (%s) it also uses for %q, but the string lexer is %q there: from then on string boundaries are misjudged (whitespace inside later strings is deleted, or HTML characters outside are escaped)", where, describeState(bools, o.next), prev, wantNext))
							return b.out
						}
						continue
					}
					h[o.next] = wantNext
					path[o.next] = path[s] + " " + className(cl)
					queue = append(queue, o.next)
				}
			}
		}
		total += transitions
		hLast = h
	}
	h, transitions := hLast, total
	b.ok(key, c.FuncPos(fn), fmt.Sprintf("%d loop states × %d byte classes (%d transitions) agree with the JSON string lexer", len(h), len(classes), transitions))
	return b.out
}

func keysOf(m map[string]bool) []string {
	var out []string
	for k := range m {
		out = append(out, k)
	}
	sort.Strings(out)
	return out
}

func describeState(bools []*ssa.Phi, s string) string {
	var parts []string
	for i, phi := range bools {
		parts = append(parts, fmt.Sprintf("%s=%v", phi.Comment, s[i] == '1'))
	}
	return strings.Join(parts, ", ")
}

func constIntOK(v ssa.Value) (int64, bool) { return constInt(v) }

// boolOf evaluates a boolean SSA value: constants and values bound in env.
func boolOf(v ssa.Value, env map[ssa.Value]int) (bool, bool) {
	if k, ok := v.(*ssa.Const); ok && k.Value != nil && k.Value.Kind() == constant.Bool {
		return constant.BoolVal(k.Value), true
	}
	if env != nil {
		if x, ok := env[v]; ok {
			return x != 0, true
		}
	}
	return false, false
}
