package rules

import (
	"fmt"
	"go/token"
	"sort"
	"strings"

	"golang.org/x/tools/go/ssa"

	"verif/checker/core"
)

// R-LASTINDEX — x[len(x)-k] needs k elements. The tokenizer's scope stack, the decoders' last
// field, byte buffers examined from their end: wherever a slice is indexed (or resliced) at an
// offset counted from its length, the length must be known to be at least that offset on the
// path — otherwise an input that closes more containers than it opened ("[]]") indexes at -1.
func init() {
	Register(&Rule{
		ID:    "R-LASTINDEX",
		Doc:   "every index expression x[len(x)-k] (k a positive constant; the index value may be computed earlier and stored in a local) in json, proto, thrift and iso8601: the interval that the dominating branch edges give for len(x) — including tests made on the index value itself, i < 0 or i >= 0 — has a lower bound of at least k; sites whose safety rests on an invariant established elsewhere are listed with it",
		Props: []string{"C06", "C17", "C08", "C07", "C18"},
		Min:   map[string]int{"C17": 3, "C06": 3},
		Run:   runLastIndex,
	})
}

// lastIndexInvariants: key -> invariant established elsewhere.
var lastIndexInvariants = map[string]string{
	"lastindex:json.(encoder).encodeTime#1": "b ends with what Time.AppendFormat(RFC3339Nano) produced, which is Z or ±hh:mm (the Z case is excluded by the switch): the same indexing as time.Time.appendStrictRFC3339",
	"lastindex:json.(encoder).encodeTime#2": "b ends with what Time.AppendFormat(RFC3339Nano) produced: at least the 20 bytes of a date and time",
	"lastindex:json.fmtInt#1":               "buf is the 32-byte scratch array of appendDuration, sliced whole",
}

func runLastIndex(c *core.Ctx) []core.Obligation {
	b := newOb(c, "R-LASTINDEX")
	fns := c.RepoFunctions()
	sort.Slice(fns, func(i, j int) bool { return shortName(fns[i]) < shortName(fns[j]) })
	n := 0
	for _, fn := range fns {
		if fn.Blocks == nil || fn.Pkg == nil || fn.Synthetic != "" {
			continue
		}
		var props []string
		switch fn.Pkg.Pkg.Name() {
		case "json":
			props = []string{"C06"}
			if strings.Contains(shortName(fn), "Tokenizer") || strings.Contains(shortName(fn), "(*stack)") {
				props = []string{"C17", "C06"}
			}
		case "proto":
			props = []string{"C07"}
		case "thrift":
			props = []string{"C08"}
		case "iso8601":
			props = []string{"C18"}
		default:
			continue
		}
		count := 0
		for _, blk := range fn.Blocks {
			for _, in := range blk.Instrs {
				var base, idx ssa.Value
				switch x := in.(type) {
				case *ssa.IndexAddr:
					base, idx = x.X, x.Index
				case *ssa.Index:
					base, idx = x.X, x.Index
				default:
					continue
				}
				sub, ok := idx.(*ssa.BinOp)
				if !ok || sub.Op != token.SUB {
					continue
				}
				k, isK := constInt(sub.Y)
				if !isK || k <= 0 {
					continue
				}
				la, isLen := lenArg(sub.X)
				if !isLen || !sameSliceValue(la, base) {
					continue
				}
				n++
				count++
				name := shortName(fn)
				key := fmt.Sprintf("lastindex:%s#%d", name, count)
				lo, _, _ := lenInterval(la, blk)
				proven := lo != nil && lo.IsInt64() && lo.Int64() >= k
				if !proven && lenAtLeast(la, k, blk) {
					proven = true
				}
				if !proven {
					// a test on the index value itself: i < 0 (false edge) or i >= 0 (true edge)
					ilo, _ := rangeFacts(sub, blk)
					if ilo != nil && ilo.Sign() >= 0 {
						proven = true
					}
				}
				if !proven {
					// len(x) != 0 / len(x) > 0 for k == 1 through excluded points
					_, _, excl := lenInterval(la, blk)
					if k == 1 && excl[0] {
						proven = true
					}
				}
				switch {
				case proven:
					b.addP(props, core.Discharged, key, c.InstrPos(in), fmt.Sprintf("len >= %d on every path to the access", k))
				case lastIndexInvariants[key] != "":
					b.addP(props, core.Discharged, key, c.InstrPos(in), "invariant: "+lastIndexInvariants[key])
				default:
					b.addP(props, core.Violation, key, c.InstrPos(in), fmt.Sprintf("%s indexes a slice at len-%d with no dominating test that it holds %d element(s): when it is empty the index is negative and the access panics (a surplus closing delimiter, an empty buffer)", name, k, k))
				}
			}
		}
	}
	if n == 0 {
		b.addP([]string{"C06", "C17"}, core.Undecided, "lastindex:-", "-", "no x[len(x)-k] access found")
	}
	return b.out
}

// lenAtLeast: a dominating branch edge compares len(y), y the same slice as x (another load of
// the same field), with a constant in a way that leaves at least k elements.
func lenAtLeast(x ssa.Value, k int64, blk *ssa.BasicBlock) bool {
	for _, e := range dominatingEdges(blk) {
		conds := []ssa.Value{e.ifi.Cond}
		if e.succ == 0 {
			conds = append(conds, trueAtoms(blk, 0)...)
		}
		for ci, cv := range conds {
			bo, ok := cv.(*ssa.BinOp)
			if !ok {
				continue
			}
			la, isLen := lenArg(bo.X)
			cst, isK := constInt(bo.Y)
			if !isLen || !isK || !sameSliceValue(la, x) {
				continue
			}
			onTrue := e.succ == 0 || ci > 0
			switch {
			case bo.Op == token.NEQ && cst == 0 && onTrue && k == 1,
				bo.Op == token.EQL && cst == 0 && !onTrue && k == 1,
				bo.Op == token.GTR && onTrue && cst+1 >= k,
				bo.Op == token.GEQ && onTrue && cst >= k,
				bo.Op == token.LSS && !onTrue && cst >= k,
				bo.Op == token.LEQ && !onTrue && cst+1 >= k:
				return true
			}
		}
	}
	return false
}

// sameSliceValue: a and b are the same slice: the same SSA value, or two loads of the same field
// of the same object with no store in between being considered (loads of a field address).
func sameSliceValue(a, b ssa.Value) bool {
	if a == b {
		return true
	}
	la, ok1 := a.(*ssa.UnOp)
	lb, ok2 := b.(*ssa.UnOp)
	if ok1 && ok2 && la.Op == token.MUL && lb.Op == token.MUL {
		return sameAddr(la.X, lb.X)
	}
	return false
}

// R-CONSTIDX — b[k] with a constant k needs k+1 bytes: in proto, thrift and iso8601 (json's scanners
// have R-CONSTINDEX and R-RELINDEX) every constant index into a slice is covered by the length
// interval of the dominating tests, a constant-length window, or a listed invariant.
func init() {
	Register(&Rule{
		ID:    "R-CONSTIDX",
		Doc:   "every constant index x[k] into a slice (not an array) in proto, thrift and iso8601: the dominating branch edges give len(x) > k (including tests written on another load of the same field), or x is a constant-length window, or the site is listed with the invariant that bounds it",
		Props: []string{"C07", "C08", "C18", "C16"},
		Min:   map[string]int{"C07": 2, "C18": 2},
		Run:   runConstIdx,
	})
}

// constIdxInvariants: site -> invariant.
var constIdxInvariants = map[string]string{}

func runConstIdx(c *core.Ctx) []core.Obligation {
	b := newOb(c, "R-CONSTIDX")
	fns := c.RepoFunctions()
	sort.Slice(fns, func(i, j int) bool { return shortName(fns[i]) < shortName(fns[j]) })
	n := 0
	for _, fn := range fns {
		if fn.Blocks == nil || fn.Pkg == nil || fn.Synthetic != "" {
			continue
		}
		var props []string
		switch fn.Pkg.Pkg.Name() {
		case "proto":
			props = []string{"C07", "C16"}
		case "thrift":
			props = []string{"C08"}
		case "iso8601":
			props = []string{"C18"}
		default:
			continue
		}
		// only the functions that consume input (writes are R-BUFWRITE's)
		ln := strings.ToLower(fn.Name())
		if fn.Parent() != nil {
			ln = strings.ToLower(fn.Parent().Name())
		}
		if !(strings.Contains(ln, "decode") || strings.Contains(ln, "parse") || strings.Contains(ln, "read") || strings.Contains(ln, "skip") || strings.Contains(ln, "scan") || strings.Contains(ln, "valid")) {
			continue
		}
		count := map[int64]int{}
		for _, blk := range fn.Blocks {
			for _, in := range blk.Instrs {
				ia, ok := in.(*ssa.IndexAddr)
				if !ok {
					continue
				}
				k, isK := constInt(ia.Index)
				if !isK || k < 0 {
					continue
				}
				if !isSliceType(ia.X.Type()) {
					continue
				}
				n++
				count[k]++
				name := shortName(fn)
				key := fmt.Sprintf("constidx:%s:[%d]", closureIndex.ReplaceAllString(name, ""), k)
				if count[k] > 1 {
					key += fmt.Sprintf("#%d", count[k])
				}
				proven := false
				if lo, _, excl := lenInterval(ia.X, blk); lo != nil && lo.IsInt64() && lo.Int64() > k {
					proven = true
				} else if k == 0 && excl[0] {
					proven = true
				}
				if !proven && lenAtLeast(ia.X, k+1, blk) {
					proven = true
				}
				if !proven {
					if how, ok := provenLen(c, ia.X, k+1, blk, 0); ok && how != "" {
						proven = true
					}
				}
				switch {
				case proven:
					b.addP(props, core.Discharged, key, c.InstrPos(ia), fmt.Sprintf("len > %d on every path to the access", k))
				case constIdxInvariants[key] != "":
					b.addP(props, core.Discharged, key, c.InstrPos(ia), "invariant: "+constIdxInvariants[key])
				default:
					b.addP(props, core.Violation, key, c.InstrPos(ia), fmt.Sprintf("%s reads or writes element %d of a slice that the dominating tests do not show to hold %d element(s): input that ends at that point (a buffer cut after the first byte of a multi-byte varint) panics with index out of range", name, k, k+1))
				}
			}
		}
	}
	if n == 0 {
		b.addP([]string{"C07", "C08", "C18"}, core.Undecided, "constidx:-", "-", "no constant index found")
	}
	return b.out
}
