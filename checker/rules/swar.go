package rules

import (
	"fmt"
	"go/constant"
	"go/token"

	"golang.org/x/tools/go/ssa"

	"verif/checker/core"
)

// R-SWAR — iso8601's word-at-a-time digit test is the byte-wise test. nonNumeric(u) is a closed
// arithmetic expression over one uint64 (no branches, no loads): ((u - zero) | (u + k) | u) & msb.
// It is folded, in the checker, for every value of one byte lane (256 values × 8 lanes) with the
// lanes below it holding digits — the lowest non-digit lane receives no borrow or carry from
// below, so this decides the expression for all 2^64 inputs — and the result must be non-zero
// exactly when the lane is outside '0'..'9'. An addend that is off by one (0x45 for 0x46 per lane)
// lets ':' through as the digit 10.
func init() {
	Register(&Rule{
		ID:    "R-SWAR",
		Doc:   "constant folding of the straight-line body of iso8601.nonNumeric over 8 lanes × 256 byte values (lower lanes '0', '5' and '9', higher lanes '0'): the result is zero iff the lane holds an ASCII digit; argument: with digits below, no borrow of (u - zero) and no carry of (u + k) enters the lowest non-digit lane, so lane-wise agreement implies agreement on every word; a body with branches, loads or calls is undecided",
		Props: []string{"C18"},
		Min:   map[string]int{"C18": 1},
		Run:   runSWAR,
	})
}

func runSWAR(c *core.Ctx) []core.Obligation {
	b := newOb(c, "R-SWAR", "C18")
	key := "swar:iso8601.nonNumeric"
	fn := c.Lookup("iso8601.nonNumeric")
	if fn == nil {
		b.und(key, "-", "iso8601.nonNumeric not found")
		return b.out
	}
	if len(fn.Blocks) != 1 || len(fn.Params) != 1 {
		b.und(key, c.FuncPos(fn), "nonNumeric is not a straight-line function of one word")
		return b.out
	}
	eval := func(u uint64) (uint64, bool) {
		env := map[ssa.Value]uint64{fn.Params[0]: u}
		get := func(v ssa.Value) (uint64, bool) {
			if k, ok := v.(*ssa.Const); ok && k.Value != nil && k.Value.Kind() == constant.Int {
				if x, exact := constant.Uint64Val(k.Value); exact {
					return x, true
				}
				if x, exact := constant.Int64Val(k.Value); exact {
					return uint64(x), true
				}
				return 0, false
			}
			x, ok := env[v]
			return x, ok
		}
		for _, in := range fn.Blocks[0].Instrs {
			switch x := in.(type) {
			case *ssa.BinOp:
				a, ok1 := get(x.X)
				bb, ok2 := get(x.Y)
				if !ok1 || !ok2 {
					return 0, false
				}
				var r uint64
				switch x.Op {
				case token.ADD:
					r = a + bb
				case token.SUB:
					r = a - bb
				case token.MUL:
					r = a * bb
				case token.AND:
					r = a & bb
				case token.OR:
					r = a | bb
				case token.XOR:
					r = a ^ bb
				case token.AND_NOT:
					r = a &^ bb
				case token.SHL:
					r = a << bb
				case token.SHR:
					r = a >> bb
				default:
					return 0, false
				}
				env[x] = r
			case *ssa.UnOp:
				a, ok := get(x.X)
				if !ok || x.Op != token.XOR {
					return 0, false
				}
				env[x] = ^a
			case *ssa.Return:
				if len(x.Results) != 1 {
					return 0, false
				}
				return get(x.Results[0])
			case *ssa.DebugRef:
			default:
				return 0, false
			}
		}
		return 0, false
	}
	n := 0
	for lane := uint(0); lane < 8; lane++ {
		for _, fill := range []uint64{'0', '5', '9'} {
			var base uint64
			for l := uint(0); l < 8; l++ {
				f := fill
				if l > lane {
					f = '0'
				}
				if l != lane {
					base |= f << (8 * l)
				}
			}
			for x := uint64(0); x < 256; x++ {
				r, ok := eval(base | x<<(8*lane))
				if !ok {
					b.und(key, c.FuncPos(fn), "the body of nonNumeric is not a closed arithmetic expression over its argument (a branch, load, call or non-integer operation)")
					return b.out
				}
				n++
				isDigit := x >= '0' && x <= '9'
				if (r == 0) != isDigit {
					what := "is reported as non-numeric"
					if !isDigit {
						what = fmt.Sprintf("passes as a digit (it is then read as the value %d)", int64(x)-'0')
					}
					b.bad(key, c.FuncPos(fn), fmt.Sprintf("nonNumeric: byte %#02x (%q) in lane %d, among digits, %s: the word-at-a-time test disagrees with '0' <= c && c <= '9', so the fast path accepts a malformed timestamp (or sends a valid one to be rejected)", x, rune(x), lane, what))
					return b.out
				}
			}
		}
	}
	b.ok(key, c.FuncPos(fn), fmt.Sprintf("%d lane evaluations: non-zero exactly for bytes outside '0'..'9'", n))
	return b.out
}
