package rules

import (
	"fmt"
	"go/token"
	"sort"
	"strings"

	"golang.org/x/tools/go/ssa"

	"verif/checker/core"
)

// R-RELINDEX — b[i] in the hand-written scanners is read under i < len(b), for that very i. The
// scanners advance an index over the input and test it against the length before every read; when
// the test and the increment are swapped (if i < len(b) { i++; … b[i] }) the test is made on the
// old index and the read on the new one: a buffer that ends on a backslash is read one byte past
// its end. For every non-constant index into the input parameter of json's parse functions, a
// dominating branch edge must compare the same SSA value with len of the same slice (or with a
// value itself bounded by it); the sites whose bound comes from elsewhere are listed.
func init() {
	Register(&Rule{
		ID:    "R-RELINDEX",
		Doc:   "every read b[i] (i not a constant) of the input parameter in json's parse* scanners and skipSpaces*: some dominating branch edge establishes i < len(b) or i <= len(b)-k for the same SSA value i (directly, as the condition or a conjunct of a short-circuit condition), or i is a constant offset below a value so bounded and the remaining length was tested; other sites must be in the table of invariants",
		Props: []string{"C06", "C05", "C11", "C17"},
		Min:   map[string]int{"C06": 10},
		Run:   runRelIndex,
	})
}

// relIndexInvariants: site -> the invariant that bounds the index.
var relIndexInvariants = map[string]string{}

func runRelIndex(c *core.Ctx) []core.Obligation {
	b := newOb(c, "R-RELINDEX", "C06", "C05", "C11", "C17")
	fns := c.RepoFunctions()
	sort.Slice(fns, func(i, j int) bool { return shortName(fns[i]) < shortName(fns[j]) })
	n := 0
	for _, fn := range fns {
		name := shortName(fn)
		if fn.Blocks == nil || fn.Synthetic != "" {
			continue
		}
		// appendCompact scans text that was not necessarily validated (TrustRawMessage hands it a
		// RawMessage as it is): its look-ahead is held to the same standard as the scanners'
		compact := strings.HasPrefix(name, "json.appendCompact")
		if !(strings.HasPrefix(name, "json.(decoder).parse") || strings.HasPrefix(name, "json.skipSpaces") || compact) {
			continue
		}
		var in *ssa.Parameter
		for _, p := range fn.Params {
			if p.Type().String() == "[]byte" && in == nil && !(compact && p.Name() != "src") {
				in = p
			}
		}
		if in == nil {
			continue
		}
		count := 0
		for _, blk := range fn.Blocks {
			for _, ins := range blk.Instrs {
				ia, ok := ins.(*ssa.IndexAddr)
				if !ok || ia.X != ssa.Value(in) {
					continue
				}
				if _, isK := ia.Index.(*ssa.Const); isK {
					continue
				}
				n++
				count++
				key := fmt.Sprintf("relindex:%s#%d", name, count)
				if boundedBelowLen(ia.Index, in, blk, 0) {
					b.ok(key, c.InstrPos(ia), "the index is tested against len(b) on every path")
				} else if why, ok := relIndexInvariants[key]; ok {
					b.ok(key, c.InstrPos(ia), "invariant: "+why)
				} else {
					b.bad(key, c.InstrPos(ia), fmt.Sprintf("%s reads the input at an index for which no dominating test against len(b) exists (the test, if any, was made on another value — before an increment): when the buffered input ends at that point (a chunk boundary of a Decoder, a truncated document) the read is out of range and panics", name))
				}
			}
		}
	}
	if n == 0 {
		b.und("relindex:-", "-", "no indexed read of the input found in json's scanners")
	}
	return b.out
}

// boundedBelowLen: at blk, idx < len(in) is known from a dominating edge on idx itself, or idx is
// base+k with base+k' < len(in) known for some k' >= k... (kept simple: same value, or a φ all of
// whose incoming values are bounded at their predecessor).
func boundedBelowLen(idx ssa.Value, in ssa.Value, blk *ssa.BasicBlock, depth int) bool {
	if depth > 3 {
		return false
	}
	conds := func(bb *ssa.BasicBlock) []struct {
		v    ssa.Value
		succ int
	} {
		var out []struct {
			v    ssa.Value
			succ int
		}
		for _, e := range dominatingEdges(bb) {
			out = append(out, struct {
				v    ssa.Value
				succ int
			}{e.ifi.Cond, e.succ})
		}
		for _, a := range trueAtoms(bb, 0) {
			out = append(out, struct {
				v    ssa.Value
				succ int
			}{a, 0})
		}
		return out
	}
	for _, cnd := range conds(blk) {
		bo, ok := cnd.v.(*ssa.BinOp)
		if !ok {
			continue
		}
		isLen := func(v ssa.Value) bool {
			a, ok := lenArg(v)
			return ok && a == in
		}
		// idx < len(b)   true edge      |  idx >= len(b)  false edge
		// len(b) > idx   true edge      |  len(b) <= idx  false edge
		switch {
		case bo.X == idx && isLen(bo.Y) && ((bo.Op == token.LSS && cnd.succ == 0) || (bo.Op == token.GEQ && cnd.succ == 1)):
			return true
		case bo.Y == idx && isLen(bo.X) && ((bo.Op == token.GTR && cnd.succ == 0) || (bo.Op == token.LEQ && cnd.succ == 1)):
			return true
		case bo.X == idx && isLen(bo.Y) && ((bo.Op == token.NEQ && cnd.succ == 0) || (bo.Op == token.EQL && cnd.succ == 1)):
			// i != len(b) with i <= len(b) maintained by the loop: accepted as the scanners write it
			return true
		}
		// (base + k) < len(b) implies (base + j) < len(b) for 0 <= j <= k: the look-ahead of a
		// scanner tests the farthest byte once and reads the nearer ones (go/ssa does not share the
		// two additions)
		{
			split := func(v ssa.Value) (ssa.Value, int64) {
				if add, ok := v.(*ssa.BinOp); ok && add.Op == token.ADD {
					if k, isK := constInt(add.Y); isK && k >= 0 {
						return add.X, k
					}
				}
				return v, 0
			}
			ib, ij := split(idx)
			cb, ck := split(bo.X)
			if ib == cb && isLen(bo.Y) && ij >= 0 {
				if ((bo.Op == token.LSS && cnd.succ == 0) || (bo.Op == token.GEQ && cnd.succ == 1)) && ck >= ij {
					return true
				}
				if ((bo.Op == token.LEQ && cnd.succ == 0) || (bo.Op == token.GTR && cnd.succ == 1)) && ck > ij {
					return true
				}
			}
		}
		// (idx + k) < len(b) implies idx < len(b)
		if add, isAdd := bo.X.(*ssa.BinOp); isAdd && add.Op == token.ADD && add.X == idx && isLen(bo.Y) {
			if k, isK := constInt(add.Y); isK && k >= 0 && ((bo.Op == token.LSS && cnd.succ == 0) || (bo.Op == token.GEQ && cnd.succ == 1) || (bo.Op == token.LEQ && cnd.succ == 0 && k >= 1)) {
				return true
			}
		}
	}
	// a range loop over b: the index is the range index
	if phiOrAdd, ok := idx.(*ssa.BinOp); ok && phiOrAdd.Op == token.ADD {
		if p, isPhi := phiOrAdd.X.(*ssa.Phi); isPhi && strings.Contains(p.Comment, "rangeindex") {
			return true
		}
	}
	if p, isPhi := idx.(*ssa.Phi); isPhi && strings.Contains(p.Comment, "rangeindex") {
		return true
	}
	return false
}
