package rules

import (
	"fmt"
	"go/constant"
	"go/token"
	"go/types"
	"math"
	"math/big"
	"strings"

	"golang.org/x/tools/go/ssa"

	"verif/checker/core"
)

// R-NARROW — protocol numbers are not silently truncated: every integer conversion to a narrower
// type of a decoded / parsed / tag-supplied quantity is dominated by range tests against the
// target type's own bounds, or its source is bounded by its parser.
func init() {
	Register(&Rule{
		ID:    "R-NARROW",
		Doc:   "every narrowing integer conversion of a protocol quantity is dominated by range tests with exactly the target type's bounds, or its source is a parser bounded by constant limits within the target range; exceptions are an explicit table",
		Props: []string{"C02", "C04", "C08", "C12", "C19", "C03", "C07"},
		Min:   map[string]int{"C02": 6, "C04": 3, "C08": 3, "C12": 2, "C19": 1},
		Run:   runNarrow,
	})
}

// narrowExceptions: function key + "from->to" → reason. Confirmed by reading.
var narrowExceptions = map[string]string{
	"json.(ParseFlags).withKind|json.Kind->json.ParseFlags": "not a protocol quantity: Kind constants are checked to fit 8 bits by R-TOKEN",
	"json.(decoder).parseUnicode|uint64->rune":              "value of exactly four hex digits (parseUintHex over a 4-byte window): at most 0xFFFF",
	"proto.(bitOrRW).Rewrite|uint64->uint32":                "payload of an sint32 field: protobuf defines 32-bit kinds as the low 32 bits of the varint, which is what the struct codec keeps too",
	"proto.structCodecOf|int->uint8":                        "sizeOfTag result: a varint is at most 10 bytes",
	"proto.structCodecOf|uintptr->uint32":                   "reflect.StructField.Offset: a Go struct larger than 4 GiB cannot be a message type",
	"thrift.(*binaryWriter).WriteMessage|int->uint32":       "encode side: length of a message name held in memory",
	"thrift.encodeFuncSliceOf$1|int->int32":                 "encode side: reflect.Value.Len of a slice held in memory",
	"thrift.encodeFuncMapOf$1|int->int32":                   "encode side: reflect.Value.Len of a map held in memory",
	"thrift.encodeFuncMapAsSetOf$1|int->int32":              "encode side: reflect.Value.Len of a map held in memory",
	"thrift.encodeInt8|int64->int8":                         "reflect.Value.Int of a value whose kind selects this codec (enum overrides are checked by R-THRIFTTYPE)",
	"thrift.encodeInt16|int64->int16":                       "reflect.Value.Int of a value whose kind selects this codec (enum overrides are checked by R-THRIFTTYPE)",
	"thrift.encodeInt32|int64->int32":                       "reflect.Value.Int of a value whose kind selects this codec (enum overrides are checked by R-THRIFTTYPE)",
	"thrift.decoderFlags|thrift.Features->thrift.flags":     "not a protocol quantity: feature bits declared in the package",
	"thrift.encoderFlags|thrift.Features->thrift.flags":     "not a protocol quantity: feature bits declared in the package",
}

func typeShort(t types.Type) string {
	return types.TypeString(t, func(p *types.Package) string { return p.Name() })
}

func intBounds(t *types.Basic, sizes types.Sizes) (lo, hi *big.Int) {
	bits := uint(sizes.Sizeof(t) * 8)
	if t.Info()&types.IsUnsigned != 0 {
		hi = new(big.Int).Sub(new(big.Int).Lsh(big.NewInt(1), bits), big.NewInt(1))
		return big.NewInt(0), hi
	}
	hi = new(big.Int).Sub(new(big.Int).Lsh(big.NewInt(1), bits-1), big.NewInt(1))
	lo = new(big.Int).Neg(new(big.Int).Lsh(big.NewInt(1), bits-1))
	return lo, hi
}

func constBig(v ssa.Value) (*big.Int, bool) {
	c, ok := v.(*ssa.Const)
	if !ok || c.Value == nil {
		return nil, false
	}
	cv := c.Value
	if cv.Kind() == constant.Float {
		cv = constant.ToInt(cv)
	}
	if cv.Kind() != constant.Int {
		return nil, false
	}
	bi, ok := new(big.Int).SetString(cv.ExactString(), 10)
	return bi, ok
}

// rangeFacts: bounds on v implied by the branch edges dominating blk.
func rangeFacts(v ssa.Value, blk *ssa.BasicBlock) (lo, hi *big.Int) {
	for _, e := range dominatingEdges(blk) {
		bo, ok := e.ifi.Cond.(*ssa.BinOp)
		if !ok {
			continue
		}
		x, y, op := bo.X, bo.Y, bo.Op
		if stripConv(y) == v || y == v {
			x, y = y, x
			switch op {
			case token.LSS:
				op = token.GTR
			case token.GTR:
				op = token.LSS
			case token.LEQ:
				op = token.GEQ
			case token.GEQ:
				op = token.LEQ
			}
		}
		if x != v {
			continue
		}
		k, ok := constBig(y)
		if !ok {
			continue
		}
		taken := e.succ == 0
		one := big.NewInt(1)
		setLo := func(n *big.Int) {
			if lo == nil || n.Cmp(lo) > 0 {
				lo = n
			}
		}
		setHi := func(n *big.Int) {
			if hi == nil || n.Cmp(hi) < 0 {
				hi = n
			}
		}
		switch {
		case op == token.LSS && !taken: // !(v < k)
			setLo(k)
		case op == token.LSS && taken:
			setHi(new(big.Int).Sub(k, one))
		case op == token.LEQ && !taken:
			setLo(new(big.Int).Add(k, one))
		case op == token.LEQ && taken:
			setHi(k)
		case op == token.GTR && !taken:
			setHi(k)
		case op == token.GTR && taken:
			setLo(new(big.Int).Add(k, one))
		case op == token.GEQ && !taken:
			setHi(new(big.Int).Sub(k, one))
		case op == token.GEQ && taken:
			setLo(k)
		}
	}
	return
}

// boundedSource: the operand is the value result of a parser called with constant limits.
func boundedSource(v ssa.Value) (lo, hi *big.Int, what string) {
	ex, ok := v.(*ssa.Extract)
	if !ok || ex.Index != 0 {
		return
	}
	call, ok := ex.Tuple.(*ssa.Call)
	if !ok {
		return
	}
	name := calleeName(call.Common())
	args := call.Common().Args
	switch {
	case strings.HasSuffix(name, ".readVarint") && len(args) == 4:
		l, ok1 := constBig(args[2])
		h, ok2 := constBig(args[3])
		if ok1 && ok2 {
			return l, h, "readVarint limits"
		}
	case strings.HasSuffix(name, ".readUvarint") && len(args) == 3:
		if h, ok := constBig(args[2]); ok {
			return big.NewInt(0), h, "readUvarint limit"
		}
	case name == "strconv.ParseInt" && len(args) == 3:
		if bits, ok := constInt(args[2]); ok && bits > 0 && bits <= 64 {
			h := new(big.Int).Sub(new(big.Int).Lsh(big.NewInt(1), uint(bits-1)), big.NewInt(1))
			l := new(big.Int).Neg(new(big.Int).Lsh(big.NewInt(1), uint(bits-1)))
			return l, h, fmt.Sprintf("strconv.ParseInt bitSize %d", bits)
		}
	case name == "strconv.ParseUint" && len(args) == 3:
		if bits, ok := constInt(args[2]); ok && bits > 0 && bits <= 64 {
			h := new(big.Int).Sub(new(big.Int).Lsh(big.NewInt(1), uint(bits)), big.NewInt(1))
			return big.NewInt(0), h, fmt.Sprintf("strconv.ParseUint bitSize %d", bits)
		}
	}
	return
}

func runNarrow(c *core.Ctx) []core.Obligation {
	b := newOb(c, "R-NARROW")
	arch := c.Cfg.GOARCH
	if arch == "" {
		arch = "amd64"
	}
	sizes := types.SizesFor("gc", arch)
	propsOf := func(fn *ssa.Function) []string {
		n := shortName(fn)
		switch {
		case strings.HasPrefix(n, "json."):
			return []string{"C02"}
		case strings.HasPrefix(n, "proto."):
			return []string{"C12", "C19", "C03", "C07"}
		case strings.HasPrefix(n, "thrift."):
			return []string{"C04", "C08"}
		}
		return nil
	}
	counts := map[string]int{}
	for _, fn := range c.RepoFunctions() {
		props := propsOf(fn)
		if props == nil {
			continue
		}
		for _, blk := range fn.Blocks {
			for _, in := range blk.Instrs {
				cv, ok := in.(*ssa.Convert)
				if !ok {
					continue
				}
				ft, ok1 := cv.X.Type().Underlying().(*types.Basic)
				tt, ok2 := cv.Type().Underlying().(*types.Basic)
				if !ok1 || !ok2 || ft.Info()&types.IsInteger == 0 || tt.Info()&types.IsInteger == 0 {
					continue
				}
				if sizes.Sizeof(tt) >= sizes.Sizeof(ft) {
					continue
				}
				if _, isC := cv.X.(*ssa.Const); isC {
					continue
				}
				// byte extraction inside emitters/formatters: only parsed quantities count for 8-bit unsigned targets
				if tt.Kind() == types.Uint8 || tt.Kind() == types.Byte {
					if _, isEx := cv.X.(*ssa.Extract); !isEx {
						continue
					}
				}
				sig := typeShort(cv.X.Type()) + "->" + typeShort(cv.Type())
				base := shortName(fn) + "|" + sig
				counts[base]++
				key := base
				if counts[base] > 1 {
					key = fmt.Sprintf("%s#%d", base, counts[base])
				}
				pos := c.InstrPos(cv)
				tlo, thi := intBounds(tt, sizes)
				// sign reinterpretation from an unsigned source of at most... handled as plain range
				lo, hi := rangeFacts(cv.X, blk)
				srcUnsigned := ft.Info()&types.IsUnsigned != 0
				if srcUnsigned && lo == nil {
					lo = big.NewInt(0)
				}
				if lo != nil && hi != nil {
					if lo.Cmp(tlo) >= 0 && hi.Cmp(thi) <= 0 {
						b.addP(props, core.Discharged, key, pos, fmt.Sprintf("dominated by range tests [%s, %s] within %s's [%s, %s]", lo, hi, typeShort(cv.Type()), tlo, thi))
					} else {
						b.addP(props, core.Violation, key, pos, fmt.Sprintf("%s converts %s to %s under range tests [%s, %s], but %s holds only [%s, %s]: values in between are stored truncated instead of being rejected", shortName(fn), typeShort(cv.X.Type()), typeShort(cv.Type()), lo, hi, typeShort(cv.Type()), tlo, thi))
					}
					continue
				}
				if slo, shi, what := boundedSource(cv.X); slo != nil {
					if slo.Cmp(tlo) >= 0 && shi.Cmp(thi) <= 0 {
						b.addP(props, core.Discharged, key, pos, fmt.Sprintf("source bounded by %s [%s, %s] within the target range", what, slo, shi))
					} else {
						b.addP(props, core.Violation, key, pos, fmt.Sprintf("%s converts to %s a value its parser bounds only by %s [%s, %s]; %s holds [%s, %s]", shortName(fn), typeShort(cv.Type()), what, slo, shi, typeShort(cv.Type()), tlo, thi))
					}
					continue
				}
				if why, ok := narrowExceptions[base]; ok {
					b.addP(props, core.Discharged, key, pos, "table: "+why)
					continue
				}
				b.addP(props, core.Violation, key, pos, fmt.Sprintf("%s converts %s (%s) to %s with no dominating range test and no bounded parser: values above %s wrap silently", shortName(fn), describeValue(cv.X), typeShort(cv.X.Type()), typeShort(cv.Type()), thi))
			}
		}
	}
	return b.out
}

var _ = math.MaxInt8

// R-BITSIZE — a value produced by strconv.ParseFloat/ParseInt/ParseUint with bit size B and then
// converted to a narrower type must have been parsed for that width: parsing at 64 bits and
// narrowing afterwards accepts out-of-range literals (1e39 into a float32 becomes +Inf) and rounds
// twice.
func init() {
	Register(&Rule{
		ID:    "R-BITSIZE",
		Doc:   "every numeric narrowing conversion whose operand originates (through tuple extraction, φ, and the returns of one level of repository callees) from strconv.ParseFloat/ParseInt/ParseUint has a constant bitSize argument equal to (floats) or not larger than (integers) the width of the target type",
		Props: []string{"C02", "C04"},
		Min:   map[string]int{"C02": 1, "C04": 1},
		Run:   runBitSize,
	})
}

// parseOrigins: strconv.Parse* calls that can produce v.
func parseOrigins(c *core.Ctx, v ssa.Value, depth int, seen map[ssa.Value]bool) []*ssa.Call {
	if v == nil || seen[v] || depth > 6 {
		return nil
	}
	seen[v] = true
	var out []*ssa.Call
	switch x := v.(type) {
	case *ssa.Extract:
		out = append(out, parseOrigins(c, x.Tuple, depth+1, seen)...)
	case *ssa.Phi:
		for _, e := range x.Edges {
			out = append(out, parseOrigins(c, e, depth+1, seen)...)
		}
	case *ssa.Convert:
		// a same-width or widening step in between does not matter
		out = append(out, parseOrigins(c, x.X, depth+1, seen)...)
	case *ssa.Call:
		n := calleeName(x.Common())
		if n == "strconv.ParseFloat" || n == "strconv.ParseInt" || n == "strconv.ParseUint" {
			return []*ssa.Call{x}
		}
		if f := staticCallee(x.Common()); f != nil && c.InRepo(f) && f.Blocks != nil {
			for _, r := range returnsOf(f) {
				for _, res := range r.Results {
					if bt, ok := res.Type().Underlying().(*types.Basic); ok && bt.Info()&types.IsNumeric != 0 {
						out = append(out, parseOrigins(c, res, depth+1, seen)...)
					}
				}
			}
		}
	}
	return out
}

func runBitSize(c *core.Ctx) []core.Obligation {
	b := newOb(c, "R-BITSIZE")
	width := func(t types.Type) (int64, bool, bool) { // bits, isFloat, ok
		bt, ok := t.Underlying().(*types.Basic)
		if !ok {
			return 0, false, false
		}
		switch bt.Kind() {
		case types.Float32:
			return 32, true, true
		case types.Float64:
			return 64, true, true
		case types.Int8, types.Uint8:
			return 8, false, true
		case types.Int16, types.Uint16:
			return 16, false, true
		case types.Int32, types.Uint32:
			return 32, false, true
		case types.Int64, types.Uint64, types.Int, types.Uint, types.Uintptr:
			return 64, false, true
		}
		return 0, false, false
	}
	for _, fn := range c.RepoFunctions() {
		if fn.Blocks == nil || fn.Synthetic != "" {
			continue
		}
		name := shortName(fn)
		var props []string
		switch {
		case strings.HasPrefix(name, "json."):
			props = []string{"C02"}
		case strings.HasPrefix(name, "thrift."):
			props = []string{"C04"}
		default:
			continue
		}
		k := 0
		for _, blk := range fn.Blocks {
			for _, in := range blk.Instrs {
				cv, ok := in.(*ssa.Convert)
				if !ok {
					continue
				}
				tw, tf, ok1 := width(cv.Type())
				sw, sf, ok2 := width(cv.X.Type())
				if !ok1 || !ok2 || tf != sf || tw >= sw {
					continue
				}
				calls := parseOrigins(c, cv.X, 0, map[ssa.Value]bool{})
				if len(calls) == 0 {
					continue
				}
				k++
				key := fmt.Sprintf("bitsize:%s#%d", name, k)
				bad := ""
				for _, call := range calls {
					args := call.Common().Args
					bits, isK := constInt(args[len(args)-1])
					switch {
					case !isK:
						bad = "a bit size that is not a constant"
					case tf && bits != tw:
						bad = fmt.Sprintf("bit size %d", bits)
					case !tf && bits > tw:
						bad = fmt.Sprintf("bit size %d", bits)
					}
				}
				if bad != "" {
					b.addP(props, core.Violation, key, c.InstrPos(cv), fmt.Sprintf("%s narrows to %s a value parsed by strconv with %s: literals beyond the target's range are accepted and wrap or become ±Inf instead of being rejected, and floats are rounded twice", name, typeShort(cv.Type()), bad))
				} else {
					b.addP(props, core.Discharged, key, c.InstrPos(cv), fmt.Sprintf("parsed with the bit size of %s", typeShort(cv.Type())))
				}
			}
		}
	}
	return b.out
}
