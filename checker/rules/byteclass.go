package rules

import (
	"fmt"
	"go/ast"
	"go/constant"
	"go/token"
	"go/types"
	"sort"
	"strings"

	"golang.org/x/tools/go/ssa"

	"verif/checker/core"
)

// R-BYTECLASS — byte classes agree between sibling scanners and with encoding/json.
// Abstract domain: exact sets of byte values (256 bits), propagated along SSA control-flow edges
// from the load of a byte; every If on a comparison of that byte with a constant splits the set.
func init() {
	Register(&Rule{
		ID:    "R-BYTECLASS",
		Doc:   "exact byte-set propagation over SSA edges (all 256 values, both HTML modes): encodeString's verbatim set = complement of escapeIndex's tail-loop and word-scan sets = encoding/json safeSet/htmlSafeSet (read from GOROOT); short escapes = {\\\\ \" \\b \\f \\n \\r \\t}; whitespace loops = {sp ht nl cr}; parseValue and Tokenizer.Next dispatch the same first bytes to the same scanners; string bodies reject exactly [0,0x20); escape letters, hex digits and decimal digits are the RFC 8259 / RFC 3339 sets",
		Props: []string{"C01", "C02", "C05", "C11", "C14", "C17", "C18"},
		Min:   map[string]int{"C01": 5, "C02": 6, "C05": 8, "C11": 1, "C14": 6, "C17": 2, "C18": 2},
		Run:   runByteClass,
	})
}

type bset [4]uint64

func (s *bset) add(b int)        { s[b>>6] |= 1 << (uint(b) & 63) }
func (s bset) has(b int) bool    { return s[b>>6]&(1<<(uint(b)&63)) != 0 }
func (s bset) union(o bset) bset { return bset{s[0] | o[0], s[1] | o[1], s[2] | o[2], s[3] | o[3]} }
func (s bset) inter(o bset) bset { return bset{s[0] & o[0], s[1] & o[1], s[2] & o[2], s[3] & o[3]} }
func (s bset) minus(o bset) bset { return bset{s[0] &^ o[0], s[1] &^ o[1], s[2] &^ o[2], s[3] &^ o[3]} }
func (s bset) empty() bool       { return s[0]|s[1]|s[2]|s[3] == 0 }
func (s bset) equal(o bset) bool { return s == o }
func fullSet() bset              { return bset{^uint64(0), ^uint64(0), ^uint64(0), ^uint64(0)} }
func rangeSet(lo, hi int) bset {
	var s bset
	for b := lo; b <= hi && b < 256; b++ {
		if b >= 0 {
			s.add(b)
		}
	}
	return s
}
func setOf(bs ...int) bset {
	var s bset
	for _, b := range bs {
		s.add(b)
	}
	return s
}
func (s bset) String() string {
	var parts []string
	for b := 0; b < 256; b++ {
		if !s.has(b) {
			continue
		}
		e := b
		for e+1 < 256 && s.has(e+1) {
			e++
		}
		show := func(x int) string {
			if x > 0x20 && x < 0x7f {
				return fmt.Sprintf("%q", rune(x))
			}
			return fmt.Sprintf("0x%02x", x)
		}
		if e == b {
			parts = append(parts, show(b))
		} else if e == b+1 {
			parts = append(parts, show(b), show(e))
		} else {
			parts = append(parts, show(b)+"-"+show(e))
		}
		b = e
	}
	return "{" + strings.Join(parts, " ") + "}"
}
func diffString(got, want bset) string {
	return fmt.Sprintf("extra %s, missing %s", got.minus(want), want.minus(got))
}

// byteKey identifies "the same byte": loads with the same base and index values.
type byteKey struct{ x, idx ssa.Value }

func byteKeyOf(v ssa.Value) (byteKey, bool) {
	v = stripByteConv(v)
	switch x := v.(type) {
	case *ssa.UnOp:
		if x.Op == token.MUL {
			if ia, ok := x.X.(*ssa.IndexAddr); ok {
				return byteKey{ia.X, ia.Index}, true
			}
		}
	case *ssa.Lookup:
		return byteKey{x.X, x.Index}, true
	case *ssa.Index:
		return byteKey{x.X, x.Index}, true
	case *ssa.Extract:
		// value of a range-over-string/bytes iteration
		return byteKey{x, nil}, true
	case *ssa.Parameter:
		return byteKey{x, nil}, true
	case *ssa.Phi:
		return byteKey{x, nil}, true
	}
	return byteKey{}, false
}

func stripByteConv(v ssa.Value) ssa.Value {
	for {
		cv, ok := v.(*ssa.Convert)
		if !ok {
			return v
		}
		v = cv.X
	}
}

// splitOn: the subsets of `in` for which cond is true / false, when cond tests the byte `key`.
func splitOn(cond ssa.Value, key byteKey, in bset, assume map[ssa.Value]bool) (t, f bset, known bool) {
	if val, ok := assume[cond]; ok {
		if val {
			return in, bset{}, true
		}
		return bset{}, in, true
	}
	if u, ok := cond.(*ssa.UnOp); ok && u.Op == token.NOT {
		ft, ff, k := splitOn(u.X, key, in, assume)
		return ff, ft, k
	}
	bo, ok := cond.(*ssa.BinOp)
	if !ok {
		return in, in, false
	}
	x, y, op := bo.X, bo.Y, bo.Op
	kx, okx := byteKeyOf(x)
	ky, oky := byteKeyOf(y)
	var k int64
	var isK bool
	switch {
	case okx && kx == key:
		k, isK = constInt(y)
	case oky && ky == key:
		k, isK = constInt(x)
		switch op {
		case token.LSS:
			op = token.GTR
		case token.GTR:
			op = token.LSS
		case token.LEQ:
			op = token.GEQ
		case token.GEQ:
			op = token.LEQ
		}
	default:
		return in, in, false
	}
	if !isK {
		return in, in, false
	}
	var tset bset
	for b := 0; b < 256; b++ {
		if !in.has(b) {
			continue
		}
		v := int64(b)
		hold := false
		switch op {
		case token.EQL:
			hold = v == k
		case token.NEQ:
			hold = v != k
		case token.LSS:
			hold = v < k
		case token.LEQ:
			hold = v <= k
		case token.GTR:
			hold = v > k
		case token.GEQ:
			hold = v >= k
		default:
			return in, in, false
		}
		if hold {
			tset.add(b)
		}
	}
	return tset, in.minus(tset), true
}

type byteFlow struct {
	in    map[*ssa.BasicBlock]bset
	edges map[edgeKey]bset
}

// propagate computes, for the byte first loaded in `start`, the set of values with which each
// block is reached, within one iteration (propagation stops at edges back into `stop` blocks).
// `clean` (optional) restricts propagation to blocks it accepts.
func propagateByte(fn *ssa.Function, key byteKey, start *ssa.BasicBlock, stop map[*ssa.BasicBlock]bool, assume map[ssa.Value]bool, clean func(*ssa.BasicBlock) bool) *byteFlow {
	bf := &byteFlow{in: map[*ssa.BasicBlock]bset{start: fullSet()}, edges: map[edgeKey]bset{}}
	work := []*ssa.BasicBlock{start}
	for len(work) > 0 {
		blk := work[0]
		work = work[1:]
		in := bf.in[blk]
		if clean != nil && blk != start && !clean(blk) {
			continue
		}
		var outs []bset
		switch n := len(blk.Instrs); {
		case n > 0:
			if ifi, ok := blk.Instrs[n-1].(*ssa.If); ok {
				// `a && b` used as a value is lowered to a φ of booleans: evaluate it per incoming edge
				if phi, isPhi := ifi.Cond.(*ssa.Phi); isPhi && phi.Block() == blk && blk != start {
					var t, f bset
					for i, e := range phi.Edges {
						es := bf.edges[edgeKey{blk.Preds[i], blk}]
						if es.empty() {
							continue
						}
						et, ef, _ := splitOn(e, key, es, assume)
						if k, isK := e.(*ssa.Const); isK && k.Value != nil {
							if constant.BoolVal(k.Value) {
								et, ef = es, bset{}
							} else {
								et, ef = bset{}, es
							}
						}
						t, f = t.union(et), f.union(ef)
					}
					outs = []bset{t, f}
					break
				}
				t, f, _ := splitOn(ifi.Cond, key, in, assume)
				outs = []bset{t, f}
				break
			}
			fallthrough
		default:
			for range blk.Succs {
				outs = append(outs, in)
			}
		}
		for i, s := range blk.Succs {
			if i >= len(outs) || outs[i].empty() {
				continue
			}
			ek := edgeKey{blk, s}
			bf.edges[ek] = bf.edges[ek].union(outs[i])
			if stop[s] {
				continue
			}
			nu := bf.in[s].union(outs[i])
			if nu != bf.in[s] {
				bf.in[s] = nu
				work = append(work, s)
			}
		}
	}
	return bf
}

// loopHeader: nearest dominator of blk that is the target of a back edge.
func loopHeader(blk *ssa.BasicBlock) *ssa.BasicBlock {
	for x := blk; x != nil; x = x.Idom() {
		for _, p := range x.Preds {
			if x.Dominates(p) {
				return x
			}
		}
	}
	return nil
}

func blockHasCall(blk *ssa.BasicBlock) bool {
	for _, in := range blk.Instrs {
		if _, ok := in.(*ssa.Call); ok {
			return true
		}
	}
	return false
}

// firstByteLoad finds the first instruction of fn (in block order) that loads a byte through an
// index expression accepted by pred.
func findByteLoads(fn *ssa.Function, pred func(v ssa.Value, key byteKey) bool) []ssa.Value {
	var out []ssa.Value
	for _, blk := range fn.Blocks {
		for _, in := range blk.Instrs {
			v, ok := in.(ssa.Value)
			if !ok {
				continue
			}
			bt, isB := v.Type().Underlying().(*types.Basic)
			if !isB || (bt.Kind() != types.Uint8 && bt.Kind() != types.Byte) {
				continue
			}
			switch in.(type) {
			case *ssa.UnOp, *ssa.Lookup, *ssa.Index:
			default:
				continue
			}
			if k, ok := byteKeyOf(v); ok && k.idx != nil && pred(v, k) {
				out = append(out, v)
			}
		}
	}
	return out
}

// stdlibBoolTable reads `var name = [N]bool{'c': true, ...}` from a loaded package.
func stdlibBoolTable(c *core.Ctx, pkgPath, name string) (bset, bool) {
	p := c.Dep(pkgPath)
	var out bset
	if p == nil {
		return out, false
	}
	for _, f := range p.Syntax {
		for _, d := range f.Decls {
			gd, ok := d.(*ast.GenDecl)
			if !ok || gd.Tok != token.VAR {
				continue
			}
			for _, s := range gd.Specs {
				vs := s.(*ast.ValueSpec)
				for i, n := range vs.Names {
					if n.Name != name || i >= len(vs.Values) {
						continue
					}
					cl, ok := vs.Values[i].(*ast.CompositeLit)
					if !ok {
						return out, false
					}
					for _, el := range cl.Elts {
						kv, ok := el.(*ast.KeyValueExpr)
						if !ok {
							return out, false
						}
						kvv, ok1 := p.TypesInfo.Types[kv.Key]
						vv, ok2 := p.TypesInfo.Types[kv.Value]
						if !ok1 || !ok2 || kvv.Value == nil || vv.Value == nil {
							return out, false
						}
						idx, _ := constant.Int64Val(kvv.Value)
						if constant.BoolVal(vv.Value) {
							out.add(int(idx))
						}
					}
					return out, true
				}
			}
		}
	}
	return out, false
}

func runByteClass(c *core.Ctx) []core.Obligation {
	b := newOb(c, "R-BYTECLASS")
	ascii := rangeSet(0, 0x7f)
	safe, ok1 := stdlibBoolTable(c, "encoding/json", "safeSet")
	htmlSafe, ok2 := stdlibBoolTable(c, "encoding/json", "htmlSafeSet")
	if !ok1 || !ok2 {
		b.addP([]string{"C01"}, core.Undecided, "oracle:safeSet", "-", "cannot read safeSet/htmlSafeSet from GOROOT/src/encoding/json")
	}
	escapeHTMLBit := jsonConst(c, "EscapeHTML")

	// ---------------- A. encodeString verbatim set
	verbatim := map[bool]bset{}
	if fn := c.Lookup("json.(encoder).encodeString"); fn != nil {
		loads := findByteLoads(fn, func(v ssa.Value, k byteKey) bool {
			return isStringType(k.x.Type()) && loopHeader(v.(ssa.Instruction).Block()) != nil
		})
		var htmlVal ssa.Value
		for _, blk := range fn.Blocks {
			for _, in := range blk.Instrs {
				if v, ok := in.(ssa.Value); ok {
					if set, ok := flagTest(v, escapeHTMLBit); ok && set {
						htmlVal = v
					}
				}
			}
		}
		if len(loads) == 0 || htmlVal == nil {
			b.addP([]string{"C01"}, core.Undecided, "escape-set:encodeString", c.FuncPos(fn), "cannot find the per-byte loop or the EscapeHTML test")
		} else {
			cv := loads[0]
			key, _ := byteKeyOf(cv)
			def := cv.(ssa.Instruction).Block()
			hdr := loopHeader(def)
			for _, html := range []bool{false, true} {
				bf := propagateByte(fn, key, def, map[*ssa.BasicBlock]bool{hdr: true}, map[ssa.Value]bool{htmlVal: html}, func(x *ssa.BasicBlock) bool { return !blockHasCall(x) })
				var vs bset
				for ek, s := range bf.edges {
					if ek.to == hdr {
						vs = vs.union(s)
					}
				}
				verbatim[html] = vs
				want := safe
				if html {
					want = htmlSafe
				}
				k := fmt.Sprintf("escape-set:encodeString:html=%v", html)
				if vs.equal(want) {
					b.addP([]string{"C01", "C14"}, core.Discharged, k, c.InstrPos(cv.(ssa.Instruction)), fmt.Sprintf("bytes copied verbatim %s = encoding/json's table", vs))
				} else {
					b.addP([]string{"C01", "C14"}, core.Violation, k, c.InstrPos(cv.(ssa.Instruction)), fmt.Sprintf("encodeString copies verbatim %s but encoding/json's table says %s: %s", vs, want, diffString(vs, want)))
				}
			}
		}
	} else {
		b.addP([]string{"C01"}, core.Undecided, "escape-set:encodeString", "-", "function not found")
	}

	// ---------------- B/C. escapeIndex tail loop and word scan
	if fn := c.Lookup("json.escapeIndex"); fn != nil {
		var htmlParam *ssa.Parameter
		for _, p := range fn.Params {
			if isBoolType(p.Type()) {
				htmlParam = p
			}
		}
		loads := findByteLoads(fn, func(v ssa.Value, k byteKey) bool { return isStringType(k.x.Type()) })
		if htmlParam == nil || len(loads) == 0 {
			b.addP([]string{"C01"}, core.Undecided, "escape-set:escapeIndex", c.FuncPos(fn), "cannot find the tail loop or the html parameter")
		} else {
			cv := loads[0]
			key, _ := byteKeyOf(cv)
			def := cv.(ssa.Instruction).Block()
			hdr := loopHeader(def)
			for _, html := range []bool{false, true} {
				bf := propagateByte(fn, key, def, map[*ssa.BasicBlock]bool{hdr: true}, map[ssa.Value]bool{htmlParam: html}, nil)
				var esc bset
				for blk, s := range bf.in {
					if n := len(blk.Instrs); n > 0 {
						if _, ok := blk.Instrs[n-1].(*ssa.Return); ok {
							esc = esc.union(s)
						}
					}
				}
				want := fullSet().minus(verbatim[html])
				k := fmt.Sprintf("escape-set:escapeIndex-tail:html=%v", html)
				if esc.equal(want) {
					b.addP([]string{"C01", "C14"}, core.Discharged, k, c.InstrPos(cv.(ssa.Instruction)), "tail loop stops exactly on the bytes encodeString does not copy verbatim")
				} else {
					b.addP([]string{"C01", "C14"}, core.Violation, k, c.InstrPos(cv.(ssa.Instruction)), fmt.Sprintf("escapeIndex's tail loop stops on %s but encodeString escapes %s (%s): strings of 8 bytes or more whose offending byte falls in the last len%%8 bytes are emitted unescaped or split wrongly", esc, want, diffString(esc, want)))
				}
				// word scan
				ws := rangeSet(0x80, 0xff)
				found := false
				for _, blk := range fn.Blocks {
					htmlOnly := false
					for _, e := range dominatingEdges(blk) {
						if e.ifi.Cond == ssa.Value(htmlParam) && e.succ == 0 {
							htmlOnly = true
						}
					}
					if htmlOnly && !html {
						continue
					}
					for _, in := range blk.Instrs {
						call, ok := in.(*ssa.Call)
						if !ok {
							continue
						}
						f := staticCallee(call.Common())
						if f == nil || len(call.Common().Args) != 2 {
							continue
						}
						k, isK := constInt(call.Common().Args[1])
						if !isK {
							continue
						}
						switch f.Name() {
						case "below":
							ws = ws.union(rangeSet(0, int(k)-1))
							found = true
						case "contains":
							ws = ws.union(setOf(int(k)))
							found = true
						}
					}
				}
				k2 := fmt.Sprintf("escape-set:escapeIndex-words:html=%v", html)
				switch {
				case !found:
					b.addP([]string{"C01", "C14"}, core.Undecided, k2, c.FuncPos(fn), "no below()/contains() mask found in the word scan")
				case ws.equal(want):
					b.addP([]string{"C01", "C14"}, core.Discharged, k2, c.FuncPos(fn), "word scan flags exactly the bytes encodeString escapes (below/contains helpers trusted)")
				default:
					b.addP([]string{"C01", "C14"}, core.Violation, k2, c.FuncPos(fn), fmt.Sprintf("escapeIndex's 8-byte scan flags %s but encodeString escapes %s (%s)", ws, want, diffString(ws, want)))
				}
			}
		}
	} else {
		b.addP([]string{"C01"}, core.Undecided, "escape-set:escapeIndex", "-", "function not found")
	}
	_ = ascii

	// ---------------- D. short escapes
	if fn := c.Lookup("json.escapeByteRepr"); fn != nil && len(fn.Params) == 1 {
		key := byteKey{fn.Params[0], nil}
		bf := propagateByte(fn, key, fn.Blocks[0], nil, nil, nil)
		var short bset
		for blk, s := range bf.in {
			if n := len(blk.Instrs); n > 0 {
				if r, ok := blk.Instrs[n-1].(*ssa.Return); ok {
					if k, isK := constInt(r.Results[0]); !isK || k != 0 {
						short = short.union(s)
					}
				}
			}
		}
		want := setOf('\\', '"', '\b', '\f', '\n', '\r', '\t')
		if short.equal(want) {
			b.addP([]string{"C01"}, core.Discharged, "short-escapes", c.FuncPos(fn), "two-character escapes for "+short.String())
		} else {
			b.addP([]string{"C01"}, core.Violation, "short-escapes", c.FuncPos(fn), fmt.Sprintf("escapeByteRepr has a short escape for %s; encoding/json uses %s (%s)", short, want, diffString(short, want)))
		}
	}

	// ---------------- E. whitespace loops
	space := setOf(' ', '\t', '\n', '\r')
	wsLoop := func(fnKey string, props []string) {
		fn := c.Lookup(fnKey)
		k := "whitespace:" + fnKey
		if fn == nil {
			b.addP(props, core.Undecided, k, "-", "function not found")
			return
		}
		loads := findByteLoads(fn, func(v ssa.Value, key byteKey) bool { return loopHeader(v.(ssa.Instruction).Block()) != nil })
		if len(loads) == 0 {
			b.addP(props, core.Undecided, k, c.FuncPos(fn), "no per-byte loop found")
			return
		}
		cv := loads[0]
		key, _ := byteKeyOf(cv)
		def := cv.(ssa.Instruction).Block()
		hdr := loopHeader(def)
		bf := propagateByte(fn, key, def, map[*ssa.BasicBlock]bool{hdr: true}, nil, func(x *ssa.BasicBlock) bool {
			if n := len(x.Instrs); n > 0 {
				if _, isRet := x.Instrs[n-1].(*ssa.Return); isRet {
					return false
				}
			}
			return true
		})
		var cont bset
		for ek, s := range bf.edges {
			if ek.to == hdr && hdr.Dominates(ek.from) {
				cont = cont.union(s)
			}
		}
		if cont.equal(space) {
			b.addP(props, core.Discharged, k, c.InstrPos(cv.(ssa.Instruction)), "loop continues exactly on "+space.String()+" (= encoding/json isSpace)")
		} else {
			b.addP(props, core.Violation, k, c.InstrPos(cv.(ssa.Instruction)), fmt.Sprintf("%s skips %s; JSON whitespace is %s (%s)", fnKey, cont, space, diffString(cont, space)))
		}
	}
	wsLoop("json.skipSpacesN", []string{"C02", "C05", "C11"})
	wsLoop("json.trimTrailingSpacesN", []string{"C02", "C05"})
	wsLoop("json.(*Tokenizer).Next", []string{"C17", "C05"})

	// ---------------- F. value dispatch
	dispatch := func(fnKey string) (map[string]bset, ssa.Value, *ssa.Function) {
		fn := c.Lookup(fnKey)
		if fn == nil {
			return nil, nil, nil
		}
		loads := findByteLoads(fn, func(v ssa.Value, key byteKey) bool {
			k, ok := constInt(key.idx)
			return ok && k == 0
		})
		if len(loads) == 0 {
			return nil, nil, fn
		}
		// the dispatching load: the one most conditions refer to
		best, bestN := loads[0], -1
		for _, l := range loads {
			k, _ := byteKeyOf(l)
			n := 0
			for _, blk := range fn.Blocks {
				if m := len(blk.Instrs); m > 0 {
					if ifi, ok := blk.Instrs[m-1].(*ssa.If); ok {
						if _, _, known := splitOn(ifi.Cond, k, fullSet(), nil); known {
							n++
						}
					}
				}
			}
			if n > bestN {
				best, bestN = l, n
			}
		}
		key, _ := byteKeyOf(best)
		bf := propagateByte(fn, key, best.(ssa.Instruction).Block(), nil, nil, nil)
		out := map[string]bset{}
		for blk, s := range bf.in {
			for _, in := range blk.Instrs {
				call, ok := in.(*ssa.Call)
				if !ok {
					continue
				}
				f := staticCallee(call.Common())
				if f == nil || !strings.HasPrefix(f.Name(), "parse") {
					continue
				}
				out[f.Name()] = out[f.Name()].union(s)
			}
		}
		return out, best, fn
	}
	wantDispatch := map[string]bset{
		"parseObject": setOf('{'), "parseArray": setOf('['), "parseString": setOf('"'),
		"parseNull": setOf('n'), "parseTrue": setOf('t'), "parseFalse": setOf('f'),
		"parseNumber": setOf('-').union(rangeSet('0', '9')),
	}
	pv, pvLoad, pvFn := dispatch("json.(decoder).parseValue")
	if pv == nil {
		b.addP([]string{"C05", "C02"}, core.Undecided, "dispatch:parseValue", "-", "cannot extract parseValue's first-byte dispatch")
	} else {
		var bad []string
		for _, name := range sortedKeys(wantDispatch) {
			if !pv[name].equal(wantDispatch[name]) {
				bad = append(bad, fmt.Sprintf("%s on %s (RFC 8259: %s)", name, pv[name], wantDispatch[name]))
			}
		}
		for name := range pv {
			if _, ok := wantDispatch[name]; !ok {
				bad = append(bad, "unexpected scanner "+name+" on "+pv[name].String())
			}
		}
		sort.Strings(bad)
		if len(bad) > 0 {
			b.addP([]string{"C05", "C02"}, core.Violation, "dispatch:parseValue", c.InstrPos(pvLoad.(ssa.Instruction)), "parseValue dispatches "+strings.Join(bad, "; "))
		} else {
			b.addP([]string{"C05", "C02"}, core.Discharged, "dispatch:parseValue", c.FuncPos(pvFn), "first byte → scanner partition equals the RFC 8259 value grammar")
		}
	}
	tk, tkLoad, tkFn := dispatch("json.(*Tokenizer).Next")
	if tk == nil {
		b.addP([]string{"C17"}, core.Undecided, "dispatch:Tokenizer.Next", "-", "cannot extract Tokenizer.Next's first-byte dispatch")
	} else {
		var bad []string
		for _, name := range []string{"parseString", "parseNull", "parseTrue", "parseFalse", "parseNumber"} {
			if !tk[name].equal(wantDispatch[name]) {
				bad = append(bad, fmt.Sprintf("%s on %s (validator: %s)", name, tk[name], wantDispatch[name]))
			}
		}
		if len(bad) > 0 {
			b.addP([]string{"C17", "C05"}, core.Violation, "dispatch:Tokenizer.Next", c.InstrPos(tkLoad.(ssa.Instruction)), "Tokenizer.Next dispatches "+strings.Join(bad, "; "))
		} else {
			b.addP([]string{"C17", "C05"}, core.Discharged, "dispatch:Tokenizer.Next", c.FuncPos(tkFn), "scalar tokens are dispatched on the same first bytes as the validator")
		}
	}

	// ---------------- G. string body and escape letters
	if fn := c.Lookup("json.(decoder).parseString"); fn != nil {
		// the slow loop: loads inside a loop, indexed by a φ
		loads := findByteLoads(fn, func(v ssa.Value, key byteKey) bool {
			_, isPhi := key.idx.(*ssa.Phi)
			return isPhi && loopHeader(v.(ssa.Instruction).Block()) != nil
		})
		if len(loads) == 0 {
			b.addP([]string{"C05", "C02"}, core.Undecided, "string-body:parseString", c.FuncPos(fn), "slow loop not found")
		} else {
			cv := loads[0]
			key, _ := byteKeyOf(cv)
			def := cv.(ssa.Instruction).Block()
			hdr := loopHeader(def)
			bf := propagateByte(fn, key, def, map[*ssa.BasicBlock]bool{hdr: true}, nil, nil)
			var rej bset
			for blk, s := range bf.in {
				if n := len(blk.Instrs); n > 0 {
					if r, ok := blk.Instrs[n-1].(*ssa.Return); ok && !isNilConst(r.Results[len(r.Results)-1]) {
						rej = rej.union(s)
					}
				}
			}
			rej = rej.minus(setOf('\\'))
			want := rangeSet(0, 0x1f)
			if rej.equal(want) {
				b.addP([]string{"C05", "C02"}, core.Discharged, "string-body:parseString", c.InstrPos(cv.(ssa.Instruction)), "raw bytes rejected inside strings: exactly [0x00,0x1f]")
			} else {
				b.addP([]string{"C05", "C02"}, core.Violation, "string-body:parseString", c.InstrPos(cv.(ssa.Instruction)), fmt.Sprintf("parseString rejects raw %s inside strings; RFC 8259 forbids %s (%s)", rej, want, diffString(rej, want)))
			}
			// escape letters: the byte loaded after the backslash
			for _, l2 := range findByteLoads(fn, func(v ssa.Value, k2 byteKey) bool {
				_, isPhi := k2.idx.(*ssa.Phi)
				return !isPhi && k2.x == key.x && v != cv
			}) {
				k2, _ := byteKeyOf(l2)
				def2 := l2.(ssa.Instruction).Block()
				ok := false
				for _, e := range dominatingEdges(def2) {
					if t, _, known := splitOn(e.ifi.Cond, key, fullSet(), nil); known && e.succ == 0 && t.equal(setOf('\\')) {
						ok = true
					}
				}
				if !ok {
					continue
				}
				bf2 := propagateByte(fn, k2, def2, map[*ssa.BasicBlock]bool{hdr: true}, nil, nil)
				var rej2 bset
				for blk, s := range bf2.in {
					if n := len(blk.Instrs); n > 0 {
						if r, ok := blk.Instrs[n-1].(*ssa.Return); ok && !isNilConst(r.Results[len(r.Results)-1]) {
							// error returns that do not depend on a later byte
							if !blockHasCallNamed(blk, "parseUnicode") && !dominatedByCall(blk, "parseUnicode") {
								rej2 = rej2.union(s)
							}
						}
					}
				}
				acc := fullSet().minus(rej2)
				wantEsc := setOf('"', '\\', '/', 'b', 'f', 'n', 'r', 't', 'u')
				if acc.equal(wantEsc) {
					b.addP([]string{"C05", "C02"}, core.Discharged, "escape-letters:parseString", c.InstrPos(l2.(ssa.Instruction)), "escape letters accepted: "+acc.String())
				} else {
					b.addP([]string{"C05", "C02"}, core.Violation, "escape-letters:parseString", c.InstrPos(l2.(ssa.Instruction)), fmt.Sprintf("parseString accepts the escape letters %s; RFC 8259 defines %s (%s)", acc, wantEsc, diffString(acc, wantEsc)))
				}
				break
			}
		}
	}

	// ---------------- H. digits
	digits := rangeSet('0', '9')
	if fn := c.Lookup("iso8601.isDigit"); fn != nil && len(fn.Params) == 1 {
		got, ok := predicateTrueSet(fn)
		switch {
		case !ok:
			b.addP([]string{"C18"}, core.Undecided, "digits:iso8601.isDigit", c.FuncPos(fn), "cannot evaluate the predicate")
		case got.equal(digits):
			b.addP([]string{"C18"}, core.Discharged, "digits:iso8601.isDigit", c.FuncPos(fn), "isDigit holds exactly on '0'-'9'")
		default:
			b.addP([]string{"C18"}, core.Violation, "digits:iso8601.isDigit", c.FuncPos(fn), fmt.Sprintf("isDigit holds on %s, not on the decimal digits (%s)", got, diffString(got, digits)))
		}
	}
	if fn := c.Lookup("iso8601.Parse"); fn != nil {
		// the fraction loop: a per-byte loop over a slice of the input
		loads := findByteLoads(fn, func(v ssa.Value, key byteKey) bool { return loopHeader(v.(ssa.Instruction).Block()) != nil })
		if len(loads) == 0 {
			b.addP([]string{"C18"}, core.Undecided, "digits:iso8601.Parse-fraction", c.FuncPos(fn), "fraction loop not found")
		} else {
			cv := loads[0]
			key, _ := byteKeyOf(cv)
			def := cv.(ssa.Instruction).Block()
			hdr := loopHeader(def)
			bf := propagateByte(fn, key, def, map[*ssa.BasicBlock]bool{hdr: true}, nil, nil)
			var cont bset
			for ek, s := range bf.edges {
				if ek.to == hdr && hdr.Dominates(ek.from) {
					cont = cont.union(s)
				}
			}
			if cont.equal(digits) {
				b.addP([]string{"C18"}, core.Discharged, "digits:iso8601.Parse-fraction", c.InstrPos(cv.(ssa.Instruction)), "fraction bytes accumulated only when in '0'-'9'")
			} else {
				b.addP([]string{"C18"}, core.Violation, "digits:iso8601.Parse-fraction", c.InstrPos(cv.(ssa.Instruction)), fmt.Sprintf("the fraction loop of the fast path accumulates %s as digits (%s): timestamps that time.Parse rejects are accepted", cont, diffString(cont, digits)))
			}
		}
	}

	// ---------------- I. hex digits
	if fn := c.Lookup("json.(decoder).parseUintHex"); fn != nil {
		loads := findByteLoads(fn, func(v ssa.Value, key byteKey) bool { return loopHeader(v.(ssa.Instruction).Block()) != nil })
		if len(loads) == 0 {
			b.addP([]string{"C05", "C02"}, core.Undecided, "hex-digits:parseUintHex", c.FuncPos(fn), "digit loop not found")
		} else {
			cv := loads[0]
			key, _ := byteKeyOf(cv)
			def := cv.(ssa.Instruction).Block()
			hdr := loopHeader(def)
			bf := propagateByte(fn, key, def, map[*ssa.BasicBlock]bool{hdr: true}, nil, nil)
			var cont bset
			for ek, s := range bf.edges {
				if ek.to == hdr && hdr.Dominates(ek.from) {
					cont = cont.union(s)
				}
			}
			want := rangeSet('0', '9').union(rangeSet('a', 'f')).union(rangeSet('A', 'F'))
			if cont.equal(want) {
				b.addP([]string{"C05", "C02"}, core.Discharged, "hex-digits:parseUintHex", c.InstrPos(cv.(ssa.Instruction)), "hex digits accumulated: "+cont.String())
			} else {
				b.addP([]string{"C05", "C02"}, core.Violation, "hex-digits:parseUintHex", c.InstrPos(cv.(ssa.Instruction)), fmt.Sprintf("parseUintHex accumulates %s (%s)", cont, diffString(cont, want)))
			}
		}
	}
	return b.out
}

func blockHasCallNamed(blk *ssa.BasicBlock, name string) bool {
	for _, in := range blk.Instrs {
		if call, ok := in.(*ssa.Call); ok {
			if f := staticCallee(call.Common()); f != nil && f.Name() == name {
				return true
			}
		}
	}
	return false
}

func dominatedByCall(blk *ssa.BasicBlock, name string) bool {
	for x := blk.Idom(); x != nil; x = x.Idom() {
		if blockHasCallNamed(x, name) {
			return true
		}
	}
	return false
}

// predicateTrueSet evaluates a small boolean predicate on one byte parameter: the set of values
// for which it returns true (constants and φ of constants at the return).
func predicateTrueSet(fn *ssa.Function) (bset, bool) {
	key := byteKey{fn.Params[0], nil}
	bf := propagateByte(fn, key, fn.Blocks[0], nil, nil, nil)
	var out bset
	for _, r := range returnsOf(fn) {
		blk := r.Block()
		switch v := r.Results[0].(type) {
		case *ssa.Const:
			if v.Value != nil && constant.BoolVal(v.Value) {
				out = out.union(bf.in[blk])
			}
		case *ssa.Phi:
			for i, e := range v.Edges {
				pred := v.Block().Preds[i]
				s := bf.edges[edgeKey{pred, v.Block()}]
				switch ev := e.(type) {
				case *ssa.Const:
					if ev.Value != nil && constant.BoolVal(ev.Value) {
						out = out.union(s)
					}
				case *ssa.BinOp:
					t, _, known := splitOn(ev, key, s, nil)
					if !known {
						return out, false
					}
					out = out.union(t)
				default:
					return out, false
				}
			}
		case *ssa.BinOp:
			t, _, known := splitOn(v, key, bf.in[blk], nil)
			if !known {
				return out, false
			}
			out = out.union(t)
		default:
			return out, false
		}
	}
	return out, true
}
