package rules

import (
	"fmt"
	"go/token"
	"go/types"
	"sort"
	"strings"

	"golang.org/x/tools/go/ssa"

	"verif/checker/core"
)

// R-WINDOW — slices fabricated over raw memory. proto, json and iso8601 build slice headers by hand
// (sliceHeader{Data, Len, Cap}) to view a destination value or a string as bytes. Such a window is
// as long as its Len says, whatever the memory behind Data holds: a length that comes from the
// input (the size of a payload) turns copy() into a write past the destination. The length of
// every fabricated window must be the length of the very object Data points into (len(s) for a
// view of s, len(b)/8 for a view of b in words) or a quantity fixed by the Go type (a constant,
// Type.Size(), Type.Len(), products of those), traced through helper parameters, closures and
// descriptor fields.
func init() {
	Register(&Rule{
		ID:    "R-WINDOW",
		Doc:   "every hand-built slice header (composite literal of a struct with fields Data unsafe.Pointer, Len, Cap) in the repository: the values stored in Len and Cap are (a) len(x) or len(x) divided by a constant where Data is derived from the same x, (b) the element count of the array freshly allocated behind Data (reflect.ArrayOf(n, …)), or (c) fixed by the Go type — constants, reflect.Type.Size()/Len(), their products, read through parameters (every call site), captured variables (every closure creation) and descriptor fields (every store); a length that derives from anything else (the length of a decoded payload) is a violation",
		Props: []string{"C07", "C06", "C18", "C16", "C10"},
		Min:   map[string]int{"C07": 2, "C06": 2, "C18": 1},
		Run:   runWindow,
	})
}

func runWindow(c *core.Ctx) []core.Obligation {
	b := newOb(c, "R-WINDOW")
	fns := c.RepoFunctions()
	sort.Slice(fns, func(i, j int) bool { return shortName(fns[i]) < shortName(fns[j]) })
	tr := newOffTracer(c)
	n := 0
	for _, fn := range fns {
		if fn.Blocks == nil || fn.Pkg == nil || fn.Synthetic != "" {
			continue
		}
		var props []string
		switch fn.Pkg.Pkg.Name() {
		case "proto":
			props = []string{"C07", "C16"}
		case "json":
			props = []string{"C06", "C10"}
		case "iso8601":
			props = []string{"C18"}
		case "thrift":
			props = []string{"C07"} // none today; reported under memory safety of the binary codecs
		default:
			continue
		}
		count := 0
		for _, blk := range fn.Blocks {
			for _, in := range blk.Instrs {
				al, ok := in.(*ssa.Alloc)
				if !ok {
					continue
				}
				st, ok := al.Type().Underlying().(*types.Pointer).Elem().Underlying().(*types.Struct)
				if !ok || !isSliceHeaderStruct(st) {
					continue
				}
				var data ssa.Value
				lens := map[string]ssa.Value{}
				for _, ref := range *al.Referrers() {
					fa, ok := ref.(*ssa.FieldAddr)
					if !ok {
						continue
					}
					for _, r2 := range *fa.Referrers() {
						if s, ok := r2.(*ssa.Store); ok && s.Addr == ssa.Value(fa) {
							name := st.Field(fa.Field).Name()
							if strings.EqualFold(name, "Data") {
								data = s.Val
							} else {
								lens[name] = s.Val
							}
						}
					}
				}
				if len(lens) == 0 {
					continue
				}
				count++
				names := make([]string, 0, len(lens))
				for k := range lens {
					names = append(names, k)
				}
				sort.Strings(names)
				for _, fname := range names {
					n++
					key := fmt.Sprintf("window:%s#%d:%s", shortName(fn), count, fname)
					why, site := windowLen(c, tr, lens[fname], data, fn, 0)
					if why == "" {
						b.addP(props, core.Discharged, key, c.InstrPos(al), "the window is as long as the object it views, or as the Go type says")
					} else {
						pos := c.InstrPos(al)
						if site != "" {
							pos = site
						}
						b.addP(props, core.Violation, key, pos, fmt.Sprintf("%s fabricates a slice over raw memory whose %s %s: the window extends past the object behind Data whenever that quantity exceeds it, and copy() or a loop over the window then reads or writes the neighbouring memory (a payload longer than the destination array overwrites the fields that follow it)", shortName(fn), fname, why))
					}
				}
			}
		}
	}
	if n == 0 {
		b.addP([]string{"C07", "C06", "C18"}, core.Undecided, "window:-", "-", "no hand-built slice header found")
	}
	return b.out
}

func isSliceHeaderStruct(st *types.Struct) bool {
	if st.NumFields() != 3 {
		return false
	}
	hasData, hasLen := false, false
	for i := 0; i < 3; i++ {
		f := st.Field(i)
		switch {
		case strings.EqualFold(f.Name(), "Data"):
			hasData = true
		case strings.EqualFold(f.Name(), "Len"):
			hasLen = true
		}
	}
	return hasData && hasLen
}

// windowLen decides one length value against the Data value of the same header, in fn. It returns
// "" when the length is sound, else a description (and the call site where the offending value
// enters).
func windowLen(c *core.Ctx, tr *offTracer, ln, data ssa.Value, fn *ssa.Function, depth int) (string, string) {
	if depth > 6 {
		return "cannot be traced (helper nesting too deep)", ""
	}
	// strip conversions and divisions by constants
	for {
		switch x := ln.(type) {
		case *ssa.Convert:
			ln = x.X
			continue
		case *ssa.ChangeType:
			ln = x.X
			continue
		case *ssa.BinOp:
			if k, ok := constInt(x.Y); ok && k >= 1 && (x.Op == token.QUO || x.Op == token.SHR) {
				ln = x.X
				continue
			}
		}
		break
	}
	if _, ok := ln.(*ssa.Const); ok {
		return "", ""
	}
	if of, ok := lenArg(ln); ok {
		if data != nil && windowSameObject(data, of) {
			return "", ""
		}
		return "is the length of another object (" + describeVal(of) + ") than the one Data points into", ""
	}
	// a window over an array allocated for that many elements: reflect.New(reflect.ArrayOf(n, …))
	if data != nil && dependsOn(data, func(x ssa.Value) bool {
		call, ok := x.(*ssa.Call)
		return ok && calleeName(call.Common()) == "reflect.ArrayOf" && len(call.Call.Args) == 2 && stripConv(call.Call.Args[0]) == ln
	}) {
		return "", ""
	}
	if p, ok := ln.(*ssa.Parameter); ok && p.Parent() == fn {
		li, di := -1, -1
		for i, q := range fn.Params {
			if q == p {
				li = i
			}
			if data != nil && ssa.Value(q) == stripConv(data) {
				di = i
			}
		}
		node := c.CallGraph().Nodes[fn]
		seen := 0
		if node != nil {
			for _, e := range node.In {
				if e.Site == nil || e.Site.Common().IsInvoke() {
					continue
				}
				args := e.Site.Common().Args
				if li >= len(args) {
					continue
				}
				seen++
				var d ssa.Value
				if di >= 0 && di < len(args) {
					d = args[di]
				}
				if why, site := windowLen(c, tr, args[li], d, e.Site.Parent(), depth+1); why != "" {
					if site == "" {
						site = c.InstrPos(e.Site)
					}
					return why, site
				}
			}
		}
		if seen == 0 {
			return "", "" // a helper nobody calls builds no window
		}
		return "", ""
	}
	// anything else: fixed by the type?
	sub := &offTracer{c: c, seen: map[ssa.Value]bool{}, seenFld: map[string]bool{}, stores: tr.stores, gstores: tr.gstores, astores: tr.astores, closers: tr.closers, leaves: map[string]bool{}}
	sub.trace(ln, 0)
	var bad []string
	for l := range sub.leaves {
		switch l {
		case "const", "size", "scaled", "array-len":
		default:
			bad = append(bad, strings.TrimPrefix(l, "other:"))
		}
	}
	if len(bad) == 0 {
		return "", ""
	}
	sort.Strings(bad)
	return "is not fixed by the Go type (it derives from: " + strings.Join(bad, "; ") + ")", ""
}

// windowSameObject: data points into the object whose length is taken: it is computed from of
// (&of[0]) or both are read from the same local cell (the address-taken string of
// *(*unsafe.Pointer)(unsafe.Pointer(&s))).
func windowSameObject(data, of ssa.Value) bool {
	if dependsOn(data, func(x ssa.Value) bool { return x == of }) {
		return true
	}
	if ld, ok := of.(*ssa.UnOp); ok && ld.Op == token.MUL {
		if dependsOn(data, func(x ssa.Value) bool { return x == ld.X }) {
			return true
		}
	}
	return false
}

func describeVal(v ssa.Value) string {
	switch x := v.(type) {
	case *ssa.Extract:
		if call, ok := x.Tuple.(*ssa.Call); ok {
			return "a result of " + calleeName(call.Common())
		}
	case *ssa.Parameter:
		return "parameter " + x.Name()
	case *ssa.Call:
		return "the result of " + calleeName(x.Common())
	}
	return v.Name()
}
