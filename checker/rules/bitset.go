package rules

import (
	"fmt"
	"go/token"
	"go/types"
	"sort"
	"strings"

	"golang.org/x/tools/go/ssa"

	"verif/checker/core"
)

// R-BITSET — a []uint64 bitset indexed with i/64 is allocated with a ceiling division over the
// same index space that bounds i.
func init() {
	Register(&Rule{
		ID:    "R-BITSET",
		Doc:   "every []uint64 indexed by i/64 is allocated as ceil(len(X)/64) (or len of such a bitset, or a ceiling helper) over the same X that bounds i at the indexing site",
		Props: []string{"C04", "C08", "C19"},
		Min:   map[string]int{"C04": 2, "C08": 2, "C19": 2},
		Run:   runBitset,
	})
}

func isBitsetType(t types.Type) bool {
	s, ok := t.Underlying().(*types.Slice)
	if !ok {
		return false
	}
	b, ok := s.Elem().Underlying().(*types.Basic)
	return ok && b.Kind() == types.Uint64
}

// wordIndex recognises q = i/64 (or i>>6), directly or as a result of a static helper whose k-th
// result is param/64; returns i.
func wordIndex(q ssa.Value) (ssa.Value, bool) {
	switch x := q.(type) {
	case *ssa.BinOp:
		if k, ok := constInt(x.Y); ok && ((x.Op == token.QUO && k == 64) || (x.Op == token.SHR && k == 6)) {
			return x.X, true
		}
	case *ssa.Extract:
		call, ok := x.Tuple.(*ssa.Call)
		if !ok {
			return nil, false
		}
		f := staticCallee(call.Common())
		if f == nil || f.Blocks == nil {
			return nil, false
		}
		for _, r := range returnsOf(f) {
			if x.Index < len(r.Results) {
				if i, ok := wordIndex(r.Results[x.Index]); ok {
					if p, ok := i.(*ssa.Parameter); ok {
						for j, fp := range f.Params {
							if fp == p && j < len(call.Common().Args) {
								return call.Common().Args[j], true
							}
						}
					}
				}
			}
		}
	}
	return nil, false
}

type bitsetSite struct {
	fn *ssa.Function
	at ssa.Instruction
	s  ssa.Value
	i  ssa.Value
}

// upperBound finds, among the branch edges dominating blk, a bound i < len(X) (returns X), or a
// dominating indexing Z[i] of another slice with the same index (returns Z).
func upperBoundOf(i ssa.Value, at ssa.Instruction) (ssa.Value, string) {
	for _, e := range dominatingEdges(at.Block()) {
		bo, ok := e.ifi.Cond.(*ssa.BinOp)
		if !ok {
			continue
		}
		var lim ssa.Value
		switch {
		case bo.Op == token.LSS && bo.X == i && e.succ == 0, bo.Op == token.GEQ && bo.X == i && e.succ == 1:
			lim = bo.Y
		case bo.Op == token.GTR && bo.Y == i && e.succ == 0, bo.Op == token.LEQ && bo.Y == i && e.succ == 1:
			lim = bo.X
		}
		if lim == nil {
			continue
		}
		if call, ok := lim.(*ssa.Call); ok {
			if bi, ok := call.Common().Value.(*ssa.Builtin); ok && bi.Name() == "len" {
				return call.Common().Args[0], "i < len(X)"
			}
		}
	}
	// prior indexing with the same index
	fn := at.Parent()
	for _, b := range fn.Blocks {
		for _, in := range b.Instrs {
			ia, ok := in.(*ssa.IndexAddr)
			if !ok || ia.Index != i || isBitsetType(ia.X.Type()) {
				continue
			}
			if _, isSlice := ia.X.Type().Underlying().(*types.Slice); isSlice && instrDominates(ia, at) {
				return ia.X, "X[i] indexed before"
			}
		}
	}
	return nil, ""
}

// sourceID names where a slice value comes from, for comparing index spaces.
func sourceID(v ssa.Value) []string {
	ids := map[string]bool{}
	for _, o := range origins(v) {
		if f, ok := fieldOfLoad(o); ok {
			ids["field "+f] = true
			continue
		}
		switch x := o.(type) {
		case *ssa.Parameter:
			ids["param "+shortName(x.Parent())+"."+x.Name()] = true
		case *ssa.MakeSlice:
			ids["local make in "+shortName(x.Parent())] = true
		case *ssa.Call:
			ids["local value built in "+shortName(x.Parent())] = true
		case *ssa.Slice:
			for _, s := range sourceID(x.X) {
				ids[s] = true
			}
		default:
			ids["local value in "+shortName(o.Parent())] = true
		}
	}
	return sortedKeys(ids)
}

func lenArg(v ssa.Value) (ssa.Value, bool) {
	call, ok := v.(*ssa.Call)
	if !ok {
		return nil, false
	}
	if bi, ok := call.Common().Value.(*ssa.Builtin); ok && bi.Name() == "len" {
		return call.Common().Args[0], true
	}
	return nil, false
}

// ceilOf recognises E = ceil(n/64) for some base n and returns n: (n+k)/64 with k>=63, n/64+c with c>=1.
func ceilOf(e ssa.Value) (ssa.Value, bool) {
	bo, ok := e.(*ssa.BinOp)
	if !ok {
		return nil, false
	}
	switch bo.Op {
	case token.QUO, token.SHR:
		k, ok := constInt(bo.Y)
		if !ok || (bo.Op == token.QUO && k != 64) || (bo.Op == token.SHR && k != 6) {
			return nil, false
		}
		if add, ok := bo.X.(*ssa.BinOp); ok && add.Op == token.ADD {
			if c, ok := constInt(add.Y); ok && c >= 63 {
				return add.X, true
			}
			if c, ok := constInt(add.X); ok && c >= 63 {
				return add.Y, true
			}
		}
	case token.ADD:
		for _, pair := range [][2]ssa.Value{{bo.X, bo.Y}, {bo.Y, bo.X}} {
			if c, ok := constInt(pair[1]); ok && c >= 1 {
				if q, ok := pair[0].(*ssa.BinOp); ok {
					if k, ok := constInt(q.Y); ok && ((q.Op == token.QUO && k == 64) || (q.Op == token.SHR && k == 6)) {
						base := q.X
						if add, ok := base.(*ssa.BinOp); ok && add.Op == token.ADD {
							if c2, ok := constInt(add.Y); ok && c2 >= 0 {
								base = add.X
							}
						}
						return base, true
					}
				}
			}
		}
	}
	return nil, false
}

// floorOf recognises n/64.
func floorOf(e ssa.Value) (ssa.Value, bool) {
	if bo, ok := e.(*ssa.BinOp); ok {
		if k, ok := constInt(bo.Y); ok && ((bo.Op == token.QUO && k == 64) || (bo.Op == token.SHR && k == 6)) {
			return bo.X, true
		}
	}
	return nil, false
}

// helperIsCeiling decides whether f(n) returns a bitset of ceil(n/64) words.
func helperIsCeiling(f *ssa.Function) (ok bool, why string) {
	var n *ssa.Parameter
	for _, p := range f.Params {
		if b, isB := p.Type().Underlying().(*types.Basic); isB && b.Info()&types.IsInteger != 0 {
			n = p
		}
	}
	if n == nil {
		return false, "no integer parameter"
	}
	for _, r := range returnsOf(f) {
		for _, o := range origins(r.Results[0]) {
			ms, isMake := o.(*ssa.MakeSlice)
			if !isMake {
				return false, "result is not a make"
			}
			// each value reaching the length: either a ceiling of n on every path, or a floor of n on an
			// edge where n%64 == 0
			var check func(e ssa.Value, fromBlk *ssa.BasicBlock, phi *ssa.Phi, edge int) (bool, string)
			check = func(e ssa.Value, _ *ssa.BasicBlock, _ *ssa.Phi, _ int) (bool, string) {
				if base, ok := ceilOf(e); ok && base == ssa.Value(n) {
					return true, ""
				}
				if phi, ok := e.(*ssa.Phi); ok {
					for i, in := range phi.Edges {
						if base, ok := ceilOf(in); ok && base == ssa.Value(n) {
							continue
						}
						if base, ok := floorOf(in); ok && base == ssa.Value(n) {
							// acceptable only when this edge is taken under n%64 == 0
							pred := phi.Block().Preds[i]
							if edgeImpliesMultiple(pred, phi.Block(), n) {
								continue
							}
							return false, fmt.Sprintf("the branch computing %s is not restricted to n%%64 == 0", in.Name())
						}
						return false, fmt.Sprintf("a branch sizes the set with %s, which is not ceil(n/64) (e.g. (n+1)/64 loses up to 62 bits)", exprString(in))
					}
					return true, ""
				}
				return false, fmt.Sprintf("sized with %s, which is not ceil(n/64)", exprString(e))
			}
			if ok, why := check(ms.Len, nil, nil, 0); !ok {
				return false, why
			}
		}
	}
	return true, ""
}

// edgeImpliesMultiple: the CFG edge pred->blk is taken only when n%64 == 0.
func edgeImpliesMultiple(pred, blk *ssa.BasicBlock, n ssa.Value) bool {
	for x := pred; x != nil; x = x.Idom() {
		for _, e := range append(dominatingEdges(x), selfEdge(pred, blk)...) {
			bo, ok := e.ifi.Cond.(*ssa.BinOp)
			if !ok {
				continue
			}
			rem, ok := bo.X.(*ssa.BinOp)
			if !ok || rem.Op != token.REM || rem.X != n {
				continue
			}
			if k, ok := constInt(rem.Y); !ok || k != 64 {
				continue
			}
			if z, ok := constInt(bo.Y); ok && z == 0 {
				if (bo.Op == token.NEQ && e.succ == 1) || (bo.Op == token.EQL && e.succ == 0) {
					return true
				}
			}
		}
		break
	}
	return false
}

// selfEdge: if pred ends in an If, the branch edge pred->blk itself.
func selfEdge(pred, blk *ssa.BasicBlock) []domEdge {
	if len(pred.Instrs) == 0 {
		return nil
	}
	ifi, ok := pred.Instrs[len(pred.Instrs)-1].(*ssa.If)
	if !ok {
		return nil
	}
	var out []domEdge
	for i, s := range pred.Succs {
		if s == blk && pred.Succs[1-i] != blk {
			out = append(out, domEdge{ifi, i})
		}
	}
	return out
}

func exprString(v ssa.Value) string {
	switch x := v.(type) {
	case *ssa.BinOp:
		return "(" + exprString(x.X) + " " + x.Op.String() + " " + exprString(x.Y) + ")"
	case *ssa.Const:
		return x.Value.String()
	case *ssa.Parameter:
		return x.Name()
	case *ssa.Call:
		if a, ok := lenArg(x); ok {
			return "len(" + exprString(a) + ")"
		}
		return "call"
	case *ssa.UnOp:
		if f, ok := fieldOfLoad(x); ok {
			return f
		}
	}
	if v.Name() != "" {
		return v.Name()
	}
	return "?"
}

func runBitset(c *core.Ctx) []core.Obligation {
	b := newOb(c, "R-BITSET", "C04", "C08", "C19")
	propsOf := func(fn *ssa.Function) []string {
		if strings.HasPrefix(shortName(fn), "proto.") {
			return []string{"C19"}
		}
		return []string{"C04", "C08"}
	}
	var fns []*ssa.Function
	for _, fn := range c.RepoFunctions() {
		n := shortName(fn)
		if strings.HasPrefix(n, "proto.") || strings.HasPrefix(n, "thrift.") {
			fns = append(fns, fn)
		}
	}
	// 1. accessors: functions indexing a bitset parameter with a parameter/64 and no bound
	type accessor struct{ sIdx, iIdx int }
	accessors := map[*ssa.Function]accessor{}
	var sites []bitsetSite
	for _, fn := range fns {
		for _, blk := range fn.Blocks {
			for _, in := range blk.Instrs {
				ia, ok := in.(*ssa.IndexAddr)
				if !ok || !isBitsetType(ia.X.Type()) {
					continue
				}
				i, ok := wordIndex(ia.Index)
				if !ok {
					continue
				}
				sp, sIsParam := ia.X.(*ssa.Parameter)
				ip, iIsParam := i.(*ssa.Parameter)
				if sIsParam && iIsParam {
					a := accessor{-1, -1}
					for j, p := range fn.Params {
						if p == sp {
							a.sIdx = j
						}
						if p == ip {
							a.iIdx = j
						}
					}
					accessors[fn] = a
					continue
				}
				sites = append(sites, bitsetSite{fn, ia, ia.X, i})
			}
		}
	}
	for _, fn := range fns {
		for _, ci := range callsIn(fn) {
			callee := staticCallee(ci.Common())
			if a, ok := accessors[callee]; ok && accessors[fn] == (accessor{}) {
				args := ci.Common().Args
				if a.sIdx < len(args) && a.iIdx < len(args) {
					sites = append(sites, bitsetSite{fn, ci, args[a.sIdx], args[a.iIdx]})
				}
			}
		}
	}

	// 2. helpers that build a bitset from a count
	helpers := map[*ssa.Function]bool{}
	for _, fn := range fns {
		if fn.Signature.Results().Len() == 1 && isBitsetType(fn.Signature.Results().At(0).Type()) && len(fn.Params) == 1 {
			if bt, ok := fn.Params[0].Type().Underlying().(*types.Basic); ok && bt.Info()&types.IsInteger != 0 {
				helpers[fn] = true
			}
		}
	}
	helperOK := map[*ssa.Function]bool{}
	var hs []*ssa.Function
	for h := range helpers {
		hs = append(hs, h)
	}
	sort.Slice(hs, func(i, j int) bool { return shortName(hs[i]) < shortName(hs[j]) })
	for _, h := range hs {
		ok, why := helperIsCeiling(h)
		helperOK[h] = ok
		if ok {
			b.addP(propsOf(h), core.Discharged, "ceil:"+shortName(h), c.FuncPos(h), "allocates ceil(n/64) words")
		} else {
			b.addP(propsOf(h), core.Violation, "ceil:"+shortName(h), c.FuncPos(h), fmt.Sprintf("%s(n) must allocate ceil(n/64) words for n bits: %s; indexing bit i in [len*64, n) is out of range", shortName(h), why))
		}
	}

	// 3. each site: allocation covers the bound
	// allocation tracing
	var coverOf func(s ssa.Value, depth int) (covers [][]string, problems []string, constOnly bool)
	coverOf = func(s ssa.Value, depth int) (covers [][]string, problems []string, constOnly bool) {
		constOnly = true
		if depth > 4 {
			return nil, []string{"allocation chain too deep"}, false
		}
		for _, o := range origins(s) {
			switch x := o.(type) {
			case *ssa.MakeSlice:
				if _, ok := constInt(x.Len); ok {
					continue
				}
				constOnly = false
				if base, ok := ceilOf(x.Len); ok {
					if arg, ok := lenArg(base); ok {
						covers = append(covers, sourceID(arg))
					} else {
						covers = append(covers, []string{"value " + exprString(base)})
					}
					continue
				}
				if y, ok := lenArg(x.Len); ok && isBitsetType(y.Type()) {
					cv, pr, _ := coverOf(y, depth+1)
					covers = append(covers, cv...)
					problems = append(problems, pr...)
					continue
				}
				problems = append(problems, fmt.Sprintf("make([]uint64, %s) at %s is not a ceiling division", exprString(x.Len), c.InstrPos(x)))
			case *ssa.Slice:
				// slice of a fixed array: constant-sized allocation
				continue
			case *ssa.Call:
				h := staticCallee(x.Common())
				if h != nil && helpers[h] {
					constOnly = false
					arg := x.Common().Args[0]
					if add, ok := arg.(*ssa.BinOp); ok && add.Op == token.ADD {
						if k, ok := constInt(add.Y); ok && k >= 0 {
							arg = add.X
						}
					}
					if la, ok := lenArg(arg); ok {
						covers = append(covers, sourceID(la))
					} else {
						covers = append(covers, []string{"value " + exprString(arg)})
					}
					if !helperOK[h] {
						problems = append(problems, shortName(h)+" is not a ceiling division (see ceil:"+shortName(h)+")")
					}
					continue
				}
				problems = append(problems, "allocated by an unrecognised call at "+c.InstrPos(x))
			case *ssa.UnOp:
				if f, ok := fieldOfLoad(x); ok {
					// all stores to that field in the package
					fa := x.X.(*ssa.FieldAddr)
					found := false
					for _, fn := range fns {
						for _, blk := range fn.Blocks {
							for _, in := range blk.Instrs {
								st, ok := in.(*ssa.Store)
								if !ok {
									continue
								}
								if sfa, ok := st.Addr.(*ssa.FieldAddr); ok && fieldAddrID(sfa) == fieldAddrID(fa) {
									found = true
									cv, pr, co := coverOf(st.Val, depth+1)
									covers = append(covers, cv...)
									problems = append(problems, pr...)
									constOnly = constOnly && co
								}
							}
						}
					}
					if !found {
						problems = append(problems, "no assignment of "+f+" found")
					}
					continue
				}
				problems = append(problems, "allocation not traceable: "+describeValue(o))
			case *ssa.Const:
				continue // nil slice
			default:
				problems = append(problems, "allocation not traceable: "+describeValue(o))
			}
		}
		return
	}

	seenKeys := map[string]int{}
	for _, st := range sites {
		name := exprString(st.s)
		if f, ok := fieldOfLoad(st.s); ok {
			name = f
		} else if u, ok := st.s.(*ssa.UnOp); ok {
			if cell := cellOf(u.X); cell != nil {
				name = cell.Comment
			}
		} else if phi, ok := st.s.(*ssa.Phi); ok && phi.Comment != "" {
			name = phi.Comment
		}
		key := fmt.Sprintf("bitset:%s:%s", shortName(st.fn), name)
		seenKeys[key]++
		if seenKeys[key] > 1 {
			continue // further reads/writes of the same set in the same function: one obligation
		}
		pos := c.InstrPos(st.at)
		props := propsOf(st.fn)
		boundX, how := upperBoundOf(st.i, st.at)
		if boundX == nil {
			b.addP(props, core.Undecided, key, pos, "no dominating bound i < len(X) (or prior X[i]) found for the bit index")
			continue
		}
		bound := sourceID(boundX)
		covers, problems, constOnly := coverOf(st.s, 0)
		if len(problems) > 0 {
			b.addP(props, core.Violation, key, pos, fmt.Sprintf("bit index is bounded by %v (%s) but the set's allocation is unsound: %s", bound, how, strings.Join(problems, "; ")))
			continue
		}
		if constOnly {
			b.addP(props, core.Violation, key, pos, fmt.Sprintf("bit index is bounded by %v but the set only has constant-size allocations", bound))
			continue
		}
		bad := ""
		for _, cv := range covers {
			if strings.Join(cv, "|") != strings.Join(bound, "|") {
				bad = fmt.Sprintf("the set is sized over %v but indexed by i/64 with i bounded by %v (%s): when the two differ (sparse ids) the index is out of range", cv, bound, how)
			}
		}
		if bad != "" {
			b.addP(props, core.Violation, key, pos, bad)
		} else {
			b.addP(props, core.Discharged, key, pos, fmt.Sprintf("sized by a ceiling over %v, the same space that bounds i (%s)", bound, how))
		}
	}
	return b.out
}
