package rules

import (
	"fmt"
	"go/token"
	"sort"

	"golang.org/x/tools/go/ssa"

	"verif/checker/core"
)

// R-DRAIN — loops that consume a protobuf message run until nothing is left. Scan, the message
// rewriter and the struct decoder advance over their input field by field; the error for a
// truncated field comes from parsing it. A loop that stops while bytes remain (for len(b) >= 2)
// returns success for an input whose last byte was never looked at: every one-byte message is
// "valid", and Scan disagrees with Unmarshal on truncated input.
func init() {
	Register(&Rule{
		ID:    "R-DRAIN",
		Doc:   "every loop of package proto whose header tests the length of a []byte (len(b) ⋈ k, or an offset against len(b)): the loop is left only when no input remains (len(b) != 0, len(b) > 0, off < len(b), off != len(b)), or the remainder is used after the loop (a tail is handled there); a loop that can be left with 1..k-1 bytes unread and never looks at them is a violation",
		Props: []string{"C07", "C12", "C03"},
		Min:   map[string]int{"C07": 3, "C12": 3},
		Run:   runDrain,
	})
}

func runDrain(c *core.Ctx) []core.Obligation {
	b := newOb(c, "R-DRAIN", "C07", "C12", "C03")
	fns := c.RepoFunctions()
	sort.Slice(fns, func(i, j int) bool { return shortName(fns[i]) < shortName(fns[j]) })
	n := 0
	for _, fn := range fns {
		if fn.Blocks == nil || fn.Pkg == nil || fn.Synthetic != "" || fn.Pkg.Pkg.Name() != "proto" {
			continue
		}
		count := 0
		for _, h := range loopHeaders(fn) {
			ifi, ok := h.Instrs[len(h.Instrs)-1].(*ssa.If)
			if !ok {
				continue
			}
			bo, ok := ifi.Cond.(*ssa.BinOp)
			if !ok {
				continue
			}
			body := loopBlocks(h)
			// which successor stays in the loop
			stay := -1
			for i, s := range h.Succs {
				if body[s] && !body[h.Succs[1-i]] {
					stay = i
				}
			}
			if stay < 0 {
				continue
			}
			var of ssa.Value
			lenOnX := false
			if a, ok := lenArg(bo.X); ok && a.Type().String() == "[]byte" {
				of, lenOnX = a, true
			} else if a, ok := lenArg(bo.Y); ok && a.Type().String() == "[]byte" {
				of = a
			}
			if of == nil {
				continue
			}
			other := bo.Y
			if !lenOnX {
				other = bo.X
			}
			// the test must be about what the loop consumes: the slice is re-sliced by the loop
			// (a φ of the header), or it is the input parameter and the offset compared with its length
			// advances in the loop
			inHeader := func(v ssa.Value) bool {
				p, ok := v.(*ssa.Phi)
				return ok && p.Block() == h
			}
			_, isParam := of.(*ssa.Parameter)
			if !inHeader(of) && !(isParam && dependsOn(other, inHeader)) {
				continue
			}
			// normalise to: stays while len OP other
			op := bo.Op
			if !lenOnX {
				op = flipCmp(op)
			}
			if stay == 1 {
				op = negCmp(op)
			}
			n++
			count++
			key := fmt.Sprintf("drain:%s#%d", closureIndex.ReplaceAllString(shortName(fn), ""), count)
			k, isK := constInt(other)
			leftover := false
			switch {
			case !isK:
				// offset form: off < len(b), off != len(b) leave nothing behind; off+k < len(b) does
				if add, ok := other.(*ssa.BinOp); ok && add.Op == token.ADD {
					if kk, ok := constInt(add.Y); ok && kk > 0 && (op == token.GTR || op == token.GEQ) {
						leftover = true
					}
				}
				if op != token.GTR && op != token.NEQ && op != token.GEQ {
					leftover = true
				}
				if op == token.GEQ {
					leftover = true // off <= len(b): runs once with nothing left, not a drain condition
				}
			case op == token.NEQ && k == 0, op == token.GTR && k == 0, op == token.GEQ && k == 1:
			default:
				leftover = true
			}
			if !leftover {
				b.ok(key, c.InstrPos(ifi), "the loop ends only when the input is used up")
				continue
			}
			// is the remainder looked at after the loop?
			exit := h.Succs[1-stay]
			used := false
			after := reachableFrom(exit, body)
			for blk := range after {
				for _, in := range blk.Instrs {
					for _, opnd := range in.Operands(nil) {
						if *opnd == of {
							used = true
						}
					}
				}
			}
			if used {
				b.ok(key, c.InstrPos(ifi), "the loop may leave a tail, which is used after the loop")
			} else {
				b.bad(key, c.InstrPos(ifi), fmt.Sprintf("%s stops consuming its input while bytes may remain (%s) and never looks at the remainder: input truncated so that a single byte follows a field boundary is accepted, where parsing that byte reports io.ErrUnexpectedEOF — every one-byte message is accepted as empty, and Scan disagrees with Unmarshal", shortName(fn), condText(bo)))
			}
		}
	}
	if n == 0 {
		b.und("drain:-", "-", "no input-draining loop found in proto")
	}
	return b.out
}

func flipCmp(op token.Token) token.Token {
	switch op {
	case token.LSS:
		return token.GTR
	case token.GTR:
		return token.LSS
	case token.LEQ:
		return token.GEQ
	case token.GEQ:
		return token.LEQ
	}
	return op
}

func negCmp(op token.Token) token.Token {
	switch op {
	case token.LSS:
		return token.GEQ
	case token.GTR:
		return token.LEQ
	case token.LEQ:
		return token.GTR
	case token.GEQ:
		return token.LSS
	case token.EQL:
		return token.NEQ
	case token.NEQ:
		return token.EQL
	}
	return op
}

func condText(bo *ssa.BinOp) string {
	side := func(v ssa.Value) string {
		if _, ok := lenArg(v); ok {
			return "len(b)"
		}
		if k, ok := constInt(v); ok {
			return fmt.Sprint(k)
		}
		return v.Name()
	}
	return side(bo.X) + " " + bo.Op.String() + " " + side(bo.Y)
}
