package rules

import (
	"fmt"
	"go/types"
	"sort"
	"strings"

	"golang.org/x/tools/go/ssa"

	"verif/checker/core"
)

// R-WORDLEN — fixed-width loads and stores through encoding/binary need that many bytes.
// binary.LittleEndian.Uint64(b) panics (index out of range) on a shorter slice; every call of
// Uint16/32/64 and PutUint16/32/64 in the repository must be made on a slice whose length is
// proven: a constant-length slice expression or array, a dominating test of len() that leaves at
// least the required number of bytes after the slice's low bound, or the result of a reader helper
// that returns exactly the number of bytes it was asked for.
func init() {
	Register(&Rule{
		ID:    "R-WORDLEN",
		Doc:   "every call of encoding/binary's ByteOrder.Uint16/Uint32/Uint64/PutUint16/PutUint32/PutUint64 in the repository: the slice argument has at least the width of the access, shown by (a) a slice expression or array of constant length, (b) the interval that the dominating branch edges give for len() of the underlying slice, minus the constant low bound of the slice expression, (c) a callee whose every successful return hands back exactly the requested number of bytes (thrift's read(n)/peek(n)); anything else is undecided",
		Props: []string{"C06", "C07", "C08", "C18", "C16"},
		Min:   map[string]int{"C06": 2, "C07": 4, "C08": 6, "C18": 2},
		Run:   runWordLen,
	})
}

// wordLenPreconditions: exported accessors whose documentation makes the length the caller's duty.
var wordLenPreconditions = map[string]string{
	"proto.(RawValue).Fixed32": "\"The content of v will always be a valid fixed32 if v was returned by a call to Parse and the associated wire type was Fixed32. In other cases, the behavior of Fixed32 is undefined.\"",
	"proto.(RawValue).Fixed64": "\"The content of v will always be a valid fixed64 if v was returned by a call to Parse and the associated wire type was Fixed64. In other cases, the behavior of Fixed64 is undefined.\"",
}

func runWordLen(c *core.Ctx) []core.Obligation {
	b := newOb(c, "R-WORDLEN")
	type site struct {
		fn   *ssa.Function
		call *ssa.Call
		need int64
		arg  ssa.Value
		what string
	}
	var sites []site
	for _, fn := range c.RepoFunctions() {
		if fn.Blocks == nil {
			continue
		}
		for _, blk := range fn.Blocks {
			for _, in := range blk.Instrs {
				call, ok := in.(*ssa.Call)
				if !ok {
					continue
				}
				name := calleeName(call.Common())
				if !strings.HasPrefix(name, "(encoding/binary.") {
					continue
				}
				var need int64
				switch {
				case strings.HasSuffix(name, "Uint16"):
					need = 2
				case strings.HasSuffix(name, "Uint32"):
					need = 4
				case strings.HasSuffix(name, "Uint64"):
					need = 8
				default:
					continue
				}
				args := call.Call.Args
				if len(args) < 2 {
					continue
				}
				sites = append(sites, site{fn, call, need, args[1], name[strings.LastIndex(name, ".")+1:]})
			}
		}
	}
	sort.Slice(sites, func(i, j int) bool { return sites[i].call.Pos() < sites[j].call.Pos() })
	count := map[string]int{}
	for _, s := range sites {
		name := shortName(s.fn)
		count[name]++
		key := fmt.Sprintf("wordlen:%s:%s", name, s.what)
		if count[name] > 1 {
			key += fmt.Sprintf("#%d", count[name])
		}
		var props []string
		switch s.fn.Pkg.Pkg.Name() {
		case "json":
			props = []string{"C06"}
		case "proto":
			props = []string{"C07", "C16"}
		case "thrift":
			props = []string{"C08"}
		case "iso8601":
			props = []string{"C18"}
		default:
			props = []string{"C06"}
		}
		how, ok := provenLen(c, s.arg, s.need, s.call.Block(), 0)
		pos := c.InstrPos(s.call)
		if why, listed := wordLenPreconditions[name]; listed && !ok {
			b.addP(props, core.Discharged, key, pos, "documented precondition: "+why)
			continue
		}
		if ok {
			b.addP(props, core.Discharged, key, pos, fmt.Sprintf("%d bytes: %s", s.need, how))
		} else if how != "" {
			b.addP(props, core.Violation, key, pos, fmt.Sprintf("%s calls %s on a slice that is only known to hold %s, fewer than the %d bytes the access reads or writes: input that ends inside the value panics with index out of range instead of being rejected", name, s.what, how, s.need))
		} else {
			b.addP(props, core.Undecided, key, pos, fmt.Sprintf("%s calls %s on a slice whose length the rule cannot bound", name, s.what))
		}
	}
	if len(sites) == 0 {
		b.addP([]string{"C06", "C07", "C08", "C18"}, core.Undecided, "wordlen:-", "-", "no encoding/binary access found")
	}
	return b.out
}

// provenLen: is len(v) >= need at blk? Returns a description and the verdict; a non-empty
// description with false means a smaller bound is all that is known.
func provenLen(c *core.Ctx, v ssa.Value, need int64, blk *ssa.BasicBlock, depth int) (string, bool) {
	if depth > 4 {
		return "", false
	}
	switch x := v.(type) {
	case *ssa.Slice:
		// array base
		if pt, ok := x.X.Type().Underlying().(*types.Pointer); ok {
			if at, isArr := pt.Elem().Underlying().(*types.Array); isArr {
				lo, hi := int64(0), at.Len()
				if x.Low != nil {
					k, isK := constInt(x.Low)
					if !isK {
						return "", false
					}
					lo = k
				}
				if x.High != nil {
					k, isK := constInt(x.High)
					if !isK {
						return "", false
					}
					hi = k
				}
				if hi-lo >= need {
					return fmt.Sprintf("a %d-byte window of an array", hi-lo), true
				}
				return fmt.Sprintf("%d bytes (a window of an array)", hi-lo), false
			}
		}
		lo := int64(0)
		if x.Low != nil {
			k, isK := constInt(x.Low)
			if !isK {
				return "", false
			}
			lo = k
		}
		if x.High != nil {
			k, isK := constInt(x.High)
			if !isK {
				return "", false
			}
			if k-lo >= need {
				// the slice expression itself panics if the base is shorter; the base must hold k bytes
				if how, ok := provenLen(c, x.X, k, blk, depth+1); ok {
					return fmt.Sprintf("[%d:%d] of %s", lo, k, how), true
				}
				return "", false
			}
			return fmt.Sprintf("%d bytes ([%d:%d])", k-lo, lo, k), false
		}
		how, ok := provenLen(c, x.X, need+lo, blk, depth+1)
		if ok {
			return fmt.Sprintf("[%d:] of %s", lo, how), true
		}
		return how, false
	case *ssa.Extract:
		// b, err := r.read(n): callee returns exactly n bytes on success
		if call, ok := x.Tuple.(*ssa.Call); ok {
			if n, ok := exactLenCallee(c, call); ok {
				if n >= need {
					return fmt.Sprintf("%d bytes returned by %s", n, calleeName(call.Common())), true
				}
				return fmt.Sprintf("%d bytes (returned by %s)", n, calleeName(call.Common())), false
			}
		}
	}
	lo, _, _ := lenInterval(v, blk)
	if lo != nil {
		if lo.IsInt64() && lo.Int64() >= need {
			return fmt.Sprintf("len >= %d by the dominating tests", lo.Int64()), true
		}
		if lo.IsInt64() && lo.Int64() > 0 {
			return fmt.Sprintf("%d bytes (len >= %d is all the dominating tests give)", lo.Int64(), lo.Int64()), false
		}
	}
	return "", false
}

// exactLenCallee: call is f(…, n) with constant n where f returns a []byte of exactly its integer
// parameter's length on success (every return with a nil error returns x[:n] or a make of n).
func exactLenCallee(c *core.Ctx, call *ssa.Call) (int64, bool) {
	f := staticCallee(call.Common())
	if f == nil || f.Blocks == nil || !c.InRepo(f) {
		return 0, false
	}
	// which parameter is the length
	var np *ssa.Parameter
	argIdx := -1
	for i, p := range f.Params {
		if bt, ok := p.Type().Underlying().(*types.Basic); ok && bt.Info()&types.IsInteger != 0 {
			np, argIdx = p, i
		}
	}
	if np == nil || argIdx >= len(call.Call.Args) {
		return 0, false
	}
	n, ok := constInt(call.Call.Args[argIdx])
	if !ok {
		return 0, false
	}
	good := 0
	for _, r := range returnsOf(f) {
		if len(r.Results) != 2 {
			return 0, false
		}
		if returnsExactly(r.Results[0], np, 0) {
			good++
			continue
		}
		if isNilConst(r.Results[0]) && !isNilConst(r.Results[1]) {
			continue // failing return without data
		}
		return 0, false
	}
	return n, good > 0
}

func returnsExactly(v ssa.Value, n *ssa.Parameter, depth int) bool {
	if depth > 4 {
		return false
	}
	switch x := v.(type) {
	case *ssa.Slice:
		if x.High != nil && x.High == ssa.Value(n) && (x.Low == nil) {
			return true
		}
		if x.High == nil && x.Low == nil {
			return returnsExactly(x.X, n, depth+1)
		}
	case *ssa.MakeSlice:
		return x.Len == ssa.Value(n)
	case *ssa.Phi:
		for _, e := range x.Edges {
			if !returnsExactly(e, n, depth+1) {
				return false
			}
		}
		return true
	case *ssa.Extract:
		if call, ok := x.Tuple.(*ssa.Call); ok {
			if f := staticCallee(call.Common()); f != nil && f.Blocks != nil {
				// delegation f(…, n) to another exact reader
				for i, a := range call.Call.Args {
					if a == ssa.Value(n) && i < len(f.Params) {
						ok := true
						any := false
						for _, r := range returnsOf(f) {
							if len(r.Results) == 2 && isNilConst(r.Results[1]) {
								any = true
								if !returnsExactly(r.Results[0], f.Params[i], depth+1) {
									ok = false
								}
							}
						}
						return ok && any
					}
				}
			}
		}
	}
	return false
}
