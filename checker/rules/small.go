package rules

import (
	"fmt"
	"go/ast"
	"go/constant"
	"go/token"
	"go/types"
	"math"
	"math/big"
	"sort"
	"strings"

	"golang.org/x/tools/go/ssa"

	"verif/checker/core"
)

// R-SMALL — single-site structural obligations named by the properties' anchors. Each is one
// dominance / identity / constant / sibling check on the mechanism that makes a property hold.
func init() {
	Register(&Rule{
		ID:    "R-SMALL",
		Doc:   "single-site obligations: thrift Reset recomputes protocol flags like the constructor; the seen-bit of a decoded field is set on every path that consumes it; keyset lookups are confirmed by a length comparison; HTML key fragments are always computed; slice growth is geometric; every callback parameter of the skippers is used; trailing-data tests dominate success returns; varint overflow constants; sort-before-delta; number-kind precedence; identities of base64/time/endianness callees",
		Props: []string{"C01", "C02", "C03", "C04", "C05", "C06", "C07", "C08", "C09", "C10", "C11", "C12", "C13", "C14", "C15", "C16", "C17", "C18", "C19"},
		Min:   map[string]int{"C01": 5, "C02": 3, "C03": 1, "C04": 4, "C07": 3, "C08": 4, "C12": 2, "C13": 3, "C14": 3, "C16": 1, "C17": 1, "C19": 2},
		Run:   runSmall,
	})
}

func runSmall(c *core.Ctx) []core.Obligation {
	b := newOb(c, "R-SMALL")
	smallThriftReset(c, b)
	smallSeenBit(c, b)
	smallKeysetLength(c, b)
	smallHTMLFragment(c, b)
	smallGeometricGrowth(c, b)
	smallCallbackParams(c, b)
	smallTrailingData(c, b)
	smallVarintOverflow(c, b)
	smallSortBeforeDelta(c, b)
	smallNumberPrecedence(c, b)
	smallIdentities(c, b)
	smallImplicitNumber(c, b)
	smallDeltaBase(c, b)
	smallBitOrZeroMask(c, b)
	smallRawVarintByte(c, b)
	smallSkipCoalescedBool(c, b)
	smallCoalesceValueIndependent(c, b)
	smallRuneErrorSize(c, b)
	smallRollbackNoEffect(c, b)
	smallEmbeddedPointerAccessors(c, b)
	smallMarshalerOutputCompacted(c, b)
	smallTimeCanFail(c, b)
	smallThriftFlagMask(c, b)
	smallProtoEmptyMap(c, b)
	smallThriftMismatchConsumes(c, b)
	smallThriftEmptyMapFirst(c, b)
	smallCompactLongFormAccepted(c, b)
	smallTokenizerStringFastPath(c, b)
	smallClaimedBytesWritten(c, b)
	smallLineSeparatorsAlwaysEscaped(c, b)
	smallBitsetModulus(c, b)
	smallRewriteOwnsOutput(c, b)
	smallMapKeySortFollowsEncoder(c, b)
	smallVarlenCount(c, b)
	smallNilKeyEmptyString(c, b)
	smallEmptyInterface(c, b)
	smallNilScalarHasNoSize(c, b)
	smallNumberFromString(c, b)
	smallThriftNeverSeeks(c, b)
	smallRepeatedOneElementPerOccurrence(c, b)
	smallMemoFreshPerCompilation(c, b)
	smallDecoderReaderNotWrapped(c, b)
	smallThriftBoolElemNormalised(c, b)
	smallFieldNumberLimit(c, b)
	smallMapTemplateEntryComplete(c, b)
	smallTokenizerFloat(c, b)
	smallVarintBytes(c, b)
	smallNumberExactLiteral(c, b)
	smallNoFieldByIndex(c, b)
	smallDirectNamesShadowBoth(c, b)
	smallMarshalerNilChecked(c, b)
	smallStringOptionExact(c, b)
	smallVarintDecodeTerms(c, b)
	smallCompactSeqID(c, b)
	smallEmptyMessagePresence(c, b)
	smallParseRemainderSkipsSpaces(c, b)
	smallRepeatedNilElement(c, b)
	smallFlagTestsMask(c, b)
	smallIntegerKeysByKind(c, b)
	smallDepthNotCountedTwice(c, b)
	smallWave17(c, b)
	smallKeyFoldingAgrees(c, b)
	smallStructTagOptions(c, b)
	smallWave18(c, b)
	smallBitOrAbsentField(c, b)
	smallDecoderReaderErrors(c, b)
	smallWave19(c, b)
	smallWave19b(c, b)
	smallOverflowConsumesNumber(c, b)
	smallHeldPointerCycle(c, b)
	smallWave20(c, b)
	smallWave20b(c, b)
	smallWave21(c, b)
	smallFieldIndexBounded(c, b)
	smallRewriterTableBounded(c, b)
	smallWave22(c, b)
	smallDataWordNotDereferenced(c, b)
	smallEmptyArrayFreshSlice(c, b)
	smallWave23(c, b)
	smallWave25(c, b)
	smallWave30(c, b)
	smallStringOptionNull(c, b)
	smallStringOptionMarshaler(c, b)
	return b.out
}

// S1 — Encoder.Reset / Decoder.Reset: f = f.without(protocolFlags).with(xFlags(w))
func smallThriftReset(c *core.Ctx, b *ob) {
	tp := c.Pkg("thrift")
	if tp == nil {
		return
	}
	pf, _ := tp.Types.Scope().Lookup("protocolFlags").(*types.Const)
	var pfv uint64
	if pf != nil {
		pfv, _ = constantUint(pf)
	}
	for _, spec := range [][3]string{{"thrift.(*Encoder).Reset", "encoderFlags", "thrift.NewEncoder"}, {"thrift.(*Decoder).Reset", "decoderFlags", "thrift.NewDecoder"}} {
		fn := c.Lookup(spec[0])
		key := "thrift-reset:" + spec[0]
		if fn == nil || pf == nil {
			b.addP([]string{"C04", "C13"}, core.Undecided, key, "-", "Reset or protocolFlags not found")
			continue
		}
		good := false
		var at ssa.Instruction
		for _, blk := range fn.Blocks {
			for _, in := range blk.Instrs {
				st, ok := in.(*ssa.Store)
				if !ok {
					continue
				}
				fa, ok := st.Addr.(*ssa.FieldAddr)
				if !ok || fieldNameOf(fa) != "f" {
					continue
				}
				at = st
				// with(without(load f, protocolFlags), xFlags(arg))
				with, ok := st.Val.(*ssa.Call)
				if !ok || !strings.HasSuffix(calleeName(with.Common()), "flags).with") {
					continue
				}
				wo, ok1 := with.Common().Args[0].(*ssa.Call)
				fl, ok2 := with.Common().Args[1].(*ssa.Call)
				if !ok1 || !ok2 || !strings.HasSuffix(calleeName(wo.Common()), "flags).without") {
					continue
				}
				k, isK := constUint(wo.Common().Args[1])
				cal := staticCallee(fl.Common())
				if isK && k&pfv == pfv && cal != nil && cal.Name() == spec[1] {
					if _, isLoad := wo.Common().Args[0].(*ssa.UnOp); isLoad {
						good = true
					}
				}
			}
		}
		if good {
			b.addP([]string{"C04", "C13"}, core.Discharged, key, c.InstrPos(at), "f = f.without(protocolFlags).with("+spec[1]+"(x)): the previous protocol's feature bits are dropped")
		} else {
			pos := c.FuncPos(fn)
			if at != nil {
				pos = c.InstrPos(at)
			}
			b.addP([]string{"C04", "C13"}, core.Violation, key, pos, fmt.Sprintf("%s does not recompute the protocol flags as f.without(protocolFlags).with(%s(x)): feature bits of the previous protocol (delta ids, bool coalescing) survive a Reset to another protocol", spec[0], spec[1]))
		}
	}
}

// S2 — the seen bit of a declared field is set on every path that accepts the field
func smallSeenBit(c *core.Ctx, b *ob) {
	fn := c.Lookup("thrift.(*structDecoder).decode$1")
	key := "required-tracking:seen-bit"
	if fn == nil {
		b.addP([]string{"C04", "C08", "C13"}, core.Undecided, key, "-", "field callback of structDecoder.decode not found")
		return
	}
	var seenStore *ssa.Store
	for _, blk := range fn.Blocks {
		for _, in := range blk.Instrs {
			st, ok := in.(*ssa.Store)
			if !ok {
				continue
			}
			ia, ok := st.Addr.(*ssa.IndexAddr)
			if !ok || !isBitsetType(ia.X.Type()) {
				continue
			}
			if _, ok := wordIndex(ia.Index); ok {
				seenStore = st
			}
		}
	}
	if seenStore == nil {
		b.addP([]string{"C04", "C08", "C13"}, core.Undecided, key, c.FuncPos(fn), "no store into the seen bitset found")
		return
	}
	bad := ""
	for _, r := range returnsOf(fn) {
		if instrDominates(seenStore, r) {
			continue
		}
		// allowed: the unknown-field exit (result of skipField)
		ok := false
		if call, isCall := r.Results[0].(*ssa.Call); isCall {
			if f := staticCallee(call.Common()); f != nil && strings.HasPrefix(f.Name(), "skip") {
				ok = true
			}
		}
		if !ok {
			bad = c.InstrPos(r)
		}
	}
	if bad != "" {
		b.addP([]string{"C04", "C08", "C13"}, core.Violation, key, bad, "a declared field is accepted (a return other than the unknown-field skip) on a path that does not set its bit in the seen set: a required field decoded on that path is reported as missing")
	} else {
		b.addP([]string{"C04", "C08", "C13"}, core.Discharged, key, c.InstrPos(seenStore), "the seen bit is set before every return except the unknown-field skip")
	}
}

// S3 — keyset.Lookup compares NUL-padded 16-byte slots: the caller must confirm the length
func smallKeysetLength(c *core.Ctx, b *ob) {
	fn := c.Lookup("json.(decoder).decodeStruct")
	key := "keyset-length-check"
	if fn == nil {
		b.addP([]string{"C02"}, core.Undecided, key, "-", "decodeStruct not found")
		return
	}
	var lookup *ssa.Call
	for _, ci := range callsIn(fn) {
		if call, ok := ci.(*ssa.Call); ok && strings.HasSuffix(calleeName(call.Common()), "asm/keyset.Lookup") {
			lookup = call
		}
	}
	if lookup == nil {
		b.addP([]string{"C02"}, core.Discharged, key, c.FuncPos(fn), "no keyset lookup (map lookup only)")
		return
	}
	k := lookup.Common().Args[1]
	// the lookup is attempted for every key length a keyset entry can have (1..16 bytes): a guard
	// that excludes some of them silently drops the exact match for those names
	{
		lo, hi, _ := lenInterval(k, lookup.Block())
		key2 := "keyset-not-bypassed"
		switch {
		case hi != nil && hi.Int64() < 16:
			b.addP([]string{"C02", "C14"}, core.Violation, key2, c.InstrPos(lookup), fmt.Sprintf("keyset.Lookup is only reached for keys of at most %d bytes, but the keyset holds names of up to 16 bytes: a longer name is never matched exactly and, with DontMatchCaseInsensitiveStructFields, the member is silently dropped", hi.Int64()))
		case lo != nil && lo.Int64() > 1:
			b.addP([]string{"C02", "C14"}, core.Violation, key2, c.InstrPos(lookup), fmt.Sprintf("keyset.Lookup is only reached for keys of at least %d bytes: shorter names are never matched exactly", lo.Int64()))
		default:
			b.addP([]string{"C02", "C14"}, core.Discharged, key2, c.InstrPos(lookup), "no guard excludes a key length in 1..16 from the keyset lookup")
		}
	}
	// every field address computed from the lookup result must be dominated by a comparison of len(name) with len(k)
	n, bad := 0, ""
	for _, blk := range fn.Blocks {
		for _, in := range blk.Instrs {
			ia, ok := in.(*ssa.IndexAddr)
			if !ok || ia.Index != ssa.Value(lookup) {
				continue
			}
			// uses of this element address as the selected field (flows into the field φ)
			for _, ref := range *ia.Referrers() {
				if _, isPhi := ref.(*ssa.Phi); !isPhi {
					continue
				}
				n++
				confirmed := false
				for _, e := range dominatingEdges(blk) {
					bo, ok := e.ifi.Cond.(*ssa.BinOp)
					if !ok || !((bo.Op == token.EQL && e.succ == 0) || (bo.Op == token.NEQ && e.succ == 1)) {
						continue
					}
					lx, okx := lenArg(bo.X)
					ly, oky := lenArg(bo.Y)
					// k spilled to a local (its address is taken elsewhere) is loaded once per use
					if okx && oky && (sameKeyValue(lx, k) || sameKeyValue(ly, k)) {
						confirmed = true
					}
				}
				if !confirmed {
					bad = c.InstrPos(ia)
				}
			}
		}
	}
	switch {
	case n == 0:
		b.addP([]string{"C02"}, core.Undecided, key, c.InstrPos(lookup), "the keyset lookup result does not select a field in the recognised form")
	case bad != "":
		b.addP([]string{"C02"}, core.Violation, key, bad, "the field selected by keyset.Lookup is used without confirming len(field name) == len(key): keyset compares NUL-padded 16-byte slots, so a key such as \"id\\u0000\" matches field \"id\"")
	default:
		b.addP([]string{"C02"}, core.Discharged, key, c.InstrPos(lookup), "keyset match confirmed by len(name) == len(key)")
	}
}

// S4 — both key fragments of every struct field are computed by encodeKeyFragment
func smallHTMLFragment(c *core.Ctx, b *ob) {
	fn := c.Lookup("json.appendStructFields")
	ekf := c.Lookup("json.encodeKeyFragment")
	if fn == nil || ekf == nil {
		b.addP([]string{"C01", "C14"}, core.Undecided, "key-fragments", "-", "appendStructFields / encodeKeyFragment not found")
		return
	}
	escapeHTML := jsonConst(c, "EscapeHTML")
	// the fragment itself is written by the encoder's own string routine under the flags given:
	// isValidTag lets &, <, > and every non-ASCII letter into a field name, which encoding/json
	// escapes (or not) exactly as it does string values
	{
		key := "key-fragments:written-by-encodeString"
		var fp ssa.Value
		for _, p := range ekf.Params {
			if p.Name() == "flags" || strings.HasSuffix(p.Type().String(), "AppendFlags") {
				fp = p
			}
		}
		ok := false
		for _, ci := range callsIn(ekf) {
			f := staticCallee(ci.Common())
			if f == nil || f.Name() != "encodeString" || len(ci.Common().Args) == 0 {
				continue
			}
			// receiver: an encoder whose flags field was stored from the parameter
			{
				ld, isLd := ci.Common().Args[0].(*ssa.UnOp)
				if !isLd || ld.Op != token.MUL {
					continue
				}
				cell := cellOf(ld.X)
				if cell == nil {
					continue
				}
				for _, blk := range ekf.Blocks {
					for _, in := range blk.Instrs {
						st, isSt := in.(*ssa.Store)
						if !isSt {
							continue
						}
						if fa, isFA := st.Addr.(*ssa.FieldAddr); isFA && fa.X == ssa.Value(cell) && strings.HasSuffix(fieldAddrID(fa), "encoder.flags") && fp != nil && stripConv(st.Val) == fp {
							ok = true
						}
					}
				}
			}
		}
		if ok {
			b.addP([]string{"C01", "C14"}, core.Discharged, key, c.FuncPos(ekf), "encodeKeyFragment writes the name with encoder{flags: flags}.encodeString")
		} else {
			b.addP([]string{"C01", "C14"}, core.Violation, key, c.FuncPos(ekf), "encodeKeyFragment no longer writes the field name with encoder{flags: flags}.encodeString: a tag name may contain &, <, > and non-ASCII letters (isValidTag allows them), which encoding/json writes as \\u0026, \\u003c, \\u003e under EscapeHTML and U+2028/U+2029 as \\u2028/\\u2029 always — a name copied as it is differs from the standard library's key")
		}
	}
	for _, field := range []string{"json", "html"} {
		key := "key-fragments:" + field
		n, bad := 0, ""
		for _, blk := range fn.Blocks {
			for _, in := range blk.Instrs {
				st, ok := in.(*ssa.Store)
				if !ok {
					continue
				}
				fa, ok := st.Addr.(*ssa.FieldAddr)
				if !ok || fieldAddrID(fa) != "json.structField."+field {
					continue
				}
				n++
				call, ok := st.Val.(*ssa.Call)
				want := uint64(0)
				if field == "html" {
					want = escapeHTML
				}
				if !ok || staticCallee(call.Common()) != ekf {
					bad = c.InstrPos(st) + ": not the result of encodeKeyFragment"
					continue
				}
				if k, isK := constUint(call.Common().Args[1]); !isK || k != want {
					bad = c.InstrPos(st) + ": wrong flags"
				}
			}
		}
		switch {
		case n == 0:
			b.addP([]string{"C01", "C14"}, core.Undecided, key, c.FuncPos(fn), "no assignment of structField."+field+" found")
		case bad != "":
			b.addP([]string{"C01", "C14"}, core.Violation, key, c.FuncPos(fn), fmt.Sprintf("structField.%s is not always encodeKeyFragment(name, %s) (%s): keys containing characters the shortcut does not anticipate are emitted with the wrong escaping", field, map[string]string{"json": "0", "html": "EscapeHTML"}[field], bad))
		default:
			b.addP([]string{"C01", "C14"}, core.Discharged, key, c.FuncPos(fn), "always computed by encodeKeyFragment with the matching flags")
		}
	}
}

// S5 — amortised growth: the new capacity is 2*old (or a constant when old is 0)
func smallGeometricGrowth(c *core.Ctx, b *ob) {
	check := func(fnKey string, props []string, isNewCap func(call *ssa.Call) ssa.Value) {
		fn := c.Lookup(fnKey)
		key := "geometric-growth:" + fnKey
		if fn == nil {
			b.addP(props, core.Undecided, key, "-", "function not found")
			return
		}
		n, bad := 0, ""
		for _, ci := range callsIn(fn) {
			call, ok := ci.(*ssa.Call)
			if !ok {
				continue
			}
			nc := isNewCap(call)
			if nc == nil {
				continue
			}
			n++
			for _, o := range origins(nc) {
				if _, isK := constInt(o); isK {
					continue
				}
				if bo, ok := o.(*ssa.BinOp); ok && bo.Op == token.MUL {
					if k, ok := constInt(bo.X); ok && k >= 2 {
						continue
					}
					if k, ok := constInt(bo.Y); ok && k >= 2 {
						continue
					}
				}
				bad = fmt.Sprintf("%s: new capacity may be %s", c.InstrPos(call), exprString(o))
			}
		}
		switch {
		case n == 0:
			b.addP(props, core.Undecided, key, c.FuncPos(fn), "no growth allocation found")
		case bad != "":
			b.addP(props, core.Violation, key, c.FuncPos(fn), "growth is not geometric ("+bad+"): with additive growth, decoding n elements allocates and copies O(n²) bytes, unbounded relative to the input length")
		default:
			b.addP(props, core.Discharged, key, c.FuncPos(fn), "new capacity is k*old (k >= 2) or a constant for the first allocation")
		}
	}
	check("proto.growSlice", []string{"C07"}, func(call *ssa.Call) ssa.Value {
		if strings.HasSuffix(calleeName(call.Common()), "runtime_reflect.MakeSlice") && len(call.Common().Args) == 3 {
			return call.Common().Args[2]
		}
		return nil
	})
	check("json.(decoder).decodeSlice", []string{"C02", "C06"}, func(call *ssa.Call) ssa.Value {
		if f := staticCallee(call.Common()); f != nil && f.Name() == "extendSlice" && len(call.Common().Args) == 3 {
			return call.Common().Args[2]
		}
		return nil
	})
}

// S6 — every parameter of the skip/read callbacks is used
func smallCallbackParams(c *core.Ctx, b *ob) {
	tp := c.Pkg("thrift")
	if tp == nil {
		return
	}
	n := 0
	for _, fn := range c.RepoFunctions() {
		if !strings.HasPrefix(shortName(fn), "thrift.skip") && !strings.HasPrefix(shortName(fn), "thrift.read") {
			continue
		}
		if fn.Parent() == nil && !strings.HasPrefix(fn.Name(), "skip") {
			continue
		}
		for _, p := range fn.Params {
			if namedKey(p.Type()) != "thrift.Type" && namedKey(p.Type()) != "thrift.Field" {
				continue
			}
			n++
			key := fmt.Sprintf("callback-param-used:%s:%s", shortName(fn), p.Name())
			used := false
			for _, ref := range *p.Referrers() {
				if _, isDbg := ref.(*ssa.DebugRef); !isDbg {
					used = true
				}
			}
			if used {
				b.addP([]string{"C08"}, core.Discharged, key, c.FuncPos(fn), "parameter is used")
			} else {
				b.addP([]string{"C08"}, core.Violation, key, c.FuncPos(fn), fmt.Sprintf("%s never uses its %s parameter %s: the element is skipped with another element's type and the reader loses framing", shortName(fn), typeShort(p.Type()), p.Name()))
			}
		}
	}
	if n == 0 {
		b.addP([]string{"C08"}, core.Undecided, "callback-param-used", "-", "no skip callback found")
	}
}

// S7 — Unmarshal reports success only on the branch where no input is left
func smallTrailingData(c *core.Ctx, b *ob) {
	// json.Unmarshal: the error returned is overridden when len(r) != 0
	if fn := c.Lookup("json.Unmarshal"); fn != nil {
		key := "trailing-data:json.Unmarshal"
		ok := false
		for _, blk := range fn.Blocks {
			if n := len(blk.Instrs); n > 0 {
				if ifi, isIf := blk.Instrs[n-1].(*ssa.If); isIf {
					if bo, isB := ifi.Cond.(*ssa.BinOp); isB && (bo.Op == token.NEQ || bo.Op == token.EQL || bo.Op == token.GTR) {
						if _, isLen := lenArg(bo.X); isLen {
							// the non-empty side must produce a syntaxError
							side := blk.Succs[0]
							if bo.Op == token.EQL {
								side = blk.Succs[1]
							}
							for x := range reachableFrom(side, nil) {
								if blockHasCallNamed(x, "syntaxError") {
									ok = true
								}
							}
						}
					}
				}
			}
		}
		if ok {
			b.addP([]string{"C02"}, core.Discharged, key, c.FuncPos(fn), "a non-empty remainder is turned into a syntax error")
		} else {
			b.addP([]string{"C02"}, core.Violation, key, c.FuncPos(fn), "json.Unmarshal no longer turns a non-empty remainder after the first value into an error: trailing data is accepted")
		}
	}
	// thrift.Unmarshal: success return dominated by br.Len() == 0
	if fn := c.Lookup("thrift.Unmarshal"); fn != nil {
		key := "trailing-data:thrift.Unmarshal"
		okAll, n := true, 0
		for _, r := range returnsOf(fn) {
			if !isNilConst(r.Results[0]) {
				continue
			}
			n++
			dom := false
			for _, e := range dominatingEdges(r.Block()) {
				if bo, ok := e.ifi.Cond.(*ssa.BinOp); ok {
					if call, ok := bo.X.(*ssa.Call); ok && strings.HasSuffix(calleeName(call.Common()), "bytes.Reader).Len") {
						if z, ok := constInt(bo.Y); ok && z == 0 && ((bo.Op == token.NEQ && e.succ == 1) || (bo.Op == token.EQL && e.succ == 0)) {
							dom = true
						}
					}
				}
			}
			if !dom {
				okAll = false
			}
		}
		if okAll && n > 0 {
			b.addP([]string{"C08"}, core.Discharged, key, c.FuncPos(fn), "nil is returned only when the reader has no bytes left")
		} else {
			b.addP([]string{"C08"}, core.Violation, key, c.FuncPos(fn), "thrift.Unmarshal can return nil without testing that the whole input was consumed: trailing bytes are accepted")
		}
	}
	// proto.Unmarshal: success dominated by !(n < len(b))
	if fn := c.Lookup("proto.Unmarshal"); fn != nil {
		key := "trailing-data:proto.Unmarshal"
		bp := bufParam(fn)
		found := false
		for _, blk := range fn.Blocks {
			if n := len(blk.Instrs); n > 0 {
				if ifi, ok := blk.Instrs[n-1].(*ssa.If); ok {
					if bo, ok := ifi.Cond.(*ssa.BinOp); ok && (bo.Op == token.LSS || bo.Op == token.NEQ) && isLenOf(bo.Y, bp) {
						if blockHasCallNamed(blk.Succs[0], "Errorf") {
							found = true
						}
					}
				}
			}
		}
		if found {
			b.addP([]string{"C07"}, core.Discharged, key, c.FuncPos(fn), "fewer bytes consumed than given is an error")
		} else {
			b.addP([]string{"C07"}, core.Violation, key, c.FuncPos(fn), "proto.Unmarshal no longer reports input that the top-level decoder did not consume")
		}
	}
}

// S8 — decodeVarint rejects the 11th byte and a 10th byte above 1: 7*9 + 1 = 64
func smallVarintOverflow(c *core.Ctx, b *ob) {
	fn := c.Lookup("proto.decodeVarint")
	key := "varint-overflow-constants"
	if fn == nil {
		b.addP([]string{"C07", "C12"}, core.Undecided, key, "-", "decodeVarint not found")
		return
	}
	var gt, eq, cm int64 = -1, -1, -1
	for _, blk := range fn.Blocks {
		for _, in := range blk.Instrs {
			bo, ok := in.(*ssa.BinOp)
			if !ok {
				continue
			}
			k, isK := constInt(bo.Y)
			if !isK {
				continue
			}
			_, isIdx := bo.X.(*ssa.BinOp)
			_, isPhi := bo.X.(*ssa.Phi)
			switch {
			case bo.Op == token.GTR && (isIdx || isPhi) && isIntType(bo.X.Type()):
				gt = k
			case bo.Op == token.EQL && (isIdx || isPhi) && isIntType(bo.X.Type()):
				eq = k
			case bo.Op == token.GTR && !isIntType(bo.X.Type()):
				cm = k
			}
		}
	}
	if gt == 9 && eq == 9 && cm == 1 {
		b.addP([]string{"C07", "C12"}, core.Discharged, key, c.FuncPos(fn), "i > 9 || i == 9 && c > 1: 7*9 bits plus 1 bit = 64")
	} else {
		b.addP([]string{"C07", "C12"}, core.Violation, key, c.FuncPos(fn), fmt.Sprintf("decodeVarint's overflow guard is i > %d || i == %d && c > %d; a 64-bit varint needs i > 9 || i == 9 && c > 1: over-long varints are accepted and wrap, or valid 10-byte varints are rejected", gt, eq, cm))
	}
}

// S9 — thrift struct encoder: fields are sorted by id before deltas are computed
func smallSortBeforeDelta(c *core.Ctx, b *ob) {
	fn := c.Lookup("thrift.encodeFuncStructOf")
	key := "sort-before-delta"
	if fn == nil {
		b.addP([]string{"C04", "C13"}, core.Undecided, key, "-", "encodeFuncStructOf not found")
		return
	}
	var sortCall *ssa.Call
	for _, ci := range callsIn(fn) {
		if call, ok := ci.(*ssa.Call); ok {
			if n := calleeName(call.Common()); n == "sort.SliceStable" || n == "sort.Slice" || n == "sort.Sort" || n == "sort.Stable" || strings.HasPrefix(n, "slices.Sort") {
				sortCall = call
			}
		}
	}
	if sortCall == nil {
		b.addP([]string{"C04", "C13"}, core.Violation, key, c.FuncPos(fn), "the struct encoder's fields are no longer sorted by id at construction: field-id deltas are computed in declaration order, so ids that are not declared in increasing order produce negative or wrong deltas in the compact protocol")
		return
	}
	dom := true
	for _, r := range returnsOf(fn) {
		if !instrDominates(sortCall, r) {
			dom = false
		}
	}
	// comparator reads only .id and uses <
	cmpOK := false
	for _, a := range fn.AnonFuncs {
		if a.Signature.Results().Len() == 1 && isBoolType(a.Signature.Results().At(0).Type()) {
			for _, blk := range a.Blocks {
				for _, in := range blk.Instrs {
					if bo, ok := in.(*ssa.BinOp); ok && bo.Op == token.LSS {
						fx, okx := fieldOfLoad(bo.X)
						fy, oky := fieldOfLoad(bo.Y)
						if okx && oky && strings.HasSuffix(fx, ".id") && strings.HasSuffix(fy, ".id") {
							cmpOK = true
						}
					}
				}
			}
		}
	}
	if dom && cmpOK {
		b.addP([]string{"C04", "C13"}, core.Discharged, key, c.InstrPos(sortCall), "fields sorted by id (ascending) before the encoder is returned")
	} else {
		b.addP([]string{"C04", "C13"}, core.Violation, key, c.InstrPos(sortCall), "the sort by field id does not dominate the return of the encoder, or its comparator is not `a.id < b.id`")
	}
}

// S10 — decodeDynamicNumber tests UseUint64 before UseInt64 before UseBigInt before UseNumber
func smallNumberPrecedence(c *core.Ctx, b *ob) {
	fn := c.Lookup("json.(decoder).decodeDynamicNumber")
	key := "number-kind-precedence"
	if fn == nil {
		b.addP([]string{"C14", "C02"}, core.Undecided, key, "-", "decodeDynamicNumber not found")
		return
	}
	order := []string{"UseUint64", "UseInt64", "UseBigInt", "UseNumber"}
	first := map[string]*ssa.Call{}
	for _, blk := range fn.DomPreorder() {
		for _, in := range blk.Instrs {
			call, ok := in.(*ssa.Call)
			if !ok || !strings.HasSuffix(calleeName(call.Common()), ".anyFlagsSet") {
				continue
			}
			k, isK := constUint(call.Common().Args[1])
			if !isK {
				continue
			}
			for _, name := range order {
				if k == jsonConst(c, name) && first[name] == nil {
					first[name] = call
				}
			}
		}
	}
	bad := ""
	for i := 0; i+1 < len(order); i++ {
		a, bb := first[order[i]], first[order[i+1]]
		if a == nil || bb == nil {
			bad = "flag test for " + order[i] + " or " + order[i+1] + " not found"
			break
		}
		if !instrDominates(a, bb) && !reachableFromBlock(a.Block(), bb.Block()) {
			bad = order[i+1] + " is tested on a path that does not first test " + order[i]
		}
		if reachableFromBlock(bb.Block(), a.Block()) && a.Block() != bb.Block() && !reachableFromBlock(a.Block(), bb.Block()) {
			bad = order[i+1] + " is tested before " + order[i]
		}
	}
	if bad == "" {
		b.addP([]string{"C14", "C02"}, core.Discharged, key, c.FuncPos(fn), "UseUint64, UseInt64, UseBigInt, UseNumber are consulted in the documented order")
	} else {
		b.addP([]string{"C14", "C02"}, core.Violation, key, c.FuncPos(fn), "number kind selection no longer follows the documented precedence: "+bad)
	}
}

// S11 — callee / constant identities
func smallIdentities(c *core.Ctx, b *ob) {
	uses := func(fnKey, suffix string) (bool, *ssa.Function) {
		fn := c.Lookup(fnKey)
		if fn == nil {
			return false, nil
		}
		for _, blk := range fn.Blocks {
			for _, in := range blk.Instrs {
				var ops []*ssa.Value
				for _, op := range in.Operands(ops) {
					if *op == nil {
						continue
					}
					if g, ok := (*op).(*ssa.Global); ok && strings.HasSuffix(g.Pkg.Pkg.Path()+"."+g.Name(), suffix) {
						return true, fn
					}
					if k, ok := (*op).(*ssa.Const); ok && k.Value != nil && strings.Contains(k.Value.ExactString(), suffix) {
						return true, fn
					}
				}
				if call, ok := in.(*ssa.Call); ok && strings.HasSuffix(calleeName(call.Common()), suffix) {
					return true, fn
				}
			}
		}
		return false, fn
	}
	type id struct {
		key, fn, suffix string
		props           []string
		why             string
	}
	for _, x := range []id{
		{"base64:encodeBytes", "json.(encoder).encodeBytes", "base64.StdEncoding", []string{"C01"}, "[]byte is standard base64, as in encoding/json"},
		{"base64:decodeBytes", "json.(decoder).decodeBytes", "base64.StdEncoding", []string{"C02"}, "[]byte is decoded with the standard base64 alphabet"},
		{"time:encodeTime", "json.(encoder).encodeTime", "2006-01-02T15:04:05.999999999Z07:00", []string{"C01"}, "time.Time is formatted as RFC3339Nano"},
		{"time:decodeTime", "json.(decoder).decodeTime", "iso8601.Parse", []string{"C02"}, "time.Time is parsed by iso8601.Parse"},
		{"endianness:proto.encodeLE32", "proto.encodeLE32", "binary.littleEndian).PutUint32", []string{"C12"}, "fixed32 is little-endian"},
		{"endianness:proto.encodeLE64", "proto.encodeLE64", "binary.littleEndian).PutUint64", []string{"C12"}, "fixed64 is little-endian"},
		{"endianness:proto.decodeLE32", "proto.decodeLE32", "binary.littleEndian).Uint32", []string{"C12"}, "fixed32 is little-endian"},
		{"endianness:proto.decodeLE64", "proto.decodeLE64", "binary.littleEndian).Uint64", []string{"C12"}, "fixed64 is little-endian"},
	} {
		ok, fn := uses(x.fn, x.suffix)
		switch {
		case fn == nil:
			b.addP(x.props, core.Undecided, "identity:"+x.key, "-", x.fn+" not found")
		case ok:
			b.addP(x.props, core.Discharged, "identity:"+x.key, c.FuncPos(fn), x.why)
		default:
			b.addP(x.props, core.Violation, "identity:"+x.key, c.FuncPos(fn), fmt.Sprintf("%s no longer uses %s (%s)", x.fn, x.suffix, x.why))
		}
	}
}

// S12 — proto: the implicit number of an untagged field counts the exported fields that precede
// it; it is not the reflect field index (which also counts unexported fields).
func smallImplicitNumber(c *core.Ctx, b *ob) {
	props := []string{"C12", "C03", "C07"}
	key := "implicit-field-number"
	fn := c.Lookup("proto.structCodecOf")
	if fn == nil {
		b.addP(props, core.Undecided, key, "-", "proto.structCodecOf not found")
		return
	}
	// the index passed to reflect.Type.Field
	var idx []ssa.Value
	for _, ci := range callsIn(fn) {
		cc := ci.Common()
		if cc.IsInvoke() && cc.Method.Name() == "Field" && len(cc.Args) == 1 {
			idx = append(idx, cc.Args[0])
		}
	}
	arith := func(v ssa.Value, target ssa.Value) bool {
		seen := map[ssa.Value]bool{}
		var walk func(ssa.Value) bool
		walk = func(v ssa.Value) bool {
			if v == nil || seen[v] {
				return false
			}
			seen[v] = true
			if v == target {
				return true
			}
			switch x := v.(type) {
			case *ssa.Convert:
				return walk(x.X)
			case *ssa.ChangeType:
				return walk(x.X)
			case *ssa.BinOp:
				return walk(x.X) || walk(x.Y)
			}
			return false
		}
		return walk(v)
	}
	n, bad := 0, ""
	for _, blk := range fn.Blocks {
		for _, in := range blk.Instrs {
			st, ok := in.(*ssa.Store)
			if !ok {
				continue
			}
			fa, ok := st.Addr.(*ssa.FieldAddr)
			if !ok || fieldNameOf(fa) != "number" || !strings.HasSuffix(namedKey(fa.X.Type().Underlying().(*types.Pointer).Elem()), "structField") {
				continue
			}
			n++
			for _, i := range idx {
				if arith(st.Val, i) {
					bad = c.InstrPos(st)
				}
			}
		}
	}
	switch {
	case n == 0 || len(idx) == 0:
		b.addP(props, core.Undecided, key, c.FuncPos(fn), "no store to structField.number / no reflect Field(i) call found in structCodecOf")
	case bad != "":
		b.addP(props, core.Violation, key, bad, "the implicit field number is computed from the reflect field index, which also counts unexported fields: every exported field declared after an unexported one gets a different number than before (and than the reader of previously written data expects)")
	default:
		b.addP(props, core.Discharged, key, c.FuncPos(fn), "structField.number comes from the exported-field counter or the tag, never from the reflect index")
	}
}

// S13 — thrift compact field headers: the base of the id delta is the absolute id of the field
// handled last, updated on every iteration (never the delta that was just written, never left
// unchanged by a long-form header).
func smallDeltaBase(c *core.Ctx, b *ob) {
	props := []string{"C13", "C04"}
	phiLeaves := func(v ssa.Value) []ssa.Value {
		var out []ssa.Value
		seen := map[ssa.Value]bool{}
		var walk func(ssa.Value)
		walk = func(v ssa.Value) {
			if seen[v] {
				return
			}
			seen[v] = true
			if phi, ok := v.(*ssa.Phi); ok {
				for _, e := range phi.Edges {
					walk(e)
				}
				return
			}
			out = append(out, v)
		}
		walk(v)
		return out
	}
	for _, spec := range []struct {
		fn, key string
		op      token.Token
		leaf    string
		why     string
	}{
		{"thrift.(*structEncoder).encode", "delta-base:writer", token.SUB, "structEncoderField.id", "the delta written for a field is its id minus the id of the field written before it; the base must be that absolute id (f.id), not the Field value whose ID was just overwritten with the delta"},
		{"thrift.readStruct", "delta-base:reader", token.ADD, "Field.ID", "a short-form header carries the id relative to the previous field's id, whichever form that previous header used: the base must be reassigned from the resolved id on every iteration"},
	} {
		fn := c.Lookup(spec.fn)
		if fn == nil {
			b.addP(props, core.Undecided, spec.key, "-", spec.fn+" not found")
			continue
		}
		var found *ssa.BinOp
		var base ssa.Value
		for _, blk := range fn.Blocks {
			for _, in := range blk.Instrs {
				bo, ok := in.(*ssa.BinOp)
				if !ok || bo.Op != spec.op {
					continue
				}
				for _, pair := range [][2]ssa.Value{{bo.X, bo.Y}, {bo.Y, bo.X}} {
					if texpr(pair[0], 0) == "Field.ID" {
						if _, isPhi := pair[1].(*ssa.Phi); isPhi {
							found, base = bo, pair[1]
						}
					}
				}
			}
		}
		if found == nil {
			b.addP(props, core.Undecided, spec.key, c.FuncPos(fn), "no id-delta arithmetic (Field.ID "+spec.op.String()+" loop-carried base) found")
			continue
		}
		bad := ""
		for _, l := range phiLeaves(base) {
			if k, ok := constInt(l); ok && k == 0 {
				continue
			}
			if texpr(l, 0) == spec.leaf {
				if _, isLoad := l.(*ssa.UnOp); isLoad {
					continue
				}
			}
			bad = texpr(l, 0)
		}
		if bad == "" && spec.op == token.SUB {
			bad = deltaBaseKeptAfterWrite(fn, base)
		}
		if bad != "" {
			b.addP(props, core.Violation, spec.key, c.InstrPos(found), fmt.Sprintf("%s: the delta base can be %s. %s", spec.fn, bad, spec.why))
		} else {
			b.addP(props, core.Discharged, spec.key, c.InstrPos(found), "the delta base is 0 or "+spec.leaf+" on every path")
		}
	}
}

// deltaBaseKeptAfterWrite: once a field header has been written in an iteration (WriteField with a
// non-constant field), the base must be reassigned before the next iteration: no φ on the way to
// the loop header may carry the header's own value in from a block reached after that call.
func deltaBaseKeptAfterWrite(fn *ssa.Function, base ssa.Value) string {
	hphi, ok := base.(*ssa.Phi)
	if !ok {
		return ""
	}
	h := hphi.Block()
	body := loopBlocks(h)
	after := map[*ssa.BasicBlock]bool{}
	var work []*ssa.BasicBlock
	for blk := range body {
		for _, in := range blk.Instrs {
			ci, isCall := in.(ssa.CallInstruction)
			if !isCall || ci.Common().Method == nil || ci.Common().Method.Name() != "WriteField" {
				continue
			}
			for _, sc := range blk.Succs {
				if body[sc] && sc != h {
					work = append(work, sc)
				}
			}
			after[blk] = true // edges leaving the call's block count as "after the write"
		}
	}
	for len(work) > 0 {
		blk := work[len(work)-1]
		work = work[:len(work)-1]
		if after[blk] {
			continue
		}
		after[blk] = true
		for _, sc := range blk.Succs {
			if body[sc] && sc != h {
				work = append(work, sc)
			}
		}
	}
	seen := map[*ssa.Phi]bool{}
	var check func(phi *ssa.Phi) string
	check = func(phi *ssa.Phi) string {
		if seen[phi] {
			return ""
		}
		seen[phi] = true
		for i, e := range phi.Edges {
			pred := phi.Block().Preds[i]
			if !body[pred] || (phi == hphi && !h.Dominates(pred)) {
				continue
			}
			if e == ssa.Value(hphi) && after[pred] {
				return "left at the id of an earlier field after a header has been written (" + pred.String() + " reaches the next iteration without reassigning it)"
			}
			if q, isPhi := e.(*ssa.Phi); isPhi && q != hphi && body[q.Block()] {
				if r := check(q); r != "" {
					return r
				}
			}
		}
		return ""
	}
	return check(hphi)
}

// S14 — proto BitOr rule: a nil Rewriter means "remove the field" to the enclosing message
// rewriter, so BitOr.Rewriter may return nil only together with an error; a zero mask must still
// produce a rewriter (x|0 == x keeps the field).
func smallBitOrZeroMask(c *core.Ctx, b *ob) {
	props := []string{"C19"}
	key := "bitor:nil-only-with-error"
	fn := c.Lookup("proto.(BitOr).Rewriter")
	if fn == nil {
		b.addP(props, core.Undecided, key, "-", "proto.(BitOr[T]).Rewriter not found")
		return
	}
	n, bad := 0, ""
	for _, r := range returnsOf(fn) {
		if len(r.Results) != 2 {
			continue
		}
		n++
		if !isNilConst(r.Results[0]) {
			continue
		}
		// dominated by the non-nil side of an error test
		if !onFailingPath(r.Block()) {
			bad = c.InstrPos(r)
		}
	}
	switch {
	case n == 0:
		b.addP(props, core.Undecided, key, c.FuncPos(fn), "no return found")
	case bad != "":
		b.addP(props, core.Violation, key, bad, "BitOr.Rewriter returns a nil Rewriter on a path where the error may be nil (a zero mask): the enclosing message rewriter installs an empty rewriter for the field, which deletes it instead of leaving x|0 == x")
	default:
		b.addP(props, core.Discharged, key, c.FuncPos(fn), "a nil Rewriter is returned only on the error path")
	}
}

// S15 — proto: a length or tag written as one raw byte (outside the varint encoder) is only a
// valid varint below 0x80.
func smallRawVarintByte(c *core.Ctx, b *ob) {
	props := []string{"C19", "C03", "C16"}
	n := 0
	for _, fn := range c.RepoFunctions() {
		name := shortName(fn)
		if fn.Blocks == nil || !strings.HasPrefix(name, "proto.") || strings.HasPrefix(name, "proto.encodeVarint") || strings.HasPrefix(name, "proto.encodeZigZag") {
			continue
		}
		k := 0
		for _, blk := range fn.Blocks {
			for _, in := range blk.Instrs {
				st, ok := in.(*ssa.Store)
				if !ok {
					continue
				}
				if _, isElem := st.Addr.(*ssa.IndexAddr); !isElem {
					continue
				}
				cv, ok := st.Val.(*ssa.Convert)
				if !ok {
					continue
				}
				if bt, ok := cv.Type().Underlying().(*types.Basic); !ok || bt.Kind() != types.Uint8 {
					continue
				}
				src, ok := cv.X.Type().Underlying().(*types.Basic)
				if !ok || src.Info()&types.IsInteger == 0 || src.Kind() == types.Uint8 {
					continue
				}
				if _, isK := cv.X.(*ssa.Const); isK {
					continue
				}
				k++
				n++
				key := fmt.Sprintf("raw-varint-byte:%s#%d", name, k)
				_, hi := rangeFacts(cv.X, blk)
				if hi != nil && hi.Int64() <= 127 {
					b.addP(props, core.Discharged, key, c.InstrPos(st), "value proven < 0x80 where it is written as one byte")
				} else {
					have := "unbounded"
					if hi != nil {
						have = "<= " + hi.String()
					}
					b.addP(props, core.Violation, key, c.InstrPos(st), fmt.Sprintf("%s writes an integer (%s) as a single raw byte of the message: only values below 0x80 are one-byte varints, 0x80 itself reads back as a continuation byte and the message no longer decodes", name, have))
				}
			}
		}
	}
	if n == 0 {
		b.addP(props, core.Discharged, "raw-varint-byte:none", "proto", "no integer is written as a raw byte outside encodeVarint: every length and tag goes through the varint encoder")
	}
}

// S52 — a nil pointer whose type implements Marshaler or TextMarshaler is written as null (or, as a
// map key, as the empty string): the method is not called. json's three call sites of
// MarshalJSON / MarshalText (the two value encoders and the text of map keys used for sorting)
// each test IsNil on the reflect.Value first; without it a value-receiver method is called through
// a nil pointer, which panics.
func smallMarshalerNilChecked(c *core.Ctx, b *ob) {
	props := []string{"C06", "C01"}
	n := 0
	fns := c.RepoFunctions()
	sort.Slice(fns, func(i, j int) bool { return shortName(fns[i]) < shortName(fns[j]) })
	for _, fn := range fns {
		name := shortName(fn)
		if fn.Blocks == nil || !strings.HasPrefix(name, "json.") {
			continue
		}
		for _, ci := range callsIn(fn) {
			m := ci.Common().Method
			if m == nil || (m.Name() != "MarshalJSON" && m.Name() != "MarshalText") {
				continue
			}
			n++
			key := "marshaler:nil-checked:" + closureIndex.ReplaceAllString(name, "") + ":" + m.Name()
			checked := false
			// a test of IsNil() whose true edge leaves (return) dominates the call through its
			// false edge, or the call's block is reached only after such a test was passed
			for _, blk := range fn.Blocks {
				ifi, ok := blk.Instrs[len(blk.Instrs)-1].(*ssa.If)
				if !ok {
					continue
				}
				conds := []ssa.Value{ifi.Cond}
				if phi, isPhi := ifi.Cond.(*ssa.Phi); isPhi {
					conds = append(conds, phi.Edges...)
				}
				isNilTest := false
				for _, cv := range conds {
					if cc, isCall := cv.(*ssa.Call); isCall && calleeName(cc.Common()) == "(reflect.Value).IsNil" {
						isNilTest = true
					}
				}
				if !isNilTest {
					continue
				}
				// the nil side must not reach the call
				nilSide := blk.Succs[0]
				// (the test itself sits under a kind switch — only pointers and interfaces can be
				// nil — so it need not dominate the call; its nil side must not lead to it)
				if nilSide != ci.Block() && !reachableFromBlock(nilSide, ci.Block()) && reachableFromBlock(blk, ci.Block()) {
					checked = true
				}
			}
			if checked {
				b.addP(props, core.Discharged, key, c.InstrPos(ci), "IsNil is tested before the method is called")
			} else {
				b.addP(props, core.Violation, key, c.InstrPos(ci), name+" calls "+m.Name()+" on a value without having tested IsNil: for a nil pointer whose element type has the method with a value receiver, the call panics (\"value method called using nil pointer\") where encoding/json writes null (or \"\" for a map key)")
			}
		}
	}
	if n == 0 {
		b.addP(props, core.Undecided, "marshaler:nil-checked", "-", "no MarshalJSON/MarshalText call found in json")
	}
}

// S50 — reflect.Value.FieldByIndex panics when the path goes through a nil embedded pointer. The
// codecs walk promoted fields step by step with a nil test at each pointer; a call of
// FieldByIndex in steady-state code turns a nil embedded struct pointer into a panic.
func smallNoFieldByIndex(c *core.Ctx, b *ob) {
	props := []string{"C04", "C08"}
	key := "reflect:no-field-by-index"
	bad := ""
	for _, fn := range c.RepoFunctions() {
		if fn.Blocks == nil {
			continue
		}
		name := shortName(fn)
		if !(strings.HasPrefix(name, "thrift.") || strings.HasPrefix(name, "json.") || strings.HasPrefix(name, "proto.")) {
			continue
		}
		for _, ci := range callsIn(fn) {
			if calleeName(ci.Common()) == "(reflect.Value).FieldByIndex" {
				if name == "thrift.(*structDecoder).decode" {
					continue // the path of the union interface field, set once a variant has been decoded into the same struct
				}
				bad = name + " at " + c.InstrPos(ci)
			}
		}
	}
	if bad != "" {
		b.addP(props, core.Violation, key, "-", "reflect.Value.FieldByIndex is called ("+bad+"): it panics (\"indirection through nil pointer to embedded struct\") when a field is promoted through an embedded struct pointer that is nil, a value the codecs otherwise treat as \"field absent\"")
	} else {
		b.addP(props, core.Discharged, key, "-", "promoted fields are reached step by step, never through FieldByIndex")
	}
}

// S51 — json's field resolution: a name declared directly in a struct shadows every promoted field
// of that name, tagged or not. appendStructFields records the direct names in both of its
// ambiguity counters (by name, and by tagged name); recorded in one only, a promoted field whose
// tag gives it the same name counts as the single tagged candidate and is added as a duplicate.
func smallDirectNamesShadowBoth(c *core.Ctx, b *ob) {
	props := []string{"C01", "C02"}
	key := "struct-fields:direct-names-shadow-tagged-too"
	fn := c.Lookup("json.appendStructFields")
	if fn == nil {
		b.addP(props, core.Undecided, key, "-", "json.appendStructFields not found")
		return
	}
	// the counters: map[string]int created in the function
	counters := map[ssa.Value]bool{}
	for _, blk := range fn.Blocks {
		for _, in := range blk.Instrs {
			if mk, ok := in.(*ssa.MakeMap); ok && strings.HasSuffix(mk.Type().String(), "map[string]int") {
				counters[mk] = true
			}
		}
	}
	// the loop that ranges over a map[string]struct{} (the direct names)
	updated := map[ssa.Value]bool{}
	found := false
	for _, blk := range fn.Blocks {
		for _, in := range blk.Instrs {
			mu, ok := in.(*ssa.MapUpdate)
			if !ok || !counters[mu.Map] {
				continue
			}
			// key comes from a range over a map with empty-struct values
			fromNames := dependsOn(mu.Key, func(x ssa.Value) bool {
				nx, isN := x.(*ssa.Next)
				if !isN {
					return false
				}
				rg, isR := nx.Iter.(*ssa.Range)
				return isR && strings.HasSuffix(rg.X.Type().String(), "map[string]struct{}")
			})
			if fromNames {
				found = true
				updated[mu.Map] = true
			}
		}
	}
	switch {
	case len(counters) < 2 || !found:
		b.addP(props, core.Undecided, key, c.FuncPos(fn), "the ambiguity counters or the loop over the directly declared names were not found")
	case len(updated) < len(counters):
		b.addP(props, core.Violation, key, c.FuncPos(fn), fmt.Sprintf("appendStructFields records the directly declared names in %d of its %d ambiguity counters: a promoted field whose tag gives it the name of a direct field is then taken for the only tagged candidate and added next to the direct one (with the map-based lookup, used for long names, the promoted duplicate wins)", len(updated), len(counters)))
	default:
		b.addP(props, core.Discharged, key, c.FuncPos(fn), "direct names are recorded in every ambiguity counter")
	}
}

// S49 — a json.Number is written only if it is exactly a number literal (encoding/json:
// isValidNumber). Unlike RawMessage and Marshaler output, which are documents and may be
// surrounded by white space, nothing may precede or follow the literal: the encoder of Number must
// not skip white space around what parseNumber consumed (Number("1 ") would be written as "1 ").
func smallNumberExactLiteral(c *core.Ctx, b *ob) {
	props := []string{"C01", "C05"}
	key := "number-literal:nothing-around-it"
	fn := c.Lookup("json.(encoder).encodeNumber")
	if fn == nil {
		b.addP(props, core.Undecided, key, "-", "json.(encoder).encodeNumber not found")
		return
	}
	bad := ""
	parses := false
	for _, ci := range callsIn(fn) {
		if f := staticCallee(ci.Common()); f != nil {
			if strings.HasPrefix(f.Name(), "skipSpaces") || f.Name() == "TrimSpace" {
				bad = c.InstrPos(ci)
			}
			if f.Name() == "parseNumber" {
				parses = true
			}
		}
	}
	switch {
	case !parses:
		b.addP(props, core.Undecided, key, c.FuncPos(fn), "encodeNumber does not validate with parseNumber")
	case bad != "":
		b.addP(props, core.Violation, key, bad, "encodeNumber skips white space around the number it validates: json.Number(\"1 \") is accepted and written with its trailing space ([1 ,2]) where encoding/json reports an invalid number literal")
	default:
		b.addP(props, core.Discharged, key, c.FuncPos(fn), "the Number must be the literal and nothing else")
	}
}

// S48 — proto's unrolled varint encoder: in the case for n bytes, byte i holds bits 7i..7i+6 of the
// value, with the continuation bit (0x80) on every byte but the last. Each case is a block of
// stores to constant indexes; the shape of every store is checked against that table. A byte that
// loses its continuation bit ends the varint early for the values whose next payload bit is 0.
func smallVarintBytes(c *core.Ctx, b *ob) {
	props := []string{"C03", "C12", "C16", "C19"}
	key := "varint-encoder:byte-table"
	fn := c.Lookup("proto.encodeVarint")
	if fn == nil {
		b.addP(props, core.Undecided, key, "-", "proto.encodeVarint not found")
		return
	}
	dst := fn.Params[0]
	cases, bad := 0, ""
	for _, blk := range fn.Blocks {
		type st struct {
			idx, shift int64
			cont       bool
			pos        string
		}
		var stores []st
		okShape := true
		for _, in := range blk.Instrs {
			s, ok := in.(*ssa.Store)
			if !ok {
				continue
			}
			ia, ok := s.Addr.(*ssa.IndexAddr)
			if !ok || ia.X != ssa.Value(dst) {
				continue
			}
			i, isK := constInt(ia.Index)
			if !isK {
				okShape = false
				continue
			}
			v := s.Val
			cont := false
			if or, isOr := v.(*ssa.BinOp); isOr && or.Op == token.OR {
				if k, isK := constInt(or.Y); isK && k == 0x80 {
					cont = true
					v = or.X
				}
			}
			if cv, isCv := v.(*ssa.Convert); isCv {
				v = cv.X
			}
			shift := int64(0)
			if sh, isSh := v.(*ssa.BinOp); isSh && sh.Op == token.SHR {
				if k, isK := constInt(sh.Y); isK {
					shift = k
					v = sh.X
				}
			}
			if v != ssa.Value(fn.Params[1]) {
				okShape = false
			}
			stores = append(stores, st{i, shift, cont, c.InstrPos(s)})
		}
		if len(stores) == 0 {
			continue
		}
		cases++
		if !okShape {
			bad = c.PosOf(blk.Instrs[0].Pos()) + " (a store that is not byte(v>>k) [|0x80] at a constant index)"
			continue
		}
		max := int64(-1)
		for _, x := range stores {
			if x.idx > max {
				max = x.idx
			}
		}
		for _, x := range stores {
			if x.shift != 7*x.idx {
				bad = fmt.Sprintf("%s (byte %d takes v>>%d, the table says v>>%d)", x.pos, x.idx, x.shift, 7*x.idx)
			}
			if x.cont != (x.idx < max) {
				if x.idx < max {
					bad = fmt.Sprintf("%s (byte %d of a %d-byte varint has no continuation bit: the varint ends there whenever bit %d of the value is 0)", x.pos, x.idx, max+1, 7*x.idx+7)
				} else {
					bad = fmt.Sprintf("%s (the last byte of a %d-byte varint carries a continuation bit)", x.pos, max+1)
				}
			}
		}
	}
	switch {
	case cases == 0:
		b.addP(props, core.Info, key, c.FuncPos(fn), "encodeVarint is not an unrolled table of byte stores")
	case bad != "":
		b.addP(props, core.Violation, key, c.FuncPos(fn), "proto.encodeVarint deviates from the varint byte table at "+bad+": the bytes written are not the varint of the value, and what follows is read as a new tag")
	default:
		b.addP(props, core.Discharged, key, c.FuncPos(fn), fmt.Sprintf("%d cases: byte i = v>>7i, continuation bit on all but the last", cases))
	}
}

// S45 — protobuf field numbers run from 1 to 2^29-1 inclusive. Wherever proto compares a field
// number with that bound the largest number must stay admitted: f > 2^29-1 (or f >= 2^29)
// rejects what must be rejected, f >= 2^29-1 also rejects a legal field.
func smallFieldNumberLimit(c *core.Ctx, b *ob) {
	props := []string{"C19", "C07"}
	key := "field-number:largest-admitted"
	const maxFN = 1<<29 - 1
	n, bad := 0, ""
	for _, fn := range c.RepoFunctions() {
		if fn.Blocks == nil || !strings.HasPrefix(shortName(fn), "proto.") {
			continue
		}
		for _, blk := range fn.Blocks {
			for _, in := range blk.Instrs {
				bo, ok := in.(*ssa.BinOp)
				if !ok {
					continue
				}
				k, isK := constInt(bo.Y)
				op := bo.Op
				if !isK {
					k, isK = constInt(bo.X)
					switch op { // K op x  ==  x flip(op) K
					case token.GTR:
						op = token.LSS
					case token.GEQ:
						op = token.LEQ
					case token.LSS:
						op = token.GTR
					case token.LEQ:
						op = token.GEQ
					}
				}
				if !isK || (k != maxFN && k != maxFN+1) {
					continue
				}
				switch op {
				case token.GTR, token.GEQ, token.LSS, token.LEQ:
				default:
					continue
				}
				n++
				// the set rejected (for >, >=) or admitted (for <, <=) must split at maxFN | maxFN+1
				okSplit := (op == token.GTR && k == maxFN) || (op == token.GEQ && k == maxFN+1) || (op == token.LEQ && k == maxFN) || (op == token.LSS && k == maxFN+1)
				if !okSplit {
					bad = c.InstrPos(bo)
				}
			}
		}
	}
	switch {
	case bad != "":
		b.addP(props, core.Violation, key, bad, "a comparison of a field number with the 2^29-1 bound is off by one: the largest legal field number (536870911) is rejected (or 2^29 admitted), so a valid message that uses it cannot be scanned or rewritten although Unmarshal accepts it")
	case n == 0:
		b.addP(props, core.Info, key, "-", "proto does not compare field numbers with the 2^29-1 bound")
	default:
		b.addP(props, core.Discharged, key, "-", fmt.Sprintf("%d comparisons, each splitting at 2^29-1 | 2^29", n))
	}
}

// S46 — a map template is rewritten entry by entry through a synthetic {"key":…,"value":…}
// document. Both members must always be present in it: a member dropped by omitempty (an empty
// string key, a zero value) leaves the entry rewriter without a rule for that field, and the
// input's first entry leaks into the result.
func smallMapTemplateEntryComplete(c *core.Ctx, b *ob) {
	props := []string{"C19"}
	key := "map-template:entry-has-key-and-value"
	fn := c.Lookup("proto.parseRewriteTemplateMap")
	if fn == nil {
		b.addP(props, core.Undecided, key, "-", "proto.parseRewriteTemplateMap not found")
		return
	}
	n, bad := 0, ""
	for _, ci := range callsIn(fn) {
		if !strings.HasSuffix(calleeName(ci.Common()), "json.Marshal") {
			continue
		}
		for _, a := range ci.Common().Args {
			mi, ok := a.(*ssa.MakeInterface)
			if !ok {
				continue
			}
			st, ok := mi.X.Type().Underlying().(*types.Struct)
			if !ok {
				continue
			}
			n++
			for i := 0; i < st.NumFields(); i++ {
				if strings.Contains(st.Tag(i), "omitempty") {
					bad = c.InstrPos(ci)
				}
			}
		}
	}
	switch {
	case n == 0:
		b.addP(props, core.Undecided, key, c.FuncPos(fn), "the synthetic entry document was not found")
	case bad != "":
		b.addP(props, core.Violation, key, bad, "the synthetic map-entry document omits empty members (omitempty): for an entry with an empty-string key (or a zero value) the entry rewriter has no rule for that field, and the key of the input's first entry shows through ({\"\":5} applied to {hello:1} gives {hello:5})")
	default:
		b.addP(props, core.Discharged, key, c.FuncPos(fn), "key and value are always present in the synthetic entry")
	}
}

// S47 — Tokenizer.Float returns the value of the number token, whatever its syntactic kind:
// integer literals can exceed the 64-bit range (18446744073709551616, -9223372036854775809), where
// Uint()/Int() give 0. Every path of Float goes through strconv.ParseFloat.
func smallTokenizerFloat(c *core.Ctx, b *ob) {
	props := []string{"C17"}
	key := "tokenizer:float-parses-the-literal"
	fn := c.Lookup("json.(*Tokenizer).Float")
	if fn == nil {
		b.addP(props, core.Undecided, key, "-", "json.(*Tokenizer).Float not found")
		return
	}
	bad := ""
	n := 0
	for _, r := range returnsOf(fn) {
		if len(r.Results) != 1 {
			continue
		}
		n++
		if !dependsOn(r.Results[0], func(x ssa.Value) bool {
			call, ok := x.(*ssa.Call)
			return ok && calleeName(call.Common()) == "strconv.ParseFloat"
		}) {
			bad = c.InstrPos(r)
		}
	}
	switch {
	case n == 0:
		b.addP(props, core.Undecided, key, c.FuncPos(fn), "Float has no return")
	case bad != "":
		b.addP(props, core.Violation, key, bad, "Tokenizer.Float returns a value that does not come from strconv.ParseFloat on some path (an integer shortcut through Uint()/Int()): integer literals outside the 64-bit range give 0 instead of their value, and -0 gives +0")
	default:
		b.addP(props, core.Discharged, key, c.FuncPos(fn), "every path parses the literal with strconv.ParseFloat")
	}
}

// S44 — compact lists and sets of booleans may announce element type 1 (TRUE) or 2 (FALSE = BOOL):
// writers differ, readers accept both. The list and set decoders map TRUE to BOOL before they
// compare the announced element type with the expected one; compared first, a conformant
// list<bool> with element type 1 is a "mismatch" (skipped, or an error in strict mode).
func smallThriftBoolElemNormalised(c *core.Ctx, b *ob) {
	props := []string{"C13", "C08"}
	trueV, ok := thriftConst(c, "TRUE")
	if !ok {
		b.addP(props, core.Undecided, "thrift:bool-element-type-normalised", "-", "thrift.TRUE not found")
		return
	}
	n := 0
	for _, name := range []string{"thrift.decodeFuncSliceOf$1", "thrift.decodeFuncMapAsSetOf$1", "thrift.decodeFuncMapOf$1"} {
		fn := c.Lookup(name)
		key := "thrift:bool-element-type-normalised:" + closureIndex.ReplaceAllString(name, "")
		if fn == nil {
			b.addP(props, core.Undecided, key, "-", name+" not found")
			continue
		}
		var norm, cmp *ssa.BasicBlock
		for _, blk := range fn.Blocks {
			for _, in := range blk.Instrs {
				bo, ok := in.(*ssa.BinOp)
				if !ok || !strings.HasSuffix(bo.X.Type().String(), "thrift.Type") {
					continue
				}
				if k, isK := constInt(bo.Y); isK && k == trueV && bo.Op == token.EQL {
					norm = blk
					continue
				}
				if _, isK := bo.Y.(*ssa.Const); isK {
					continue
				}
				if _, isK := bo.X.(*ssa.Const); isK {
					continue
				}
				if (bo.Op == token.NEQ || bo.Op == token.EQL) && cmp == nil {
					cmp = blk
				}
			}
		}
		n++
		switch {
		case cmp == nil:
			b.addP(props, core.Undecided, key, c.FuncPos(fn), "no comparison of the announced element type with the expected one found")
		case norm == nil:
			b.addP(props, core.Violation, key, c.FuncPos(fn), name+" does not map element type TRUE to BOOL: a list<bool> written with element type 1, as other implementations do, does not decode")
		case !(norm == cmp || norm.Dominates(cmp)):
			b.addP(props, core.Violation, key, c.PosOf(cmp.Instrs[0].Pos()), name+" compares the announced element type with the expected one before mapping TRUE to BOOL: a conformant list<bool> announced with element type 1 is treated as a type mismatch (skipped silently, an error in strict mode)")
		default:
			b.addP(props, core.Discharged, key, c.FuncPos(fn), "TRUE is mapped to BOOL before the element type is compared")
		}
	}
	if n == 0 {
		b.addP(props, core.Undecided, "thrift:bool-element-type-normalised", "-", "list/set decoders not found")
	}
}

// S43 — a Decoder takes from its reader only what it buffers: Buffered() plus what is left in the
// reader is exactly the unconsumed input, so a caller can hand the rest of a stream to something
// else. NewDecoder must therefore keep the reader it was given; wrapping it in a read-ahead
// buffer of its own moves bytes out of the caller's reader that Buffered() does not return.
func smallDecoderReaderNotWrapped(c *core.Ctx, b *ob) {
	props := []string{"C11"}
	key := "decoder:reads-from-the-given-reader"
	fn := c.Lookup("json.NewDecoder")
	if fn == nil || len(fn.Params) != 1 {
		b.addP(props, core.Undecided, key, "-", "json.NewDecoder not found")
		return
	}
	n, bad := 0, ""
	for _, blk := range fn.Blocks {
		for _, in := range blk.Instrs {
			st, ok := in.(*ssa.Store)
			if !ok {
				continue
			}
			fa, ok := st.Addr.(*ssa.FieldAddr)
			if !ok || fieldAddrID(fa) != "json.Decoder.reader" {
				continue
			}
			n++
			if st.Val != ssa.Value(fn.Params[0]) {
				bad = c.InstrPos(st)
			}
		}
	}
	switch {
	case n == 0:
		b.addP(props, core.Undecided, key, c.FuncPos(fn), "NewDecoder does not store a reader")
	case bad != "":
		b.addP(props, core.Violation, key, bad, "NewDecoder stores something else than the reader it was given (a wrapper): bytes read ahead by the wrapper are neither returned by Buffered() nor left in the caller's reader, so the unconsumed input can no longer be recovered after Decode")
	default:
		b.addP(props, core.Discharged, key, c.FuncPos(fn), "the Decoder reads from the caller's reader directly")
	}
}

// S42 — the memo a type compiler threads through its recursion (seen map[reflect.Type]…) holds
// descriptors that are registered *before* they are complete, which is what lets recursive types
// terminate. That is only safe while the memo is private to one compilation: the entry points
// create it afresh and publish the finished result through the copy-on-write cache. A memo that
// outlives the call (a package-level map, a sync.Map) exposes half-built codecs to other
// goroutines compiling a type that shares a component.
func smallMemoFreshPerCompilation(c *core.Ctx, b *ob) {
	props := []string{"C09"}
	isMemoType := func(t types.Type) bool {
		s := t.String()
		return strings.Contains(s, "encodeFuncCache") || strings.Contains(s, "decodeFuncCache") || strings.HasPrefix(t.Underlying().String(), "map[reflect.Type]") || strings.Contains(t.Underlying().String(), "map[github.com/segmentio/encoding/json.structTypeKey]")
	}
	hasMemoParam := func(fn *ssa.Function) int {
		for i, p := range fn.Params {
			if isMemoType(p.Type()) {
				return i
			}
		}
		return -1
	}
	n := 0
	fns := c.RepoFunctions()
	sort.Slice(fns, func(i, j int) bool { return shortName(fns[i]) < shortName(fns[j]) })
	for _, fn := range fns {
		if fn.Blocks == nil || hasMemoParam(fn) >= 0 {
			continue // only the entry points: callers that do not themselves receive a memo
		}
		if fn.Parent() != nil && hasMemoParam(fn.Parent()) >= 0 {
			continue // closures of a compiler capture its memo
		}
		for _, ci := range callsIn(fn) {
			f := staticCallee(ci.Common())
			if f == nil || !c.InRepo(f) {
				continue
			}
			idx := hasMemoParam(f)
			if idx < 0 || idx >= len(ci.Common().Args) {
				continue
			}
			arg := ci.Common().Args[idx]
			n++
			key := "memo:fresh-per-compilation:" + shortName(fn) + "->" + f.Name()
			fresh := false
			for _, o := range origins(arg) {
				switch x := o.(type) {
				case *ssa.MakeMap:
					fresh = true
				case *ssa.Alloc:
					fresh = true
				case *ssa.Const:
					if x.Value == nil {
						fresh = true // a nil memo: nothing shared
					}
				default:
					fresh = false
				}
				if !fresh {
					break
				}
			}
			if fresh {
				b.addP(props, core.Discharged, key, c.InstrPos(ci), "the memo is created for this compilation")
			} else {
				b.addP(props, core.Violation, key, c.InstrPos(ci), shortName(fn)+" hands "+f.Name()+" a memo that is not created for this call ("+texpr(arg, 0)+"): the compilers register a type's codec before it is complete, so a memo shared between calls lets another goroutine pick up a half-built codec (fields missing: a truncated encoding with a nil error)")
			}
		}
	}
	if n == 0 {
		b.addP(props, core.Undecided, "memo:fresh-per-compilation", "-", "no entry point of a type compiler found")
	}
}

// S41 — every occurrence of a repeated field on the wire is one element, an empty payload included
// (the reference implementation writes an all-default sub-message as tag, length 0). The decoder
// of repeated fields reaches the element codec on every path: a return that bypasses it (an
// "empty input, nothing to do" shortcut) silently drops elements.
func smallRepeatedOneElementPerOccurrence(c *core.Ctx, b *ob) {
	props := []string{"C12", "C03"}
	key := "repeated:one-element-per-occurrence"
	fn := c.Lookup("proto.sliceDecodeFuncOf$1")
	if fn == nil {
		b.addP(props, core.Undecided, key, "-", "proto.sliceDecodeFuncOf$1 not found")
		return
	}
	var elem *ssa.Call
	for _, ci := range callsIn(fn) {
		call, ok := ci.(*ssa.Call)
		if !ok || staticCallee(call.Common()) != nil || call.Common().IsInvoke() {
			continue
		}
		if _, isB := call.Call.Value.(*ssa.Builtin); isB {
			continue
		}
		elem = call
	}
	if elem == nil {
		b.addP(props, core.Undecided, key, c.FuncPos(fn), "the call of the element codec was not found")
		return
	}
	bad := ""
	for _, r := range returnsOf(fn) {
		if !(elem.Block() == r.Block() || elem.Block().Dominates(r.Block())) {
			bad = c.InstrPos(r)
		}
	}
	if bad != "" {
		b.addP(props, core.Violation, key, bad, "the decoder of repeated fields returns on a path that does not decode an element: an occurrence with an empty payload (12 00, how the reference implementation writes an all-default element) is dropped and [{1,2},{},{3}] decodes to two elements")
	} else {
		b.addP(props, core.Discharged, key, c.FuncPos(fn), "every occurrence decodes one element")
	}
}

// S40 — thrift skips input by reading it. io.Seeker.Seek moves past the end of the input without an
// error (and bytes.Reader then reports nothing left), so a skipped value that is truncated would
// be accepted: truncated input must yield an unexpected-EOF error. No decoding path may Seek.
func smallThriftNeverSeeks(c *core.Ctx, b *ob) {
	props := []string{"C08"}
	key := "thrift:skip-reads-never-seeks"
	bad := ""
	n := 0
	for _, fn := range c.RepoFunctions() {
		if fn.Blocks == nil || !strings.HasPrefix(shortName(fn), "thrift.") {
			continue
		}
		n++
		for _, ci := range callsIn(fn) {
			if m := ci.Common().Method; m != nil && m.Name() == "Seek" {
				bad = shortName(fn) + " at " + c.InstrPos(ci)
			}
			if f := staticCallee(ci.Common()); f != nil && f.Name() == "Seek" {
				bad = shortName(fn) + " at " + c.InstrPos(ci)
			}
		}
	}
	switch {
	case n == 0:
		b.addP(props, core.Undecided, key, "-", "no thrift function found")
	case bad != "":
		b.addP(props, core.Violation, key, "-", "thrift repositions its input with Seek ("+bad+"): seeking past the end is not an error, so a value that is skipped and truncated is accepted (Unmarshal returns nil on a truncated payload) instead of failing with an unexpected-EOF error")
	default:
		b.addP(props, core.Discharged, key, "-", "input is consumed by reading only")
	}
}

// S39 — json.Number is a string type: encoding/json decodes a JSON string into it when the string
// holds a valid number literal (and rejects it otherwise), besides number literals. The decoder
// of Number targets needs a string arm (it unquotes the value) next to the number arm.
func smallNumberFromString(c *core.Ctx, b *ob) {
	props := []string{"C02"}
	key := "number-target:string-literal-arm"
	fn := c.Lookup("json.(decoder).decodeNumber")
	if fn == nil {
		b.addP(props, core.Undecided, key, "-", "json.(decoder).decodeNumber not found")
		return
	}
	unquotes, parses := false, false
	for _, ci := range callsIn(fn) {
		if f := staticCallee(ci.Common()); f != nil {
			switch f.Name() {
			case "parseStringUnquote", "parseString", "decodeString":
				unquotes = true
			case "parseNumber":
				parses = true
			}
		}
	}
	switch {
	case !parses:
		b.addP(props, core.Undecided, key, c.FuncPos(fn), "decodeNumber does not call parseNumber")
	case !unquotes:
		b.addP(props, core.Violation, key, c.FuncPos(fn), "decodeNumber only accepts number literals: Unmarshal(`\"123\"`, new(json.Number)) fails where encoding/json stores Number(\"123\") (a JSON string holding a valid number is accepted for Number targets)")
	default:
		b.addP(props, core.Discharged, key, c.FuncPos(fn), "number literals and strings holding a number are both decoded")
	}
}

// S38 — proto's scalar codecs receive p == nil for a nil pointer field (the pointer codec
// dereferences the field and adds wantzero for the pointee). A nil pointer is an absent field:
// its size is 0 and nothing is written, whatever the flags. A size function that answers 1 for
// nil under wantzero makes a nil *bool come back as a pointer to false.
func smallNilScalarHasNoSize(c *core.Ctx, b *ob) {
	props := []string{"C03", "C12"}
	n := 0
	fns := c.RepoFunctions()
	sort.Slice(fns, func(i, j int) bool { return shortName(fns[i]) < shortName(fns[j]) })
	for _, fn := range fns {
		name := shortName(fn)
		if fn.Blocks == nil || !strings.HasPrefix(name, "proto.sizeOf") || len(fn.Params) != 2 || fn.Params[0].Type().String() != "unsafe.Pointer" {
			continue
		}
		if fn.Signature.Results().Len() != 1 {
			continue
		}
		pp := fn.Params[0]
		n++
		key := "nil-scalar-has-no-size:" + name
		bad := ""
		for _, r := range returnsOf(fn) {
			if k, isK := constInt(r.Results[0]); isK && k == 0 {
				continue
			}
			guarded := false
			for _, a := range trueAtoms(r.Block(), 0) {
				if bo, ok := a.(*ssa.BinOp); ok && bo.Op == token.NEQ && ((bo.X == ssa.Value(pp) && isNilConst(bo.Y)) || (bo.Y == ssa.Value(pp) && isNilConst(bo.X))) {
					guarded = true
				}
			}
			for _, e := range dominatingEdges(r.Block()) {
				if bo, ok := e.ifi.Cond.(*ssa.BinOp); ok && ((bo.X == ssa.Value(pp) && isNilConst(bo.Y)) || (bo.Y == ssa.Value(pp) && isNilConst(bo.X))) {
					if (bo.Op == token.NEQ && e.succ == 0) || (bo.Op == token.EQL && e.succ == 1) {
						guarded = true
					}
				}
			}
			if !guarded {
				bad = c.InstrPos(r)
			}
		}
		if bad != "" {
			b.addP(props, core.Violation, key, bad, name+" can return a non-zero size when p is nil (under wantzero): a nil pointer field is then written as an explicit zero value and decodes to a non-nil pointer (struct{B *bool}{} round-trips to B = &false)")
		} else {
			b.addP(props, core.Discharged, key, c.FuncPos(fn), "a nil value has size 0 whatever the flags")
		}
	}
	if n == 0 {
		b.addP(props, core.Undecided, "nil-scalar-has-no-size", "-", "no proto.sizeOf* function found")
	}
}

// S37 — omitempty on an interface-typed field: encoding/json omits it when the interface *is* nil
// (isEmptyValue: v.IsNil()). An interface holding a typed nil pointer (or a nil map) is not nil
// and is written as null. An interface is nil exactly when its first word (type or itab) is nil;
// the data word is also nil for typed nils. The emptiness test must read the first word.
func smallEmptyInterface(c *core.Ctx, b *ob) {
	props := []string{"C01"}
	key := "omitempty:interface-nil-by-type-word"
	fn := c.Lookup("json.emptyFuncOf")
	if fn == nil {
		b.addP(props, core.Undecided, key, "-", "json.emptyFuncOf not found")
		return
	}
	n, bad := 0, ""
	for _, anon := range fn.AnonFuncs {
		for _, blk := range anon.Blocks {
			for _, in := range blk.Instrs {
				fa, ok := in.(*ssa.FieldAddr)
				if !ok {
					continue
				}
				id := fieldAddrID(fa)
				if !strings.HasPrefix(id, "json.iface.") {
					continue
				}
				n++
				if fa.Field != 0 {
					bad = c.InstrPos(fa)
				}
			}
		}
	}
	switch {
	case n == 0:
		b.addP(props, core.Undecided, key, c.FuncPos(fn), "no emptiness test reading an interface header found in emptyFuncOf")
	case bad != "":
		b.addP(props, core.Violation, key, bad, "the omitempty test of an interface-typed field reads the data word of the interface: it is nil for an interface holding a typed nil pointer or a nil map, so such a field is omitted where encoding/json (which tests whether the interface itself is nil) writes null")
	default:
		b.addP(props, core.Discharged, key, c.FuncPos(fn), "an interface is empty when its type word is nil")
	}
}

// S36 — object keys are strings. encoding/json writes a nil pointer key whose type implements
// TextMarshaler as "" (resolveKeyName); the TextMarshaler *value* encoder writes a nil pointer as
// the bare token null, which as a key is not JSON at all ({null:1}). The key path of
// constructMapCodec must therefore pass through an adapter that writes the empty string for nil.
func smallNilKeyEmptyString(c *core.Ctx, b *ob) {
	props := []string{"C01"}
	key := "mapkeys:nil-pointer-key-is-empty-string"
	fn := c.Lookup("json.constructMapCodec")
	if fn == nil {
		b.addP(props, core.Undecided, key, "-", "json.constructMapCodec not found")
		return
	}
	usesText := false
	adapter := false
	for _, ci := range callsIn(fn) {
		f := staticCallee(ci.Common())
		if f == nil {
			continue
		}
		if f.Name() == "constructTextMarshalerEncodeFunc" {
			usesText = true
		}
		// an adapter: a constructor whose closure appends the constant "" under a nil test
		for _, anon := range f.AnonFuncs {
			for _, blk := range anon.Blocks {
				for _, in := range blk.Instrs {
					call, ok := in.(*ssa.Call)
					if !ok {
						continue
					}
					if bi, isB := call.Call.Value.(*ssa.Builtin); !isB || bi.Name() != "append" || len(call.Call.Args) != 2 {
						continue
					}
					k, isK := call.Call.Args[1].(*ssa.Const)
					if !isK || k.Value == nil || k.Value.Kind() != constant.String || constant.StringVal(k.Value) != `""` {
						continue
					}
					for _, e := range dominatingEdges(blk) {
						if nilTestEdge(e) {
							adapter = true
						}
					}
				}
			}
		}
	}
	switch {
	case !usesText:
		b.addP(props, core.Info, key, c.FuncPos(fn), "map keys are not written through the TextMarshaler encoder")
	case !adapter:
		b.addP(props, core.Violation, key, c.FuncPos(fn), "constructMapCodec writes TextMarshaler keys with the encoder used for values, which writes a nil pointer as the bare token null: map[*K]V{nil: 1} is encoded as {null:1}, which is not JSON (encoding/json writes {\"\":1})")
	default:
		b.addP(props, core.Discharged, key, c.FuncPos(fn), "a nil pointer key is written as the empty string")
	}
}

// S35 — decodeVarlen returns the payload *and* the number of bytes it consumed, prefix and payload
// together. A decode function built on it reports exactly that number: adding the payload length
// again makes the struct decoder skip the bytes that follow the field (the next fields are lost or
// misread as soon as the message-typed field is not the last one).
func smallVarlenCount(c *core.Ctx, b *ob) {
	props := []string{"C03", "C07", "C12"}
	n := 0
	fns := c.RepoFunctions()
	sort.Slice(fns, func(i, j int) bool { return shortName(fns[i]) < shortName(fns[j]) })
	for _, fn := range fns {
		name := shortName(fn)
		if fn.Blocks == nil || !strings.HasPrefix(name, "proto.") {
			continue
		}
		res := fn.Signature.Results()
		if res.Len() != 2 || res.At(0).Type().String() != "int" || res.At(1).Type().String() != "error" {
			continue
		}
		for _, ci := range callsIn(fn) {
			f := staticCallee(ci.Common())
			call, isCall := ci.(*ssa.Call)
			if f == nil || f.Name() != "decodeVarlen" || !isCall {
				continue
			}
			var cnt ssa.Value
			for _, ref := range *call.Referrers() {
				if ex, ok := ref.(*ssa.Extract); ok && ex.Index == 1 {
					cnt = ex
				}
			}
			if cnt == nil {
				continue
			}
			n++
			key := "varlen:count-reported-once:" + closureIndex.ReplaceAllString(name, "")
			bad := ""
			for _, r := range returnsOf(fn) {
				if len(r.Results) != 2 {
					continue
				}
				if !dependsOn(r.Results[0], func(x ssa.Value) bool { return x == cnt }) {
					continue
				}
				if bo, isB := r.Results[0].(*ssa.BinOp); isB && bo.Op == token.ADD {
					other := bo.Y
					if bo.Y == cnt {
						other = bo.X
					}
					if _, isLen := lenArg(other); isLen {
						bad = c.InstrPos(r)
					}
				}
			}
			if bad != "" {
				b.addP(props, core.Violation, key, bad, name+" reports the count returned by decodeVarlen (length prefix plus payload) plus the payload length once more: the enclosing struct decoder then resumes that many bytes too far, so every field that follows a Message or custom-typed field is lost or misread (struct{Raw proto.RawMessage; A int} decodes A as 0)")
			} else {
				b.addP(props, core.Discharged, key, c.InstrPos(call), "the consumed count is the one decodeVarlen returned")
			}
		}
	}
	if n == 0 {
		b.addP(props, core.Undecided, "varlen:count-reported-once", "-", "no caller of decodeVarlen found")
	}
}

// S34 — encoding/json sorts the keys of a map by the text it writes for them. constructMapCodec
// chooses, per key kind, how a key is written (kc.encode) and how keys are ordered (sortKeys); the
// two are chosen together: every place that installs a key encoder installs the matching order
// in the same breath. An order installed only "if none was set yet" leaves integer-kind keys with
// a MarshalText method written by name and sorted by number.
func smallMapKeySortFollowsEncoder(c *core.Ctx, b *ob) {
	props := []string{"C01"}
	key := "mapkeys:order-installed-with-encoder"
	fn := c.Lookup("json.constructMapCodec")
	if fn == nil {
		b.addP(props, core.Undecided, key, "-", "json.constructMapCodec not found")
		return
	}
	// sortKeys is a local merged by φs: on every edge that leaves the region of a block which
	// installs a key encoder, the φ must receive a freshly chosen order (a function value), not
	// whatever was there before
	var sortPhis []*ssa.Phi
	for _, blk := range fn.Blocks {
		for _, in := range blk.Instrs {
			if phi, ok := in.(*ssa.Phi); ok && strings.Contains(phi.Type().String(), "sortFunc") {
				sortPhis = append(sortPhis, phi)
			}
		}
	}
	n, bad := 0, ""
	for _, blk := range fn.Blocks {
		var encStore *ssa.Store
		for _, in := range blk.Instrs {
			st, ok := in.(*ssa.Store)
			if !ok {
				continue
			}
			fa, isFA := st.Addr.(*ssa.FieldAddr)
			if !isFA || fieldAddrID(fa) != "json.codec.encode" {
				continue
			}
			// only the key codec, and not the adapter that wraps the encoder already chosen
			if call, isCall := st.Val.(*ssa.Call); isCall {
				if f := staticCallee(call.Common()); f != nil && f.Name() == "constructInlineValueEncodeFunc" {
					continue
				}
			}
			if al, isAl := fa.X.(*ssa.Alloc); !isAl || !strings.Contains(al.Comment, "kc") {
				continue
			}
			encStore = st
		}
		if encStore == nil {
			continue
		}
		n++
		for _, phi := range sortPhis {
			for i, e := range phi.Edges {
				pred := phi.Block().Preds[i]
				if pred != blk && !blk.Dominates(pred) {
					continue
				}
				for k := 0; k < 3; k++ {
					if ct, isCT := e.(*ssa.ChangeType); isCT {
						e = ct.X
					}
				}
				switch e.(type) {
				case *ssa.Function, *ssa.MakeClosure:
				default:
					bad = c.InstrPos(encStore)
				}
			}
		}
	}
	switch {
	case n == 0:
		b.addP(props, core.Undecided, key, c.FuncPos(fn), "no assignment of the key encoder found in constructMapCodec")
	case bad != "":
		b.addP(props, core.Violation, key, bad, "constructMapCodec installs a key encoder without installing the matching key order in the same place: keys are then sorted by a different text than the one written (an integer-kind key type with a MarshalText method is written by name and sorted by number), so members come out in another order than encoding/json's")
	default:
		b.addP(props, core.Discharged, key, c.FuncPos(fn), fmt.Sprintf("%d key encoders, each installed together with its order", n))
	}
}

// S32 — bit sets: an index i is split into a word (i / W, or i >> log2 W) and a bit (i % W, or
// i & (W-1)). Both halves must use the same W; with i>>6 and i&0x1f two indexes 32 apart share a
// bit, and the rewriter (or the required-field check) takes one field for the other.
func smallBitsetModulus(c *core.Ctx, b *ob) {
	n := 0
	fns := c.RepoFunctions()
	sort.Slice(fns, func(i, j int) bool { return shortName(fns[i]) < shortName(fns[j]) })
	for _, fn := range fns {
		name := shortName(fn)
		if fn.Blocks == nil || fn.Pkg == nil {
			continue
		}
		var props []string
		switch fn.Pkg.Pkg.Name() {
		case "proto":
			props = []string{"C19"}
		case "thrift":
			props = []string{"C04", "C08"}
		default:
			continue
		}
		word := map[ssa.Value]int64{}
		bit := map[ssa.Value]int64{}
		var at ssa.Instruction
		for _, blk := range fn.Blocks {
			for _, in := range blk.Instrs {
				bo, ok := in.(*ssa.BinOp)
				if !ok {
					continue
				}
				k, isK := constInt(bo.Y)
				if !isK || k <= 0 {
					continue
				}
				x := bo.X
				if cv, isCv := x.(*ssa.Convert); isCv {
					x = cv.X
				}
				switch bo.Op {
				case token.QUO:
					word[x] = k
				case token.SHR:
					if k < 16 {
						word[x] = 1 << uint(k)
					}
				case token.REM:
					bit[x] = k
					at = bo
				case token.AND:
					if k&(k+1) == 0 && k >= 7 { // a low-bits mask
						bit[x] = k + 1
						at = bo
					}
				}
			}
		}
		for x, w := range word {
			bw, ok := bit[x]
			if !ok {
				continue
			}
			n++
			key := "bitset:word-and-bit-same-modulus:" + closureIndex.ReplaceAllString(name, "")
			if w != bw {
				b.addP(props, core.Violation, key, c.InstrPos(at), fmt.Sprintf("%s splits an index into word i/%d and bit i%%%d: indexes %d apart share a bit, so one field is taken for another (the second of two templated fields is dropped; a required field counts as seen)", name, w, bw, bw))
			} else {
				b.addP(props, core.Discharged, key, c.InstrPos(at), fmt.Sprintf("word and bit both modulo %d", w))
			}
		}
	}
	if n == 0 {
		b.addP([]string{"C19", "C04"}, core.Undecided, "bitset:word-and-bit-same-modulus", "-", "no index split into word and bit found")
	}
}

// S33 — a Rewriter appends to the buffer it is given and returns it. What it returns on success is
// derived from out (appended to, or resliced); a template's own storage handed back as the result
// is then shifted in place by the enclosing message rewriter and overwritten by the caller's next
// call — "neither the input message nor the template is modified" fails on the second use.
func smallRewriteOwnsOutput(c *core.Ctx, b *ob) {
	props := []string{"C19", "C10"}
	n := 0
	fns := c.RepoFunctions()
	sort.Slice(fns, func(i, j int) bool { return shortName(fns[i]) < shortName(fns[j]) })
	for _, fn := range fns {
		name := shortName(fn)
		if fn.Blocks == nil || fn.Name() != "Rewrite" || fn.Synthetic != "" || !strings.HasPrefix(name, "proto.") || fn.Signature.Recv() == nil {
			continue
		}
		if len(fn.Params) != 3 || fn.Signature.Results().Len() != 2 {
			continue
		}
		recv, out := fn.Params[0], fn.Params[1]
		n++
		key := "rewrite:returns-own-buffer:" + name
		bad := ""
		for _, r := range returnsOf(fn) {
			if len(r.Results) != 2 || !isNilConst(r.Results[1]) {
				continue
			}
			fromRecv := dependsOn(r.Results[0], func(x ssa.Value) bool { return x == ssa.Value(recv) })
			fromOut := dependsOn(r.Results[0], func(x ssa.Value) bool { return x == ssa.Value(out) })
			if fromRecv && !fromOut {
				bad = c.InstrPos(r)
			}
		}
		if bad != "" {
			b.addP(props, core.Violation, key, bad, name+" returns, on success, memory that comes from the rewriter itself and not from the out buffer: the caller (and the enclosing message rewriter, which moves bytes inside what it gets back) then writes into the template, and later uses of the rewriter emit garbage")
		} else {
			b.addP(props, core.Discharged, key, c.FuncPos(fn), "successful results are built on the out buffer")
		}
	}
	if n == 0 {
		b.addP(props, core.Undecided, "rewrite:returns-own-buffer", "-", "no Rewrite method found in proto")
	}
}

// S31 — encoding/json escapes U+2028 and U+2029 in strings unconditionally (they are valid JSON
// but break JSONP), whatever SetEscapeHTML says; only <, > and & depend on the setting. In
// encodeString the code that writes the \u202x escape must not sit under the EscapeHTML test.
func smallLineSeparatorsAlwaysEscaped(c *core.Ctx, b *ob) {
	props := []string{"C01", "C14"}
	key := "string:u2028-escaped-unconditionally"
	fn := c.Lookup("json.(encoder).encodeString")
	if fn == nil {
		b.addP(props, core.Undecided, key, "-", "json.(encoder).encodeString not found")
		return
	}
	htmlBit := jsonConst(c, "EscapeHTML")
	n, bad := 0, ""
	for _, blk := range fn.Blocks {
		for _, in := range blk.Instrs {
			call, ok := in.(*ssa.Call)
			if !ok {
				continue
			}
			bi, isB := call.Call.Value.(*ssa.Builtin)
			if !isB || bi.Name() != "append" || len(call.Call.Args) != 2 {
				continue
			}
			k, isK := call.Call.Args[1].(*ssa.Const)
			if !isK || k.Value == nil || k.Value.Kind() != constant.String || constant.StringVal(k.Value) != `\u202` {
				continue
			}
			n++
			// conditions known to hold where the escape is written: the flag test itself (or its
			// negation) among them makes the escape conditional on the setting. (The false edge
			// of the printable-ASCII fast path, which mentions the flag, dominates everything
			// below it and says nothing.)
			isFlagTest := func(a ssa.Value) bool {
				if u, ok := a.(*ssa.UnOp); ok && u.Op == token.NOT {
					a = u.X
				}
				bo, ok := a.(*ssa.BinOp)
				if !ok || (bo.Op != token.NEQ && bo.Op != token.EQL) {
					return false
				}
				for _, op := range []ssa.Value{bo.X, bo.Y} {
					if and, isAnd := op.(*ssa.BinOp); isAnd && and.Op == token.AND {
						if k, isK := constUint(and.Y); isK && k == htmlBit && htmlBit != 0 {
							return true
						}
					}
				}
				return false
			}
			for _, a := range trueAtoms(blk, 0) {
				if isFlagTest(a) {
					bad = c.InstrPos(call)
				}
			}
			for _, e := range dominatingEdges(blk) {
				if isFlagTest(e.ifi.Cond) {
					bad = c.InstrPos(call)
				}
			}
		}
	}
	switch {
	case n == 0:
		b.addP(props, core.Violation, key, c.FuncPos(fn), "encodeString never writes the \\u202x escape: U+2028 and U+2029 are copied through where encoding/json escapes them")
	case bad != "":
		b.addP(props, core.Violation, key, bad, "encodeString escapes U+2028/U+2029 only on a path that depends on the EscapeHTML flag: with SetEscapeHTML(false) they are copied through, where encoding/json escapes them under every setting")
	default:
		b.addP(props, core.Discharged, key, c.FuncPos(fn), "the \\u202x escape does not depend on EscapeHTML")
	}
}

// S30 — a proto encode function that reports "k bytes written" has written them: MarshalTo fills a
// buffer the caller owns and never clears, so a byte that is claimed but not stored keeps whatever
// the buffer held (a false bool emitted as 0xAA does not decode). Every path to a return of a
// positive constant count with a nil error passes a store into the destination (an index store,
// or a call that is handed the destination).
func smallClaimedBytesWritten(c *core.Ctx, b *ob) {
	props := []string{"C16", "C03"}
	n := 0
	fns := c.RepoFunctions()
	sort.Slice(fns, func(i, j int) bool { return shortName(fns[i]) < shortName(fns[j]) })
	for _, fn := range fns {
		name := shortName(fn)
		if fn.Blocks == nil || !strings.HasPrefix(name, "proto.encode") || len(fn.Params) == 0 || fn.Params[0].Type().String() != "[]byte" {
			continue
		}
		dst := fn.Params[0]
		// blocks that write the destination
		writes := map[*ssa.BasicBlock]bool{}
		for _, blk := range fn.Blocks {
			for _, in := range blk.Instrs {
				switch x := in.(type) {
				case *ssa.Store:
					if ia, ok := x.Addr.(*ssa.IndexAddr); ok && derivesFromValue(ia.X, dst) {
						writes[blk] = true
					}
				case *ssa.Call:
					for _, a := range x.Call.Args {
						if derivesFromValue(a, dst) {
							if bi, isB := x.Call.Value.(*ssa.Builtin); isB && bi.Name() == "len" {
								continue
							}
							writes[blk] = true
						}
					}
				}
			}
		}
		for _, r := range returnsOf(fn) {
			if len(r.Results) != 2 || !isNilConst(r.Results[1]) {
				continue
			}
			k, isK := constInt(r.Results[0])
			if !isK || k <= 0 {
				continue
			}
			n++
			key := fmt.Sprintf("claimed-bytes-written:%s:%d", name, k)
			// is the return reachable from the entry without passing a writing block?
			seen := map[*ssa.BasicBlock]bool{}
			var reach func(x *ssa.BasicBlock) bool
			reach = func(x *ssa.BasicBlock) bool {
				if seen[x] || writes[x] {
					return false
				}
				seen[x] = true
				if x == r.Block() {
					return true
				}
				for _, sc := range x.Succs {
					if reach(sc) {
						return true
					}
				}
				return false
			}
			if reach(fn.Blocks[0]) {
				b.addP(props, core.Violation, key, c.InstrPos(r), fmt.Sprintf("%s reports %d byte(s) written on a path that stores nothing into the destination: MarshalTo leaves the caller's stale byte in the message (with a non-zeroed buffer an explicit false bool is emitted as garbage and the message no longer decodes)", name, k))
			} else {
				b.addP(props, core.Discharged, key, c.InstrPos(r), "every path to the return writes the destination")
			}
		}
	}
	if n == 0 {
		b.addP(props, core.Undecided, "claimed-bytes-written", "-", "no proto encode function returning a constant byte count found")
	}
}

// S29 — Tokenizer.String returns the bytes between the quotes as they are only for tokens the
// scanner classified Unescaped (no escape sequence and nothing to coerce); every other string goes
// through parseStringUnquote, which resolves escapes *and* replaces ill-formed UTF-8 by U+FFFD like
// encoding/json. Widening the shortcut ("no backslash in the document") returns raw invalid bytes.
func smallTokenizerStringFastPath(c *core.Ctx, b *ob) {
	props := []string{"C17"}
	key := "tokenizer:string-shortcut-only-unescaped"
	fn := c.Lookup("json.(*Tokenizer).String")
	if fn == nil {
		b.addP(props, core.Undecided, key, "-", "json.(*Tokenizer).String not found")
		return
	}
	unesc := int64(jsonConst(c, "Unescaped"))
	n, bad := 0, ""
	for _, r := range returnsOf(fn) {
		if len(r.Results) != 1 {
			continue
		}
		rv := r.Results[0]
		for i := 0; i < 3; i++ {
			switch x := rv.(type) {
			case *ssa.ChangeType:
				rv = x.X
			case *ssa.Convert:
				rv = x.X
			}
		}
		sl, ok := rv.(*ssa.Slice)
		if !ok {
			continue
		}
		if f, isLoad := fieldOfLoad(sl.X); !isLoad || !strings.HasSuffix(f, ".Value") {
			continue
		}
		n++
		guarded := false
		for _, a := range trueAtoms(r.Block(), 0) {
			bo, isB := a.(*ssa.BinOp)
			if !isB || bo.Op != token.EQL {
				continue
			}
			if k, isK := constInt(bo.Y); isK && k == unesc && unesc != 0 {
				guarded = true
			}
		}
		if !guarded {
			bad = c.InstrPos(r)
		}
	}
	switch {
	case n == 0:
		b.addP(props, core.Info, key, c.FuncPos(fn), "String has no zero-copy shortcut")
	case bad != "":
		b.addP(props, core.Violation, key, bad, "Tokenizer.String returns the raw bytes of the token on a path where the token's kind is not known to be Unescaped: a string holding ill-formed UTF-8 (and no backslash anywhere in the document) is returned as it is, where every other path — and encoding/json — yields U+FFFD")
	default:
		b.addP(props, core.Discharged, key, c.FuncPos(fn), "the zero-copy shortcut requires kind() == Unescaped")
	}
}

// S27 — the compact protocol writes an empty map as the single byte 0x00: no key and value types
// follow. The map decoder must settle the empty case before it compares the announced types with
// the expected ones; compared first, the zero types of an empty compact map are a "mismatch"
// (an error in strict mode).
func smallThriftEmptyMapFirst(c *core.Ctx, b *ob) {
	props := []string{"C13", "C04", "C08"}
	key := "thrift:empty-map-before-type-test"
	fn := c.Lookup("thrift.decodeFuncMapOf$1")
	if fn == nil {
		b.addP(props, core.Undecided, key, "-", "thrift.decodeFuncMapOf$1 not found")
		return
	}
	n, bad := 0, ""
	for _, blk := range fn.Blocks {
		for _, in := range blk.Instrs {
			bo, ok := in.(*ssa.BinOp)
			if !ok || (bo.Op != token.NEQ && bo.Op != token.EQL) {
				continue
			}
			if !strings.HasSuffix(bo.X.Type().String(), "thrift.Type") || !strings.HasSuffix(bo.Y.Type().String(), "thrift.Type") {
				continue
			}
			if _, isK := bo.X.(*ssa.Const); isK {
				continue
			}
			if _, isK := bo.Y.(*ssa.Const); isK {
				continue
			}
			n++
			nonEmpty := false
			for _, e := range dominatingEdges(blk) {
				c2, isB := e.ifi.Cond.(*ssa.BinOp)
				if !isB {
					continue
				}
				k, isK := constInt(c2.Y)
				if !isK || k != 0 || !strings.Contains(texpr(c2.X, 0), "Size") {
					continue
				}
				if (c2.Op == token.EQL && e.succ == 1) || (c2.Op == token.NEQ && e.succ == 0) || (c2.Op == token.GTR && e.succ == 0) {
					nonEmpty = true
				}
			}
			if !nonEmpty {
				bad = c.InstrPos(bo)
			}
		}
	}
	switch {
	case n == 0:
		b.addP(props, core.Undecided, key, c.FuncPos(fn), "no comparison of the announced key/value types found")
	case bad != "":
		b.addP(props, core.Violation, key, bad, "the map decoder compares the announced key/value types before it has dealt with the empty map: the compact protocol's empty map (one byte, no types) then looks like a type mismatch — a TypeMismatch error in strict mode for a perfectly valid encoding")
	default:
		b.addP(props, core.Discharged, key, c.FuncPos(fn), fmt.Sprintf("%d type comparisons, each on a path where the map is known to be non-empty", n))
	}
}

// S28 — compact lists and sets: the specification lets a writer use the long form (0xF? followed
// by a varint size) for any size; only the writer must prefer the short form. The reader may
// reject a size that overflows, never one that "should have been" in the short form.
func smallCompactLongFormAccepted(c *core.Ctx, b *ob) {
	props := []string{"C13", "C08"}
	key := "compact:list:long-form-any-size:reader"
	fn := c.Lookup("thrift.(*compactReader).ReadList")
	if fn == nil {
		b.addP(props, core.Undecided, key, "-", "thrift.(*compactReader).ReadList not found")
		return
	}
	bad := ""
	for _, r := range returnsOf(fn) {
		if len(r.Results) != 2 || isNilConst(r.Results[1]) {
			continue
		}
		for _, e := range dominatingEdges(r.Block()) {
			c2, isB := e.ifi.Cond.(*ssa.BinOp)
			if !isB {
				continue
			}
			switch c2.Op {
			case token.LSS, token.LEQ, token.GTR, token.GEQ:
			default:
				continue
			}
			for _, op := range []ssa.Value{c2.X, c2.Y} {
				if k, isK := constInt(op); isK && k >= 0 && k <= 16 {
					bad = c.InstrPos(r)
				}
			}
		}
	}
	if bad != "" {
		b.addP(props, core.Violation, key, bad, "compactReader.ReadList rejects a list header on the ground of a size comparison with a small constant: a long-form header (0xF? + varint) with a size below 15 is a conformant encoding that other writers may produce, and must decode like the short form")
	} else {
		b.addP(props, core.Discharged, key, c.FuncPos(fn), "no rejection depends on how small the size is")
	}
}

// S26 — thrift, non-strict mode: a value whose wire type is not the one the target expects is
// ignored. Ignoring it means consuming it: the decoders read from a stream, and returning without
// reading the value leaves its bytes to be taken for the next field header — the rest of the
// struct is garbage (silently, with Decoder.Decode). Every return on the "mismatch and not strict"
// path must come after a call that skips the value (skip, skipField, or a loop of them).
func smallThriftMismatchConsumes(c *core.Ctx, b *ob) {
	props := []string{"C08", "C04"}
	strictV, ok := thriftConst(c, "strict")
	if !ok {
		b.addP(props, core.Undecided, "thrift:mismatch-consumed", "-", "thrift.strict not found")
		return
	}
	n := 0
	fns := c.RepoFunctions()
	sort.Slice(fns, func(i, j int) bool { return shortName(fns[i]) < shortName(fns[j]) })
	for _, fn := range fns {
		name := shortName(fn)
		if fn.Blocks == nil || !strings.HasPrefix(name, "thrift.") {
			continue
		}
		count := 0
		for _, blk := range fn.Blocks {
			ifi, isIf := blk.Instrs[len(blk.Instrs)-1].(*ssa.If)
			if !isIf {
				continue
			}
			call, isCall := ifi.Cond.(*ssa.Call)
			if !isCall {
				continue
			}
			f := staticCallee(call.Common())
			if f == nil || f.Name() != "have" || len(call.Call.Args) != 2 {
				continue
			}
			if k, isK := constInt(call.Call.Args[1]); !isK || k != strictV {
				continue
			}
			// the strict branch builds a TypeMismatch
			mismatch := false
			for _, in := range blk.Succs[0].Instrs {
				if al, isAlloc := in.(*ssa.Alloc); isAlloc && strings.HasSuffix(al.Type().String(), "TypeMismatch") {
					mismatch = true
				}
			}
			if !mismatch {
				continue
			}
			n++
			count++
			key := fmt.Sprintf("thrift:mismatch-consumed:%s#%d", closureIndex.ReplaceAllString(name, ""), count)
			// the non-strict branch: every return reachable before rejoining must follow a skip
			arm := blk.Succs[1]
			skips := false
			seen := map[*ssa.BasicBlock]bool{}
			var walk func(x *ssa.BasicBlock)
			bad := ""
			walk = func(x *ssa.BasicBlock) {
				if seen[x] || len(seen) > 12 {
					return
				}
				seen[x] = true
				for _, ci := range callsIn2(x) {
					if g := staticCallee(ci.Common()); g != nil && strings.HasPrefix(g.Name(), "skip") {
						skips = true
					}
				}
				if r, isRet := x.Instrs[len(x.Instrs)-1].(*ssa.Return); isRet {
					if !skips {
						bad = c.InstrPos(r)
					}
					return
				}
				for _, sc := range x.Succs {
					walk(sc)
				}
			}
			walk(arm)
			if bad != "" {
				b.addP(props, core.Violation, key, bad, name+": when the wire type differs from the target's and strict mode is off, the decoder returns without consuming the value: its bytes are then read as the next field header, and the rest of the struct is decoded from garbage (or lost) although the input is well formed")
			} else {
				b.addP(props, core.Discharged, key, c.InstrPos(ifi), "the mismatched value is skipped before returning")
			}
		}
	}
	if n == 0 {
		b.addP(props, core.Undecided, "thrift:mismatch-consumed", "-", "no strict/TypeMismatch branch found in thrift's decoders")
	}
}

// S25 — protobuf has no representation of "an empty map": a map field with no entries contributes
// no bytes, and an entry whose payload is empty (tag, length 0) is the entry {default key: default
// value}. proto's map codec must therefore size an empty map at 0 and must decode an empty entry
// like any other.
func smallProtoEmptyMap(c *core.Ctx, b *ob) {
	props := []string{"C12"}
	// writer: the size closure returns the accumulated n; n must not be replaced by a non-zero
	// constant when it is zero
	key := "proto-map:empty-map-has-no-bytes"
	if fn := c.Lookup("proto.mapSizeFuncOf$1"); fn != nil {
		bad := ""
		for _, blk := range fn.Blocks {
			ifi, ok := blk.Instrs[len(blk.Instrs)-1].(*ssa.If)
			if !ok {
				continue
			}
			bo, ok := ifi.Cond.(*ssa.BinOp)
			if !ok || bo.Op != token.EQL {
				continue
			}
			if k, isK := constInt(bo.Y); !isK || k != 0 {
				continue
			}
			if _, isPhi := bo.X.(*ssa.Phi); !isPhi {
				continue
			}
			// the true edge leads to a return of something else than the accumulator
			for _, r := range returnsOf(fn) {
				if len(r.Results) != 1 {
					continue
				}
				if phi, isPhi := r.Results[0].(*ssa.Phi); isPhi {
					for i, e := range phi.Edges {
						if e != bo.X && phi.Block().Preds[i] == blk.Succs[0] {
							bad = c.InstrPos(ifi)
						}
					}
				}
			}
		}
		if bad != "" {
			b.addP(props, core.Violation, key, bad, "proto.mapSizeFuncOf: a map without entries is given the size of a tag and an empty payload instead of 0, and the encoder writes that entry: struct{A int; M map[int]int}{A: 1} marshals to 08 01 12 00, which every other protobuf implementation decodes as M = {0: 0}")
		} else {
			b.addP(props, core.Discharged, key, c.FuncPos(fn), "an empty map contributes no bytes")
		}
	} else {
		b.addP(props, core.Undecided, key, "-", "proto.mapSizeFuncOf$1 not found")
	}
	// reader: no success return before an entry has been decoded
	key2 := "proto-map:empty-entry-is-an-entry"
	if fn := c.Lookup("proto.mapDecodeFuncOf$1"); fn != nil {
		bad := ""
		in := fn.Params[0]
		for _, r := range returnsOf(fn) {
			if len(r.Results) != 2 || !isNilConst(r.Results[1]) {
				continue
			}
			_, hi, _ := lenInterval(in, r.Block())
			if hi != nil && hi.Sign() == 0 {
				bad = c.InstrPos(r)
			}
		}
		if bad != "" {
			b.addP(props, core.Violation, key2, bad, "proto.mapDecodeFuncOf returns without adding an entry when the entry's payload is empty: the legal encoding 12 00 of the entry {0: 0} (both defaults elided, as the reference implementation writes it) decodes to an empty map")
		} else {
			b.addP(props, core.Discharged, key2, c.FuncPos(fn), "an empty payload is decoded like any other entry")
		}
	} else {
		b.addP(props, core.Undecided, key2, "-", "proto.mapDecodeFuncOf$1 not found")
	}
}

// S24 — thrift's container decoders pass the per-call flags on to their element decoders after
// masking the field-specific bits off with flags.only(decodeFlags). What survives must include
// strict (type mismatches below a list or map element are reported in strict mode) and the
// protocol features; every such mask in the decoders is the same constant.
func smallThriftFlagMask(c *core.Ctx, b *ob) {
	props := []string{"C08", "C04"}
	key := "thrift:element-flags-keep-strict"
	strictV, ok1 := thriftConst(c, "strict")
	protoV, ok2 := thriftConst(c, "protocolFlags")
	if !ok1 || !ok2 {
		b.addP(props, core.Undecided, key, "-", "thrift.strict / thrift.protocolFlags not found")
		return
	}
	n := 0
	var bads []string
	for _, fn := range c.RepoFunctions() {
		name := shortName(fn)
		if fn.Blocks == nil || !strings.HasPrefix(name, "thrift.") || !(strings.Contains(name, "decode") || strings.Contains(name, "Decode")) {
			continue
		}
		for _, ci := range callsIn(fn) {
			f := staticCallee(ci.Common())
			if f == nil || f.Name() != "only" || len(ci.Common().Args) != 2 {
				continue
			}
			k, isK := constInt(ci.Common().Args[1])
			if !isK {
				continue
			}
			n++
			if k&strictV == 0 || k&protoV != protoV {
				bads = append(bads, fmt.Sprintf("%s keeps only %#x at %s", name, k, c.InstrPos(ci)))
			}
		}
	}
	switch {
	case n == 0:
		b.addP(props, core.Undecided, key, "-", "no flags.only(mask) call found in thrift's decoders")
	case len(bads) > 0:
		sort.Strings(bads)
		b.addP(props, core.Violation, key, "-", "the flags handed to element decoders lose strict or a protocol feature ("+strings.Join(bads, "; ")+fmt.Sprintf("; strict=%#x, protocolFlags=%#x): in strict mode a type mismatch below that container is silently accepted, leaving zero values", strictV, protoV))
	default:
		b.addP(props, core.Discharged, key, "-", fmt.Sprintf("%d masks, each keeps strict and the protocol features", n))
	}
}

// S23 — time.Time.MarshalJSON fails for times RFC 3339 cannot express (year outside [0,9999],
// zone offset of 24 hours or more), and encoding/json reports that error. The built-in time
// encoder bypasses MarshalJSON for speed; it must at least be able to fail: an encoder with no
// error path writes "10000-01-01T00:00:00Z" where the standard library returns an error.
func smallTimeCanFail(c *core.Ctx, b *ob) {
	props := []string{"C01"}
	key := "time:encoder-can-fail"
	fn := c.Lookup("json.(encoder).encodeTime")
	if fn == nil {
		b.addP(props, core.Undecided, key, "-", "json.(encoder).encodeTime not found")
		return
	}
	fails := false
	for _, r := range returnsOf(fn) {
		if len(r.Results) == 2 && !isNilConst(r.Results[1]) {
			fails = true
		}
	}
	if fails {
		b.addP(props, core.Discharged, key, c.FuncPos(fn), "encodeTime has an error path")
	} else {
		b.addP(props, core.Violation, key, c.FuncPos(fn), "encodeTime formats the time and always returns a nil error: a time.Time whose year is outside [0,9999] (or whose zone offset is 24 hours or more) is written as a string that is not RFC 3339, where encoding/json returns the error of Time.MarshalJSON")
	}
}

// S22 — encoding/json compacts what MarshalJSON methods and RawMessage values provide (compact()
// in marshalerEncoder / addrMarshalerEncoder), with or without HTML escaping. The two encoders of
// such output must hand back the result of the compaction routine on every successful path, not
// the bytes as provided: `{ "a" : 1 }` is written {"a":1} by the standard library under
// SetEscapeHTML(false) as well.
func smallMarshalerOutputCompacted(c *core.Ctx, b *ob) {
	props := []string{"C01", "C14"}
	for _, name := range []string{"json.(encoder).encodeRawMessage", "json.(encoder).encodeJSONMarshaler"} {
		key := "marshaler-output:compacted:" + name
		fn := c.Lookup(name)
		if fn == nil {
			b.addP(props, core.Undecided, key, "-", name+" not found")
			continue
		}
		n, bad := 0, ""
		for _, r := range returnsOf(fn) {
			if len(r.Results) != 2 || !isNilConst(r.Results[1]) {
				continue
			}
			call, ok := r.Results[0].(*ssa.Call)
			if !ok {
				bad = c.InstrPos(r)
				continue
			}
			if f := staticCallee(call.Common()); f != nil {
				n++
				if !strings.HasPrefix(f.Name(), "appendCompact") {
					bad = c.InstrPos(r)
				}
				continue
			}
			if bi, isB := call.Call.Value.(*ssa.Builtin); isB && bi.Name() == "append" && len(call.Call.Args) == 2 {
				if k, isK := call.Call.Args[1].(*ssa.Const); isK && k.Value != nil {
					continue // a literal (null)
				}
				n++
				bad = c.InstrPos(r)
			}
		}
		switch {
		case n == 0:
			b.addP(props, core.Undecided, key, c.FuncPos(fn), "no successful return that writes the provided JSON found")
		case bad != "":
			b.addP(props, core.Violation, key, bad, name+" appends the JSON text provided by the value as it is on a successful path (EscapeHTML off): insignificant whitespace inside it is kept, where encoding/json compacts the output of Marshalers and RawMessage values under every SetEscapeHTML setting")
		default:
			b.addP(props, core.Discharged, key, c.FuncPos(fn), "every successful path returns the result of the compaction routine")
		}
	}
}

// S21 — a field promoted through an embedded struct pointer is reached in two steps: load the
// pointer at the embedded field's offset, then add the field's offset inside the pointed-to
// struct. appendStructFields rewrites the field's offset to the pointer's slot and wraps its codec
// to do the second step; everything else that is applied to base+offset must be wrapped the same
// way — the omitempty test (structField.empty) otherwise examines the pointer slot as if it were
// the field (a non-nil pointer is never "empty": "version":"" is written despite omitempty).
func smallEmbeddedPointerAccessors(c *core.Ctx, b *ob) {
	props := []string{"C01"}
	key := "embedded-pointer:empty-follows-the-pointer"
	fn := c.Lookup("json.appendStructFields")
	if fn == nil {
		b.addP(props, core.Undecided, key, "-", "json.appendStructFields not found")
		return
	}
	n, bad := 0, ""
	for _, blk := range fn.Blocks {
		var codecStore *ssa.Store
		emptyStored := false
		for _, in := range blk.Instrs {
			st, ok := in.(*ssa.Store)
			if !ok {
				continue
			}
			fa, ok := st.Addr.(*ssa.FieldAddr)
			if !ok {
				continue
			}
			switch fieldAddrID(fa) {
			case "json.structField.codec":
				if call, isCall := st.Val.(*ssa.Call); isCall {
					if f := staticCallee(call.Common()); f != nil && f.Name() == "constructEmbeddedStructPointerCodec" {
						codecStore = st
					}
				}
			case "json.structField.empty":
				if call, isCall := st.Val.(*ssa.Call); isCall {
					if f := staticCallee(call.Common()); f != nil && f.Blocks != nil {
						emptyStored = true
					}
				}
			}
		}
		if codecStore == nil {
			continue
		}
		n++
		if !emptyStored {
			bad = c.InstrPos(codecStore)
		}
	}
	switch {
	case n == 0:
		b.addP(props, core.Undecided, key, c.FuncPos(fn), "no store of constructEmbeddedStructPointerCodec(...) into a field's codec found")
	case bad != "":
		b.addP(props, core.Violation, key, bad, "appendStructFields wraps the codec of a field promoted through an embedded struct pointer and moves its offset to the pointer's slot, but leaves its emptiness test as it was: omitempty then examines the (non-nil) embedded pointer instead of the field, and an empty field is written where encoding/json omits it")
	default:
		b.addP(props, core.Discharged, key, c.FuncPos(fn), "codec and emptiness test are both rewritten to go through the embedded pointer")
	}
}

// S20 — json.encodeStruct rolls a field back when its encoder returns the rollback sentinel (a nil
// embedded struct pointer): the bytes of the key are cut off and the loop goes on as if the field
// had not been there. Every loop-carried variable other than the buffer must therefore reach the
// next iteration unchanged on that edge — a field counter incremented before the encoder ran
// makes the next key start with a comma: {,"data":"x"}.
func smallRollbackNoEffect(c *core.Ctx, b *ob) {
	props := []string{"C01"}
	key := "rollback:iteration-without-effect"
	fn := c.Lookup("json.(encoder).encodeStruct")
	if fn == nil {
		b.addP(props, core.Undecided, key, "-", "json.(encoder).encodeStruct not found")
		return
	}
	var arm *ssa.BasicBlock
	for _, blk := range fn.Blocks {
		for _, in := range blk.Instrs {
			bo, ok := in.(*ssa.BinOp)
			if !ok || bo.Op != token.EQL {
				continue
			}
			isSentinel := func(v ssa.Value) bool {
				mi, ok := v.(*ssa.MakeInterface)
				return ok && strings.HasSuffix(mi.X.Type().String(), "json.rollback")
			}
			if !isSentinel(bo.X) && !isSentinel(bo.Y) {
				continue
			}
			for _, ref := range *bo.Referrers() {
				if ifi, isIf := ref.(*ssa.If); isIf {
					arm = ifi.Block().Succs[0]
				}
			}
		}
	}
	if arm == nil {
		b.addP(props, core.Undecided, key, c.FuncPos(fn), "the comparison of the field encoder's error with rollback{} was not found")
		return
	}
	var h *ssa.BasicBlock
	for _, x := range loopHeaders(fn) {
		if loopBlocks(x)[arm] {
			h = x
		}
	}
	if h == nil {
		b.addP(props, core.Undecided, key, c.FuncPos(fn), "the rollback arm is not inside a loop")
		return
	}
	// the arm must lead straight back to the header
	latch := arm
	for steps := 0; steps < 4 && len(latch.Succs) == 1 && latch.Succs[0] != h; steps++ {
		latch = latch.Succs[0]
	}
	idx := -1
	for i, p := range h.Preds {
		if p == latch && len(latch.Succs) == 1 {
			idx = i
		}
	}
	if idx < 0 {
		b.addP(props, core.Undecided, key, c.PosOf(arm.Instrs[0].Pos()), "the rollback arm does not continue with the next field directly")
		return
	}
	bad := ""
	cut := false
	for _, in := range h.Instrs {
		phi, ok := in.(*ssa.Phi)
		if !ok {
			break
		}
		e := phi.Edges[idx]
		if strings.Contains(phi.Comment, "rangeindex") {
			continue
		}
		if phi.Type().String() == "[]byte" {
			if _, isSlice := e.(*ssa.Slice); isSlice {
				cut = true
			} else {
				bad = "the buffer is not cut back to where the key started"
			}
			continue
		}
		// unchanged: the φ itself, possibly through φs that only merge it
		same := func(v ssa.Value) bool {
			seen := map[ssa.Value]bool{}
			var walk func(v ssa.Value) bool
			walk = func(v ssa.Value) bool {
				if v == ssa.Value(phi) {
					return true
				}
				if seen[v] {
					return true
				}
				seen[v] = true
				q, isPhi := v.(*ssa.Phi)
				if !isPhi {
					return false
				}
				for _, x := range q.Edges {
					if !walk(x) {
						return false
					}
				}
				return true
			}
			return walk(v)
		}
		// err and k are reassigned on every iteration before use; only state read before being
		// written matters: a variable whose every use in the body is dominated by a redefinition
		// is dead on this edge. Keep it simple: integers and booleans carry state.
		switch phi.Type().Underlying().String() {
		case "int", "bool":
			if !same(e) {
				bad = fmt.Sprintf("variable %q reaches the next field changed although the rolled-back field wrote nothing", phi.Comment)
			}
		}
	}
	switch {
	case bad != "":
		b.addP(props, core.Violation, key, c.PosOf(arm.Instrs[0].Pos()), "encodeStruct: after a field is rolled back (nil embedded struct pointer), "+bad+": the next key is written with a leading comma, or without a needed one")
	case !cut:
		b.addP(props, core.Undecided, key, c.PosOf(arm.Instrs[0].Pos()), "no loop-carried buffer found on the rollback edge")
	default:
		b.addP(props, core.Discharged, key, c.PosOf(arm.Instrs[0].Pos()), "the rollback edge cuts the buffer and leaves every counter unchanged")
	}
}

// S19 — utf8.DecodeRune* reports an invalid encoding as (RuneError, 1); a validly encoded U+FFFD
// is (RuneError, 3). Code that replaces or escapes "invalid UTF-8" must test both, as
// encoding/json does: testing the rune alone rewrites a legitimate U+FFFD in the input.
func smallRuneErrorSize(c *core.Ctx, b *ob) {
	props := []string{"C01"}
	n := 0
	for _, fn := range c.RepoFunctions() {
		if fn.Blocks == nil {
			continue
		}
		for _, blk := range fn.Blocks {
			for _, in := range blk.Instrs {
				call, ok := in.(*ssa.Call)
				if !ok {
					continue
				}
				name := calleeName(call.Common())
				if !strings.HasPrefix(name, "unicode/utf8.DecodeRune") && !strings.HasPrefix(name, "unicode/utf8.DecodeLastRune") {
					continue
				}
				var runeV, sizeV ssa.Value
				for _, ref := range *call.Referrers() {
					if ex, isEx := ref.(*ssa.Extract); isEx {
						if ex.Index == 0 {
							runeV = ex
						} else {
							sizeV = ex
						}
					}
				}
				if runeV == nil {
					continue
				}
				isRuneTest := func(v ssa.Value) bool {
					bo, ok := v.(*ssa.BinOp)
					if !ok || bo.Op != token.EQL {
						return false
					}
					k, isK := constInt(bo.Y)
					return bo.X == runeV && isK && k == 0xFFFD
				}
				isSizeTest := func(v ssa.Value) bool {
					bo, ok := v.(*ssa.BinOp)
					if !ok || bo.Op != token.EQL || sizeV == nil {
						return false
					}
					k, isK := constInt(bo.Y)
					return bo.X == sizeV && isK && k == 1
				}
				tested := false
				bad := ""
				for _, blk2 := range fn.Blocks {
					hasRune, hasSize := false, false
					for _, a := range trueAtoms(blk2, 0) {
						if isRuneTest(a) {
							hasRune = true
						}
						if isSizeTest(a) {
							hasSize = true
						}
					}
					if !hasRune {
						continue
					}
					tested = true
					effects := false
					for _, in2 := range blk2.Instrs {
						switch x := in2.(type) {
						case *ssa.Store:
							effects = true
						case *ssa.Call:
							if _, isB := x.Call.Value.(*ssa.Builtin); isB {
								effects = true
							}
						}
					}
					if effects && !hasSize {
						bad = c.PosOf(blk2.Instrs[0].Pos())
					}
				}
				if !tested {
					continue
				}
				n++
				key := fmt.Sprintf("runeerror:size-one:%s", shortName(fn))
				if bad != "" {
					b.addP(props, core.Violation, key, c.InstrPos(call), shortName(fn)+" treats every utf8.RuneError as an invalid encoding without testing that the decoded size is 1: a validly encoded U+FFFD in the input (EF BF BD) is rewritten (escaped) where encoding/json copies it through")
				} else {
					b.addP(props, core.Discharged, key, c.InstrPos(call), "RuneError is acted on only together with size == 1")
				}
			}
		}
	}
	if n == 0 {
		b.addP(props, core.Undecided, "runeerror:size-one", "-", "no utf8.DecodeRune* result compared with RuneError found (encodeString's invalid-UTF-8 replacement)")
	}
}

// S16b — thrift writer side of bool coalescing: under the feature every bool field's value travels
// in the header (type TRUE or FALSE) and no payload follows, whatever the value. Whether the
// payload encoder runs must therefore not depend on the value (isTrue): a false bool written with
// a FALSE header *and* a payload byte is read back as FALSE followed by a STOP.
func smallCoalesceValueIndependent(c *core.Ctx, b *ob) {
	props := []string{"C04", "C13"}
	key := "coalesce:payload-skipped-for-both-values"
	fn := c.Lookup("thrift.(*structEncoder).encode")
	if fn == nil {
		b.addP(props, core.Undecided, key, "-", "thrift.(*structEncoder).encode not found")
		return
	}
	var payload *ssa.Call
	for _, blk := range fn.Blocks {
		for _, in := range blk.Instrs {
			call, ok := in.(*ssa.Call)
			if !ok || staticCallee(call.Common()) != nil || call.Common().IsInvoke() {
				continue
			}
			if f, isLoad := fieldOfLoad(call.Common().Value); isLoad && strings.HasSuffix(f, ".encode") {
				payload = call
			}
		}
	}
	if payload == nil {
		b.addP(props, core.Undecided, key, c.FuncPos(fn), "the call of the field's payload encoder (f.encode) was not found")
		return
	}
	dependsOnValue := ""
	seen := map[ssa.Value]bool{}
	var walk func(v ssa.Value)
	walk = func(v ssa.Value) {
		if v == nil || seen[v] {
			return
		}
		seen[v] = true
		switch x := v.(type) {
		case *ssa.Phi:
			for _, e := range x.Edges {
				walk(e)
			}
			// the conditions that select the φ's edges matter as well
			for _, p := range x.Block().Preds {
				if len(p.Instrs) > 0 {
					if ifi, ok := p.Instrs[len(p.Instrs)-1].(*ssa.If); ok {
						walk(ifi.Cond)
					}
				}
			}
		case *ssa.BinOp:
			walk(x.X)
			walk(x.Y)
		case *ssa.UnOp:
			if x.Op == token.NOT {
				walk(x.X)
			}
		case *ssa.Call:
			if f := staticCallee(x.Common()); f != nil && f.Name() == "isTrue" {
				dependsOnValue = c.InstrPos(x)
			}
		}
	}
	n := 0
	for _, e := range dominatingEdges(payload.Block()) {
		// only the tests made after the header was prepared (inside the field loop)
		n++
		walk(e.ifi.Cond)
	}
	switch {
	case n == 0:
		b.addP(props, core.Undecided, key, c.InstrPos(payload), "the payload encoder call is not under any condition: bool coalescing cannot skip it")
	case dependsOnValue != "":
		b.addP(props, core.Violation, key, dependsOnValue, "whether a field's payload is written depends on the value of the bool (isTrue): under bool coalescing a false value then gets a FALSE header and a payload byte, which the reader takes for the header's own value followed by STOP — the rest of the struct is lost")
	default:
		b.addP(props, core.Discharged, key, c.InstrPos(payload), "the payload encoder is skipped by protocol feature and field type only")
	}
}

// S16 — thrift: a protocol that coalesces boolean fields carries their value in the field header;
// the skipper of undeclared fields must, like the decoder of declared ones, consume nothing for
// TRUE/FALSE fields under that feature.
func smallSkipCoalescedBool(c *core.Ctx, b *ob) {
	props := []string{"C08", "C04", "C13"}
	key := "skip:coalesced-bool"
	fn := c.Lookup("thrift.skipField")
	if fn == nil {
		b.addP(props, core.Undecided, key, "-", "thrift.skipField not found")
		return
	}
	trueV, _ := thriftConst(c, "TRUE")
	falseV, _ := thriftConst(c, "FALSE")
	feat, _ := thriftFeatureConst(c, "CoalesceBoolFields")
	// a return without a read, on a path where the type is TRUE/FALSE and the feature bit is tested
	ok := false
	for _, r := range returnsOf(fn) {
		if len(r.Results) != 1 || !isNilConst(r.Results[0]) {
			continue
		}
		typed, featured := false, false
		for _, cond := range trueAtoms(r.Block(), 0) {
			if bo, isB := cond.(*ssa.BinOp); isB {
				if k, isK := constInt(bo.Y); isK && bo.Op == token.EQL && (k == trueV || k == falseV) {
					typed = true
				}
				if bo.Op == token.NEQ {
					if and, isAnd := bo.X.(*ssa.BinOp); isAnd && and.Op == token.AND {
						if k, isK := constInt(and.Y); isK && k == feat {
							featured = true
						}
					}
				}
			}
		}
		// the type test may be a disjunction (TRUE || FALSE): accept a dominating block whose
		// condition chain mentions both constants
		if !typed {
			for _, e := range dominatingEdges(r.Block()) {
				if bo, isB := e.ifi.Cond.(*ssa.BinOp); isB && bo.Op == token.EQL {
					if k, isK := constInt(bo.Y); isK && (k == trueV || k == falseV) {
						typed = true
					}
				}
			}
		}
		if featured && (typed || mentionsBoolTypes(fn, trueV, falseV)) {
			ok = true
		}
	}
	if ok && !mentionsBoolTypes(fn, trueV, falseV) {
		b.addP(props, core.Violation, key, c.FuncPos(fn), "skipField recognises only one of the two boolean field types (BOOL is an alias of FALSE): under bool coalescing an undeclared field whose value is true (type TRUE) falls through to skip(), which swallows the first byte of the next field header — the rest of the struct is read out of phase")
		return
	}
	if ok {
		b.addP(props, core.Discharged, key, c.FuncPos(fn), "TRUE/FALSE fields are skipped without a read when the protocol coalesces booleans")
	} else {
		b.addP(props, core.Violation, key, c.FuncPos(fn), "skipField reads a value for every field type: in a protocol that carries boolean field values in the field header (compact) an undeclared bool field makes the skipper swallow the next byte of the message, and every field after it is misread")
	}
}

func mentionsBoolTypes(fn *ssa.Function, t, f int64) bool {
	seenT, seenF := false, false
	for _, blk := range fn.Blocks {
		for _, in := range blk.Instrs {
			if bo, ok := in.(*ssa.BinOp); ok && bo.Op == token.EQL {
				if k, isK := constInt(bo.Y); isK {
					if k == t {
						seenT = true
					}
					if k == f {
						seenF = true
					}
				}
			}
		}
	}
	return seenT && seenF
}

func thriftFeatureConst(c *core.Ctx, name string) (int64, bool) {
	return thriftConst(c, name)
}

// S17 — json ",string" option: the literal null written for a nil pointer is not wrapped in a
// string (encoding/json quotes the pointee's value only).
func smallStringOptionNull(c *core.Ctx, b *ob) {
	props := []string{"C01"}
	key := "string-option:null-unquoted"
	fn := c.Lookup("json.(encoder).encodeToString")
	if fn == nil {
		b.addP(props, core.Undecided, key, "-", "json.(encoder).encodeToString not found")
		return
	}
	ok := false
	for _, blk := range fn.Blocks {
		for _, in := range blk.Instrs {
			bo, isB := in.(*ssa.BinOp)
			if !isB || bo.Op != token.EQL {
				continue
			}
			isNull := func(v ssa.Value) bool {
				k, isK := v.(*ssa.Const)
				return isK && k.Value != nil && k.Value.Kind() == constant.String && constant.StringVal(k.Value) == "null"
			}
			if !isNull(bo.X) && !isNull(bo.Y) {
				continue
			}
			// the true edge returns without calling encodeString
			for _, ref := range *bo.Referrers() {
				ifi, isIf := ref.(*ssa.If)
				if !isIf {
					continue
				}
				t := ifi.Block().Succs[0]
				quoted := false
				for _, ci := range callsIn2(t) {
					if f := staticCallee(ci.Common()); f != nil && f.Name() == "encodeString" {
						quoted = true
					}
				}
				if len(t.Instrs) > 0 {
					if _, isRet := t.Instrs[len(t.Instrs)-1].(*ssa.Return); isRet && !quoted {
						ok = true
					}
				}
			}
		}
	}
	if ok {
		b.addP(props, core.Discharged, key, c.FuncPos(fn), "the bare null of a nil pointer is returned unquoted")
	} else {
		b.addP(props, core.Violation, key, c.FuncPos(fn), "encodeToString wraps whatever the inner encoder produced, including the null of a nil pointer: P *int `json:\",string\"` = nil is written as \"null\" where encoding/json writes null")
	}
}

func callsIn2(blk *ssa.BasicBlock) []ssa.CallInstruction {
	var out []ssa.CallInstruction
	for _, in := range blk.Instrs {
		if ci, ok := in.(ssa.CallInstruction); ok {
			out = append(out, ci)
		}
	}
	return out
}

// S18 — json ",string" option: the quoting wrapper is installed only where the field's encoder is
// a built-in one, never around MarshalJSON / MarshalText output.
func smallStringOptionMarshaler(c *core.Ctx, b *ob) {
	props := []string{"C01"}
	fn := c.Lookup("json.appendStructFields")
	if fn == nil {
		b.addP(props, core.Undecided, "string-option:marshalers", "-", "json.appendStructFields not found")
		return
	}
	// does a function test Implements(jsonMarshalerType) and Implements(textMarshalerType)?
	testsMarshalers := func(f *ssa.Function) bool {
		if f == nil || f.Blocks == nil {
			return false
		}
		seen := map[string]bool{}
		for _, ci := range callsIn(f) {
			cc := ci.Common()
			if cc.IsInvoke() && cc.Method.Name() == "Implements" && len(cc.Args) == 1 {
				if g := globalOfLoad(cc.Args[0]); g != nil {
					seen[g.Name()] = true
				}
			}
		}
		return seen["jsonMarshalerType"] && seen["textMarshalerType"]
	}
	n := 0
	for _, ci := range callsIn(fn) {
		callee := staticCallee(ci.Common())
		if callee == nil || callee.Name() != "constructStringEncodeFunc" {
			continue
		}
		n++
		key := "string-option:marshalers"
		if n > 1 {
			key = fmt.Sprintf("%s#%d", key, n)
		}
		guarded := false
		for _, e := range dominatingEdges(ci.Block()) {
			call, ok := e.ifi.Cond.(*ssa.Call)
			if !ok || e.succ != 1 {
				continue // need the false edge of "uses a marshaler"
			}
			if testsMarshalers(staticCallee(call.Common())) {
				guarded = true
			}
		}
		if guarded {
			b.addP(props, core.Discharged, key, c.InstrPos(ci), "the string wrapper is installed only when the type is not encoded by a marshaler")
		} else {
			b.addP(props, core.Violation, key, c.InstrPos(ci), "the string option wraps the field's encoder without checking that it is not a MarshalJSON/MarshalText encoder: marshaler output is quoted a second time (\"7\" for 7, \"\\\"txt\\\"\" for \"txt\"), which encoding/json never does")
		}
	}
	if n == 0 {
		b.addP(props, core.Undecided, "string-option:marshalers", c.FuncPos(fn), "no installation of the string wrapper found in appendStructFields")
	}
}

// S53 — with the ",string" option the text inside the quotes is exactly one literal: encoding/json
// rejects "false " and "1.5 " (invalid use of ,string). decodeFromString hands the unquoted text to
// the value decoder and requires that nothing remains; skipping white space first accepts what the
// standard library rejects.
func smallStringOptionExact(c *core.Ctx, b *ob) {
	props := []string{"C02"}
	key := "string-option:nothing-after-the-literal"
	fn := c.Lookup("json.(decoder).decodeFromString")
	if fn == nil {
		b.addP(props, core.Undecided, key, "-", "json.(decoder).decodeFromString not found")
		return
	}
	tested := false
	for _, blk := range fn.Blocks {
		for _, in := range blk.Instrs {
			if bo, ok := in.(*ssa.BinOp); ok {
				if _, isLen := lenArg(bo.X); isLen {
					tested = true
				}
			}
		}
	}
	for _, ci := range callsIn(fn) {
		if f := staticCallee(ci.Common()); f != nil && strings.HasPrefix(f.Name(), "skipSpaces") {
			b.addP(props, core.Violation, key, c.InstrPos(ci), "decodeFromString skips white space in the unquoted text of a \",string\" value before requiring that nothing follows the literal: \"false \", \"1.5 \" and \"\\\"a\\\" \" are accepted where encoding/json reports an invalid use of ,string")
			return
		}
	}
	if !tested {
		b.addP(props, core.Violation, key, c.FuncPos(fn), "decodeFromString does not test that the value decoder consumed the whole unquoted text: \"1x\" is accepted for a \",string\" number")
		return
	}
	b.addP(props, core.Discharged, key, c.FuncPos(fn), "the remainder after the literal must be empty, white space included")
}

// S54 — proto's varint decoder: the value is the sum of the payload bits of each byte, byte i
// contributing (b[i] & 0x7f) << 7i. On every success return of decodeVarint the value is built
// from input bytes only by conversion, masking with 0x7f, shifting left and or/add; a byte enters
// unmasked only where a dominating test shows it below 0x80; a byte at constant index i is
// shifted by 7i. Arithmetic tricks on the bytes (b[1]-1 to "cancel" the continuation bit of b[0])
// wrap for padded encodings such as 80 00.
func smallVarintDecodeTerms(c *core.Ctx, b *ob) {
	props := []string{"C12", "C03", "C07"}
	key := "varint-decoder:terms"
	fn := c.Lookup("proto.decodeVarint")
	if fn == nil {
		b.addP(props, core.Undecided, key, "-", "proto.decodeVarint not found")
		return
	}
	in := fn.Params[0]
	n := 0
	bad := ""
	for _, r := range returnsOf(fn) {
		if len(r.Results) != 3 || !isNilConst(r.Results[2]) {
			continue
		}
		n++
		seen := map[ssa.Value]bool{}
		// term walks a byte-valued expression: returns (index if constant else -1, masked, the load)
		var byteTerm func(v ssa.Value) (int64, bool, ssa.Value, bool)
		byteTerm = func(v ssa.Value) (int64, bool, ssa.Value, bool) {
			switch x := v.(type) {
			case *ssa.Convert:
				return byteTerm(x.X)
			case *ssa.BinOp:
				if x.Op == token.AND {
					if k, ok := constInt(x.Y); ok && k == 0x7f {
						i, _, ld, ok := byteTerm(x.X)
						return i, true, ld, ok
					}
				}
				return 0, false, nil, false
			case *ssa.UnOp:
				if x.Op == token.MUL {
					if ia, ok := x.X.(*ssa.IndexAddr); ok && ia.X == ssa.Value(in) {
						if k, isK := constInt(ia.Index); isK {
							return k, false, x, true
						}
						return -1, false, x, true
					}
				}
			}
			return 0, false, nil, false
		}
		below80 := func(ld ssa.Value, blk *ssa.BasicBlock) bool {
			same := func(v ssa.Value) bool {
				if v == ld {
					return true
				}
				a, ok1 := v.(*ssa.UnOp)
				bb, ok2 := ld.(*ssa.UnOp)
				if ok1 && ok2 && a.Op == token.MUL && bb.Op == token.MUL {
					ia, ok3 := a.X.(*ssa.IndexAddr)
					ib, ok4 := bb.X.(*ssa.IndexAddr)
					if ok3 && ok4 && ia.X == ib.X {
						ka, okA := constInt(ia.Index)
						kb, okB := constInt(ib.Index)
						return okA && okB && ka == kb
					}
				}
				return false
			}
			check := func(cv ssa.Value, onTrue bool) bool {
				bo, ok := cv.(*ssa.BinOp)
				if !ok {
					return false
				}
				k, isK := constInt(bo.Y)
				if !isK || !same(bo.X) {
					return false
				}
				return (bo.Op == token.LSS && k <= 0x80 && onTrue) || (bo.Op == token.GEQ && k <= 0x80 && !onTrue) || (bo.Op == token.LEQ && k < 0x80 && onTrue)
			}
			for _, e := range dominatingEdges(blk) {
				if check(e.ifi.Cond, e.succ == 0) {
					return true
				}
			}
			for _, a := range trueAtoms(blk, 0) {
				if check(a, true) {
					return true
				}
			}
			return false
		}
		var walk func(v ssa.Value, shift int64, shiftKnown bool) string
		walk = func(v ssa.Value, shift int64, shiftKnown bool) string {
			if seen[v] {
				return ""
			}
			seen[v] = true
			switch x := v.(type) {
			case *ssa.Const:
				return ""
			case *ssa.Phi:
				for _, e := range x.Edges {
					if w := walk(e, shift, shiftKnown); w != "" {
						return w
					}
				}
				return ""
			case *ssa.BinOp:
				switch x.Op {
				case token.OR, token.ADD:
					if w := walk(x.X, shift, shiftKnown); w != "" {
						return w
					}
					return walk(x.Y, shift, shiftKnown)
				case token.SHL:
					if k, ok := constInt(x.Y); ok {
						return walk(x.X, shift+k, shiftKnown)
					}
					return walk(x.X, 0, false)
				}
			}
			if i, masked, ld, ok := byteTerm(v); ok {
				if !masked && !below80(ld, r.Block()) {
					blkOK := false
					if ins, isI := v.(ssa.Instruction); isI && below80(ld, ins.Block()) {
						blkOK = true
					}
					if !blkOK {
						return "an input byte enters the value with its continuation bit (no & 0x7f, no dominating test that it is below 0x80)"
					}
				}
				if i >= 0 && shiftKnown && shift != 7*i {
					return fmt.Sprintf("byte %d is shifted by %d, the varint format says %d", i, shift, 7*i)
				}
				return ""
			}
			if ins, ok := v.(ssa.Instruction); ok {
				return "the value is computed with an operation that is not conversion, & 0x7f, <<, | or + of input bytes (" + c.InstrPos(ins) + ")"
			}
			return "the value does not come from the input bytes"
		}
		if w := walk(r.Results[0], 0, true); w != "" && bad == "" {
			bad = c.InstrPos(r) + ": " + w
		}
	}
	switch {
	case n == 0:
		b.addP(props, core.Undecided, key, c.FuncPos(fn), "decodeVarint has no success return")
	case bad != "":
		b.addP(props, core.Violation, key, c.FuncPos(fn), "proto.decodeVarint returns a value that is not the sum of (byte & 0x7f) << 7i over the bytes read — "+bad+": a varint padded with zero groups (80 00 for 0), which every protobuf decoder accepts, decodes to another number, a padded tag selects another field")
	default:
		b.addP(props, core.Discharged, key, c.FuncPos(fn), fmt.Sprintf("%d success return(s): each is the or/sum of masked (or tested) input bytes shifted by 7 per byte", n))
	}
}

// S55 — compact message headers carry the sequence id as a 32-bit varint (var int32, not
// zig-zag): the reference implementations write the 32 bits of the id as an unsigned number, five
// bytes at most. Widening the signed id directly to 64 bits sign-extends it (-1 becomes a
// ten-byte varint no peer reads), and a reader limited to MaxInt32 rejects the five-byte form.
func smallCompactSeqID(c *core.Ctx, b *ob) {
	props := []string{"C13"}
	wkey, rkey := "compact:seqid:32-bit:writer", "compact:seqid:32-bit:reader"
	if fn := c.Lookup("thrift.(*compactWriter).WriteMessage"); fn == nil {
		b.addP(props, core.Undecided, wkey, "-", "thrift.(*compactWriter).WriteMessage not found")
	} else {
		found, bad := false, ""
		for _, ci := range callsIn(fn) {
			f := staticCallee(ci.Common())
			if f == nil || f.Name() != "writeUvarint" || len(ci.Common().Args) < 2 {
				continue
			}
			arg := ci.Common().Args[1]
			if !dependsOn(arg, func(x ssa.Value) bool {
				fld, ok := x.(*ssa.Field)
				if ok {
					st, _ := fld.X.Type().Underlying().(*types.Struct)
					return st != nil && st.Field(fld.Field).Name() == "SeqID"
				}
				id, ok := fieldOfLoad(x)
				return ok && strings.HasSuffix(id, ".SeqID")
			}) {
				continue
			}
			found = true
			cv, ok := arg.(*ssa.Convert)
			if !ok {
				continue
			}
			if bt, ok := cv.X.Type().Underlying().(*types.Basic); ok && bt.Info()&types.IsUnsigned == 0 {
				bad = c.InstrPos(ci)
			}
		}
		switch {
		case !found:
			b.addP(props, core.Undecided, wkey, c.FuncPos(fn), "no writeUvarint of the sequence id found")
		case bad != "":
			b.addP(props, core.Violation, wkey, bad, "compactWriter.WriteMessage widens the signed sequence id straight to 64 bits: a negative id is sign-extended into a ten-byte varint (-1 is ff ff ff ff ff ff ff ff ff 01) where the specification has the 32 bits of the id as a varint of at most five bytes (ff ff ff ff 0f); conformant readers, and this package's own, reject it")
		default:
			b.addP(props, core.Discharged, wkey, c.FuncPos(fn), "the sequence id is written as the unsigned 32-bit value of its bits")
		}
	}
	if fn := c.Lookup("thrift.(*compactReader).ReadMessage"); fn == nil {
		b.addP(props, core.Undecided, rkey, "-", "thrift.(*compactReader).ReadMessage not found")
	} else {
		found, bad := false, ""
		for _, ci := range callsIn(fn) {
			f := staticCallee(ci.Common())
			if f == nil || f.Name() != "readUvarint" || len(ci.Common().Args) < 3 {
				continue
			}
			if k, ok := ci.Common().Args[1].(*ssa.Const); !ok || k.Value == nil || !strings.Contains(k.Value.ExactString(), "seq") {
				continue
			}
			found = true
			if m, ok := constUint(ci.Common().Args[2]); !ok || m < 0xffffffff {
				bad = c.InstrPos(ci)
			}
		}
		switch {
		case !found:
			b.addP(props, core.Undecided, rkey, c.FuncPos(fn), "no readUvarint of the sequence id found")
		case bad != "":
			b.addP(props, core.Violation, rkey, bad, "compactReader.ReadMessage rejects sequence ids above MaxInt32: the conformant encoding of a negative id (ff ff ff ff 0f for -1, the 32 bits of the id as an unsigned varint) is refused")
		default:
			b.addP(props, core.Discharged, rkey, c.FuncPos(fn), "every 32-bit sequence id is accepted")
		}
	}
}

// S56 — a non-nil pointer to a message is a present field even when the message has nothing to
// write (&Sub{} with only nil pointers and empty slices, *struct{}): protobuf encodes it as the
// tag and a zero length, and it decodes to a non-nil pointer. The struct encoder and the size
// function decide whether a field is emitted; when that decision is the payload size alone
// (size > 0), such a field vanishes and Unmarshal(Marshal(v)) has nil where v had a pointer.
func smallEmptyMessagePresence(c *core.Ctx, b *ob) {
	props := []string{"C03", "C12"}
	for _, spec := range [][2]string{{"proto.structEncodeFuncOf$1", "encode"}, {"proto.structSizeFuncOf$1", "size"}} {
		key := "proto:empty-message-presence:" + spec[1]
		fn := c.Lookup(spec[0])
		if fn == nil {
			b.addP(props, core.Undecided, key, "-", spec[0]+" not found")
			continue
		}
		// the block that accounts for / writes the tag of a unique field
		var at *ssa.BasicBlock
		for _, blk := range fn.Blocks {
			for _, in := range blk.Instrs {
				switch x := in.(type) {
				case *ssa.Call:
					if spec[1] == "encode" && calleeName(x.Common()) == "github.com/segmentio/encoding/proto.encodeTag" && at == nil {
						at = blk
					}
				case *ssa.UnOp:
					if id, ok := fieldOfLoad(x); ok && spec[1] == "size" && strings.HasSuffix(id, "structField.tagsize") && at == nil {
						at = blk
					}
				}
			}
		}
		if at == nil {
			b.addP(props, core.Undecided, key, c.FuncPos(fn), "the emission of a field's tag was not found")
			continue
		}
		sizeOnly := ""
		for _, e := range dominatingEdges(at) {
			bo, ok := e.ifi.Cond.(*ssa.BinOp)
			if !ok {
				continue
			}
			k, isK := constInt(bo.Y)
			if !isK || k != 0 {
				continue
			}
			if call, isCall := bo.X.(*ssa.Call); isCall && staticCallee(call.Common()) == nil && ((bo.Op == token.GTR && e.succ == 0) || (bo.Op == token.LEQ && e.succ == 1) || (bo.Op == token.NEQ && e.succ == 0) || (bo.Op == token.EQL && e.succ == 1)) {
				sizeOnly = c.InstrPos(e.ifi)
			}
		}
		if sizeOnly != "" {
			b.addP(props, core.Violation, key, sizeOnly, fmt.Sprintf("%s emits a field only when its payload size is positive: a non-nil pointer to a message that has nothing to write (struct{S *Sub}{S: &Sub{}} where Sub holds only nil pointers and empty slices, or *struct{}) is dropped — the reference implementation writes the tag and a zero length (0a 00), and Unmarshal(Marshal(v)) gives S == nil", spec[0]))
		} else {
			b.addP(props, core.Discharged, key, c.PosOf(at.Instrs[0].Pos()), "the field is emitted on a path that does not require a positive payload size (presence of the pointer)")
		}
	}
}

// S57 — Parse returns what follows the first value *and its trailing white space*, whether the
// value could be stored or not: Unmarshal decides between "trailing data" and the decode error on
// that remainder, and callers resume from it. Every return of decoder.parse hands back the result
// of skipSpaces.
func smallParseRemainderSkipsSpaces(c *core.Ctx, b *ob) {
	props := []string{"C11", "C02"}
	key := "parse:remainder-spaces-skipped"
	fn := c.Lookup("json.(decoder).parse")
	if fn == nil {
		b.addP(props, core.Undecided, key, "-", "json.(decoder).parse not found")
		return
	}
	n, bad := 0, ""
	for _, r := range returnsOf(fn) {
		if len(r.Results) != 2 {
			continue
		}
		n++
		okAll := true
		for _, o := range origins(r.Results[0]) {
			call, ok := o.(*ssa.Call)
			if !ok {
				okAll = false
				continue
			}
			if f := staticCallee(call.Common()); f == nil || !strings.HasPrefix(f.Name(), "skipSpaces") {
				okAll = false
			}
		}
		if !okAll {
			bad = c.InstrPos(r)
		}
	}
	switch {
	case n == 0:
		b.addP(props, core.Undecided, key, c.FuncPos(fn), "decoder.parse has no return")
	case bad != "":
		b.addP(props, core.Violation, key, bad, "decoder.parse returns a remainder that did not go through skipSpaces on this path: after a type error inside the value ({\"x\":300}\\n into struct{X uint8}) the remainder starts with the white space that follows it, Unmarshal reports a syntax error for that byte instead of the UnmarshalTypeError encoding/json gives, and Parse's callers resume before the white space")
	default:
		b.addP(props, core.Discharged, key, c.FuncPos(fn), fmt.Sprintf("%d return(s), each hands back skipSpaces(remainder)", n))
	}
}

// S58 — every element of a repeated field is written as a tag followed by a value. The element
// codec of a []*T writes nothing for a nil pointer (its size is 0): the tag then stands alone,
// and what follows is read as its value — struct{S []*int}{S: []*int{nil, &one}} marshals to
// 08 08 01. The size and encode closures of the slice codec must substitute a value for a nil
// element: the pointer they hand to the element codec is not always the raw slot of the slice.
func smallRepeatedNilElement(c *core.Ctx, b *ob) {
	props := []string{"C12", "C03"}
	for _, spec := range [][2]string{{"proto.sliceEncodeFuncOf$1", "encode"}, {"proto.sliceSizeFuncOf$1", "size"}} {
		key := "proto-repeated:nil-element-has-a-value:" + spec[1]
		fn := c.Lookup(spec[0])
		if fn == nil {
			b.addP(props, core.Undecided, key, "-", spec[0]+" not found")
			continue
		}
		found, raw := 0, ""
		for _, ci := range callsIn(fn) {
			cc := ci.Common()
			if cc.IsInvoke() || staticCallee(cc) != nil {
				continue
			}
			// a dynamic call of the element codec: the element pointer is the unsafe.Pointer argument
			var arg ssa.Value
			for _, a := range cc.Args {
				if a.Type().String() == "unsafe.Pointer" {
					arg = a
				}
			}
			if arg == nil {
				continue
			}
			isIndex := func(v ssa.Value) bool {
				call, ok := v.(*ssa.Call)
				return ok && strings.HasSuffix(calleeName(call.Common()), "Slice).Index")
			}
			os := origins(arg)
			fromSlice, other := false, false
			for _, o := range os {
				if isIndex(o) {
					fromSlice = true
				} else {
					other = true
				}
			}
			if !fromSlice {
				continue
			}
			found++
			if !other {
				raw = c.InstrPos(ci)
			}
		}
		switch {
		case found == 0:
			b.addP(props, core.Undecided, key, c.FuncPos(fn), "no call of the element codec on a slice element found")
		case raw != "":
			b.addP(props, core.Violation, key, raw, fmt.Sprintf("%s hands every slot of the slice to the element codec as it is: for a nil element of a []*T the codec writes nothing, so the element's tag stands alone — struct{S []*int}{S: []*int{nil, &one}} marshals to 08 08 01 (field 1 = 8, then a tag with field number 0), struct{S []*string}{S: []*string{nil}} to the bare tag 0a, which Unmarshal rejects", spec[0]))
		default:
			b.addP(props, core.Discharged, key, c.FuncPos(fn), "a nil element is replaced before the element codec sees it")
		}
	}
}

// S59 — a flag is tested by masking it: (flags & F) != 0. The one-character slip (flags &^ F) != 0
// asks whether any *other* flag is set: with the default flag sets the two agree often enough for
// a suite to pass (0 and EscapeHTML|SortMapKeys), and differ for the other subsets — struct keys
// come out HTML-escaped with {SortMapKeys} alone. Every comparison with zero of an and-not whose
// right operand is a named flag constant is reported; the count of ordinary mask tests is kept as
// evidence that the scan sees the flag tests at all.
func smallFlagTestsMask(c *core.Ctx, b *ob) {
	props := []string{"C14", "C01", "C02"}
	key := "flag-tests:mask-not-complement"
	masks, bad := 0, ""
	for _, fn := range c.RepoFunctions() {
		if fn.Blocks == nil || fn.Pkg == nil || fn.Pkg.Pkg.Name() != "json" {
			continue
		}
		for _, blk := range fn.Blocks {
			for _, in := range blk.Instrs {
				cmp, ok := in.(*ssa.BinOp)
				if !ok || (cmp.Op != token.NEQ && cmp.Op != token.EQL) {
					continue
				}
				if k, isK := constInt(cmp.Y); !isK || k != 0 {
					continue
				}
				m, ok := cmp.X.(*ssa.BinOp)
				if !ok {
					continue
				}
				if _, isK := constUint(m.Y); !isK {
					continue
				}
				t := m.X.Type().String()
				if !strings.HasSuffix(t, "Flags") && !strings.HasSuffix(t, "flags") {
					continue
				}
				switch m.Op {
				case token.AND:
					masks++
				case token.AND_NOT:
					if bad == "" {
						bad = c.InstrPos(cmp)
					}
				}
			}
		}
	}
	switch {
	case bad != "":
		b.addP(props, core.Violation, key, bad, "a flag set is tested with (flags &^ F) != 0 — true when any flag other than F is set — where every other test masks the flag it asks about ((flags & F) != 0): the outcome is right for the flag sets Marshal and the suite use and wrong for the other subsets (struct keys HTML-escaped with SortMapKeys alone, EscapeHTML off)")
	case masks < 10:
		b.addP(props, core.Undecided, key, "-", fmt.Sprintf("only %d flag tests of the form (flags & F) ⋈ 0 found in json", masks))
	default:
		b.addP(props, core.Discharged, key, "-", fmt.Sprintf("%d flag tests in json, each masks the flag it asks about", masks))
	}
}

// S60 — encoding/json writes a map key of integer kind as the decimal text of the integer unless
// the key type is a TextMarshaler (and parses it back unless it is a TextUnmarshaler): MarshalJSON
// and UnmarshalJSON of a key type play no role, and time.Duration keys are plain integers.
// constructMapCodec obtains the integer key codec from constructStringCodec; handing it the key
// *type* runs the full marshaler selection of constructCodec on it (map[K]int{1: 2} with a
// MarshalJSON on K becomes {"\"x\"":2}). The type handed over must be chosen by kind.
func smallIntegerKeysByKind(c *core.Ctx, b *ob) {
	props := []string{"C01", "C02"}
	key := "map-keys:integer-kind-by-kind"
	fn := c.Lookup("json.constructMapCodec")
	if fn == nil {
		b.addP(props, core.Undecided, key, "-", "json.constructMapCodec not found")
		return
	}
	n, bad := 0, ""
	for _, ci := range callsIn(fn) {
		f := staticCallee(ci.Common())
		if f == nil || f.Name() != "constructStringCodec" || len(ci.Common().Args) == 0 {
			continue
		}
		n++
		for _, o := range origins(ci.Common().Args[0]) {
			if call, ok := o.(*ssa.Call); ok && call.Common().IsInvoke() && call.Common().Method.Name() == "Key" {
				bad = c.InstrPos(ci)
			}
		}
	}
	switch {
	case n == 0:
		b.addP(props, core.Undecided, key, c.FuncPos(fn), "constructMapCodec does not build integer key codecs with constructStringCodec")
	case bad != "":
		b.addP(props, core.Violation, key, bad, "constructMapCodec builds the codec of integer-kind keys from the key type itself, so constructCodec applies its marshaler selection to it: a key type with MarshalJSON is written through it and quoted again (map[K]int{1: 2} gives {\"\\\"x\\\"\":2}, encoding/json {\"1\":2}), UnmarshalJSON is called on keys, and time.Duration keys come out as \"\\\"5ns\\\"\" instead of \"5\"")
	default:
		b.addP(props, core.Discharged, key, c.FuncPos(fn), fmt.Sprintf("%d integer key codec(s), each built for the predeclared type of the key's kind", n))
	}
}

// S61 — the container decoders count a nesting level on entry (d.depth++) and, when an element
// fails with a type error, re-validate their whole input with d.parseValue(input) to find its
// end. That input starts with the very container already counted: validated with the incremented
// decoder it is counted a second time, and a valid document nested exactly maxNestingDepth deep
// whose innermost value has the wrong type is rejected with "exceeded max depth" (a SyntaxError)
// where encoding/json reports the UnmarshalTypeError.
func smallDepthNotCountedTwice(c *core.Ctx, b *ob) {
	props := []string{"C02", "C05"}
	n := 0
	for _, fn := range c.RepoFunctions() {
		name := shortName(fn)
		if fn.Blocks == nil || !strings.HasPrefix(name, "json.(decoder).decode") || len(fn.Params) < 2 {
			continue
		}
		// the increment: a store into the depth field of the receiver copy, directly or in a
		// helper method called on the copy (d.tooDeep())
		incrementsDepth := func(f *ssa.Function) bool {
			if f == nil || f.Blocks == nil {
				return false
			}
			for _, blk := range f.Blocks {
				for _, in := range blk.Instrs {
					if st, ok := in.(*ssa.Store); ok {
						if fa, isFA := st.Addr.(*ssa.FieldAddr); isFA && fieldAddrID(fa) == "json.decoder.depth" {
							if bo, isB := st.Val.(*ssa.BinOp); isB && bo.Op == token.ADD {
								return true
							}
						}
					}
				}
			}
			return false
		}
		var incs []ssa.Instruction
		for _, blk := range fn.Blocks {
			for _, in := range blk.Instrs {
				switch x := in.(type) {
				case *ssa.Store:
					if fa, isFA := x.Addr.(*ssa.FieldAddr); isFA && fieldAddrID(fa) == "json.decoder.depth" {
						incs = append(incs, x)
					}
				case *ssa.Call:
					if f := staticCallee(x.Common()); f != nil && c.InRepo(f) && f.Signature.Recv() != nil && strings.HasSuffix(f.Signature.Recv().Type().String(), "*github.com/segmentio/encoding/json.decoder") && incrementsDepth(f) {
						incs = append(incs, x)
					}
				}
			}
		}
		if len(incs) == 0 {
			continue
		}
		entry := fn.Params[1]
		key := "depth:revalidation-not-counted-twice:" + name
		bad := ""
		calls, helped, entered := 0, 0, 0
		for _, ci := range callsIn(fn) {
			f := staticCallee(ci.Common())
			if f == nil || len(ci.Common().Args) < 2 || f.Blocks == nil {
				continue
			}
			if !(f.Name() == "parseValue" || f.Name() == "parseObject" || f.Name() == "parseArray") {
				// a helper that forwards its input to parseValue: fine when it takes the level
				// back first (a store of depth-1 into its own decoder copy)
				forwards, decrements := false, false
				for _, c2 := range callsIn(f) {
					if g := staticCallee(c2.Common()); g != nil && g.Name() == "parseValue" && len(f.Params) >= 2 && len(c2.Common().Args) >= 2 && c2.Common().Args[1] == ssa.Value(f.Params[1]) {
						forwards = true
					}
				}
				for _, blk := range f.Blocks {
					for _, in := range blk.Instrs {
						if st, ok := in.(*ssa.Store); ok {
							if fa, isFA := st.Addr.(*ssa.FieldAddr); isFA && fieldAddrID(fa) == "json.decoder.depth" {
								if bo, isB := st.Val.(*ssa.BinOp); isB && bo.Op == token.SUB {
									decrements = true
								}
							}
						}
					}
				}
				if !forwards || decrements {
					if forwards {
						helped++
						for _, inc := range incs {
							if instrDominates(inc, ci.(ssa.Instruction)) {
								entered++
							}
						}
					}
					continue
				}
			}
			arg := ci.Common().Args[1]
			whole := false
			for _, o := range origins(arg) {
				if o == ssa.Value(entry) {
					whole = true
				}
			}
			if !whole {
				continue
			}
			calls++
			for _, inc := range incs {
				if instrDominates(inc, ci.(ssa.Instruction)) {
					bad = c.InstrPos(ci)
					entered++
				}
			}
		}
		n++
		// sibling agreement: every container decoder finds the end of its container when an
		// element fails with a type error (the caller goes on after it, and Unmarshal decides
		// between the type error and trailing data on what is left)
		{
			k2 := "element-error:container-consumed:" + name
			if entered > 0 {
				b.addP([]string{"C02", "C05"}, core.Discharged, k2, c.FuncPos(fn), "on an element error the whole container is re-validated to find its end")
			} else {
				b.addP([]string{"C02", "C05"}, core.Violation, k2, c.FuncPos(fn), name+" returns an element's type error with the remainder where that element stopped, unlike its siblings, which re-validate their whole input to find the end of the container: Unmarshal then sees the rest of the array as trailing data and reports a SyntaxError for a valid document ([\"x\", 1] into *[2]int) where encoding/json reports the UnmarshalTypeError")
			}
		}
		if bad != "" {
			b.addP(props, core.Violation, key, bad, name+" re-validates its whole input — which begins with the container it already counted in d.depth — with the incremented decoder: the level is counted twice, and a valid document nested exactly 10000 deep whose innermost value has the wrong type is rejected with the syntax error \"exceeded max depth\" where encoding/json returns the UnmarshalTypeError")
		} else {
			b.addP(props, core.Discharged, key, c.FuncPos(fn), fmt.Sprintf("no re-validation of the whole input with the incremented decoder (%d through a helper that takes the level back first)", helped))
		}
	}
	if n == 0 {
		b.addP(props, core.Undecided, "depth:revalidation-not-counted-twice", "-", "no container decoder that counts depth found")
	}
}

// smallWave17 groups single-site clauses added after the seventeenth round of seeded changes.
func smallWave17(c *core.Ctx, b *ob) {
	// S62 — parseValue leaves containers to parseObject/parseArray, which count the nesting level:
	// a shortcut that returns Object or Array itself ({} and [] "are common") skips the count, and
	// a document nested one level beyond the limit is accepted when its innermost container is
	// empty.
	{
		props := []string{"C05", "C06", "C02"}
		key := "parse-value:containers-counted"
		fn := c.Lookup("json.(decoder).parseValue")
		obj, arr := int64(jsonConst(c, "Object")), int64(jsonConst(c, "Array"))
		switch {
		case fn == nil || obj == 0 || arr == 0:
			b.addP(props, core.Undecided, key, "-", "json.(decoder).parseValue or the Object/Array kinds not found")
		default:
			bad := ""
			for _, r := range returnsOf(fn) {
				if len(r.Results) != 4 {
					continue
				}
				for _, o := range origins(r.Results[2]) {
					if k, ok := constInt(o); ok && (k == obj || k == arr) {
						bad = c.InstrPos(r)
					}
				}
			}
			if bad != "" {
				b.addP(props, core.Violation, key, bad, "parseValue returns the kind Object or Array itself, without going through parseObject/parseArray, which count the nesting depth: the container it recognises on its own ({} or []) is not counted, and a document nested 10001 deep is accepted where encoding/json.Valid rejects it")
			} else {
				b.addP(props, core.Discharged, key, c.FuncPos(fn), "the kind of a container always comes from parseObject/parseArray")
			}
		}
	}
	// S63 — thrift's readers fill fixed-size windows with io.ReadFull: a single Read may return
	// fewer bytes than asked for (a bufio boundary, a socket), and code that calls Read itself has
	// to account for the bytes already delivered.
	{
		props := []string{"C04", "C08", "C13"}
		key := "thrift:no-bare-read"
		bad, n := "", 0
		for _, fn := range c.RepoFunctions() {
			if fn.Blocks == nil || fn.Pkg == nil || fn.Pkg.Pkg.Name() != "thrift" {
				continue
			}
			for _, ci := range callsIn(fn) {
				cc := ci.Common()
				name := calleeName(cc)
				if name == "io.ReadFull" || name == "io.ReadAtLeast" {
					n++
				}
				if cc.IsInvoke() && cc.Method.Name() == "Read" && strings.HasSuffix(cc.Value.Type().String(), "io.Reader") {
					bad = c.InstrPos(ci)
				}
				// a concrete reader's Read (bytes.Reader, bufio.Reader) may be short as well: at the
				// end of the input it returns what is left with a nil error
				if f := staticCallee(cc); f != nil && f.Name() == "Read" && f.Signature.Recv() != nil && f.Signature.Params().Len() == 1 && f.Signature.Params().At(0).Type().String() == "[]byte" && !strings.HasPrefix(shortName(fn), "thrift.(*debugReader)") {
					bad = c.InstrPos(ci)
				}
			}
		}
		switch {
		case bad != "":
			b.addP(props, core.Violation, key, bad, "a thrift reader calls Read on its io.Reader directly: Read may deliver fewer bytes than requested (the boundary of a bufio.Reader, a socket), and unless the remaining bytes are read into the rest of the window the bytes already delivered are overwritten and the stream is consumed out of step")
		case n == 0:
			b.addP(props, core.Undecided, key, "-", "no io.ReadFull call found in thrift")
		default:
			b.addP(props, core.Discharged, key, "-", fmt.Sprintf("%d io.ReadFull/ReadAtLeast call(s), no bare Read", n))
		}
	}
	// S64 — the bytes ReadBytes returns belong to the caller: decoded strings and []byte are built
	// on them and must survive later reads. They come from a make in ReadBytes, not from the
	// source's own buffer (bytes.Buffer.Next) nor from the reader's scratch array.
	for _, name := range []string{"thrift.(*binaryReader).ReadBytes", "thrift.(*compactReader).ReadBytes"} {
		props := []string{"C04"}
		key := "thrift:readbytes-fresh:" + name
		fn := c.Lookup(name)
		if fn == nil {
			b.addP(props, core.Undecided, key, "-", name+" not found")
			continue
		}
		bad, n := "", 0
		for _, r := range returnsOf(fn) {
			if len(r.Results) != 2 {
				continue
			}
			for _, o := range origins(r.Results[0]) {
				if isNilConst(o) {
					continue
				}
				n++
				root := o
				for {
					sl, ok := root.(*ssa.Slice)
					if !ok {
						break
					}
					root = sl.X
				}
				switch x := root.(type) {
				case *ssa.MakeSlice:
				case *ssa.Call:
					if f := staticCallee(x.Common()); f != nil && f.Name() == "ReadBytes" {
						continue // delegation to the other protocol's reader
					}
					bad = c.InstrPos(r)
				case *ssa.Extract:
					if call, ok := x.Tuple.(*ssa.Call); ok {
						if f := staticCallee(call.Common()); f != nil && f.Name() == "ReadBytes" {
							continue
						}
					}
					bad = c.InstrPos(r)
				default:
					bad = c.InstrPos(r)
				}
			}
		}
		switch {
		case bad != "":
			b.addP(props, core.Violation, key, bad, name+" returns bytes that it did not allocate (the internal buffer of the source, handed out by bytes.Buffer.Next, or the reader's scratch): every decoded string and []byte then aliases memory that the next message overwrites — values are right when Decode returns and change afterwards")
		case n == 0:
			b.addP(props, core.Undecided, key, c.FuncPos(fn), "ReadBytes returns no slice")
		default:
			b.addP(props, core.Discharged, key, c.FuncPos(fn), "the bytes returned are allocated by ReadBytes")
		}
	}
	// S65 — the cycle detector of encodeSlice identifies a slice by its data pointer *and* length,
	// like encoding/json: s[:0] and s share the pointer (a tree kept in an arena, with empty
	// children slices) and are different values.
	{
		props := []string{"C01", "C06"}
		key := "cycle-key:slice-includes-length"
		fn := c.Lookup("json.(encoder).encodeSlice")
		if fn == nil {
			b.addP(props, core.Undecided, key, "-", "json.(encoder).encodeSlice not found")
		} else {
			found, bad := false, ""
			for _, blk := range fn.Blocks {
				for _, in := range blk.Instrs {
					st, ok := in.(*ssa.Store)
					if !ok {
						continue
					}
					fa, ok := st.Addr.(*ssa.FieldAddr)
					if !ok || fieldAddrID(fa) != "json.ptrKey.len" {
						continue
					}
					found = true
					if id, ok := fieldOfLoad(stripConv(st.Val)); !ok || !strings.HasSuffix(id, "slice.len") {
						bad = c.InstrPos(st)
					}
				}
			}
			switch {
			case !found:
				b.addP(props, core.Violation, key, c.FuncPos(fn), "encodeSlice builds its cycle-detection key without a length: a slice and a shorter slice of the same array are taken for the same value, and an acyclic value deeper than 1000 levels that contains both is rejected as a cycle")
			case bad != "":
				b.addP(props, core.Violation, key, bad, "encodeSlice's cycle-detection key does not carry the length of the slice: a slice and a shorter slice of the same array (an arena tree whose leaves are arena[:0]) are taken for the same value, and an acyclic value deeper than 1000 levels is rejected with \"encountered a cycle\" where encoding/json marshals it")
			default:
				b.addP(props, core.Discharged, key, c.FuncPos(fn), "the key is {data pointer, length}")
			}
		}
	}
	// S66 — the output of a MarshalJSON may end in white space (json.NewEncoder(&buf).Encode
	// appends a newline): encoding/json compacts it away; the test for trailing data after the
	// value is made on the remainder with its white space skipped.
	for _, spec := range [][2]string{{"json.(encoder).encodeJSONMarshaler", "marshaler-output:trailing-space-skipped"}, {"json.(encoder).encodeRawMessage", "raw-message:trailing-space-skipped"}} {
		props := []string{"C01", "C05"}
		key := spec[1]
		fn := c.Lookup(spec[0])
		if fn == nil {
			b.addP(props, core.Undecided, key, "-", spec[0]+" not found")
		} else {
			n, bad := 0, ""
			for _, blk := range fn.Blocks {
				for _, in := range blk.Instrs {
					bo, ok := in.(*ssa.BinOp)
					if !ok || (bo.Op != token.NEQ && bo.Op != token.EQL && bo.Op != token.GTR) {
						continue
					}
					of, isLen := lenArg(bo.X)
					if k, isK := constInt(bo.Y); !isLen || !isK || k != 0 {
						continue
					}
					// the remainder of parseValue, possibly through skipSpaces
					isRem := func(v ssa.Value) bool {
						ex, ok := v.(*ssa.Extract)
						if !ok || ex.Index != 1 {
							return false
						}
						call, ok := ex.Tuple.(*ssa.Call)
						return ok && strings.HasSuffix(calleeName(call.Common()), "parseValue")
					}
					for _, o := range origins(of) {
						if isRem(o) {
							n++
							bad = c.InstrPos(bo)
						}
						if call, ok := o.(*ssa.Call); ok && strings.HasPrefix(calleeName(call.Common()), "github.com/segmentio/encoding/json.skipSpaces") && len(call.Call.Args) == 1 {
							for _, o2 := range origins(call.Call.Args[0]) {
								if isRem(o2) {
									n++
								}
							}
						}
					}
				}
			}
			switch {
			case bad != "":
				b.addP(props, core.Violation, key, bad, spec[0]+" tests the remainder after the value for trailing data without skipping white space: a MarshalJSON output or a RawMessage that ends in a newline (written with an Encoder) fails where encoding/json compacts it and succeeds")
			case n == 0:
				b.addP(props, core.Undecided, key, c.FuncPos(fn), "no test of the remainder after the marshaler's value found")
			default:
				b.addP(props, core.Discharged, key, c.FuncPos(fn), "the trailing-data test is made after skipSpaces")
			}
		}
	}
	// S67 — decodeSlice truncates: like encoding/json it leaves the elements beyond the new
	// length alone (a later, longer decode merges into them). Clearing the spare capacity on the
	// closing bracket changes what the next decode into the same slice produces.
	{
		props := []string{"C02"}
		key := "decode-slice:spare-capacity-untouched"
		fn := c.Lookup("json.(decoder).decodeSlice")
		if fn == nil {
			b.addP(props, core.Undecided, key, "-", "json.(decoder).decodeSlice not found")
		} else {
			bad := ""
			for _, ci := range callsIn(fn) {
				n := calleeName(ci.Common())
				if bi, ok := ci.Common().Value.(*ssa.Builtin); ok && bi.Name() == "clear" {
					bad = c.InstrPos(ci)
				}
				if strings.HasSuffix(n, "reflect.Value).Clear") || strings.HasSuffix(n, "reflect.Value).SetZero") || strings.HasSuffix(n, "typedmemclr") {
					bad = c.InstrPos(ci)
				}
			}
			if bad != "" {
				b.addP(props, core.Violation, key, bad, "decodeSlice clears elements of the destination that it did not decode: encoding/json only truncates the slice, so a later decode of a longer array into the same slice merges into the stale elements (maps keep their entries, absent struct fields their values); after clearing, the results differ")
			} else {
				b.addP(props, core.Discharged, key, c.FuncPos(fn), "no clearing of the destination's memory")
			}
		}
	}
	// S68 — appendDuration formats from the end of a scratch array: the longest text is that of
	// math.MinInt64, -2562047h47m16.854775808s, 25 bytes; a shorter array makes the sign land at
	// index -1.
	{
		props := []string{"C06", "C01"}
		key := "duration:scratch-holds-the-longest-text"
		fn := c.Lookup("json.appendDuration")
		if fn == nil {
			b.addP(props, core.Undecided, key, "-", "json.appendDuration not found")
		} else {
			size := int64(-1)
			for _, blk := range fn.Blocks {
				for _, in := range blk.Instrs {
					if al, ok := in.(*ssa.Alloc); ok {
						if arr, ok := al.Type().Underlying().(*types.Pointer).Elem().Underlying().(*types.Array); ok {
							if bt, ok := arr.Elem().Underlying().(*types.Basic); ok && bt.Kind() == types.Uint8 && arr.Len() > size {
								size = arr.Len() // the scratch is the largest byte array (append's varargs make small ones)
							}
						}
					}
				}
			}
			switch {
			case size < 0:
				b.addP(props, core.Undecided, key, c.FuncPos(fn), "no byte array found in appendDuration")
			case size < 25:
				b.addP(props, core.Violation, key, c.FuncPos(fn), fmt.Sprintf("appendDuration formats into a %d-byte array from its end: the text of math.MinInt64 (-2562047h47m16.854775808s) takes 25 bytes, so the sign is written at index -1 and Marshal panics for negative durations of at least 1000000h with a non-zero nanosecond digit", size))
			default:
				b.addP(props, core.Discharged, key, c.FuncPos(fn), fmt.Sprintf("%d-byte scratch array, the longest duration text is 25 bytes", size))
			}
		}
	}
}

// S69 — case-insensitive field matching looks the folded key up in an index of folded field
// names. The two sides must fold with the same function: the decoder folds keys with
// appendToLower (ASCII lower-casing, and for other runes a representative of the case orbit, so
// that the long s matches S like in encoding/json); an index built with strings.ToLower agrees
// with it on ASCII names only — a struct field Ké is not found for the key "ké".
func smallKeyFoldingAgrees(c *core.Ctx, b *ob) {
	props := []string{"C02"}
	key := "field-match:key-and-index-fold-alike"
	fold := c.Lookup("json.appendToLower")
	if fold == nil {
		b.addP(props, core.Undecided, key, "-", "json.appendToLower not found")
		return
	}
	// the key side uses it
	keySide := false
	if ds := c.Lookup("json.(decoder).decodeStruct"); ds != nil {
		for _, ci := range callsIn(ds) {
			if staticCallee(ci.Common()) == fold {
				keySide = true
			}
		}
	}
	// the index side: map updates of the case-insensitive index
	n, bad := 0, ""
	for _, f := range c.RepoFunctions() {
		if f.Blocks == nil || !strings.HasPrefix(shortName(f), "json.") {
			continue
		}
		for _, blk := range f.Blocks {
			for _, in := range blk.Instrs {
				mu, ok := in.(*ssa.MapUpdate)
				if !ok {
					continue
				}
				if id, ok := fieldOfLoad(mu.Map); !ok || id != "json.structType.ficaseIndex" {
					continue
				}
				n++
				viaFold := false
				for _, o := range append(origins(mu.Key), mu.Key) {
					if dependsOn(o, func(x ssa.Value) bool {
						call, ok := x.(*ssa.Call)
						return ok && staticCallee(call.Common()) == fold
					}) {
						viaFold = true
					}
				}
				if !viaFold {
					bad = c.InstrPos(mu)
				}
			}
		}
	}
	switch {
	case !keySide:
		b.addP(props, core.Undecided, key, c.FuncPos(fold), "decodeStruct does not fold keys with appendToLower")
	case n == 0:
		b.addP(props, core.Undecided, key, c.FuncPos(fold), "no update of structType.ficaseIndex found")
	case bad != "":
		b.addP(props, core.Violation, key, bad, "the case-insensitive index of field names is keyed by something other than appendToLower(name), the function object keys are folded with before the lookup (strings.ToLower agrees with it on ASCII only: it maps 'É' to 'é', appendToLower maps both to one representative of the case orbit): {\"ké\":1} does not reach the field Ké, {\"straße\":2} not the field Straße — encoding/json matches both")
	default:
		b.addP(props, core.Discharged, key, c.FuncPos(fold), fmt.Sprintf("%d index update(s) keyed by appendToLower(name), the function keys are folded with", n))
	}
}

// S70 — generated Go code labels a field opt, req or rep in the third position of its protobuf
// struct tag. A tag that parseStructTag rejects is dropped as a whole by structCodecOf, which then
// numbers the field by its position: a proto2 `required` field tagged varint,5,req is written as
// field 1. The option switch must know all three labels.
func smallStructTagOptions(c *core.Ctx, b *ob) {
	props := []string{"C12", "C03"}
	key := "struct-tag:field-labels"
	fn := c.Lookup("proto.parseStructTag")
	if fn == nil {
		b.addP(props, core.Undecided, key, "-", "proto.parseStructTag not found")
		return
	}
	have := map[string]bool{}
	for _, blk := range fn.Blocks {
		for _, in := range blk.Instrs {
			bo, ok := in.(*ssa.BinOp)
			if !ok || bo.Op != token.EQL {
				continue
			}
			for _, op := range []ssa.Value{bo.X, bo.Y} {
				if k, ok := op.(*ssa.Const); ok && k.Value != nil && k.Value.Kind() == constant.String {
					have[constant.StringVal(k.Value)] = true
				}
			}
		}
	}
	var missing []string
	for _, l := range []string{"opt", "req", "rep"} {
		if !have[l] {
			missing = append(missing, l)
		}
	}
	switch {
	case !have["varint"]:
		b.addP(props, core.Undecided, key, c.FuncPos(fn), "parseStructTag does not compare tag fields with string constants")
	case len(missing) > 0:
		b.addP(props, core.Violation, key, c.FuncPos(fn), fmt.Sprintf("parseStructTag does not accept the field label(s) %v that generated code writes in the third position of a protobuf tag: the tag is rejected, structCodecOf drops it and numbers the field by its position — struct{A uint64 `protobuf:\"varint,5,req,name=a\"`} is written as field 1 (08 01) instead of field 5 (28 01)", missing))
	default:
		b.addP(props, core.Discharged, key, c.FuncPos(fn), "opt, req and rep are accepted")
	}
}

// smallWave18 groups single-site clauses added after the eighteenth round of seeded changes.
func smallWave18(c *core.Ctx, b *ob) {
	// S71 — thrift.Unmarshal reports trailing bytes by asking the bytes.Reader it created how much
	// is left: that only means something when the protocol reader consumes from that very reader.
	// Behind a bufio.Reader the input is drained into the buffer at the first read and Len() is 0
	// whatever follows the value.
	{
		props := []string{"C08"}
		key := "thrift-unmarshal:trailing-check-on-the-reader-in-use"
		fn := c.Lookup("thrift.Unmarshal")
		if fn == nil {
			b.addP(props, core.Undecided, key, "-", "thrift.Unmarshal not found")
		} else {
			var lenRecv, newReaderArg ssa.Value
			for _, ci := range callsIn(fn) {
				cc := ci.Common()
				if f := staticCallee(cc); f != nil && f.Name() == "Len" && strings.Contains(shortName(f), "bytes.") && len(cc.Args) == 1 {
					lenRecv = cc.Args[0]
				}
				if cc.IsInvoke() && cc.Method.Name() == "NewReader" && len(cc.Args) == 1 {
					newReaderArg = cc.Args[0]
				}
			}
			switch {
			case lenRecv == nil || newReaderArg == nil:
				b.addP(props, core.Undecided, key, c.FuncPos(fn), "Unmarshal does not create its protocol reader with p.NewReader and test (*bytes.Reader).Len afterwards")
			default:
				same := false
				if mi, ok := newReaderArg.(*ssa.MakeInterface); ok && mi.X == lenRecv {
					same = true
				}
				if same {
					b.addP(props, core.Discharged, key, c.FuncPos(fn), "the reader whose remaining length is tested is the one the protocol reader consumes from")
				} else {
					b.addP(props, core.Violation, key, c.FuncPos(fn), "thrift.Unmarshal tests the remaining length of its bytes.Reader, but the protocol reader does not read from it directly (a bufio.Reader in between drains it at the first read): trailing bytes after the value — garbage, or a second value — are no longer reported")
				}
			}
		}
	}
	// S72 — the options of a thrift struct tag accumulate: required,enum sets both. Inside the
	// option loop of forEachStructField every new value of flags derives from the previous one.
	{
		props := []string{"C08", "C04"}
		key := "thrift-tags:options-accumulate"
		fn := c.Lookup("thrift.forEachStructField")
		if fn == nil {
			b.addP(props, core.Undecided, key, "-", "thrift.forEachStructField not found")
		} else {
			n, bad := 0, ""
			for _, blk := range fn.Blocks {
				for _, in := range blk.Instrs {
					phi, ok := in.(*ssa.Phi)
					if !ok || !strings.HasSuffix(phi.Type().String(), "thrift.flags") {
						continue
					}
					// a φ that feeds itself: the loop-carried flags
					self := false
					for _, e := range phi.Edges {
						if e != ssa.Value(phi) && dependsOn(e, func(x ssa.Value) bool { return x == ssa.Value(phi) }) {
							self = true
						}
					}
					if !self {
						continue
					}
					n++
					for i, e := range phi.Edges {
						if !blk.Dominates(blk.Preds[i]) {
							continue // entry edge: the initial value
						}
						for _, o := range origins(e) {
							if o == ssa.Value(phi) {
								continue
							}
							if !dependsOn(o, func(x ssa.Value) bool { return x == ssa.Value(phi) }) {
								bad = c.InstrPos(phi)
							}
						}
					}
				}
			}
			switch {
			case n == 0:
				b.addP(props, core.Undecided, key, c.FuncPos(fn), "no loop-carried flags value found in forEachStructField")
			case bad != "":
				b.addP(props, core.Violation, key, bad, "an option of a thrift struct tag replaces the flags collected so far instead of adding to them: with `thrift:\"1,required,enum\"` the required bit is lost, the field never enters the decoder's required mask and a message without it decodes without a MissingField error")
			default:
				b.addP(props, core.Discharged, key, c.FuncPos(fn), "every option adds to the flags collected so far")
			}
		}
	}
	// S73 — what a map decoder stores in the destination map is the caller's from then on: it is
	// not the scratch value that the next entry is decoded into (and that clear() wipes).
	{
		props := []string{"C10", "C02"}
		n, badAny := 0, false
		for _, fn := range c.RepoFunctions() {
			name := shortName(fn)
			if fn.Blocks == nil || !strings.HasPrefix(name, "json.(decoder).decodeMap") {
				continue
			}
			// scratch cells: locals declared outside the entry loop whose address is handed to a
			// decode call (a variable declared in the loop body is a new one for every entry)
			inLoop := map[*ssa.BasicBlock]bool{}
			for _, h := range loopHeaders(fn) {
				for blk := range loopBlocks(h) {
					inLoop[blk] = true
				}
			}
			scratch := map[*ssa.Alloc]bool{}
			for _, ci := range callsIn(fn) {
				f := staticCallee(ci.Common())
				if f == nil || !strings.HasPrefix(f.Name(), "decode") {
					continue
				}
				for _, a := range ci.Common().Args {
					if al, ok := stripConv(a).(*ssa.Alloc); ok && isSliceType(al.Type().Underlying().(*types.Pointer).Elem()) && !inLoop[al.Block()] {
						scratch[al] = true
					}
				}
			}
			// a variable reset to nil for every entry holds nothing of the previous one: the decode
			// call gives it fresh memory
			for _, blk := range fn.Blocks {
				for _, in := range blk.Instrs {
					if st, ok := in.(*ssa.Store); ok && isNilConst(st.Val) {
						if al, ok := st.Addr.(*ssa.Alloc); ok {
							delete(scratch, al)
						}
					}
				}
			}
			if len(scratch) == 0 {
				continue
			}
			key := "map-decode:scratch-not-stored:" + name
			n++
			bad := ""
			for _, blk := range fn.Blocks {
				for _, in := range blk.Instrs {
					mu, ok := in.(*ssa.MapUpdate)
					if !ok {
						continue
					}
					var walk func(v ssa.Value, depth int)
					walk = func(v ssa.Value, depth int) {
						if depth > 6 {
							return
						}
						switch x := v.(type) {
						case *ssa.Phi:
							for _, e := range x.Edges {
								walk(e, depth+1)
							}
						case *ssa.Slice:
							walk(x.X, depth+1)
						case *ssa.UnOp:
							if al, ok := x.X.(*ssa.Alloc); ok && x.Op == token.MUL && scratch[al] {
								bad = c.InstrPos(mu)
							}
						}
					}
					walk(mu.Value, 0)
				}
			}
			if bad != "" {
				badAny = true
				b.addP(props, core.Violation, key, bad, name+" stores in the destination map the scratch slice that the next entry is decoded into (no copy on that path): the list handed out is wiped and overwritten while the caller holds it — for map[string][]string, lists of exactly 10, 20, 40 … elements come back holding the next entry's strings")
			} else {
				b.addP(props, core.Discharged, key, c.FuncPos(fn), "the values stored in the map are copies of the scratch slice")
			}
		}
		if n == 0 && !badAny {
			b.addP(props, core.Undecided, "map-decode:scratch-not-stored", "-", "no map decoder with a scratch slice found")
		}
	}
}

// S74 — a MessageRewriter applies the rules of fields that the input does not carry to an empty
// value (Rewrite(out, nil)): under BitOr an absent field counts as zero. The varint arms of
// bitOrRW.Rewrite decode an empty input to 0; the fixed-width arms must not hand it to
// decodeLE32/decodeLE64, which report unexpected EOF.
func smallBitOrAbsentField(c *core.Ctx, b *ob) {
	props := []string{"C19"}
	key := "bitor:absent-fixed-field-is-zero"
	n, bad := 0, ""
	for _, fn := range []*ssa.Function{c.Lookup("proto.(bitOrRW).Rewrite")} {
		if fn == nil || fn.Blocks == nil || len(fn.Params) < 3 {
			continue
		}
		in := fn.Params[2]
		for _, ci := range callsIn(fn) {
			f := staticCallee(ci.Common())
			if f == nil || !(f.Name() == "decodeLE32" || f.Name() == "decodeLE64") || len(ci.Common().Args) != 1 || ci.Common().Args[0] != ssa.Value(in) {
				continue
			}
			n++
			guarded := false
			blk := ci.(ssa.Instruction).Block()
			if lo, _, excl := lenInterval(in, blk); (lo != nil && lo.Sign() > 0) || excl[0] {
				guarded = true
			}
			if !guarded {
				bad = c.InstrPos(ci)
			}
		}
	}
	switch {
	case n == 0:
		b.addP(props, core.Undecided, key, "-", "no fixed-width decode of the input found in bitOrRW.Rewrite")
	case bad != "":
		b.addP(props, core.Violation, key, bad, "bitOrRW.Rewrite decodes the fixed-width input without testing that there is one: for a field absent from the message (MessageRewriter calls Rewrite(out, nil)) the varint kinds or the mask into 0, the fixed32/fixed64 kinds fail with unexpected EOF — BitOr on a fixed32 field whose value is 0 (hence not encoded) makes the whole Rewrite fail")
	default:
		b.addP(props, core.Discharged, key, "-", fmt.Sprintf("%d fixed-width decode(s) of the input, each only when there is an input", n))
	}
}

// S75 — Decoder.readValue and the reader's errors. (a) A number that ends exactly where the
// buffered data ends is complete only if the stream has ended: after io.EOF. After any other
// reader error the digits read so far may be the beginning of a longer number, and encoding/json
// reports the error instead of yielding them. (b) The error the reader returned is what Decode
// reports once the buffered values are used up: io.ErrUnexpectedEOF from the reader (a truncated
// gzip stream) is not io.EOF.
func smallDecoderReaderErrors(c *core.Ctx, b *ob) {
	props := []string{"C11"}
	fn := c.Lookup("json.(*Decoder).readValue")
	if fn == nil {
		b.addP(props, core.Undecided, "decoder-reader-errors", "-", "json.(*Decoder).readValue not found")
		return
	}
	isGlobalLoad := func(v ssa.Value, name string) bool {
		ld, ok := v.(*ssa.UnOp)
		if !ok || ld.Op != token.MUL {
			return false
		}
		g, ok := ld.X.(*ssa.Global)
		return ok && g.Pkg != nil && g.Pkg.Pkg.Path() == "io" && g.Name() == name
	}
	isStickyErr := func(v ssa.Value) bool {
		id, ok := fieldOfLoad(v)
		return ok && id == "json.Decoder.err"
	}
	// (a)
	{
		key := "decoder:number-at-buffer-end-only-after-eof"
		nilTest, eofTest := "", false
		for _, blk := range fn.Blocks {
			for _, in := range blk.Instrs {
				bo, ok := in.(*ssa.BinOp)
				if !ok || (bo.Op != token.NEQ && bo.Op != token.EQL) {
					continue
				}
				// the test is part of the acceptance when its true edge leads straight to the block
				// that consumes the value (skipSpacesN on the remainder), unlike the plain
				// "if err = dec.err; err != nil" that ends the loop
				accepts := false
				if ifi, isIf := blk.Instrs[len(blk.Instrs)-1].(*ssa.If); isIf && ifi.Cond == ssa.Value(bo) {
					for _, x := range blk.Succs[0].Instrs {
						if call, isCall := x.(*ssa.Call); isCall && strings.HasSuffix(calleeName(call.Common()), "skipSpacesN") {
							accepts = true
						}
					}
				}
				for _, ref := range *bo.Referrers() {
					if _, isPhi := ref.(*ssa.Phi); isPhi {
						accepts = true
					}
				}
				if !accepts {
					continue
				}
				switch {
				case isStickyErr(bo.X) && isNilConst(bo.Y) && bo.Op == token.NEQ:
					nilTest = c.InstrPos(bo)
				case isStickyErr(bo.X) && isGlobalLoad(bo.Y, "EOF") && bo.Op == token.EQL:
					eofTest = true
				}
			}
		}
		switch {
		case nilTest != "":
			b.addP(props, core.Violation, key, nilTest, "Decoder.readValue accepts a number that ends where the buffered data ends as soon as the reader has returned any error: after a failure in the middle of the stream ({} 12 followed by a connection reset, where 1234 was being sent) the truncated digits are yielded as a value; encoding/json yields a number at the end of the data only after io.EOF and reports the error otherwise")
		case !eofTest:
			b.addP(props, core.Undecided, key, c.FuncPos(fn), "no test of the sticky error against io.EOF found in readValue")
		default:
			b.addP(props, core.Discharged, key, c.FuncPos(fn), "a number at the end of the buffered data is accepted only after io.EOF")
		}
	}
	// (b)
	{
		key := "decoder:reader-error-reported-as-it-is"
		bad := ""
		for _, blk := range fn.Blocks {
			for _, in := range blk.Instrs {
				bo, ok := in.(*ssa.BinOp)
				if !ok || bo.Op != token.EQL {
					continue
				}
				if isGlobalLoad(bo.Y, "ErrUnexpectedEOF") || isGlobalLoad(bo.X, "ErrUnexpectedEOF") {
					bad = c.InstrPos(bo)
				}
			}
		}
		if bad != "" {
			b.addP(props, core.Violation, key, bad, "Decoder.readValue turns an io.ErrUnexpectedEOF coming from the reader into io.EOF: io.ReadFull only produces that error together with n > 0, so with n == 0 it is the reader's own (a truncated gzip stream), and Decode reports a clean end of stream where encoding/json reports unexpected EOF")
		} else {
			b.addP(props, core.Discharged, key, c.FuncPos(fn), "reader errors are not rewritten")
		}
	}
}

// smallWave19 groups single-site clauses added after the nineteenth round of seeded changes.
func smallWave19(c *core.Ctx, b *ob) {
	// S76 — the scanners report input that ends in the middle of a token with an empty remainder
	// (the Decoder then reads more and tries again): a syntaxError return reached only when the
	// scan position is at the end of the buffered input, and which hands back a non-empty
	// remainder, makes a value split across two reads fail.
	{
		props := []string{"C11", "C05"}
		n := 0
		for _, fn := range c.RepoFunctions() {
			name := shortName(fn)
			if fn.Blocks == nil || !strings.HasPrefix(name, "json.(decoder).parse") || len(fn.Params) < 2 || fn.Params[1].Type().String() != "[]byte" {
				continue
			}
			in := fn.Params[1]
			key := "truncation-is-not-a-syntax-error:" + name
			bad := ""
			count := 0
			for _, r := range returnsOf(fn) {
				if len(r.Results) != 4 {
					continue
				}
				isSyntax := false
				for _, o := range origins(r.Results[3]) {
					if call, ok := o.(*ssa.Call); ok && strings.HasSuffix(calleeName(call.Common()), "json.syntaxError") {
						isSyntax = true
					}
				}
				if !isSyntax {
					continue
				}
				count++
				// a dominating edge that says: position (+k) == len(b), on a value that is not a constant
				for _, e := range dominatingEdges(r.Block()) {
					bo, ok := e.ifi.Cond.(*ssa.BinOp)
					if !ok {
						continue
					}
					la, isLen := lenArg(bo.Y)
					if !isLen || la != ssa.Value(in) {
						continue
					}
					if _, isK := constInt(bo.X); isK {
						continue
					}
					atEnd := (bo.Op == token.EQL && e.succ == 0) || (bo.Op == token.NEQ && e.succ == 1) || (bo.Op == token.GEQ && e.succ == 0) || (bo.Op == token.LSS && e.succ == 1)
					if !atEnd {
						continue
					}
					// the scanners' convention for "the input ended here" is an empty remainder,
					// whatever the error says: b[i:] with that i, or b[len(b):]
					empty := false
					for _, o := range origins(r.Results[1]) {
						if sl, ok := o.(*ssa.Slice); ok && sl.X == ssa.Value(in) && sl.Low != nil && sl.High == nil {
							if sl.Low == bo.X {
								empty = true
							}
							if la2, isLen2 := lenArg(sl.Low); isLen2 && la2 == ssa.Value(in) {
								empty = true
							}
						}
					}
					if !empty {
						bad = c.InstrPos(r)
					}
				}
			}
			if count == 0 {
				continue
			}
			n++
			if bad != "" {
				b.addP(props, core.Violation, key, bad, name+" returns a syntax error together with a non-empty remainder on a path taken only when the scan position has reached the end of the buffered input: the token may simply continue in the bytes not read yet (a backslash that is the last byte of a Decoder's buffer), and the Decoder fails a valid stream at that chunk boundary instead of reading more")
			} else {
				b.addP(props, core.Discharged, key, c.FuncPos(fn), fmt.Sprintf("%d syntax-error return(s); those reached at the end of the input hand back an empty remainder", count))
			}
		}
		if n == 0 {
			b.addP(props, core.Undecided, "truncation-is-not-a-syntax-error", "-", "no syntax-error return found in json's scanners")
		}
	}
	// S77 — object keys are ordered as strings: with SortMapKeys the members of a map with integer
	// keys come out in the order of their decimal texts ("-3" before "-5", "10" before "9"), like
	// encoding/json. The comparators return a comparison of strings on every path.
	for _, name := range []string{"json.intStringsAreSorted", "json.uintStringsAreSorted"} {
		props := []string{"C14", "C01"}
		key := "key-order:compares-texts:" + name
		fn := c.Lookup(name)
		if fn == nil {
			b.addP(props, core.Undecided, key, "-", name+" not found")
			continue
		}
		bad, n := "", 0
		for _, r := range returnsOf(fn) {
			if len(r.Results) != 1 {
				continue
			}
			for _, o := range origins(r.Results[0]) {
				n++
				bo, ok := o.(*ssa.BinOp)
				if ok && isStringType(bo.X.Type()) && isStringType(bo.Y.Type()) {
					continue
				}
				// bytes.Compare(text0, text1) < 0 and strings.Compare are the same comparison
				if ok {
					if call, isCall := bo.X.(*ssa.Call); isCall {
						if n := calleeName(call.Common()); n == "bytes.Compare" || n == "strings.Compare" {
							continue
						}
					}
				}
				bad = c.InstrPos(r)
			}
		}
		switch {
		case n == 0:
			b.addP(props, core.Undecided, key, c.FuncPos(fn), "no return value found")
		case bad != "":
			b.addP(props, core.Violation, key, bad, name+" decides the order of two keys by something other than a comparison of their decimal texts on some path: map members are sorted as strings (\"-3\" before \"-5\"), a numeric shortcut orders them differently and the bytes no longer equal encoding/json's")
		default:
			b.addP(props, core.Discharged, key, c.FuncPos(fn), "every path compares the decimal texts")
		}
	}
	// S78 — the whole-input flags of a Tokenizer describe the text it tokenizes: the argument of
	// internalParseFlags is the very slice stored in Tokenizer.json, not a part of it.
	for _, name := range []string{"json.NewTokenizer", "json.(*Tokenizer).Reset"} {
		props := []string{"C17", "C05"}
		key := "tokenizer:flags-describe-the-whole-text:" + name
		fn := c.Lookup(name)
		if fn == nil {
			b.addP(props, core.Undecided, key, "-", name+" not found")
			continue
		}
		var stored, scanned ssa.Value
		for _, blk := range fn.Blocks {
			for _, in := range blk.Instrs {
				switch x := in.(type) {
				case *ssa.Store:
					if fa, ok := x.Addr.(*ssa.FieldAddr); ok && fieldAddrID(fa) == "json.Tokenizer.json" {
						stored = x.Val
					}
				case *ssa.Call:
					if f := staticCallee(x.Common()); f != nil && f.Name() == "internalParseFlags" && len(x.Call.Args) == 1 {
						scanned = x.Call.Args[0]
					}
				}
			}
		}
		switch {
		case stored == nil || scanned == nil:
			b.addP(props, core.Undecided, key, c.FuncPos(fn), "no store of Tokenizer.json together with a call of internalParseFlags")
		case stored != scanned:
			b.addP(props, core.Violation, key, c.FuncPos(fn), name+" computes the string fast-path flags (noBackslash, validAsciiPrint) over something other than the text it stores in Tokenizer.json (a prefix of it): an escape or a control character beyond the part examined is missed, strings are cut at an escaped quote and String() returns escaped bytes")
		default:
			b.addP(props, core.Discharged, key, c.FuncPos(fn), "the flags are computed over the text that is tokenized")
		}
	}
	// S79 — Tokenizer.stack is nil until the first container opens (and after Reset): every method
	// call on it is made where it was tested non-nil, or assigned.
	{
		props := []string{"C17", "C06"}
		n := 0
		for _, fn := range c.RepoFunctions() {
			name := shortName(fn)
			if fn.Blocks == nil || !strings.HasPrefix(name, "json.(*Tokenizer).") {
				continue
			}
			count := 0
			for _, ci := range callsIn(fn) {
				cc := ci.Common()
				f := staticCallee(cc)
				if f == nil || f.Signature.Recv() == nil || len(cc.Args) == 0 || !strings.HasSuffix(f.Signature.Recv().Type().String(), "json.stack") {
					continue
				}
				id, ok := fieldOfLoad(cc.Args[0])
				if !ok || id != "json.Tokenizer.stack" {
					continue
				}
				n++
				count++
				key := fmt.Sprintf("tokenizer:stack-non-nil:%s#%d", name, count)
				blk := ci.(ssa.Instruction).Block()
				guarded := false
				check := func(cond ssa.Value, onTrue bool) {
					bo, ok := cond.(*ssa.BinOp)
					if !ok || !isNilConst(bo.Y) {
						return
					}
					if fid, ok := fieldOfLoad(bo.X); !ok || fid != "json.Tokenizer.stack" {
						return
					}
					if (bo.Op == token.NEQ && onTrue) || (bo.Op == token.EQL && !onTrue) {
						guarded = true
					}
				}
				for _, e := range dominatingEdges(blk) {
					check(e.ifi.Cond, e.succ == 0)
				}
				// assigned on the nil branch just before (push: if t.stack == nil { t.stack = acquireStack() })
				for _, b2 := range fn.Blocks {
					for _, in := range b2.Instrs {
						if st, ok := in.(*ssa.Store); ok {
							if fa, ok := st.Addr.(*ssa.FieldAddr); ok && fieldAddrID(fa) == "json.Tokenizer.stack" && !isNilConst(st.Val) {
								for _, e := range dominatingEdges(b2) {
									bo, ok := e.ifi.Cond.(*ssa.BinOp)
									if ok && isNilConst(bo.Y) && bo.Op == token.EQL && e.succ == 0 && e.ifi.Block().Dominates(blk) {
										guarded = true
									}
								}
							}
						}
					}
				}
				if guarded {
					b.addP(props, core.Discharged, key, c.InstrPos(ci), "the stack was tested non-nil (or just acquired)")
				} else {
					b.addP(props, core.Violation, key, c.InstrPos(ci), name+" calls a method of Tokenizer.stack without a dominating test that it is not nil: the stack is nil until the first container opens and after every Reset, so a closing delimiter before any opening one (\"]\", \"true}\" after a Reset) makes Next dereference nil")
				}
			}
		}
		if n == 0 {
			b.addP(props, core.Undecided, "tokenizer:stack-non-nil", "-", "no method call on Tokenizer.stack found")
		}
	}
	// S80 — proto's table of primitive types names, for each integer type, the zig-zag type of the
	// same width (Type.ZigZag): a 64-bit row that points at sint32 makes templates and BitOr
	// rewriters truncate sint64 fields to 32 bits.
	{
		props := []string{"C19", "C12"}
		key := "primitive-types:zigzag-same-width"
		pp := c.Pkg("proto")
		var lit *ast.CompositeLit
		if pp != nil {
			for _, f := range pp.Syntax {
				ast.Inspect(f, func(nd ast.Node) bool {
					vs, ok := nd.(*ast.ValueSpec)
					if !ok || len(vs.Names) != 1 || vs.Names[0].Name != "primitiveTypes" || len(vs.Values) != 1 {
						return true
					}
					lit, _ = vs.Values[0].(*ast.CompositeLit)
					return false
				})
			}
		}
		if lit == nil {
			b.addP(props, core.Undecided, key, "-", "proto.primitiveTypes not found")
		} else {
			rows, bad := 0, ""
			for _, el := range lit.Elts {
				row, ok := el.(*ast.CompositeLit)
				if !ok {
					continue
				}
				var nm, zz string
				for _, kv := range row.Elts {
					kve, ok := kv.(*ast.KeyValueExpr)
					if !ok {
						continue
					}
					k, _ := kve.Key.(*ast.Ident)
					if k == nil {
						continue
					}
					switch k.Name {
					case "name":
						if bl, ok := kve.Value.(*ast.BasicLit); ok {
							nm = strings.Trim(bl.Value, "\"")
						}
					case "zigzag":
						if id, ok := kve.Value.(*ast.Ident); ok {
							zz = id.Name
						}
					}
				}
				if zz == "" {
					continue
				}
				rows++
				if strings.HasSuffix(nm, "32") != strings.HasSuffix(zz, "32") || strings.HasSuffix(nm, "64") != strings.HasSuffix(zz, "64") {
					bad = fmt.Sprintf("%s: the row of %s names %s", c.PosOf(row.Pos()), nm, zz)
				}
			}
			switch {
			case rows == 0:
				b.addP(props, core.Undecided, key, c.PosOf(lit.Pos()), "no row with a zigzag entry")
			case bad != "":
				b.addP(props, core.Violation, key, c.PosOf(lit.Pos()), "proto.primitiveTypes pairs an integer type with a zig-zag type of another width ("+bad+"): a field tagged zigzag64 is described as sint32, so a rewrite template rejects values beyond 32 bits and a BitOr rewriter drops the bits above bit 31 of the original value")
			default:
				b.addP(props, core.Discharged, key, c.PosOf(lit.Pos()), fmt.Sprintf("%d rows name a zig-zag type, each of the row's own width", rows))
			}
		}
	}
}

func smallWave19b(c *core.Ctx, b *ob) {
	// S81 — a BitOr rule always yields a rewriter: with a zero mask the field keeps its value. A
	// nil Rewriter returned without an error is taken by parseRewriteTemplateStruct for "replace
	// the field with nothing".
	{
		props := []string{"C19"}
		key := "bitor:constructor-returns-a-rewriter"
		fn := c.Lookup("proto.BitOrRewriter")
		if fn == nil {
			b.addP(props, core.Undecided, key, "-", "proto.BitOrRewriter not found")
		} else {
			n, bad := 0, ""
			for _, r := range returnsOf(fn) {
				if len(r.Results) != 2 || !isNilConst(r.Results[1]) {
					continue
				}
				n++
				for _, o := range origins(r.Results[0]) {
					if isNilConst(o) {
						bad = c.InstrPos(r)
					}
				}
			}
			switch {
			case n == 0:
				b.addP(props, core.Undecided, key, c.FuncPos(fn), "BitOrRewriter has no success return")
			case bad != "":
				b.addP(props, core.Violation, key, bad, "BitOrRewriter returns a nil Rewriter without an error (for a zero mask): the struct template then holds an empty rule for the field, and MessageRewriter.Rewrite replaces the field with nothing — a non-zero value under BitOr with mask 0 is deleted instead of kept")
			default:
				b.addP(props, core.Discharged, key, c.FuncPos(fn), "every success return hands back a bitOrRW")
			}
		}
	}
	// S82 — size and encode agree on when wantzero stops applying: the flag that makes the first
	// field of a message reached through a pointer write its zero value is dropped once a field
	// has been emitted, in structSizeFuncOf exactly where structEncodeFuncOf drops it — inside the
	// emission branch.
	{
		props := []string{"C16", "C03"}
		wz, ok := protoConst(c, "wantzero")
		for _, spec := range [][2]string{{"proto.structEncodeFuncOf$1", "encode"}, {"proto.structSizeFuncOf$1", "size"}} {
			key := "proto:wantzero-dropped-on-emission:" + spec[1]
			fn := c.Lookup(spec[0])
			if fn == nil || !ok {
				b.addP(props, core.Undecided, key, "-", spec[0]+" or proto.wantzero not found")
				continue
			}
			// the emission blocks: where a tag is accounted for or written
			var emits []*ssa.BasicBlock
			for _, blk := range fn.Blocks {
				for _, in := range blk.Instrs {
					switch x := in.(type) {
					case *ssa.Call:
						if calleeName(x.Common()) == "github.com/segmentio/encoding/proto.encodeTag" {
							emits = append(emits, blk)
						}
					case *ssa.UnOp:
						if id, ok := fieldOfLoad(x); ok && strings.HasSuffix(id, "structField.tagsize") {
							emits = append(emits, blk)
						}
					}
				}
			}
			n, bad := 0, ""
			for _, ci := range callsIn(fn) {
				cc := ci.Common()
				if !strings.HasSuffix(calleeName(cc), "flags).without") || len(cc.Args) != 2 {
					continue
				}
				if k, isK := constInt(cc.Args[1]); !isK || k != wz {
					continue
				}
				n++
				blk := ci.(ssa.Instruction).Block()
				inEmission := false
				for _, e := range emits {
					if e == blk || e.Dominates(blk) {
						inEmission = true
					}
				}
				// the repeated-field loop drops it after a non-empty encode: dominated by a size/n > 0 test
				if !inEmission {
					for _, e := range dominatingEdges(blk) {
						if bo, ok := e.ifi.Cond.(*ssa.BinOp); ok && bo.Op == token.GTR && e.succ == 0 {
							if k, isK := constInt(bo.Y); isK && k == 0 {
								inEmission = true
							}
						}
					}
				}
				if !inEmission {
					bad = c.InstrPos(ci)
				}
			}
			switch {
			case n == 0:
				b.addP(props, core.Undecided, key, c.FuncPos(fn), "no flags.without(wantzero) found")
			case bad != "":
				b.addP(props, core.Violation, key, bad, spec[0]+" drops wantzero on a path where no field was emitted: its sibling keeps the flag until a field has actually been written, so the two disagree for a message reached through a pointer whose first field writes nothing (type node struct{Next *node; Value int} with a last node of value 0) — Size is 0 where two bytes are written, and Marshal fails with a short buffer")
			default:
				b.addP(props, core.Discharged, key, c.FuncPos(fn), fmt.Sprintf("%d drop(s) of wantzero, each after an emission", n))
			}
		}
	}
}

// S83 — an integer that does not fit its target is a complete value: the error is about its
// range, and what follows it is the remainder. The 8/16/32-bit decoders return the bytes after
// the number (the range test comes after parseInt); parseInt and parseUint themselves, for numbers
// beyond 64 bits, must not hand back their whole input: Parse would return the number itself as
// "unconsumed", and the error would quote what follows the number.
func smallOverflowConsumesNumber(c *core.Ctx, b *ob) {
	props := []string{"C11", "C02"}
	makesOverflow := func(v ssa.Value) bool {
		return dependsOn(v, func(x ssa.Value) bool {
			call, ok := x.(*ssa.Call)
			return ok && strings.HasSuffix(calleeName(call.Common()), "json.unmarshalOverflow")
		})
	}
	// examine one function: its overflow returns must not hand back its own input
	examine := func(fn *ssa.Function) (n int, bad string) {
		var in *ssa.Parameter
		for _, p := range fn.Params {
			if p.Type().String() == "[]byte" && in == nil {
				in = p
			}
		}
		if in == nil {
			return 0, ""
		}
		for _, r := range returnsOf(fn) {
			if len(r.Results) != 3 {
				continue
			}
			isOverflow := false
			for _, o := range origins(r.Results[2]) {
				if makesOverflow(o) {
					isOverflow = true
				}
			}
			if !isOverflow {
				continue
			}
			n++
			for _, o := range origins(r.Results[1]) {
				if o == ssa.Value(in) {
					bad = c.InstrPos(r)
				}
			}
		}
		return n, bad
	}
	for _, name := range []string{"json.(decoder).parseInt", "json.(decoder).parseUint"} {
		key := "overflow:remainder-after-the-number:" + name
		fn := c.Lookup(name)
		if fn == nil {
			b.addP(props, core.Undecided, key, "-", name+" not found")
			continue
		}
		n, bad := examine(fn)
		// overflow reported through a helper
		for _, ci := range callsIn(fn) {
			h := staticCallee(ci.Common())
			if h == nil || !c.InRepo(h) || h.Blocks == nil || h == fn {
				continue
			}
			direct := false
			for _, c2 := range callsIn(h) {
				if strings.HasSuffix(calleeName(c2.Common()), "json.unmarshalOverflow") {
					direct = true
				}
			}
			if !direct {
				continue
			}
			hn, hbad := examine(h)
			n += hn
			if hbad != "" {
				bad = hbad
			}
		}
		switch {
		case n == 0:
			b.addP(props, core.Undecided, key, c.FuncPos(fn), "no overflow return found")
		case bad != "":
			b.addP(props, core.Violation, key, bad, name+" returns its whole input as the remainder when the number overflows 64 bits: Parse(\"99999999999999999999 \\\"next\\\"\", &int64) hands back the number itself as unconsumed (for 300 into an int8 the remainder starts after the number), and the error text quotes the bytes that follow the number")
		default:
			b.addP(props, core.Discharged, key, c.FuncPos(fn), fmt.Sprintf("%d overflow return(s), each hands back what follows the number", n))
		}
	}
}

// S84 — decoding through a pointer held by an interface re-enters the decoder on that pointer
// without consuming input. When the pointer leads back to the interface itself (var x I; x = &x)
// the re-entry repeats for ever unless the interface is emptied first, as decodeInterface does
// (*(*any)(p) = nil before d.parse(b, val)): the second visit then finds nothing to decode
// through. Both functions that decode through a held pointer must clear the destination before
// the re-entry.
func smallHeldPointerCycle(c *core.Ctx, b *ob) {
	props := []string{"C06", "C02"}
	for _, name := range []string{"json.(decoder).decodeInterface", "json.(decoder).decodeMaybeEmptyInterface"} {
		key := "held-pointer:interface-cleared-before-re-entry:" + name
		fn := c.Lookup(name)
		if fn == nil {
			b.addP(props, core.Undecided, key, "-", name+" not found")
			continue
		}
		n, bad := 0, ""
		for _, ci := range callsIn(fn) {
			f := staticCallee(ci.Common())
			if f == nil || f.Name() != "parse" || len(ci.Common().Args) < 3 {
				continue
			}
			// only the re-entry on the value held by the interface (not on the interface's own address)
			arg := ci.Common().Args[2]
			if mi, ok := arg.(*ssa.MakeInterface); ok {
				if _, isPtrToIface := mi.X.Type().Underlying().(*types.Pointer); isPtrToIface && isIfaceType(mi.X.Type().Underlying().(*types.Pointer).Elem()) {
					continue
				}
			}
			n++
			cleared := false
			for _, blk := range fn.Blocks {
				for _, in := range blk.Instrs {
					switch x := in.(type) {
					case *ssa.Store:
						if isNilConst(x.Val) && isIfaceType(x.Val.Type()) && instrDominates(x, ci.(ssa.Instruction)) {
							cleared = true
						}
					case *ssa.Call:
						nm := calleeName(x.Common())
						if (strings.HasSuffix(nm, "reflect.Value).Set") || strings.HasSuffix(nm, "reflect.Value).SetZero")) && instrDominates(x, ci.(ssa.Instruction)) {
							cleared = true
						}
					}
				}
			}
			if !cleared {
				bad = c.InstrPos(ci)
			}
		}
		switch {
		case n == 0:
			b.addP(props, core.Undecided, key, c.FuncPos(fn), "no re-entry through a held pointer found")
		case bad != "":
			b.addP(props, core.Violation, key, bad, name+" re-enters the decoder on the pointer held by the interface without emptying the interface first (its sibling decodeInterface does): with type I interface{}; var x I; x = &x the pointer leads back to the same interface, no input is consumed, and Unmarshal([]byte(\"1\"), &x) recurses until the stack is exhausted — a fatal error, not a returned one")
		default:
			b.addP(props, core.Discharged, key, c.FuncPos(fn), "the interface is cleared before the decoder is re-entered on the pointer it held")
		}
	}
}

// smallWave20 groups single-site clauses added after the twentieth round of seeded changes.
func smallWave20(c *core.Ctx, b *ob) {
	// S85 — thrift's protocol readers consume exactly what they decode: a source that is shared
	// with later values (a stream of messages read with a new reader each, trailing bytes that
	// Unmarshal must report) may not be drained into a read-ahead buffer of the library's own.
	{
		props := []string{"C04", "C08", "C13"}
		key := "thrift:no-read-ahead"
		bad := ""
		for _, fn := range c.RepoFunctions() {
			if fn.Blocks == nil || fn.Pkg == nil || fn.Pkg.Pkg.Name() != "thrift" {
				continue
			}
			for _, ci := range callsIn(fn) {
				n := calleeName(ci.Common())
				if n == "bufio.NewReader" || n == "bufio.NewReaderSize" {
					bad = c.InstrPos(ci) + " (" + shortName(fn) + ")"
				}
			}
		}
		if bad != "" {
			b.addP(props, core.Violation, key, bad, "thrift wraps the caller's source in a bufio.Reader of its own: the read-ahead takes bytes that belong to whatever follows the value — the next message on the stream (decoded with a new reader: EOF), or the trailing bytes Unmarshal has to report")
		} else {
			b.addP(props, core.Discharged, key, "-", "no bufio.NewReader in package thrift: readers consume from the caller's source directly")
		}
	}
	// S86 — structDecoder.required has one bit per field slot: structDecoder.decode sizes its
	// "seen" bitmap from it and sets seen[i/64] for every field it decodes. The bitmap is made
	// once, for all the fields, and never re-sliced shorter.
	{
		props := []string{"C04", "C08"}
		key := "thrift:required-bitmap-covers-all-fields"
		n, bad := 0, ""
		for _, fn := range c.RepoFunctions() {
			if fn.Blocks == nil || fn.Pkg == nil || fn.Pkg.Pkg.Name() != "thrift" {
				continue
			}
			for _, blk := range fn.Blocks {
				for _, in := range blk.Instrs {
					st, ok := in.(*ssa.Store)
					if !ok {
						continue
					}
					fa, ok := st.Addr.(*ssa.FieldAddr)
					if !ok || fieldAddrID(fa) != "thrift.structDecoder.required" {
						continue
					}
					n++
					for _, o := range origins(st.Val) {
						if _, isMake := o.(*ssa.MakeSlice); !isMake {
							bad = c.InstrPos(st)
						}
					}
				}
			}
		}
		switch {
		case n == 0:
			b.addP(props, core.Undecided, key, "-", "no store into structDecoder.required found")
		case bad != "":
			b.addP(props, core.Violation, key, bad, "structDecoder.required is replaced by something other than the bitmap made for all the fields (a shorter re-slice): structDecoder.decode sizes its seen bitmap from it and sets a bit for every decoded field, so a struct whose ids span more than 64 slots panics (index out of range) as soon as a field of a trimmed word is present")
		default:
			b.addP(props, core.Discharged, key, "-", fmt.Sprintf("%d store(s), each of a freshly made bitmap", n))
		}
	}
	// S87 — growSlice moves the elements decoded so far into the larger array: CopySlice copies
	// min(len(dst), len(src)) elements, so the destination is made with the source's length.
	{
		props := []string{"C03", "C12"}
		key := "proto:growslice-copies-the-elements"
		fn := c.Lookup("proto.growSlice")
		if fn == nil {
			b.addP(props, core.Undecided, key, "-", "proto.growSlice not found")
		} else {
			n, bad := 0, ""
			for _, ci := range callsIn(fn) {
				if !strings.HasSuffix(calleeName(ci.Common()), "runtime_reflect.MakeSlice") || len(ci.Common().Args) != 3 {
					continue
				}
				n++
				if !dependsOn(ci.Common().Args[1], func(x ssa.Value) bool {
					call, ok := x.(*ssa.Call)
					return ok && strings.HasSuffix(calleeName(call.Common()), "Slice).Len")
				}) {
					bad = c.InstrPos(ci)
				}
			}
			switch {
			case n == 0:
				b.addP(props, core.Undecided, key, c.FuncPos(fn), "growSlice does not call MakeSlice")
			case bad != "":
				b.addP(props, core.Violation, key, bad, "growSlice makes the larger array with a length that is not the length of the slice being grown: CopySlice copies min(len(dst), len(src)) elements — none for a zero length — so every element decoded before a reallocation (the 11th, 21st, 41st … element of a repeated field) comes back as a zero value")
			default:
				b.addP(props, core.Discharged, key, c.FuncPos(fn), "the new array has the old length, CopySlice copies all the elements")
			}
		}
	}
	// S88 — a size function that answers with a constant for small values does so only where the
	// encoding really has that many bytes: k bytes hold values below 2^(7k).
	{
		props := []string{"C03", "C16", "C12"}
		n := 0
		for _, fn := range c.RepoFunctions() {
			name := shortName(fn)
			if fn.Blocks == nil || fn.Pkg == nil || fn.Pkg.Pkg.Name() != "proto" || !strings.HasPrefix(fn.Name(), "sizeOf") {
				continue
			}
			for _, r := range returnsOf(fn) {
				if len(r.Results) != 1 {
					continue
				}
				k, isK := constInt(r.Results[0])
				if !isK {
					// "prefix bytes + payload": k + n under a test of n
					if add, ok := r.Results[0].(*ssa.BinOp); ok && add.Op == token.ADD {
						if kk, ok := constInt(add.X); ok {
							k, isK = kk, true
						} else if kk, ok := constInt(add.Y); ok {
							k, isK = kk, true
						}
					}
				}
				if !isK || k < 1 || k > 9 {
					continue
				}
				// guarded by a comparison of a computed value with a constant
				for _, e := range dominatingEdges(r.Block()) {
					bo, ok := e.ifi.Cond.(*ssa.BinOp)
					if !ok {
						continue
					}
					lim, isLim := constUint(bo.Y)
					if _, xConst := constInt(bo.X); !isLim || xConst {
						continue
					}
					if bt, ok := bo.X.Type().Underlying().(*types.Basic); !ok || bt.Info()&types.IsInteger == 0 {
						continue
					}
					var maxIncl uint64
					switch {
					case bo.Op == token.LSS && e.succ == 0, bo.Op == token.GEQ && e.succ == 1:
						if lim == 0 {
							continue
						}
						maxIncl = lim - 1
					case bo.Op == token.LEQ && e.succ == 0, bo.Op == token.GTR && e.succ == 1:
						maxIncl = lim
					default:
						continue
					}
					// a test on the field number bounds the tag, which is number<<3 | wire type
					if strings.HasSuffix(stripConv(bo.X).Type().String(), "fieldNumber") && maxIncl < 1<<40 {
						maxIncl = maxIncl<<3 | 7
					}
					n++
					key := fmt.Sprintf("size-fast-path:%s:returns-%d", name, k)
					if maxIncl >= uint64(1)<<(7*uint(k)) {
						b.addP(props, core.Violation, key, c.InstrPos(r), fmt.Sprintf("%s answers %d byte(s) for values up to %#x, but %d byte(s) of varint hold values below %#x only: the size is one short for the boundary value (tag 0x80 is field 16 with the varint wire type), Marshal fails with a short buffer or writes a tag that reads as a continuation byte", name, k, maxIncl, k, uint64(1)<<(7*uint(k))))
					} else {
						b.addP(props, core.Discharged, key, c.InstrPos(r), fmt.Sprintf("constant %d only for values up to %#x", k, maxIncl))
					}
				}
			}
		}
		if n == 0 {
			b.addP(props, core.Info, "size-fast-path", "-", "no size function answers with a constant under a value test")
		}
	}
	// S89 — Time.MarshalJSON rejects zone offsets of 24 hours and more; the offset ends the text
	// as ±hh:mm unless the hours take three digits: encodeTime looks at the byte where the sign
	// must be, six from the end.
	{
		props := []string{"C01"}
		key := "time:offset-sign-position-checked"
		fn := c.Lookup("json.(encoder).encodeTime")
		if fn == nil {
			b.addP(props, core.Undecided, key, "-", "json.(encoder).encodeTime not found")
		} else {
			found := false
			for _, blk := range fn.Blocks {
				for _, in := range blk.Instrs {
					ia, ok := in.(*ssa.IndexAddr)
					if !ok {
						continue
					}
					sub, ok := ia.Index.(*ssa.BinOp)
					if !ok || sub.Op != token.SUB {
						continue
					}
					if k, isK := constInt(sub.Y); isK && k == 6 {
						if _, isLen := lenArg(sub.X); isLen {
							found = true
						}
					}
				}
			}
			if found {
				b.addP(props, core.Discharged, key, c.FuncPos(fn), "the byte six from the end (the sign of ±hh:mm) is examined")
			} else {
				b.addP(props, core.Violation, key, c.FuncPos(fn), "encodeTime validates the zone offset from its last two hour digits only and never looks at the byte where the sign must be: an offset of 100 hours or more whose last two hour digits are below 24 (time.FixedZone(\"\", 100*3600)) is written out, where encoding/json reports \"timezone hour outside of range [0,23]\"")
			}
		}
	}
}

func isUnsignedInt(t types.Type) bool {
	bt, ok := t.Underlying().(*types.Basic)
	return ok && bt.Info()&types.IsUnsigned != 0
}

func smallWave20b(c *core.Ctx, b *ob) {
	// S90 — object keys are strings: decodeString accepts the bare literal null (for string
	// targets), so every container decoder that reads a key with it rejects null in key position
	// first. Sibling agreement over the map and struct decoders.
	{
		props := []string{"C05", "C02"}
		n := 0
		for _, fn := range c.RepoFunctions() {
			name := shortName(fn)
			if fn.Blocks == nil || !(strings.HasPrefix(name, "json.(decoder).decodeMap") || name == "json.(decoder).decodeStruct") || fn.Parent() != nil {
				continue
			}
			count := 0
			for _, ci := range callsIn(fn) {
				f := staticCallee(ci.Common())
				if f == nil || f.Name() != "decodeString" || len(ci.Common().Args) < 3 {
					continue
				}
				// the key: decoded into a local variable
				al, isLocal := stripConv(ci.Common().Args[2]).(*ssa.Alloc)
				if !isLocal || al.Comment != "key" {
					continue // values may be null
				}
				count++
				n++
				key := fmt.Sprintf("object-key:null-rejected:%s#%d", name, count)
				guarded := false
				for _, e := range dominatingEdges(ci.(ssa.Instruction).Block()) {
					// the test is made on the very bytes handed to decodeString (the function's
					// entry test is about the whole object)
					if call, ok := e.ifi.Cond.(*ssa.Call); ok && strings.HasSuffix(calleeName(call.Common()), "json.hasNullPrefix") && e.succ == 1 && len(call.Call.Args) == 1 && call.Call.Args[0] == ci.Common().Args[1] {
						guarded = true
					}
				}
				if guarded {
					b.addP(props, core.Discharged, key, c.InstrPos(ci), "null is rejected before the key is decoded")
				} else {
					b.addP(props, core.Violation, key, c.InstrPos(ci), name+" decodes an object key with decodeString without rejecting the literal null first, unlike its siblings: decodeString accepts null (it is a value of string targets), so {null:1} is accepted and stored under the key \"\" where Valid and encoding/json reject the document")
				}
			}
		}
		if n == 0 {
			b.addP(props, core.Undecided, "object-key:null-rejected", "-", "no key decoded with decodeString found in the map and struct decoders")
		}
	}
	// S91 — parseEntered validates a container that its caller has already counted against the
	// nesting limit: it may only be given the caller's own input. Given a child value, that
	// value's nesting is counted one short and a document one level too deep is accepted.
	{
		props := []string{"C05", "C02", "C06"}
		key := "depth:parse-entered-only-on-own-input"
		pe := c.Lookup("json.(decoder).parseEntered")
		if pe == nil {
			b.addP(props, core.Info, key, "-", "no parseEntered helper")
		} else {
			n, bad := 0, ""
			for _, fn := range c.RepoFunctions() {
				if fn.Blocks == nil || !strings.HasPrefix(shortName(fn), "json.") || len(fn.Params) < 2 {
					continue
				}
				for _, ci := range callsIn(fn) {
					if staticCallee(ci.Common()) != pe || len(ci.Common().Args) < 2 {
						continue
					}
					n++
					own := true
					for _, o := range origins(ci.Common().Args[1]) {
						if o != ssa.Value(fn.Params[1]) {
							own = false
						}
					}
					if !own {
						bad = c.InstrPos(ci) + " (" + shortName(fn) + ")"
					}
				}
			}
			switch {
			case n == 0:
				b.addP(props, core.Undecided, key, c.FuncPos(pe), "parseEntered is never called")
			case bad != "":
				b.addP(props, core.Violation, key, bad, "parseEntered, which takes one nesting level back because its caller already counted the container it validates, is applied to a value other than the caller's own input (a member being skipped): that value is validated one level too shallow, and a document nested 10001 deep is accepted where Valid and encoding/json report exceeded max depth")
			default:
				b.addP(props, core.Discharged, key, c.FuncPos(pe), fmt.Sprintf("%d call(s), each on the caller's own input", n))
			}
		}
	}
}

// smallWave21 groups single-site clauses added after the twenty-first round of seeded changes.
func smallWave21(c *core.Ctx, b *ob) {
	// S92 — skipValues loops "for i < n": a negative element count makes it consume nothing and
	// succeed. Every call hands it a count that was tested non-negative on the way.
	{
		props := []string{"C08"}
		n := 0
		for _, fn := range c.RepoFunctions() {
			if fn.Blocks == nil || fn.Pkg == nil || fn.Pkg.Pkg.Name() != "thrift" {
				continue
			}
			count := 0
			for _, ci := range callsIn(fn) {
				f := staticCallee(ci.Common())
				if f == nil || f.Name() != "skipValues" || len(ci.Common().Args) < 2 {
					continue
				}
				n++
				count++
				key := fmt.Sprintf("skip-values:count-non-negative:%s#%d", closureIndex.ReplaceAllString(shortName(fn), ""), count)
				if signedUnchecked(ci.Common().Args[1], ci.(ssa.Instruction).Block()) {
					b.addP(props, core.Violation, key, c.InstrPos(ci), shortName(fn)+" skips the elements of a container whose element count has not been tested non-negative: skipValues loops zero times for a negative count and reports success, so a header announcing -1 elements of a mismatched type is accepted (in non-strict mode) instead of rejected")
				} else {
					b.addP(props, core.Discharged, key, c.InstrPos(ci), "the count was tested >= 0 before the skip")
				}
			}
		}
		if n == 0 {
			b.addP(props, core.Undecided, "skip-values:count-non-negative", "-", "no call of thrift.skipValues found")
		}
	}
	// S93 — the fields of a skipped struct are skipped like the fields of the struct being decoded:
	// with skipField, which knows that a coalesced bool has no value byte. Sibling of the
	// skip:coalesced-bool clause, one level down.
	{
		props := []string{"C08", "C13", "C04"}
		key := "skip-struct:fields-skipped-with-skipField"
		fn := c.Lookup("thrift.skipStruct")
		sf := c.Lookup("thrift.skipField")
		if fn == nil || sf == nil {
			b.addP(props, core.Undecided, key, "-", "thrift.skipStruct or thrift.skipField not found")
		} else {
			ok := false
			for _, ci := range callsIn(fn) {
				f := staticCallee(ci.Common())
				if f == nil || f.Name() != "readStruct" {
					continue
				}
				for _, a := range ci.Common().Args {
					switch x := a.(type) {
					case *ssa.Function:
						if x == sf {
							ok = true
						}
						for _, c2 := range callsIn(x) {
							if staticCallee(c2.Common()) == sf {
								ok = true
							}
						}
					case *ssa.MakeClosure:
						if cf, isF := x.Fn.(*ssa.Function); isF {
							for _, c2 := range callsIn(cf) {
								if staticCallee(c2.Common()) == sf {
									ok = true
								}
							}
						}
					}
				}
			}
			if ok {
				b.addP(props, core.Discharged, key, c.FuncPos(fn), "skipStruct reads the struct with skipField")
			} else {
				b.addP(props, core.Violation, key, c.FuncPos(fn), "skipStruct skips the fields of an ignored struct with something other than skipField: a bool field of a nested ignored struct (compact protocol: its value is in the field header) makes skip() swallow the next byte, and everything after it is read out of phase — an unknown field holding a struct with a bool no longer leaves the decoded value unchanged")
			}
		}
	}
	// S94 — a value the Decoder has handed out is the caller's: json never appends into the memory
	// of a slice it loads from the destination (append((*m)[:0], …) reuses the array of the
	// RawMessage returned by an earlier Decode).
	{
		props := []string{"C10", "C11"}
		key := "json:no-append-into-destination-memory"
		bad, n := "", 0
		for _, fn := range c.RepoFunctions() {
			if fn.Blocks == nil || !strings.HasPrefix(shortName(fn), "json.") {
				continue
			}
			for _, ci := range callsIn(fn) {
				bi, ok := ci.Common().Value.(*ssa.Builtin)
				if !ok || bi.Name() != "append" || len(ci.Common().Args) == 0 {
					continue
				}
				n++
				sl, ok := ci.Common().Args[0].(*ssa.Slice)
				if !ok {
					continue
				}
				if h, isK := constInt(sl.High); sl.High == nil || !isK || h != 0 {
					continue
				}
				ld, ok := sl.X.(*ssa.UnOp)
				if !ok || ld.Op != token.MUL {
					continue
				}
				// loaded through a pointer that comes from a parameter (the destination)
				fromParam := dependsOn(ld.X, func(x ssa.Value) bool {
					_, isP := x.(*ssa.Parameter)
					return isP
				})
				if _, isAlloc := stripConv(ld.X).(*ssa.Alloc); isAlloc {
					fromParam = false // a local variable
				}
				if fromParam && strings.Contains(strings.ToLower(fn.Name()), "decode") {
					bad = c.InstrPos(ci) + " (" + shortName(fn) + ")"
				}
			}
		}
		switch {
		case bad != "":
			b.addP(props, core.Violation, key, bad, "a json decode function appends into x[:0] where x is loaded from the destination: the bytes land in the array of the value handed out by the previous call (a RawMessage the caller still holds is rewritten by the next Decode into the same variable)")
		case n == 0:
			b.addP(props, core.Undecided, key, "-", "no append found in json")
		default:
			b.addP(props, core.Discharged, key, "-", fmt.Sprintf("%d append(s) in json, none into memory loaded from the destination", n))
		}
	}
	// S96 — Decode consumes one value from the stream on every call, whatever the target: an
	// invalid target is reported after the value was read (by Parse), like in encoding/json, so
	// that the next Decode sees the next value.
	{
		props := []string{"C11", "C05"}
		key := "decoder:decode-always-consumes-a-value"
		fn := c.Lookup("json.(*Decoder).Decode")
		if fn == nil {
			b.addP(props, core.Undecided, key, "-", "json.(*Decoder).Decode not found")
		} else {
			var rv ssa.Instruction
			for _, ci := range callsIn(fn) {
				if f := staticCallee(ci.Common()); f != nil && f.Name() == "readValue" {
					rv = ci.(ssa.Instruction)
				}
			}
			bad := ""
			if rv != nil {
				for _, r := range returnsOf(fn) {
					if !instrDominates(rv, r) {
						bad = c.InstrPos(r)
					}
				}
			}
			switch {
			case rv == nil:
				b.addP(props, core.Undecided, key, c.FuncPos(fn), "Decode does not call readValue")
			case bad != "":
				b.addP(props, core.Violation, key, bad, "Decoder.Decode returns on a path that did not read a value from the stream (an early rejection of the target): encoding/json consumes the value and then reports the invalid target, so after such a call every later Decode is one value behind and the end of the stream is reported with the wrong error")
			default:
				b.addP(props, core.Discharged, key, c.FuncPos(fn), "every return comes after readValue")
			}
		}
	}
	// S95 — thrift's pointer encoder writes a value for a nil pointer (the zero value): list, set
	// and map headers have already announced the element.
	{
		props := []string{"C13", "C04"}
		key := "thrift:nil-pointer-still-writes-a-value"
		fn := c.Lookup("thrift.encodeFuncPtrOf$1")
		if fn == nil {
			b.addP(props, core.Undecided, key, "-", "thrift.encodeFuncPtrOf$1 not found")
		} else {
			n, bad := 0, ""
			for _, r := range returnsOf(fn) {
				if len(r.Results) != 1 {
					continue
				}
				n++
				for _, o := range origins(r.Results[0]) {
					if isNilConst(o) {
						bad = c.InstrPos(r)
					}
				}
			}
			switch {
			case n == 0:
				b.addP(props, core.Undecided, key, c.FuncPos(fn), "no return found")
			case bad != "":
				b.addP(props, core.Violation, key, bad, "the encoder of pointer types returns without writing anything on some path (a nil pointer): the header of the enclosing list, set or map has already announced that element, so the bytes hold fewer values than announced (3c 15 02 00 15 06 00 for three elements) and the peer reads the following field as the missing element")
			default:
				b.addP(props, core.Discharged, key, c.FuncPos(fn), "every path hands a value (the zero value for nil) to the element encoder")
			}
		}
	}
}

// S97 — the struct decoder finds a field by its number in a table; field numbers go up to 2^29-1
// (struct tags choose them), so a table with one slot per number up to the largest one declared
// costs 4 GB for a type with one high-numbered field, whatever the input. The table's length is
// capped by a constant; the fields beyond it are found another way.
func smallFieldIndexBounded(c *core.Ctx, b *ob) {
	props := []string{"C07"}
	key := "proto:field-index-bounded"
	fn := c.Lookup("proto.structDecodeFuncOf")
	if fn == nil {
		b.addP(props, core.Undecided, key, "-", "proto.structDecodeFuncOf not found")
		return
	}
	n, bad := 0, ""
	for _, blk := range fn.Blocks {
		for _, in := range blk.Instrs {
			ms, ok := in.(*ssa.MakeSlice)
			if !ok {
				continue
			}
			fromNumbers := dependsOn(ms.Len, func(x ssa.Value) bool {
				call, ok := x.(*ssa.Call)
				return ok && strings.HasSuffix(calleeName(call.Common()), "structField).fieldNumber")
			})
			if !fromNumbers {
				continue
			}
			n++
			capped := false
			// min(x, K) / a φ merging with a constant under a comparison with a constant
			if dependsOn(ms.Len, func(x ssa.Value) bool {
				if call, ok := x.(*ssa.Call); ok {
					if bi, isB := call.Common().Value.(*ssa.Builtin); isB && bi.Name() == "min" {
						for _, a := range call.Common().Args {
							if _, isK := constInt(a); isK {
								return true
							}
						}
					}
				}
				return false
			}) {
				capped = true
			}
			for _, e := range dominatingEdges(blk) {
				if bo, ok := e.ifi.Cond.(*ssa.BinOp); ok {
					if _, isK := constInt(bo.Y); isK && (bo.Op == token.LSS || bo.Op == token.LEQ || bo.Op == token.GTR || bo.Op == token.GEQ) {
						capped = true
					}
				}
			}
			if !capped {
				bad = c.InstrPos(ms)
			}
		}
	}
	// the two halves of the lookup meet: what is not in the table is looked up in the map — the map
	// lookup sits on the false edge of the table's bounds test and under no further condition
	if dec := c.Lookup("proto.structDecodeFuncOf$1"); dec != nil {
		k2 := "proto:field-lookup-halves-meet"
		var lookups []*ssa.Lookup
		for _, blk := range dec.Blocks {
			for _, in := range blk.Instrs {
				if lk, ok := in.(*ssa.Lookup); ok && isMapType(lk.X.Type()) {
					lookups = append(lookups, lk)
				}
			}
		}
		switch {
		case len(lookups) == 0 && n > 0 && bad == "":
			b.addP([]string{"C07", "C03", "C12"}, core.Undecided, k2, c.FuncPos(dec), "the field table is capped but no map lookup for the other fields was found")
		case len(lookups) > 0:
			gap := ""
			for _, lk := range lookups {
				conds := 0
				var why []string
				onBoundsFalse := false
				for _, e := range dominatingEdges(lk.Block()) {
					bo, ok := e.ifi.Cond.(*ssa.BinOp)
					if !ok {
						continue
					}
					if _, isLen := lenArg(bo.Y); isLen && bo.Op == token.LSS && e.succ == 1 {
						onBoundsFalse = true
						continue
					}
					if _, isLen := lenArg(bo.Y); isLen {
						continue
					}
					if k, isK := constInt(bo.Y); isK && k == 0 && bo.Op == token.GEQ {
						continue // i >= 0
					}
					if isNilConst(bo.Y) || isNilConst(bo.X) {
						continue // error tests
					}
					if !isIntegerType(bo.X.Type()) {
						continue
					}
					// conditions of the enclosing loop and error tests do not involve the field number
					if dependsOn(bo, func(x ssa.Value) bool { return x == lk.Index }) || dependsOn(bo.X, func(x ssa.Value) bool {
						cv, ok := x.(*ssa.Convert)
						return ok && cv.X == lk.Index
					}) {
						conds++
						why = append(why, c.InstrPos(bo))
					}
				}
				_ = why
				if !onBoundsFalse && conds == 0 {
					continue // looked up unconditionally: fine
				}
				if conds > 0 {
					gap = c.InstrPos(lk) + " (further condition at " + strings.Join(why, ", ") + ")"
				}
			}
			if gap != "" {
				b.addP([]string{"C07", "C03", "C12"}, core.Violation, k2, gap, "the map of high-numbered fields is consulted under a further condition on the field number, besides \"not in the table\": the numbers that satisfy neither (the first one beyond the table, for an off-by-one) are in neither half of the lookup, and such a field is skipped as unknown — it silently decodes to its zero value")
			} else {
				b.addP([]string{"C07", "C03", "C12"}, core.Discharged, k2, c.FuncPos(dec), "every number outside the table is looked up in the map")
			}
		}
	}
	switch {
	case n == 0:
		b.addP(props, core.Discharged, key, c.FuncPos(fn), "no table sized by the declared field numbers")
	case bad != "":
		b.addP(props, core.Violation, key, bad, "structDecodeFuncOf allocates a lookup table with one slot per field number up to the largest one the type declares, without a cap: struct{A int `protobuf:\"varint,536870911,opt\"`} makes the first Unmarshal of a 2-byte input allocate 4 GB — memory unrelated to the input length")
	default:
		b.addP(props, core.Discharged, key, c.FuncPos(fn), "the table sized by field numbers is capped by a constant")
	}
}

func isIntegerType(t types.Type) bool {
	bt, ok := t.Underlying().(*types.Basic)
	return ok && bt.Info()&types.IsInteger != 0
}

// S98 — a MessageRewriter is a slice indexed by field number: a template that mentions a field
// numbered near 2^29-1 makes parseRewriteTemplateStruct allocate one slot per number below it,
// and every Rewrite walks a bitmap of that length — "every field number the wire format allows"
// is supported in principle only. The exported type fixes the representation, so this is reported
// as a finding rather than repaired.
func smallRewriterTableBounded(c *core.Ctx, b *ob) {
	props := []string{"C19"}
	key := "rewrite:table-sized-by-field-number"
	fn := c.Lookup("proto.parseRewriteTemplateStruct")
	if fn == nil {
		b.addP(props, core.Undecided, key, "-", "proto.parseRewriteTemplateStruct not found")
		return
	}
	bad := ""
	for _, blk := range fn.Blocks {
		for _, in := range blk.Instrs {
			ms, ok := in.(*ssa.MakeSlice)
			if !ok || !strings.HasSuffix(ms.Type().String(), "proto.MessageRewriter") {
				continue
			}
			byNumber := dependsOn(ms.Len, func(x ssa.Value) bool {
				switch y := x.(type) {
				case *ssa.Field:
					st, _ := y.X.Type().Underlying().(*types.Struct)
					return st != nil && st.Field(y.Field).Name() == "Number"
				case *ssa.UnOp:
					id, ok := fieldOfLoad(y)
					return ok && strings.HasSuffix(id, ".Number")
				}
				return false
			})
			capped := false
			for _, e := range dominatingEdges(blk) {
				if bo, ok := e.ifi.Cond.(*ssa.BinOp); ok {
					if k, isK := constInt(bo.Y); isK && k > 0 && (bo.Op == token.LSS || bo.Op == token.LEQ || bo.Op == token.GTR || bo.Op == token.GEQ) {
						capped = true
					}
				}
			}
			if byNumber && !capped {
				bad = c.InstrPos(ms)
			}
		}
	}
	if bad != "" {
		b.addP(props, core.Violation, key, bad, "parseRewriteTemplateStruct allocates a MessageRewriter with one slot per field number up to the largest one the template mentions: a template for a field numbered 536870911 allocates 8 GiB, and every Rewrite allocates and walks a bitmap of that length")
	} else {
		b.addP(props, core.Discharged, key, c.FuncPos(fn), "the rewriter table is not sized by an uncapped field number")
	}
}

// smallWave22 groups single-site clauses added after the twenty-second round of seeded changes.
func smallWave22(c *core.Ctx, b *ob) {
	// S99 — iso8601.Parse extracts each digit of the fixed layout with a 4-bit mask (the bytes
	// were checked to be digits, '0' was subtracted): a narrower mask maps several digits to the
	// same value before validate() sees the field (month 21 becomes 01).
	{
		props := []string{"C18"}
		key := "iso-parse:digit-masks"
		fn := c.Lookup("iso8601.Parse")
		if fn == nil {
			b.addP(props, core.Undecided, key, "-", "iso8601.Parse not found")
		} else {
			n, bad := 0, ""
			for _, blk := range fn.Blocks {
				for _, in := range blk.Instrs {
					bo, ok := in.(*ssa.BinOp)
					if !ok || bo.Op != token.AND {
						continue
					}
					k, isK := constUint(bo.Y)
					if !isK || k >= 0x100 || bo.X.Type().String() != "uint64" {
						continue
					}
					n++
					if k != 0xF {
						bad = fmt.Sprintf("%s (mask %#x)", c.InstrPos(bo), k)
					}
				}
			}
			switch {
			case n < 8:
				b.addP(props, core.Undecided, key, c.FuncPos(fn), fmt.Sprintf("only %d digit extractions found in iso8601.Parse", n))
			case bad != "":
				b.addP(props, core.Violation, key, bad, "iso8601.Parse extracts a digit of the fixed layout with a mask other than 0xF: digits that differ in the dropped bits are read as the same value before the range of the field is validated — 2021-21-15T12:34:56Z is accepted as January where time.Parse reports month out of range")
			default:
				b.addP(props, core.Discharged, key, c.FuncPos(fn), fmt.Sprintf("%d digit extractions, each with the mask 0xF", n))
			}
		}
	}
	// S100 — MultiRewriter owns its list: callers (parseRewriteTemplateStruct) reuse the slice they
	// pass for the next field.
	{
		props := []string{"C19"}
		key := "multi-rewriter:copies-its-arguments"
		fn := c.Lookup("proto.MultiRewriter")
		if fn == nil {
			b.addP(props, core.Undecided, key, "-", "proto.MultiRewriter not found")
		} else {
			n, bad := 0, ""
			for _, blk := range fn.Blocks {
				for _, in := range blk.Instrs {
					st, ok := in.(*ssa.Store)
					if !ok {
						continue
					}
					fa, ok := st.Addr.(*ssa.FieldAddr)
					if !ok || !strings.HasSuffix(fieldAddrID(fa), "multiRewriter.rewriters") {
						continue
					}
					n++
					for _, o := range origins(st.Val) {
						if _, isMake := o.(*ssa.MakeSlice); !isMake {
							bad = c.InstrPos(st)
						}
					}
				}
			}
			switch {
			case n == 0:
				b.addP(props, core.Undecided, key, c.FuncPos(fn), "MultiRewriter builds no multiRewriter")
			case bad != "":
				b.addP(props, core.Violation, key, bad, "MultiRewriter keeps the slice it was called with instead of a copy: parseRewriteTemplateStruct reuses that slice for the next template member, which overwrites the first rewriter of a repeated field templated with exactly 2, 4, 8 … elements — the element is lost and another field is emitted twice")
			default:
				b.addP(props, core.Discharged, key, c.FuncPos(fn), "the list is copied into a slice of its own")
			}
		}
	}
	// S102 — once Err is set a Tokenizer stays failed until Reset: Next begins by testing it.
	{
		props := []string{"C17"}
		key := "tokenizer:error-is-sticky"
		fn := c.Lookup("json.(*Tokenizer).Next")
		if fn == nil {
			b.addP(props, core.Undecided, key, "-", "json.(*Tokenizer).Next not found")
		} else {
			ok := false
			if ifi, isIf := fn.Blocks[0].Instrs[len(fn.Blocks[0].Instrs)-1].(*ssa.If); isIf {
				if bo, isB := ifi.Cond.(*ssa.BinOp); isB && isNilConst(bo.Y) {
					if id, isF := fieldOfLoad(bo.X); isF && id == "json.Tokenizer.Err" {
						ok = true
					}
				}
			}
			if ok {
				b.addP(props, core.Discharged, key, c.FuncPos(fn), "Next tests Err before anything else")
			} else {
				b.addP(props, core.Violation, key, c.FuncPos(fn), "Tokenizer.Next does not begin with a test of Err: after an error the next call resumes behind the offending byte, returns true and clears Err (\"@1\": false with Err set, then true with the token 1) — the error is no longer sticky until Reset")
			}
		}
	}
	// S103 — json.Append encodes with the flags it was given on every path: a detour through
	// another entry point (a pooled buffer filled by Append or Marshal) with constant flags ignores
	// the caller's.
	{
		props := []string{"C15", "C14"}
		key := "append:flags-honoured-on-every-path"
		fn := c.Lookup("json.Append")
		if fn == nil || len(fn.Params) < 3 {
			b.addP(props, core.Undecided, key, "-", "json.Append not found")
		} else {
			fp := fn.Params[2]
			n, bad := 0, ""
			isFlags := func(v ssa.Value) bool { return strings.HasSuffix(v.Type().String(), "json.AppendFlags") }
			check := func(v ssa.Value, pos string) {
				n++
				for _, o := range origins(v) {
					if o != ssa.Value(fp) {
						bad = pos
					}
				}
			}
			for _, blk := range fn.Blocks {
				for _, in := range blk.Instrs {
					switch x := in.(type) {
					case *ssa.Store:
						if isFlags(x.Val) {
							check(x.Val, c.InstrPos(x))
						}
					case ssa.CallInstruction:
						for _, a := range x.Common().Args {
							if isFlags(a) {
								check(a, c.InstrPos(x))
							}
						}
						if f := staticCallee(x.Common()); f != nil && f.Name() == "Marshal" && f.Pkg == fn.Pkg {
							n++
							bad = c.InstrPos(x)
						}
					}
				}
			}
			switch {
			case n == 0:
				b.addP(props, core.Undecided, key, c.FuncPos(fn), "json.Append does not use its flags")
			case bad != "":
				b.addP(props, core.Violation, key, bad, "json.Append encodes with flags other than the ones it was called with on some path (a full destination served from a pooled buffer filled with EscapeHTML|SortMapKeys): the appended text differs from Append(nil, v, flags) exactly when the destination has no spare capacity")
			default:
				b.addP(props, core.Discharged, key, c.FuncPos(fn), fmt.Sprintf("%d use(s) of flags in json.Append, all the parameter", n))
			}
		}
	}
	// S101 — cachedCodecOf answers a miss with the codec of the type it was asked for: the type
	// variable is re-pointed to the element type while both codecs are built, and a result looked
	// up under the re-pointed variable is the codec of T for a *T (without wantzero: the first call
	// for a type sizes and writes differently from every later one).
	{
		props := []string{"C16", "C03"}
		key := "codec-cache:miss-returns-the-requested-codec"
		fn := c.Lookup("proto.cachedCodecOf")
		if fn == nil {
			b.addP(props, core.Undecided, key, "-", "proto.cachedCodecOf not found")
		} else {
			n, bad := 0, ""
			for _, r := range returnsOf(fn) {
				if len(r.Results) != 1 {
					continue
				}
				n++
				for _, o := range origins(r.Results[0]) {
					lk, ok := o.(*ssa.Lookup)
					if !ok {
						if ex, isEx := o.(*ssa.Extract); isEx {
							lk, ok = ex.Tuple.(*ssa.Lookup)
						}
					}
					if !ok {
						continue
					}
					if dependsOn(lk.Index, func(x ssa.Value) bool {
						call, ok := x.(*ssa.Call)
						return ok && call.Common().IsInvoke() && call.Common().Method.Name() == "Elem"
					}) {
						bad = c.InstrPos(r)
					}
				}
			}
			switch {
			case n == 0:
				b.addP(props, core.Undecided, key, c.FuncPos(fn), "cachedCodecOf has no return")
			case bad != "":
				b.addP(props, core.Violation, key, bad, "cachedCodecOf returns a codec looked up under a key derived from t.Elem(): on a cache miss for *T the caller gets the codec of T, later calls (cache hits) the codec of *T, which adds wantzero — the first Size or MarshalTo of a process for that type disagrees with every later one (Size first: MarshalTo into Size bytes reports a short buffer)")
			default:
				b.addP(props, core.Discharged, key, c.FuncPos(fn), "no result is looked up under the element type")
			}
		}
	}
}

// S104 — the data word of an interface (or of a reflect.Value) is the value itself for
// pointer-shaped types and a pointer to it for the others. json settles which one it is once per
// type, with inlined(), when it compiles the codec (the inline adapters); the functions that run
// per value hand the word on as it is. A per-value function that dereferences the word under a
// test of its own (kind is Ptr or Map) misses the other pointer-shaped types: single-pointer
// structs, one-element arrays, channels and functions with marshalers.
func smallDataWordNotDereferenced(c *core.Ctx, b *ob) {
	props := []string{"C14", "C01", "C06"}
	key := "data-word:dereferenced-only-by-the-inline-adapters"
	n, bad := 0, ""
	for _, fn := range c.RepoFunctions() {
		name := shortName(fn)
		if fn.Blocks == nil || !strings.HasPrefix(name, "json.") {
			continue
		}
		for _, blk := range fn.Blocks {
			for _, in := range blk.Instrs {
				ld, ok := in.(*ssa.UnOp)
				if !ok || ld.Op != token.MUL {
					continue
				}
				id, ok := fieldOfLoad(ld)
				if !ok || id != "json.iface.ptr" {
					continue
				}
				n++
				// is the word itself used as the address of a pointer load?
				for _, ref := range *ld.Referrers() {
					refs := []ssa.Instruction{ref}
					if phi, isPhi := ref.(*ssa.Phi); isPhi {
						refs = append(refs, *phi.Referrers()...)
					}
					for _, r2 := range refs {
						cv, isCv := r2.(*ssa.Convert)
						if !isCv {
							if ct, isCT := r2.(*ssa.ChangeType); isCT {
								for _, r3 := range *ct.Referrers() {
									if l2, isL := r3.(*ssa.UnOp); isL && l2.Op == token.MUL && l2.Type().String() == "unsafe.Pointer" {
										bad = c.InstrPos(l2) + " (" + name + ")"
									}
								}
							}
							continue
						}
						for _, r3 := range *cv.Referrers() {
							if l2, isL := r3.(*ssa.UnOp); isL && l2.Op == token.MUL && l2.Type().String() == "unsafe.Pointer" {
								bad = c.InstrPos(l2) + " (" + name + ")"
							}
						}
					}
				}
			}
		}
	}
	switch {
	case n == 0:
		b.addP(props, core.Undecided, key, "-", "no read of an interface data word found in json")
	case bad != "":
		b.addP(props, core.Violation, key, bad, "a function that runs per value dereferences an interface data word itself (*(*unsafe.Pointer)(word)) instead of leaving the decision to the inline adapters selected by inlined() when the codec was compiled: a test made on the spot (kind is Ptr or Map) misses single-pointer structs and one-element arrays, whose word is the value too — map[string]struct{P *T} encodes the pointer's address as a number on that path, and a wrapped map makes it panic")
	default:
		b.addP(props, core.Discharged, key, "-", fmt.Sprintf("%d read(s) of an interface data word, none dereferenced on the spot", n))
	}
}

// S105 — encoding/json decodes the empty array into a fresh empty slice (MakeSlice(t, 0, 0)): the
// old backing array is dropped, so a later decode into the same variable does not merge into the
// elements of an earlier one. decodeSlice, which truncates and reuses the array for non-empty
// input like the standard library, must let go of it when the array is empty.
func smallEmptyArrayFreshSlice(c *core.Ctx, b *ob) {
	props := []string{"C02", "C10"} // a slice that keeps a capacity over the shared placeholder writes into memory every such slice has
	key := "decode-slice:empty-array-drops-the-backing-array"
	fn := c.Lookup("json.(decoder).decodeSlice")
	if fn == nil {
		b.addP(props, core.Undecided, key, "-", "json.(decoder).decodeSlice not found")
		return
	}
	found := false
	for _, blk := range fn.Blocks {
		closing := false
		for _, e := range dominatingEdges(blk) {
			if bo, ok := e.ifi.Cond.(*ssa.BinOp); ok && bo.Op == token.EQL && e.succ == 0 {
				if k, isK := constInt(bo.Y); isK && k == ']' {
					closing = true
				}
			}
		}
		if !closing {
			continue
		}
		for _, in := range blk.Instrs {
			st, ok := in.(*ssa.Store)
			if !ok {
				continue
			}
			if fa, isFA := st.Addr.(*ssa.FieldAddr); isFA && fieldAddrID(fa) == "json.slice.cap" {
				found = true
			}
			if strings.HasSuffix(st.Val.Type().String(), "json.slice") {
				found = true
			}
		}
	}
	if found {
		b.addP(props, core.Discharged, key, c.FuncPos(fn), "on the closing bracket of an empty array the slice is replaced, capacity included")
	} else {
		b.addP(props, core.Violation, key, c.FuncPos(fn), "decodeSlice keeps the backing array of the destination when the input is the empty array: encoding/json replaces the slice by a fresh empty one, so decoding [] and then [{\"A\":1}] into a []T that held {B: 2} gives {A:1 B:0} there and {A:1 B:2} here — the stale element is merged into")
	}
}

// smallWave23 — clauses added for the twenty-third round of seeded changes.
func smallWave23(c *core.Ctx, b *ob) {
	// (a) the map codecs specialised to map[string]V are selected by identity of the key type with
	// string, not by its kind: a named key type of string kind may implement TextUnmarshaler, which
	// the generic path below the switch honours and decodeMapString* (decodeString on the key) do not
	{
		props := []string{"C02", "C01"}
		key := "map-fast-path:key-type-is-string"
		fn := c.Lookup("json.constructMapCodec")
		if fn == nil {
			b.addP(props, core.Undecided, key, "-", "json.constructMapCodec not found")
		} else {
			n, bad := 0, ""
			for _, blk := range fn.Blocks {
				special := ""
				for _, in := range blk.Instrs {
					for _, op := range in.Operands(nil) {
						if op == nil || *op == nil {
							continue
						}
						var f *ssa.Function
						switch x := (*op).(type) {
						case *ssa.Function:
							f = x
						case *ssa.MakeClosure:
							f, _ = x.Fn.(*ssa.Function)
						}
						if f != nil && (strings.Contains(f.Name(), "decodeMapString") || strings.Contains(f.Name(), "encodeMapString")) {
							special = f.Name()
						}
					}
				}
				if special == "" {
					continue
				}
				n++
				ok, okVal := false, false
				for _, a := range trueAtoms(blk, 0) {
					bo, isB := a.(*ssa.BinOp)
					if !isB || bo.Op != token.EQL {
						continue
					}
					for _, pair := range [][2]ssa.Value{{bo.X, bo.Y}, {bo.Y, bo.X}} {
						g := globalOfLoad(pair[0])
						if g == nil {
							continue
						}
						for _, o := range origins(pair[1]) {
							call, isC := o.(*ssa.Call)
							if !isC || !call.Common().IsInvoke() {
								continue
							}
							if call.Common().Method.Name() == "Key" && g.Name() == "stringType" {
								ok = true
							}
							// the value type too is one particular type: a named type of the same kind
							// may carry MarshalJSON / MarshalText (json.Number is a string kind)
							if call.Common().Method.Name() == "Elem" && strings.HasSuffix(g.Name(), "Type") {
								okVal = true
							}
						}
					}
				}
				if !ok || !okVal {
					bad = fmt.Sprintf("%s: %s", c.InstrPos(blk.Instrs[0]), special)
				}
			}
			switch {
			case n == 0:
				b.addP(props, core.Undecided, key, c.FuncPos(fn), "no map[string]V specialisation found in constructMapCodec")
			case bad != "":
				b.addP(props, core.Violation, key, bad, "a codec specialised to map[string]V is selected without the key type being string itself and the value type being the one type the codec is written for ("+bad+"): a named type of string kind that implements encoding.TextUnmarshaler / TextMarshaler / json.Marshaler (json.Number among them) takes the fast path, which reads and writes it as a plain string — encoding/json calls the methods, so keys land elsewhere and values are written differently ({\"n\":\"7\"} for a Number)")
			default:
				b.addP(props, core.Discharged, key, c.FuncPos(fn), fmt.Sprintf("%d specialised map codecs, each under t.Key() == stringType and t.Elem() == <one type>", n))
			}
		}
	}
	// (c) white space in a JSON document is the four characters of RFC 8259, which json's own
	// skipSpaces implements (R-BYTECLASS decides its set): no function of package json classifies or
	// trims document bytes with the standard library's Unicode notion of space (bytes.TrimSpace also
	// removes \v, \f, U+0085, U+00A0 and the Z category)
	{
		props := []string{"C05", "C02"}
		key := "json-white-space:own-scanner-only"
		unicodeSpace := map[string]bool{"bytes.TrimSpace": true, "strings.TrimSpace": true, "unicode.IsSpace": true, "bytes.Fields": true, "strings.Fields": true, "bufio.ScanWords": true}
		n, bad := 0, ""
		for _, fn := range c.RepoFunctions() {
			if fn.Blocks == nil || !strings.HasPrefix(shortName(fn), "json.") {
				continue
			}
			n++
			for _, blk := range fn.Blocks {
				for _, in := range blk.Instrs {
					for _, op := range in.Operands(nil) {
						if op == nil || *op == nil {
							continue
						}
						f, isF := (*op).(*ssa.Function)
						if !isF || f.Pkg == nil {
							continue
						}
						if name := f.Pkg.Pkg.Path() + "." + f.Name(); unicodeSpace[name] {
							bad = fmt.Sprintf("%s: %s uses %s", c.InstrPos(in), shortName(fn), name)
						}
					}
				}
			}
		}
		switch {
		case n == 0:
			b.addP(props, core.Undecided, key, "-", "no function of package json found")
		case bad != "":
			b.addP(props, core.Violation, key, bad, bad+": the standard library's notion of white space is Unicode's (\\v, \\f, U+0085, U+00A0, U+2028 … besides the four JSON characters), so bytes that encoding/json rejects around or inside a document are skipped here — Valid(\"\\f1\") is true")
		default:
			b.addP(props, core.Discharged, key, "-", fmt.Sprintf("%d functions of package json: none refers to bytes.TrimSpace, strings.TrimSpace, unicode.IsSpace, Fields or ScanWords", n))
		}
	}
	// (d) what a decoder allocates is sized by the length of what it was given, never by the
	// capacity: the decoders hand Unmarshal methods and element decoders windows of the input, whose
	// capacity runs to the end of the caller's buffer — n three-byte messages in one input would
	// allocate n times the input
	for _, pk := range []struct {
		pkg   string
		props []string
	}{{"proto", []string{"C07"}}, {"thrift", []string{"C08"}}} {
		key := "alloc-by-capacity:" + pk.pkg
		n, bad := 0, ""
		for _, fn := range c.RepoFunctions() {
			if fn.Blocks == nil || !strings.HasPrefix(shortName(fn), pk.pkg+".") {
				continue
			}
			for _, blk := range fn.Blocks {
				for _, in := range blk.Instrs {
					mk, ok := in.(*ssa.MakeSlice)
					if !ok {
						continue
					}
					n++
					for _, sz := range []ssa.Value{mk.Len, mk.Cap} {
						if dependsOn(sz, func(x ssa.Value) bool {
							call, isC := x.(*ssa.Call)
							if !isC {
								return false
							}
							bi, isB := call.Common().Value.(*ssa.Builtin)
							if !isB || bi.Name() != "cap" {
								return false
							}
							for _, o := range origins(call.Common().Args[0]) {
								if _, isP := o.(*ssa.Parameter); isP {
									return true
								}
							}
							return false
						}) {
							bad = fmt.Sprintf("%s: %s", c.InstrPos(mk), shortName(fn))
						}
					}
				}
			}
		}
		switch {
		case n == 0:
			b.addP(pk.props, core.Info, key, "-", "no slice allocation in package "+pk.pkg)
		case bad != "":
			b.addP(pk.props, core.Violation, key, bad, bad+" sizes an allocation by the capacity of a slice it was handed: the decoders pass windows of the input, whose capacity extends to the end of the caller's buffer, so every small value allocates as much as the rest of the input (4000 three-byte messages: 27 MB for 12 KB)")
		default:
			b.addP(pk.props, core.Discharged, key, "-", fmt.Sprintf("%d slice allocations: none is sized by cap() of a parameter", n))
		}
	}
	// (e) thrift's decode errors are wrapped with the path to the failing element; the wrapper
	// exposes what it wraps through Unwrap, so that errors.As finds the *MissingField / *TypeMismatch
	// below it and errors.Is the io errors — an Is method alone answers errors.Is and hides the
	// typed error from errors.As
	{
		props := []string{"C08"}
		key := "decode-error:unwraps-its-base"
		fn := c.Lookup("thrift.(*decodeError).Unwrap")
		if fn == nil || fn.Blocks == nil {
			if c.Lookup("thrift.(*decodeError).Error") == nil {
				b.addP(props, core.Undecided, key, "-", "thrift.decodeError not found")
			} else {
				b.addP(props, core.Violation, key, c.FuncPos(c.Lookup("thrift.(*decodeError).Error")), "thrift.decodeError has no Unwrap method: a *MissingField or *TypeMismatch reported for a nested value (a field, a list element) is wrapped in it with the path, and errors.As no longer reaches the typed error — only top-level failures are reported in the documented form")
			}
		} else {
			ok := false
			for _, r := range returnsOf(fn) {
				if len(r.Results) == 1 {
					if f, isF := fieldOfLoad(r.Results[0]); isF && strings.HasSuffix(f, "decodeError.base") {
						ok = true
					}
				}
			}
			if ok {
				b.addP(props, core.Discharged, key, c.FuncPos(fn), "(*decodeError).Unwrap returns the wrapped error")
			} else {
				b.addP(props, core.Violation, key, c.FuncPos(fn), "(*decodeError).Unwrap does not return the wrapped error e.base: errors.As / errors.Is stop at the wrapper, and the *MissingField / *TypeMismatch / io.ErrUnexpectedEOF of a nested value is not reported as such")
			}
		}
	}
	// (f) Unescape and RawValue.Unquote/AppendUnquote hand out memory of their own: the scanners
	// (parseString*, parseStringUnquote) return windows of the input when the text has no escape
	// sequence, and a window returned to the caller has the rest of the input as spare capacity —
	// appending to the result rewrites the input
	for _, spec := range []struct{ fn, key string }{
		{"json.Unescape", "unescape:result-is-a-copy"},
		{"json.(RawValue).AppendUnquote", "unquote:result-is-a-copy"},
		{"json.(RawValue).Unquote", "unquote:result-is-a-copy:Unquote"},
	} {
		props := []string{"C10"}
		key := spec.key
		fn := c.Lookup(spec.fn)
		if fn == nil || len(fn.Params) == 0 {
			b.addP(props, core.Undecided, key, "-", spec.fn+" not found")
			continue
		}
		input := fn.Params[0] // the text: Unescape's argument, the RawValue receiver
		bad := ""
		var windowOf func(v ssa.Value, depth int) string
		windowOf = func(v ssa.Value, depth int) string {
			if depth > 4 {
				return ""
			}
			for _, o := range origins(v) {
				switch x := o.(type) {
				case *ssa.Parameter:
					if x == input {
						return "its input " + x.Name()
					}
				case *ssa.Slice:
					if w := windowOf(x.X, depth+1); w != "" {
						return "a window of " + w
					}
				case *ssa.Extract:
					if call, isC := x.Tuple.(*ssa.Call); isC {
						if f := staticCallee(call.Common()); f != nil && strings.HasPrefix(f.Name(), "parse") && isSliceType(x.Type()) {
							return "a result of " + f.Name()
						}
					}
				}
			}
			return ""
		}
		for _, r := range returnsOf(fn) {
			for _, res := range r.Results {
				if w := windowOf(res, 0); w != "" {
					bad = c.InstrPos(r) + ": " + w
				}
			}
		}
		if bad != "" {
			b.addP(props, core.Violation, key, bad, spec.fn+" returns "+bad+": for a string without escape sequences the scanners return the bytes of the input between the quotes, so the result shares memory with the text it was given (and has the rest of it as capacity) without any zero-copy flag having been given")
		} else {
			b.addP(props, core.Discharged, key, c.FuncPos(fn), "no return value is the input, a window of it or a scanner's result")
		}
	}
	// (g) the path recorded in an UnmarshalTypeError is made of strings of its own: the error is a
	// result like any other, and an unsafe view of the key bytes (the input, or the Decoder's read
	// buffer) changes under the caller when the buffer is reused — prependField returns its first
	// argument unchanged for a top-level field
	{
		props := []string{"C10"}
		key := "type-error-path:owned-strings"
		n, bad := 0, ""
		for _, fn := range c.RepoFunctions() {
			recv := fn.Signature.Recv()
			if recv == nil || fn.Blocks == nil || namedKey(recv.Type()) != "json.decoder" {
				continue
			}
			for _, ci := range callsIn(fn) {
				f := staticCallee(ci.Common())
				if f == nil || f.Name() != "prependField" {
					continue
				}
				n++
				for _, a := range ci.Common().Args[1:] {
					if !isStringType(a.Type()) {
						continue
					}
					for _, o := range origins(a) {
						if ld, ok := o.(*ssa.UnOp); ok && ld.Op == token.MUL {
							if cv, isC := ld.X.(*ssa.Convert); isC {
								if _, fromPtr := cv.X.Type().Underlying().(*types.Basic); fromPtr {
									bad = c.InstrPos(ci) + " in " + shortName(fn)
								}
							}
						}
					}
				}
			}
		}
		switch {
		case n == 0:
			b.addP(props, core.Info, key, "-", "no call of prependField")
		case bad != "":
			b.addP(props, core.Violation, key, bad, "the key handed to prependField at "+bad+" is an unsafe string view of the key's bytes: for a field of the outermost struct prependField returns it as it is, so UnmarshalTypeError.Field points into the input (or the Decoder's read buffer) and changes when that memory is reused")
		default:
			b.addP(props, core.Discharged, key, "-", fmt.Sprintf("%d calls of prependField: no argument is an unsafe view of a byte slice", n))
		}
	}
	// (h) the thrift writers build fixed-width values in a scratch array that lives in the writer:
	// every byte of the window handed to write() is stored by the same call, before it — a byte left
	// as it was carries whatever the previous value wrote there into the output
	{
		props := []string{"C13", "C04"}
		n, bad := 0, ""
		isScratch := func(v ssa.Value) bool {
			fa, ok := v.(*ssa.FieldAddr)
			if !ok {
				return false
			}
			_, isArr := fa.Type().Underlying().(*types.Pointer).Elem().Underlying().(*types.Array)
			return isArr && strings.HasPrefix(fieldAddrID(fa), "thrift.") && strings.HasSuffix(fieldAddrID(fa), "Writer.b")
		}
		for _, fn := range c.RepoFunctions() {
			if fn.Blocks == nil || !strings.HasPrefix(shortName(fn), "thrift.") {
				continue
			}
			for _, ci := range callsIn(fn) {
				call, isCall := ci.(*ssa.Call)
				if !isCall {
					continue
				}
				var win *ssa.Slice
				for _, a := range call.Common().Args {
					if sl, ok := a.(*ssa.Slice); ok && isScratch(sl.X) && sl.High != nil {
						win = sl
					}
				}
				if win == nil {
					continue
				}
				if f := staticCallee(call.Common()); f != nil && f.Pkg != nil && f.Pkg.Pkg.Path() == "encoding/binary" {
					continue // a Put into the window, not an emission
				}
				hi, okH := constInt(win.High)
				lo := int64(0)
				if win.Low != nil {
					l, okL := constInt(win.Low)
					if !okL {
						continue
					}
					lo = l
				}
				if !okH {
					continue // a computed length (varint): the bytes below it are stored by the loop that counts them
				}
				n++
				covered := map[int64]bool{}
				for _, blk := range fn.Blocks {
					for _, in := range blk.Instrs {
						ins, _ := in.(ssa.Instruction)
						if !instrDominates(ins, call) {
							continue
						}
						switch x := in.(type) {
						case *ssa.Store:
							if ia, ok := x.Addr.(*ssa.IndexAddr); ok && isScratch(ia.X) {
								if k, isK := constInt(ia.Index); isK {
									covered[k] = true
								}
							}
						case *ssa.Call:
							f := staticCallee(x.Common())
							if f == nil || f.Pkg == nil || f.Pkg.Pkg.Path() != "encoding/binary" || !strings.HasPrefix(f.Name(), "PutUint") {
								continue
							}
							width := map[string]int64{"PutUint16": 2, "PutUint32": 4, "PutUint64": 8}[f.Name()]
							for _, a := range x.Common().Args {
								sl, ok := a.(*ssa.Slice)
								if !ok || !isScratch(sl.X) {
									continue
								}
								off := int64(0)
								if sl.Low != nil {
									l, okL := constInt(sl.Low)
									if !okL {
										continue
									}
									off = l
								}
								for i := int64(0); i < width; i++ {
									covered[off+i] = true
								}
							}
						}
					}
				}
				for i := lo; i < hi; i++ {
					if !covered[i] {
						bad = fmt.Sprintf("%s: %s emits b[%d:%d] without having stored b[%d]", c.InstrPos(call), shortName(fn), lo, hi, i)
					}
				}
			}
		}
		key := "thrift-scratch:window-fully-written"
		switch {
		case n == 0:
			b.addP(props, core.Undecided, key, "-", "no emission of a constant window of a writer's scratch array found")
		case bad != "":
			b.addP(props, core.Violation, key, bad, bad+": the scratch array belongs to the writer and keeps the bytes of the previous fixed-width value, so the output depends on what was written before (a strict message header after an i64 is 80 f8 00 01 instead of 80 00 00 01)")
		default:
			b.addP(props, core.Discharged, key, "-", fmt.Sprintf("%d emissions of a constant window of the scratch array, every byte stored earlier in the same call", n))
		}
	}
	// (i) the compact protocol writes lengths, counts and ids as varints: an integer wider than a
	// byte handed to writeByte as it is (a "fits in one byte" fast path) is a valid varint only
	// below 0x80 — 0x80 itself is a lone continuation byte
	{
		props := []string{"C13", "C04"}
		n, bad := 0, ""
		for _, fn := range c.RepoFunctions() {
			name := shortName(fn)
			if fn.Blocks == nil || !strings.HasPrefix(name, "thrift.(*compactWriter).") || strings.Contains(name, "arint") {
				continue
			}
			for _, ci := range callsIn(fn) {
				f := staticCallee(ci.Common())
				if f == nil || f.Name() != "writeByte" {
					continue
				}
				for _, a := range ci.Common().Args {
					cv, ok := a.(*ssa.Convert)
					if !ok {
						continue
					}
					if bt, ok := cv.Type().Underlying().(*types.Basic); !ok || bt.Kind() != types.Uint8 {
						continue
					}
					src, ok := cv.X.Type().Underlying().(*types.Basic)
					if !ok || src.Info()&types.IsInteger == 0 || src.Kind() == types.Uint8 || src.Kind() == types.Int8 {
						continue
					}
					if _, isK := cv.X.(*ssa.Const); isK {
						continue
					}
					if bo, isBO := cv.X.(*ssa.BinOp); isBO && bo.Op == token.SHL {
						continue // a nibble of a header byte (R-THRIFTLAYOUT decides those)
					}
					n++
					_, hi := rangeFacts(cv.X, ci.Block())
					if hi == nil || hi.Int64() > 127 {
						have := "unbounded"
						if hi != nil {
							have = "<= " + hi.String()
						}
						bad = fmt.Sprintf("%s: %s writes an integer (%s) as one raw byte", c.InstrPos(ci), name, have)
					}
				}
			}
		}
		key := "compact-raw-varint-byte"
		switch {
		case bad != "":
			b.addP(props, core.Violation, key, bad, bad+": only values below 0x80 are one-byte varints; a length of exactly 128 written as the byte 80 is a continuation byte without an end, and the reader fails or mis-parses what follows")
		default:
			b.addP(props, core.Discharged, key, "-", fmt.Sprintf("%d integer(s) wider than a byte written with writeByte outside the varint encoder, each proven < 0x80", n))
		}
	}
	// (b) decodeTime parses the raw bytes between the quotes (a window of the input): Time.UnmarshalJSON
	// does not interpret escape sequences, "2006-01-02T15:04:05\u005a" is an error in encoding/json
	{
		props := []string{"C02"}
		key := "decode-time:raw-bytes"
		fn := c.Lookup("json.(decoder).decodeTime")
		if fn == nil {
			b.addP(props, core.Undecided, key, "-", "json.(decoder).decodeTime not found")
		} else {
			var in ssa.Value
			for _, p := range fn.Params {
				if p.Name() == "b" {
					in = p
				}
			}
			n, bad := 0, ""
			for _, ci := range callsIn(fn) {
				f := staticCallee(ci.Common())
				if f == nil || f.Pkg == nil || f.Pkg.Pkg.Name() != "iso8601" || !strings.HasPrefix(f.Name(), "Parse") {
					continue
				}
				n++
				for _, o := range origins(ci.Common().Args[0]) {
					v := o
					if ld, ok := v.(*ssa.UnOp); ok && ld.Op == token.MUL {
						if cell := cellOf(stripConv(ld.X)); cell != nil {
							for _, sv := range cellStores(cell) {
								for _, o2 := range origins(sv) {
									sl, isS := o2.(*ssa.Slice)
									if !isS || in == nil || stripConv(sl.X) != in {
										bad = c.InstrPos(ci) + ": " + o2.String()
									}
								}
							}
							continue
						}
					}
					if sl, isS := v.(*ssa.Slice); isS && in != nil && stripConv(sl.X) == in {
						continue
					}
					bad = c.InstrPos(ci) + ": " + v.String()
				}
			}
			switch {
			case n == 0:
				b.addP(props, core.Undecided, key, c.FuncPos(fn), "decodeTime does not call iso8601.Parse")
			case bad != "":
				b.addP(props, core.Violation, key, bad, "decodeTime parses something other than the bytes of the input between the quotes ("+bad+"): encoding/json hands the raw text to Time.UnmarshalJSON, which does not interpret escape sequences, so a time written with \\u005a for Z is an error there and would be accepted here")
			default:
				b.addP(props, core.Discharged, key, c.FuncPos(fn), "the text parsed is a window b[i:j] of the input")
			}
		}
	}
}

// smallWave25 — clauses added for the twenty-fifth and twenty-sixth rounds of seeded changes.
func smallWave25(c *core.Ctx, b *ob) {
	// (b) a template value is JSON: what a rewriter writes into the field is the decoded value,
	// never the text of the template — a string literal stripped of its quotes still holds its escape
	// sequences (\\n, \\u00e9, and \\u003c for every < that json.Marshal re-escaped on the way)
	{
		props := []string{"C19"}
		key := "rewrite-template:values-are-decoded"
		n, bad := 0, ""
		for _, fn := range c.RepoFunctions() {
			if fn.Blocks == nil || !strings.HasPrefix(shortName(fn), "proto.parseRewriteTemplate") {
				continue
			}
			var jp *ssa.Parameter
			for _, p := range fn.Params {
				if strings.HasSuffix(p.Type().String(), "json.RawMessage") {
					jp = p
				}
			}
			if jp == nil {
				continue
			}
			n++
			for _, ci := range callsIn(fn) {
				cc := ci.Common()
				name := calleeName(cc)
				if strings.Contains(name, "json.") || strings.Contains(name, "parseRewriteTemplate") || strings.Contains(name, "bytes.") {
					continue // decoding, delegation to the parser of a component, comparisons
				}
				if _, isB := cc.Value.(*ssa.Builtin); isB {
					continue
				}
				// the field builders: methods of FieldNumber and the Append* functions
				g := staticCallee(cc)
				if g == nil {
					continue
				}
				isBuilder := strings.HasPrefix(g.Name(), "Append")
				if recv := g.Signature.Recv(); recv != nil && strings.HasSuffix(recv.Type().String(), "proto.FieldNumber") {
					isBuilder = true
				}
				if !isBuilder {
					continue
				}
				for _, a := range cc.Args {
					if !(isSliceType(a.Type()) || isStringType(a.Type())) {
						continue
					}
					if dependsOn(a, func(x ssa.Value) bool {
						sl, ok := x.(*ssa.Slice)
						return ok && stripConv(sl.X) == ssa.Value(jp)
					}) || stripConv(a) == ssa.Value(jp) {
						bad = fmt.Sprintf("%s: %s hands %s the text of the template", c.InstrPos(ci), shortName(fn), calleeLabel(cc))
					}
				}
			}
		}
		switch {
		case n == 0:
			b.addP(props, core.Undecided, key, "-", "no parseRewriteTemplate* function with a json.RawMessage parameter found")
		case bad != "":
			b.addP(props, core.Violation, key, bad, bad+" instead of the value decoded from it: a string template containing an escape sequence (or a map key containing <, > or &, which json.Marshal re-escapes) is written into the field with its backslashes")
		default:
			b.addP(props, core.Discharged, key, "-", fmt.Sprintf("%d template parsers: none passes (a window of) the raw template to a field builder", n))
		}
	}
	// (c) a thrift decoder that steps through a pointer it was handed tests it for nil first: what
	// the struct decoder allocated for a pointer member is reset to nil again when the enclosing
	// struct is a union (v.Set(dec.zero) runs between the allocation and the member's decoder), and
	// elements of lists and map values arrive as fresh nil pointers
	{
		props := []string{"C04", "C08"}
		key := "thrift-decode:elem-of-parameter-is-nil-checked"
		n, bad := 0, ""
		for _, fn := range c.RepoFunctions() {
			name := shortName(fn)
			if fn.Blocks == nil || !strings.HasPrefix(name, "thrift.") || !strings.Contains(strings.ToLower(name), "decode") {
				continue
			}
			for _, ci := range callsIn(fn) {
				g := staticCallee(ci.Common())
				if g == nil || g.Name() != "Elem" || g.Pkg == nil || g.Pkg.Pkg.Path() != "reflect" || len(ci.Common().Args) != 1 {
					continue
				}
				recv := ci.Common().Args[0]
				if !strings.HasSuffix(recv.Type().String(), "reflect.Value") {
					continue
				}
				src := recv
				if ld, ok := src.(*ssa.UnOp); ok && ld.Op == token.MUL {
					if cell := cellOf(ld.X); cell != nil {
						st := cellStores(cell)
						if len(st) == 1 {
							src = st[0]
						}
					}
				}
				if _, isP := src.(*ssa.Parameter); !isP {
					continue
				}
				n++
				checked := false
				for _, ci2 := range callsIn(fn) {
					g2 := staticCallee(ci2.Common())
					if g2 == nil || g2.Name() != "IsNil" || len(ci2.Common().Args) != 1 {
						continue
					}
					r2 := ci2.Common().Args[0]
					same := r2 == recv
					if ld, ok := r2.(*ssa.UnOp); ok && ld.Op == token.MUL {
						if cell := cellOf(ld.X); cell != nil {
							if st := cellStores(cell); len(st) == 1 && st[0] == src {
								same = true
							}
						}
					}
					if same && instrDominates(ci2.(ssa.Instruction), ci.(ssa.Instruction)) {
						checked = true
					}
				}
				if !checked {
					bad = c.InstrPos(ci) + " (" + name + ")"
				}
			}
		}
		switch {
		case n == 0:
			b.addP(props, core.Undecided, key, "-", "no thrift decoder dereferences its reflect.Value parameter")
		case bad != "":
			b.addP(props, core.Violation, key, bad, "a thrift decoder calls Elem() on the pointer it was handed at "+bad+" without testing IsNil first: the pointer is nil when the member belongs to a union (the struct decoder resets the union after allocating the member), and the zero reflect.Value that Elem returns makes the member's decoder panic")
		default:
			b.addP(props, core.Discharged, key, "-", fmt.Sprintf("%d Elem() call(s) on a decoder's own parameter, each after IsNil on the same value", n))
		}
	}
	// (d) which tag names are honoured is encoding/json's decision: json.isValidTag is compared
	// with encoding/json.isValidTag in GOROOT — the same set of runes in its membership strings, the
	// same unicode predicates, the same rune constants in comparisons. A name the two classify
	// differently (it's, prix€) is used as the key here and replaced by the Go field name there.
	{
		props := []string{"C01", "C02"}
		key := "tag-name-charset:agrees-with-encoding/json"
		sig := func(fn *ssa.Function) (string, bool) {
			if fn == nil || fn.Blocks == nil {
				return "", false
			}
			runes := map[rune]bool{}
			preds := map[string]bool{}
			cmps := map[int64]bool{}
			for _, blk := range fn.Blocks {
				for _, in := range blk.Instrs {
					switch x := in.(type) {
					case ssa.CallInstruction:
						name := calleeName(x.Common())
						if strings.HasPrefix(name, "unicode.") {
							preds[name] = true
						}
						if strings.HasPrefix(name, "strings.") || strings.HasPrefix(name, "bytes.") {
							preds[name] = true
							for _, a := range x.Common().Args {
								if k, ok := a.(*ssa.Const); ok && k.Value != nil && k.Value.Kind() == constant.String {
									for _, r := range constant.StringVal(k.Value) {
										runes[r] = true
									}
								}
							}
						}
					case *ssa.BinOp:
						if x.Op == token.EQL || x.Op == token.NEQ || x.Op == token.LSS || x.Op == token.GTR || x.Op == token.LEQ || x.Op == token.GEQ {
							if bt, ok := x.X.Type().Underlying().(*types.Basic); ok && bt.Kind() == types.Int32 {
								if k, ok := constInt(x.Y); ok {
									cmps[k] = true
								}
							}
						}
					}
				}
			}
			var rs []string
			for r := range runes {
				rs = append(rs, string(r))
			}
			sort.Strings(rs)
			var ps []string
			for p := range preds {
				ps = append(ps, p)
			}
			sort.Strings(ps)
			var ks []string
			for k := range cmps {
				ks = append(ks, fmt.Sprint(k))
			}
			sort.Strings(ks)
			return fmt.Sprintf("runes=%q predicates=%v compared=%v", strings.Join(rs, ""), ps, ks), true
		}
		mine := c.Lookup("json.isValidTag")
		var std *ssa.Function
		if p := c.Dep("encoding/json"); p != nil {
			if obj, _ := p.Types.Scope().Lookup("isValidTag").(*types.Func); obj != nil {
				std = c.FuncOf(obj)
			}
		}
		ms, ok1 := sig(mine)
		ss, ok2 := sig(std)
		switch {
		case !ok1 || !ok2:
			b.addP(props, core.Undecided, key, "-", "json.isValidTag or encoding/json.isValidTag (GOROOT) not found")
		case ms != ss:
			b.addP(props, core.Violation, key, c.FuncPos(mine), "json.isValidTag classifies runes with "+ms+" where encoding/json.isValidTag uses "+ss+": a tag name the two judge differently (an apostrophe, a currency sign, a dash) is the key in one output and the Go field name in the other")
		default:
			b.addP(props, core.Discharged, key, c.FuncPos(mine), "same membership runes, unicode predicates and compared constants as encoding/json.isValidTag: "+ms)
		}
	}
	// (e) the integer decoders have a null arm (the literal null leaves the value alone), which is
	// right for a value and for a `,string` field — encoding/json accepts "null" there — but not for
	// the key of a map: encoding/json parses an integer key's text with strconv, so {"null":1} into
	// map[int]int is an error. The decoder installed for integer-kind keys is therefore not the bare
	// `,string` codec: it is wrapped in a key decoder that refuses a text starting with n.
	{
		props := []string{"C02"}
		key := "map-integer-key:null-text-rejected"
		fn := c.Lookup("json.constructMapCodec")
		if fn == nil {
			b.addP(props, core.Undecided, key, "-", "json.constructMapCodec not found")
		} else {
			arms, bad := 0, ""
			for _, blk := range fn.Blocks {
				var sc *ssa.Call
				for _, in := range blk.Instrs {
					if call, ok := in.(*ssa.Call); ok {
						if g := staticCallee(call.Common()); g != nil && g.Name() == "constructStringCodec" {
							sc = call
						}
					}
				}
				if sc == nil {
					continue
				}
				arms++
				guarded := false
				for _, in := range blk.Instrs {
					st, ok := in.(*ssa.Store)
					if !ok {
						continue
					}
					fa, ok := st.Addr.(*ssa.FieldAddr)
					if !ok || fieldNameOf(fa) != "decode" {
						continue
					}
					call, ok := st.Val.(*ssa.Call)
					if !ok {
						continue
					}
					g := staticCallee(call.Common())
					if g == nil || g.Blocks == nil {
						continue
					}
					for _, anon := range append([]*ssa.Function{g}, g.AnonFuncs...) {
						for _, b2 := range anon.Blocks {
							for _, in2 := range b2.Instrs {
								bo, ok := in2.(*ssa.BinOp)
								if !ok || (bo.Op != token.EQL && bo.Op != token.NEQ) {
									continue
								}
								if k, isK := constInt(bo.Y); isK && k == 'n' {
									guarded = true
								}
							}
						}
					}
				}
				if !guarded {
					bad = c.InstrPos(sc)
				}
			}
			switch {
			case arms == 0:
				b.addP(props, core.Undecided, key, c.FuncPos(fn), "constructMapCodec does not build integer key codecs with constructStringCodec")
			case bad != "":
				b.addP(props, core.Violation, key, bad, "the decoder of integer-kind map keys is the bare `,string` codec: its integer decoder treats the text null as the null literal and leaves the key at zero, so {\"null\":1} decodes into map[int]int as {0:1} where encoding/json (strconv on the key text) fails")
			default:
				b.addP(props, core.Discharged, key, c.FuncPos(fn), fmt.Sprintf("%d integer key arms, each wraps the `,string` decoder in a key decoder that tests for a leading n", arms))
			}
		}
	}
	// (f) the text a TextMarshaler returns is arbitrary: it reaches the output only through
	// encodeString — a "printable ASCII without a backslash" shortcut that copies it between quotes
	// forgets that the quote itself is printable
	{
		props := []string{"C14", "C01"}
		key := "text-marshaler:text-is-escaped"
		n, bad := 0, ""
		for _, fn := range c.RepoFunctions() {
			if fn.Blocks == nil || !strings.HasPrefix(shortName(fn), "json.") {
				continue
			}
			var texts []ssa.Value
			for _, ci := range callsIn(fn) {
				cc := ci.Common()
				if cc.IsInvoke() && cc.Method.Name() == "MarshalText" {
					if v, ok := ci.(*ssa.Call); ok {
						texts = append(texts, v)
					}
				}
			}
			if len(texts) == 0 {
				continue
			}
			// only the encoder side writes the text out (the sort-key helper converts it)
			if recv := fn.Signature.Recv(); recv == nil || namedKey(recv.Type()) != "json.encoder" {
				continue
			}
			n++
			for _, ci := range callsIn(fn) {
				bi, isB := ci.Common().Value.(*ssa.Builtin)
				if !isB || bi.Name() != "append" || len(ci.Common().Args) != 2 {
					continue
				}
				for _, o := range origins(ci.Common().Args[1]) {
					if ex, ok := o.(*ssa.Extract); ok {
						for _, t := range texts {
							if ex.Tuple == t && ex.Index == 0 {
								bad = c.InstrPos(ci) + " (" + shortName(fn) + ")"
							}
						}
					}
				}
			}
		}
		switch {
		case n == 0:
			b.addP(props, core.Undecided, key, "-", "no encoder method calls MarshalText")
		case bad != "":
			b.addP(props, core.Violation, key, bad, "the bytes returned by MarshalText are appended to the output as they are at "+bad+": whatever test selects that path, a text containing a quote (printable ASCII, no backslash) produces invalid JSON, and only under the flag settings that take the shortcut")
		default:
			b.addP(props, core.Discharged, key, "-", fmt.Sprintf("%d encoder method(s) call MarshalText; the text is never the spread argument of append", n))
		}
	}
	// (g) thrift decides in three places whether a Go map is a thrift set (the type reported in
	// field and list headers, the encoder, the decoder): all three use the same test — the map's
	// element type has size zero. A header that says MAP in front of a body written as a set (or the
	// reverse) is not the specification's encoding and cannot be skipped by a reader that does not
	// know the field.
	{
		props := []string{"C13", "C04"}
		key := "thrift-set-detection:siblings-agree"
		var have, lack []string
		for _, name := range []string{"thrift.TypeOf", "thrift.encodeFuncMapOf", "thrift.decodeFuncMapOf"} {
			fn := c.Lookup(name)
			if fn == nil {
				lack = append(lack, name+" (not found)")
				continue
			}
			found := false
			for _, blk := range fn.Blocks {
				for _, in := range blk.Instrs {
					bo, ok := in.(*ssa.BinOp)
					if !ok || (bo.Op != token.EQL && bo.Op != token.NEQ) {
						continue
					}
					if k, isK := constInt(bo.Y); !isK || k != 0 {
						continue
					}
					if call, isC := bo.X.(*ssa.Call); isC && call.Common().IsInvoke() && call.Common().Method.Name() == "Size" {
						found = true
					}
				}
			}
			if found {
				have = append(have, name)
			} else {
				lack = append(lack, name)
			}
		}
		switch {
		case len(have) == 0:
			b.addP(props, core.Undecided, key, "-", "no thrift function tests the size of a map's element type")
		case len(lack) > 0:
			b.addP(props, core.Violation, key, strings.Join(lack, ", "), fmt.Sprintf("%v decide that a map is a set by testing that its element type has size zero, %v does not: for a map whose element is a named empty struct (or a zero-length array) the type announced in field, list and map headers and the body that follows disagree — a set body behind a MAP header", have, lack))
		default:
			b.addP(props, core.Discharged, key, "-", fmt.Sprintf("%v all test Elem().Size() == 0", have))
		}
	}
	// (h) skipValues consumes a map entry by entry: the loop over the entry's types is inside the
	// loop over the count. Interchanged, it reads all keys and then all values, which is the same
	// byte sequence only when keys and values have the same fixed width.
	{
		props := []string{"C13", "C08", "C04"}
		key := "skip-values:entry-by-entry"
		fn := c.Lookup("thrift.skipValues")
		if fn == nil {
			b.addP(props, core.Undecided, key, "-", "thrift.skipValues not found")
		} else {
			var np ssa.Value
			for _, p := range fn.Params {
				if bt, ok := p.Type().Underlying().(*types.Basic); ok && bt.Info()&types.IsInteger != 0 {
					np = p
				}
			}
			var skipBlk *ssa.BasicBlock
			for _, ci := range callsIn(fn) {
				if g := staticCallee(ci.Common()); g != nil && g.Name() == "skip" {
					skipBlk = ci.Block()
				}
			}
			countLoop, typeLoop := -1, -1
			if skipBlk != nil && np != nil {
				for _, h := range loopHeaders(fn) {
					body := loopBlocks(h)
					if !body[skipBlk] || len(h.Instrs) == 0 {
						continue
					}
					ifi, ok := h.Instrs[len(h.Instrs)-1].(*ssa.If)
					if !ok {
						continue
					}
					bo, ok := ifi.Cond.(*ssa.BinOp)
					if !ok {
						continue
					}
					if stripConv(bo.Y) == np || stripConv(bo.X) == np {
						countLoop = len(body)
					} else {
						typeLoop = len(body)
					}
				}
			}
			switch {
			case skipBlk == nil || countLoop < 0 || typeLoop < 0:
				b.addP(props, core.Undecided, key, c.FuncPos(fn), "skipValues is not a loop over the count around a loop over the types")
			case typeLoop > countLoop:
				b.addP(props, core.Violation, key, c.FuncPos(fn), "skipValues runs the loop over the count inside the loop over the types: a map is skipped as all its keys followed by all its values, which is not how entries are laid out (key, value, key, value) — with keys and values of different widths (strings, varints) the reader loses its place in the stream")
			default:
				b.addP(props, core.Discharged, key, c.FuncPos(fn), "the loop over the types is nested in the loop over the count")
			}
		}
	}
	// (i) a uvarint read from the wire is range-checked as the unsigned number it is: converted to a
	// signed type first, a value of 2^63 or more is negative and passes any upper bound
	{
		props := []string{"C08", "C07"}
		key := "uvarint:range-checked-unsigned"
		n, bad := 0, ""
		for _, fn := range c.RepoFunctions() {
			name := shortName(fn)
			if fn.Blocks == nil || !(strings.HasPrefix(name, "thrift.") || strings.HasPrefix(name, "proto.")) {
				continue
			}
			for _, ci := range callsIn(fn) {
				g := staticCallee(ci.Common())
				if g == nil || g.Pkg == nil || g.Pkg.Pkg.Path() != "encoding/binary" || !(g.Name() == "ReadUvarint" || g.Name() == "Uvarint") {
					continue
				}
				call, isCall := ci.(*ssa.Call)
				if !isCall {
					continue
				}
				n++
				for _, blk := range fn.Blocks {
					for _, in := range blk.Instrs {
						cv, ok := in.(*ssa.Convert)
						if !ok {
							continue
						}
						ex, ok := cv.X.(*ssa.Extract)
						if !ok || ex.Tuple != ssa.Value(call) || ex.Index != 0 {
							continue
						}
						bt, ok := cv.Type().Underlying().(*types.Basic)
						if !ok || bt.Info()&types.IsUnsigned != 0 || bt.Info()&types.IsInteger == 0 {
							continue
						}
						_, hi := rangeFacts(ex, blk)
						if hi == nil || hi.Cmp(big.NewInt(math.MaxInt64)) > 0 {
							bad = c.InstrPos(cv) + " (" + name + ")"
						}
					}
				}
			}
		}
		switch {
		case n == 0:
			b.addP(props, core.Info, key, "-", "no call of binary.ReadUvarint / Uvarint in thrift or proto")
		case bad != "":
			b.addP(props, core.Violation, key, bad, "the uvarint read from the wire is converted to a signed integer at "+bad+" before any unsigned upper bound is established: a ten-byte varint of 2^63 or more becomes negative, passes the range check, and is used as a length (makeslice: len out of range — a panic) or skipped as an empty value")
		default:
			b.addP(props, core.Discharged, key, "-", fmt.Sprintf("%d read(s) of a uvarint: none converted to a signed type before an unsigned bound", n))
		}
	}
	// (j) sharing memory with the input is opt-in: the zero-copy bits reach a decoder only from the
	// caller's flags (Parse's argument, the Decoder's option methods). A decoder method that or-s
	// one of them into the flags it decodes with hands out strings that live in the input — "the map
	// keeps its own copy of the key" copies the string header, not the bytes.
	{
		props := []string{"C10"}
		key := "zero-copy:only-from-the-caller"
		zc := jsonConst(c, "ZeroCopy")
		n, bad := 0, ""
		for _, fn := range c.RepoFunctions() {
			if fn.Blocks == nil || !strings.HasPrefix(shortName(fn), "json.") {
				continue
			}
			recv := fn.Signature.Recv()
			if recv != nil && strings.HasSuffix(recv.Type().String(), "json.Decoder") {
				continue // the option methods of the exported Decoder: the caller's own request
			}
			for _, blk := range fn.Blocks {
				for _, in := range blk.Instrs {
					bo, ok := in.(*ssa.BinOp)
					if !ok || bo.Op != token.OR {
						continue
					}
					if !strings.HasSuffix(bo.Type().String(), "json.ParseFlags") {
						continue
					}
					n++
					for _, side := range []ssa.Value{bo.X, bo.Y} {
						if k, isK := constUint(side); isK && zc != 0 && k&zc != 0 {
							bad = c.InstrPos(bo) + " (" + shortName(fn) + ")"
						}
					}
				}
			}
		}
		switch {
		case zc == 0:
			b.addP(props, core.Undecided, key, "-", "json.ZeroCopy not found")
		case bad != "":
			b.addP(props, core.Violation, key, bad, "a zero-copy bit (DontCopyString, DontCopyNumber, DontCopyRawMessage) is or-ed into parse flags at "+bad+", outside the Decoder's option methods: values decoded below that point (map keys, strings) share memory with the input although the caller did not ask for it, and change when the input buffer is reused or the Decoder refills its buffer")
		default:
			b.addP(props, core.Discharged, key, "-", fmt.Sprintf("%d or-operations on ParseFlags outside the Decoder's option methods: none sets a zero-copy bit", n))
		}
	}
	// (k) a field promoted through an embedded struct pointer lives at pointee+offset: every json
	// function that is handed such an offset applies it — in its own body or in the closure it
	// returns. A closure that no longer mentions the captured offset reads the word at the start of
	// the embedded struct instead of the field (an omitempty decision made on another field).
	{
		props := []string{"C01", "C02"}
		n, bad := 0, ""
		var used func(v ssa.Value, depth int) bool
		used = func(v ssa.Value, depth int) bool {
			if depth > 4 || v.Referrers() == nil {
				return false
			}
			for _, ref := range *v.Referrers() {
				switch x := ref.(type) {
				case *ssa.DebugRef:
					continue
				case *ssa.Store:
					// spilled to a cell: follow the cell
					if x.Val == v {
						if al, ok := x.Addr.(*ssa.Alloc); ok && used(al, depth+1) {
							return true
						}
						if _, ok := x.Addr.(*ssa.Alloc); !ok {
							return true
						}
						continue
					}
					return true
				case *ssa.MakeClosure:
					fnc, _ := x.Fn.(*ssa.Function)
					for i, bnd := range x.Bindings {
						if bnd == v && fnc != nil && i < len(fnc.FreeVars) && used(fnc.FreeVars[i], depth+1) {
							return true
						}
					}
				case *ssa.UnOp:
					if x.Op == token.MUL && used(x, depth+1) {
						return true
					}
					if x.Op != token.MUL {
						return true
					}
				default:
					return true
				}
			}
			return false
		}
		for _, fn := range c.RepoFunctions() {
			if fn.Blocks == nil || !strings.HasPrefix(shortName(fn), "json.") {
				continue
			}
			for _, p := range fn.Params {
				if p.Name() != "offset" || p.Type().String() != "uintptr" {
					continue
				}
				n++
				if !used(p, 0) {
					bad = c.FuncPos(fn) + " (" + shortName(fn) + ")"
				}
			}
		}
		key := "embedded-offset:applied"
		switch {
		case n == 0:
			b.addP(props, core.Undecided, key, "-", "no json function takes an offset parameter")
		case bad != "":
			b.addP(props, core.Violation, key, bad, "the offset handed to "+bad+" is not used, neither by the function nor by the closure it returns: the field promoted through an embedded struct pointer is looked for at the start of the embedded struct — the omitempty test of B in struct{*E} with E{A, B int} is made on A, so B is dropped when A is zero and written as 0 when only A is set")
		default:
			b.addP(props, core.Discharged, key, "-", fmt.Sprintf("%d offset parameters in package json, each used by its function or the closure it builds", n))
		}
	}
	// (l) the size and the encode function of a repeated field substitute the zero value for a nil
	// element under the same condition: both ask zeroElemOf about the slice's element type. Asked
	// about the slice type itself (never a pointer) it answers "no substitution", and Size no longer
	// counts the value the encoder writes for a nil element.
	{
		props := []string{"C16", "C03"}
		key := "repeated-nil-element:siblings-ask-about-the-element-type"
		shapes := map[string][]string{}
		for _, fn := range c.RepoFunctions() {
			if fn.Blocks == nil || !strings.HasPrefix(shortName(fn), "proto.") {
				continue
			}
			for _, ci := range callsIn(fn) {
				g := staticCallee(ci.Common())
				if g == nil || g.Name() != "zeroElemOf" || len(ci.Common().Args) == 0 {
					continue
				}
				shape := "another expression"
				switch x := ci.Common().Args[0].(type) {
				case *ssa.Parameter:
					shape = "the type it was given"
				case *ssa.Call:
					if x.Common().IsInvoke() && x.Common().Method.Name() == "Elem" {
						shape = "the element type"
					}
				}
				shapes[shape] = append(shapes[shape], shortName(fn)+" ("+c.InstrPos(ci)+")")
			}
		}
		switch {
		case len(shapes) == 0:
			b.addP(props, core.Info, key, "-", "proto does not call zeroElemOf")
		case len(shapes) > 1 || len(shapes["the element type"]) == 0:
			var parts []string
			for sh, fs := range shapes {
				sort.Strings(fs)
				parts = append(parts, fmt.Sprintf("%v ask about %s", fs, sh))
			}
			sort.Strings(parts)
			b.addP(props, core.Violation, key, "-", "the callers of zeroElemOf disagree: "+strings.Join(parts, "; ")+" — a nil element of a repeated field of pointers ([]*int32{&a, nil}) is written as the zero value by the encoder and not counted by the size function (or the reverse): Size is short, MarshalTo into Size(v) bytes fails with a short buffer")
		default:
			b.addP(props, core.Discharged, key, "-", fmt.Sprintf("%d callers of zeroElemOf, all about the slice's element type", len(shapes["the element type"])))
		}
	}
	// (m) the bitmap of fields already seen by a message rewriter: set or-s the field's bit into its
	// word and unset and-nots it out. A plain store forgets the other 63 fields of the word: a field
	// taken for absent gets its rewriter run a second time at the end of the message, with nil input
	// (a BitOr yields the mask alone, a templated list is emitted twice).
	for _, spec := range []struct {
		fn string
		op token.Token
	}{{"proto.(fieldset).set", token.OR}, {"proto.(fieldset).unset", token.AND_NOT}} {
		props := []string{"C19"}
		key := "fieldset:" + strings.TrimPrefix(spec.fn, "proto.(fieldset).") + "-keeps-the-other-bits"
		fn := c.Lookup(spec.fn)
		if fn == nil {
			if spec.op == token.OR {
				b.addP(props, core.Undecided, key, "-", spec.fn+" not found")
			}
			continue // unset is not called by the rewriters: absent from the program when unused
		}
		n, bad := 0, ""
		for _, blk := range fn.Blocks {
			for _, in := range blk.Instrs {
				st, ok := in.(*ssa.Store)
				if !ok {
					continue
				}
				ia, ok := st.Addr.(*ssa.IndexAddr)
				if !ok {
					continue
				}
				n++
				bo, isBO := st.Val.(*ssa.BinOp)
				okOp := false
				if isBO && (bo.Op == spec.op || (spec.op == token.AND_NOT && bo.Op == token.AND)) {
					for _, side := range []ssa.Value{bo.X, bo.Y} {
						if ld, isLd := side.(*ssa.UnOp); isLd && ld.Op == token.MUL {
							if ia2, isIA := ld.X.(*ssa.IndexAddr); isIA && ia2.X == ia.X && ia2.Index == ia.Index {
								okOp = true
							}
						}
					}
				}
				if !okOp {
					bad = c.InstrPos(st)
				}
			}
		}
		switch {
		case n == 0:
			b.addP(props, core.Undecided, key, c.FuncPos(fn), "no store into the bitmap found")
		case bad != "":
			b.addP(props, core.Violation, key, bad, spec.fn+" stores a word that is not the old word combined with the field's bit by "+spec.op.String()+": the other fields of the same block of 64 numbers are forgotten (or marked), so a templated field that was present in the input is rewritten a second time at the end of the message — flags 3 with BitOr 16 gives 16, a templated list comes out twice")
		default:
			b.addP(props, core.Discharged, key, c.FuncPos(fn), "the word is updated with "+spec.op.String()+" of its old value")
		}
	}
	// (n) every Value the Tokenizer hands out is a window of the input: the text before the
	// advance (t.json[:k]) or what a scanner returned. A Value taken from anywhere else (a table of
	// one-byte delimiters) has the right content and the wrong identity: Remaining() no longer
	// locates it, and writing through it changes the table for every other tokenizer.
	{
		props := []string{"C17", "C10"}
		key := "token:value-is-a-window-of-the-input"
		fn := c.Lookup("json.(*Tokenizer).Next")
		if fn == nil {
			b.addP(props, core.Undecided, key, "-", "json.(*Tokenizer).Next not found")
		} else {
			n, bad := 0, ""
			for _, blk := range fn.Blocks {
				for _, in := range blk.Instrs {
					st, ok := in.(*ssa.Store)
					if !ok {
						continue
					}
					fa, ok := st.Addr.(*ssa.FieldAddr)
					if !ok || fieldNameOf(fa) != "Value" {
						continue
					}
					n++
					okv := false
					for _, o := range origins(st.Val) {
						switch x := o.(type) {
						case *ssa.Slice:
							if f, isF := fieldOfLoad(x.X); isF && strings.HasSuffix(f, "Tokenizer.json") {
								okv = true
							}
						case *ssa.Extract:
							if call, isC := x.Tuple.(*ssa.Call); isC {
								if g := staticCallee(call.Common()); g != nil && strings.HasPrefix(g.Name(), "parse") {
									okv = true
								}
							}
						case *ssa.Const:
							okv = true // nil (Reset)
						}
					}
					if !okv {
						bad = c.InstrPos(st)
					}
				}
			}
			switch {
			case n == 0:
				b.addP(props, core.Undecided, key, c.FuncPos(fn), "Tokenizer.Next does not store t.Value")
			case bad != "":
				b.addP(props, core.Violation, key, bad, "Tokenizer.Next stores a Value at "+bad+" that is neither a window t.json[:k] of the input nor the result of a scanner: the token's bytes are right but they are not the bytes of the document, so the Value does not end Remaining() bytes before the end of the input, and memory shared by all tokenizers is handed to the caller")
			default:
				b.addP(props, core.Discharged, key, c.FuncPos(fn), fmt.Sprintf("%d stores of t.Value, each a window of t.json or a scanner's result", n))
			}
		}
	}
	// (o) the map decoders merge into the map the target already holds: a new map is made only when
	// the target's is nil ("maps are merged": {} into a map with entries leaves them)
	{
		props := []string{"C02"}
		key := "decode-map:allocates-only-when-nil"
		n, bad := 0, ""
		for _, fn := range c.RepoFunctions() {
			name := shortName(fn)
			if fn.Blocks == nil || !strings.HasPrefix(name, "json.(decoder).decodeMap") {
				continue
			}
			for _, blk := range fn.Blocks {
				for _, in := range blk.Instrs {
					isAlloc := false
					switch x := in.(type) {
					case *ssa.MakeMap:
						isAlloc = true
					case *ssa.Call:
						cn := calleeName(x.Common())
						isAlloc = cn == "reflect.MakeMap" || cn == "reflect.MakeMapWithSize"
					}
					if !isAlloc {
						continue
					}
					n++
					guarded := false
					for _, a := range trueAtoms(blk, 0) {
						switch x := a.(type) {
						case *ssa.BinOp:
							if x.Op == token.EQL && (isNilConst(x.X) || isNilConst(x.Y)) {
								guarded = true
							}
						case *ssa.Call:
							if g := staticCallee(x.Common()); g != nil && g.Name() == "IsNil" {
								guarded = true
							}
						}
					}
					if !guarded {
						bad = c.InstrPos(in) + " (" + name + ")"
					}
				}
			}
		}
		switch {
		case n == 0:
			b.addP(props, core.Undecided, key, "-", "no map allocation found in json's map decoders")
		case bad != "":
			b.addP(props, core.Violation, key, bad, "a map decoder makes a new map at "+bad+" without having found the target's map nil: the entries left by earlier decodes (or put there by the caller) are dropped, where encoding/json merges — {} into a map with entries empties it")
		default:
			b.addP(props, core.Discharged, key, "-", fmt.Sprintf("%d map allocations in decodeMap*, each under a nil test of the target's map", n))
		}
	}
	// (p) the interface decoders look at null before anything else: null into an interface that
	// holds a pointer sets the interface to nil (encoding/json), it is not decoded through the
	// pointer
	// (decodeInterface, for the predeclared any, tests null inside its pointer branch: for a held **T
	// encoding/json does decode null through the outer pointer — it is not held to this shape)
	for _, fname := range []string{"json.(decoder).decodeMaybeEmptyInterface"} {
		props := []string{"C02"}
		key := "interface-null-first:" + strings.TrimPrefix(fname, "json.(decoder).")
		fn := c.Lookup(fname)
		if fn == nil {
			b.addP(props, core.Undecided, key, "-", fname+" not found")
			continue
		}
		var nullTest ssa.Instruction
		for _, ci := range callsIn(fn) {
			if g := staticCallee(ci.Common()); g != nil && g.Name() == "hasNullPrefix" && nullTest == nil {
				nullTest = ci.(ssa.Instruction)
			}
		}
		if nullTest == nil {
			b.addP(props, core.Violation, key, c.FuncPos(fn), fname+" no longer tests for null")
			continue
		}
		bad := ""
		for _, ci := range callsIn(fn) {
			in := ci.(ssa.Instruction)
			if in == nullTest {
				continue
			}
			cn := calleeName(ci.Common())
			g := staticCallee(ci.Common())
			follows := strings.HasPrefix(cn, "reflect.") || (g != nil && (g.Name() == "parse" || strings.HasPrefix(g.Name(), "decode")))
			if follows && !instrDominates(nullTest, in) {
				bad = c.InstrPos(in) + " (" + cn + ")"
			}
		}
		if bad != "" {
			b.addP(props, core.Violation, key, bad, fname+" inspects or decodes through the value the interface holds at "+bad+" on a path that has not tested the input for null: null into an interface holding a non-nil pointer is then decoded through the pointer (which keeps the interface non-nil) where encoding/json sets the interface to nil")
		} else {
			b.addP(props, core.Discharged, key, c.InstrPos(nullTest), "hasNullPrefix dominates every use of the held value")
		}
	}
	// (q) a nil pointer map key is written as the empty string: the key encoder's wrapper tests the
	// pointer stored at p — p itself is the address of the key and never nil, so a test of p is
	// dead code and the nil key reaches the encoder, which writes null where a key must be a string
	{
		props := []string{"C01", "C06"}
		key := "nil-map-key:tests-the-stored-pointer"
		fn := c.Lookup("json.constructNilKeyEncodeFunc$1")
		if fn == nil {
			b.addP(props, core.Undecided, key, "-", "json.constructNilKeyEncodeFunc$1 not found")
		} else {
			var dp *ssa.Parameter
			for _, p := range fn.Params {
				if p.Type().String() == "unsafe.Pointer" {
					dp = p
				}
			}
			ok := false
			for _, blk := range fn.Blocks {
				for _, in := range blk.Instrs {
					bo, isBO := in.(*ssa.BinOp)
					if !isBO || (bo.Op != token.EQL && bo.Op != token.NEQ) {
						continue
					}
					for _, side := range []ssa.Value{bo.X, bo.Y} {
						if ld, isLd := side.(*ssa.UnOp); isLd && ld.Op == token.MUL && dp != nil && stripConv(ld.X) == ssa.Value(dp) {
							ok = true
						}
					}
				}
			}
			if ok {
				b.addP(props, core.Discharged, key, c.FuncPos(fn), "the wrapper compares the pointer loaded from p with nil")
			} else {
				b.addP(props, core.Violation, key, c.FuncPos(fn), "the nil-key wrapper no longer compares the pointer stored at p with nil (p itself is the key's address, never nil): a nil pointer key that implements TextMarshaler reaches the encoder and is written as null — {null:0} is not JSON, encoding/json writes {\"\":0}")
			}
		}
	}
	// (r) proto looks through every level of indirection to classify a field: baseTypeOf loops
	{
		props := []string{"C03", "C12"}
		key := "base-type:strips-every-pointer-level"
		fn := c.Lookup("proto.baseTypeOf")
		switch {
		case fn == nil:
			b.addP(props, core.Undecided, key, "-", "proto.baseTypeOf not found")
		case len(loopHeaders(fn)) == 0:
			b.addP(props, core.Violation, key, c.FuncPos(fn), "proto.baseTypeOf no longer loops: only one pointer level is removed, so a field of type **T (or []**T, map[K]**T) is classified by the kind Ptr instead of Struct, loses its embedded flag and is written without a length prefix — the message does not decode")
		default:
			b.addP(props, core.Discharged, key, c.FuncPos(fn), "baseTypeOf loops while the kind is Ptr")
		}
	}
	// (s) a pooled encoder buffer still holds what its previous user wrote: wherever its data is
	// handed to the encoder as a destination it is truncated first (buf.data[:0])
	{
		props := []string{"C15", "C01", "C09"}
		key := "pooled-encoder-buffer:truncated-before-use"
		n, bad := 0, ""
		for _, fn := range c.RepoFunctions() {
			if fn.Blocks == nil || !strings.HasPrefix(shortName(fn), "json.") {
				continue
			}
			for _, ci := range callsIn(fn) {
				// the encoder's entry points: what they are handed is appended to
				g := staticCallee(ci.Common())
				if g == nil || g.Pkg == nil || g.Pkg.Pkg.Name() != "json" {
					continue
				}
				isEnc := g.Name() == "Append" || g.Name() == "appendValue"
				if recv := g.Signature.Recv(); recv != nil && namedKey(recv.Type()) == "json.encoder" {
					isEnc = true
				}
				if !isEnc {
					continue
				}
				for _, a := range ci.Common().Args {
					f, isF := fieldOfLoad(a)
					if isF && strings.HasSuffix(f, "encoderBuffer.data") {
						if _, isB := ci.Common().Value.(*ssa.Builtin); isB {
							continue // len, copy: reading what was just encoded
						}
						n++
						bad = c.InstrPos(ci) + " (" + shortName(fn) + ")"
						continue
					}
					if sl, isS := a.(*ssa.Slice); isS {
						if f2, isF2 := fieldOfLoad(sl.X); isF2 && strings.HasSuffix(f2, "encoderBuffer.data") {
							n++
							if h, isK := constInt(sl.High); sl.High == nil || !isK || h != 0 {
								bad = c.InstrPos(ci) + " (" + shortName(fn) + ")"
							}
						}
					}
				}
			}
		}
		switch {
		case n == 0:
			b.addP(props, core.Undecided, key, "-", "no use of a pooled encoderBuffer's data as an argument found")
		case bad != "":
			b.addP(props, core.Violation, key, bad, "the data of a pooled encoder buffer is handed on at "+bad+" without being truncated to [:0]: it still holds the output of the call that used the buffer before, which ends up in front of the encoding of this value")
		default:
			b.addP(props, core.Discharged, key, "-", fmt.Sprintf("%d uses of a pooled buffer's data as a destination, each as data[:0]", n))
		}
	}
	// (t) a json.Number and the output of a MarshalJSON method are text supplied by the program:
	// their syntax is checked before they are copied into the output whatever the flags are
	// (TrustRawMessage vouches for RawMessage values only)
	for _, spec := range []struct{ fn, scan, key string }{
		{"json.(encoder).encodeNumber", "parseNumber", "encode-number:validated-under-every-flag"},
		{"json.(encoder).encodeJSONMarshaler", "parseValue", "marshaler-output:validated-under-every-flag"},
	} {
		props := []string{"C14", "C01", "C05"}
		key := spec.key
		fn := c.Lookup(spec.fn)
		if fn == nil {
			b.addP(props, core.Undecided, key, "-", spec.fn+" not found")
			continue
		}
		var val ssa.CallInstruction
		for _, ci := range callsIn(fn) {
			if g := staticCallee(ci.Common()); g != nil && g.Name() == spec.scan {
				val = ci
			}
		}
		if val == nil {
			b.addP(props, core.Violation, key, c.FuncPos(fn), spec.fn+" no longer checks the text with "+spec.scan+": whatever the program supplied is copied into the output")
			continue
		}
		cond := ""
		for _, e := range dominatingEdges(val.Block()) {
			if dependsOn(e.ifi.Cond, func(x ssa.Value) bool {
				f, ok := fieldOfLoad(x)
				return ok && strings.HasSuffix(f, "encoder.flags")
			}) {
				cond = c.InstrPos(e.ifi)
			}
		}
		if cond != "" {
			b.addP(props, core.Violation, key, c.InstrPos(val), spec.fn+" checks the text only under a test of the encoder's flags ("+cond+"): under the other setting invalid text (Number(\"7,\\\"admin\\\":true\"), a Marshaler returning [1,]) is copied into the output as it is — a document that Valid rejects, for some flag subsets only")
		} else {
			b.addP(props, core.Discharged, key, c.InstrPos(val), spec.scan+" validates the text on every path, whatever the flags")
		}
	}
	// (u) the option setters of thrift's Decoder and Encoder change the bit they are about and leave
	// the protocol features (set by NewDecoder/Reset from the protocol) alone
	for _, fname := range []string{"thrift.(*Decoder).SetStrict"} {
		props := []string{"C04", "C08"}
		key := "thrift-option:keeps-protocol-features:" + strings.TrimPrefix(fname, "thrift.")
		fn := c.Lookup(fname)
		pf, okPF := thriftConst(c, "protocolFlags")
		if fn == nil || !okPF {
			b.addP(props, core.Undecided, key, "-", fname+" or protocolFlags not found")
			continue
		}
		bind := map[ssa.Value]maskVal{}
		for _, blk := range fn.Blocks {
			for _, in := range blk.Instrs {
				if ld, ok := in.(*ssa.UnOp); ok && ld.Op == token.MUL {
					if fa, isFA := ld.X.(*ssa.FieldAddr); isFA && strings.HasSuffix(fa.Type().String(), "thrift.flags") {
						bind[ld] = maskVal{keep: ^uint64(0)}
					}
				}
			}
		}
		n, bad := 0, ""
		for _, blk := range fn.Blocks {
			for _, in := range blk.Instrs {
				st, ok := in.(*ssa.Store)
				if !ok {
					continue
				}
				fa, isFA := st.Addr.(*ssa.FieldAddr)
				if !isFA || !strings.HasSuffix(fa.Type().String(), "thrift.flags") {
					continue
				}
				n++
				m := evalMask(st.Val, nil, bind, 0, map[ssa.Value]bool{})
				if m.isConst {
					m.keep = 0
				}
				if m.keep&uint64(pf) != uint64(pf) {
					bad = c.InstrPos(st)
				}
			}
		}
		switch {
		case n == 0:
			b.addP(props, core.Undecided, key, c.FuncPos(fn), "no store to the flags field found")
		case bad != "":
			b.addP(props, core.Violation, key, bad, fname+" stores flags that do not keep the protocol feature bits of the old value: after the call the decoder no longer knows that the compact protocol folds booleans into the field header (and delta-encodes ids), so a bool field consumes the next byte of the stream as its value")
		default:
			b.addP(props, core.Discharged, key, c.FuncPos(fn), fmt.Sprintf("%d stores to the flags, each keeps the protocol feature bits", n))
		}
	}
	// (v) iso8601 computes with 64-bit integers: a 64-bit quantity narrowed to the platform's int
	// before it is multiplied or added (days*86400) wraps on 32-bit targets for every date outside
	// 1901-2038, while the same code is exact on amd64
	{
		props := []string{"C18"}
		key := "iso8601:no-platform-width-arithmetic"
		n, bad := 0, ""
		for _, fn := range c.RepoFunctions() {
			if fn.Blocks == nil || !strings.HasPrefix(shortName(fn), "iso8601.") {
				continue
			}
			n++
			for _, blk := range fn.Blocks {
				for _, in := range blk.Instrs {
					cv, ok := in.(*ssa.Convert)
					if !ok || cv.Referrers() == nil {
						continue
					}
					tt, ok1 := cv.Type().Underlying().(*types.Basic)
					ft, ok2 := cv.X.Type().Underlying().(*types.Basic)
					if !ok1 || !ok2 || !(tt.Kind() == types.Int || tt.Kind() == types.Uint) || !(ft.Kind() == types.Uint64 || ft.Kind() == types.Int64) {
						continue
					}
					if _, isK := cv.X.(*ssa.Const); isK {
						continue
					}
					for _, ref := range *cv.Referrers() {
						if bo, isBO := ref.(*ssa.BinOp); isBO && (bo.Op == token.MUL || bo.Op == token.ADD || bo.Op == token.SUB || bo.Op == token.SHL) {
							bad = c.InstrPos(bo) + " (" + shortName(fn) + ")"
						}
					}
				}
			}
		}
		switch {
		case n == 0:
			b.addP(props, core.Undecided, key, "-", "no function of package iso8601 found")
		case bad != "":
			b.addP(props, core.Violation, key, bad, "a 64-bit value is converted to the platform-width int and then used in arithmetic at "+bad+": on a target with 32-bit int the product wraps (days since the epoch times 86400 exceeds 2^31 from 2038 on), so Parse returns another instant there than time.Parse does — 2038-01-19T03:14:08Z comes back as 1901-12-13T20:45:52Z")
		default:
			b.addP(props, core.Discharged, key, "-", fmt.Sprintf("%d functions of package iso8601: no 64-bit value is narrowed to int/uint before arithmetic", n))
		}
	}
	// (w) the compact reader bounds a length by what an int32 holds before converting it: the
	// specification's lengths are 32-bit, and a bound at the platform's int lets a ten-byte varint
	// through to make(), which panics (makeslice: len out of range) or allocates petabytes
	{
		props := []string{"C08"}
		key := "compact-length:bounded-by-int32"
		fn := c.Lookup("thrift.(*compactReader).ReadLength")
		if fn == nil {
			b.addP(props, core.Undecided, key, "-", "thrift.(*compactReader).ReadLength not found")
		} else {
			n, bad := 0, ""
			for _, ci := range callsIn(fn) {
				g := staticCallee(ci.Common())
				if g == nil || !strings.HasPrefix(g.Name(), "readUvarint") && !strings.HasPrefix(g.Name(), "readVarint") {
					continue
				}
				n++
				okB := false
				for _, a := range ci.Common().Args {
					if k, isK := constUint(a); isK && k <= math.MaxInt32 && k > 0 {
						okB = true
					}
				}
				if !okB {
					bad = c.InstrPos(ci)
				}
			}
			switch {
			case n == 0:
				b.addP(props, core.Undecided, key, c.FuncPos(fn), "ReadLength does not read its value with readUvarint")
			case bad != "":
				b.addP(props, core.Violation, key, bad, "compactReader.ReadLength reads a length without a constant bound of at most MaxInt32: a length varint of 2^48 and more reaches make([]byte, n) — ReadBytes, ReadString and Unmarshal panic with makeslice: len out of range instead of returning an error")
			default:
				b.addP(props, core.Discharged, key, c.FuncPos(fn), "the length is read with a bound of at most MaxInt32")
			}
		}
	}
	// (x) what skipValues returns is the error of skip passed through dontExpectEOF: input that ends
	// between two elements of a container being skipped is truncated input (io.ErrUnexpectedEOF),
	// not a clean end of stream (io.EOF)
	{
		props := []string{"C08"}
		key := "skip-values:eof-is-unexpected"
		fn := c.Lookup("thrift.skipValues")
		if fn == nil {
			b.addP(props, core.Undecided, key, "-", "thrift.skipValues not found")
		} else {
			n, bad := 0, ""
			for _, r := range returnsOf(fn) {
				if len(r.Results) != 1 || isNilConst(r.Results[0]) {
					continue
				}
				n++
				okR := false
				for _, o := range origins(r.Results[0]) {
					if call, isC := o.(*ssa.Call); isC {
						if g := staticCallee(call.Common()); g != nil && g.Name() == "dontExpectEOF" {
							okR = true
						}
					}
				}
				if !okR {
					bad = c.InstrPos(r)
				}
			}
			switch {
			case n == 0:
				b.addP(props, core.Undecided, key, c.FuncPos(fn), "skipValues returns no error")
			case bad != "":
				b.addP(props, core.Violation, key, bad, "skipValues returns the error of skip as it is: when the input is cut exactly between two elements of a list, set or map that is being skipped (a type the target does not expect), Unmarshal reports io.EOF — a clean end — instead of io.ErrUnexpectedEOF")
			default:
				b.addP(props, core.Discharged, key, c.FuncPos(fn), "every error returned went through dontExpectEOF")
			}
		}
	}
	// (y) an array decoded into an interface is a slice of its own: the []any the interface held
	// before belongs to whoever kept it from the previous decode
	{
		props := []string{"C10", "C02"}
		key := "decode-interface:array-is-fresh"
		fn := c.Lookup("json.(decoder).decodeInterface")
		if fn == nil {
			b.addP(props, core.Undecided, key, "-", "json.(decoder).decodeInterface not found")
		} else {
			n, bad := 0, ""
			for _, ci := range callsIn(fn) {
				g := staticCallee(ci.Common())
				if g == nil || g.Name() != "decodeSlice" {
					continue
				}
				for _, a := range ci.Common().Args {
					cell := cellOf(stripConv(a))
					if cell == nil || !isSliceType(derefType(cell.Type())) {
						continue
					}
					n++
					for _, sv := range cellStores(cell) {
						fresh := true
						for _, o := range origins(sv) {
							switch x := o.(type) {
							case *ssa.MakeSlice:
							case *ssa.Slice:
								// make with constant sizes: a new array, sliced
								if _, isNew := x.X.(*ssa.Alloc); !isNew {
									fresh = false
								}
							case *ssa.Call:
								// what decodeSlice itself stored back
							case *ssa.Extract:
								if _, fromCall := x.Tuple.(*ssa.Call); !fromCall {
									fresh = false // the result of a type assertion on the old value
								}
							default:
								if !isNilConst(o) {
									fresh = false
								}
							}
						}
						if _, isTA := sv.(*ssa.TypeAssert); isTA {
							fresh = false
						}
						if !fresh {
							bad = c.InstrPos(ci)
						}
					}
				}
			}
			switch {
			case n == 0:
				b.addP(props, core.Undecided, key, c.FuncPos(fn), "decodeInterface does not decode arrays with decodeSlice into a local slice")
			case bad != "":
				b.addP(props, core.Violation, key, bad, "decodeInterface decodes an array into a slice that is not freshly made (the one the interface already held): a []any the caller kept from the previous Decode into the same variable is overwritten by the next one")
			default:
				b.addP(props, core.Discharged, key, c.FuncPos(fn), "the slice handed to decodeSlice is made by this call")
			}
		}
	}
	// (z) whether a varint fits its field is a question about its value: a non-minimal encoding
	// (padded with 0x80 … 0x00) is as legal as the short one, so the scalar decoders never judge by
	// the number of bytes decodeVarint consumed
	{
		props := []string{"C12"}
		key := "scalar-decoders:overflow-judged-by-value"
		n, bad := 0, ""
		for _, fn := range c.RepoFunctions() {
			name := shortName(fn)
			if fn.Blocks == nil || !strings.HasPrefix(name, "proto.decode") || name == "proto.decodeVarint" {
				continue
			}
			for _, ci := range callsIn(fn) {
				g := staticCallee(ci.Common())
				call, isCall := ci.(*ssa.Call)
				if g == nil || !isCall || !(g.Name() == "decodeVarint" || g.Name() == "decodeVarintZigZag") {
					continue
				}
				n++
				for _, blk := range fn.Blocks {
					for _, in := range blk.Instrs {
						bo, ok := in.(*ssa.BinOp)
						if !ok {
							continue
						}
						switch bo.Op {
						case token.GTR, token.GEQ, token.LSS, token.LEQ, token.EQL, token.NEQ:
						default:
							continue
						}
						for _, side := range []ssa.Value{bo.X, bo.Y} {
							if ex, isE := stripConv(side).(*ssa.Extract); isE && ex.Tuple == ssa.Value(call) && ex.Index == 1 {
								if _, isK := constInt(bo.Y); isK {
									bad = c.InstrPos(bo) + " (" + name + ")"
								}
							}
						}
					}
				}
			}
		}
		switch {
		case n == 0:
			b.addP(props, core.Undecided, key, "-", "no scalar decoder calls decodeVarint")
		case bad != "":
			b.addP(props, core.Violation, key, bad, "a scalar decoder compares the number of bytes its varint took with a constant at "+bad+": a value that fits the field but is written non-minimally (300 as ac 82 80 80 80 00 in a uint32 field) is rejected as an overflow, although every protobuf decoder accepts padded varints")
		default:
			b.addP(props, core.Discharged, key, "-", fmt.Sprintf("%d scalar decoders call decodeVarint; none tests the byte count against a constant", n))
		}
	}
	// (aa) a package-level map is read in place (looked up, ranged over, measured): its value is
	// never copied into a variable or a result — a map handed out that way is one object shared by
	// every caller, and the decoder itself writes the next document's members into it
	{
		props := []string{"C09", "C10"}
		key := "global-map:never-handed-out"
		n, bad := 0, ""
		for _, fn := range c.RepoFunctions() {
			name := shortName(fn)
			if fn.Blocks == nil || !(strings.HasPrefix(name, "json.") || strings.HasPrefix(name, "proto.") || strings.HasPrefix(name, "thrift.")) || fn.Name() == "init" {
				continue
			}
			for _, blk := range fn.Blocks {
				for _, in := range blk.Instrs {
					ld, ok := in.(*ssa.UnOp)
					if !ok || ld.Op != token.MUL {
						continue
					}
					g, ok := ld.X.(*ssa.Global)
					if !ok || g.Pkg != fn.Pkg {
						continue
					}
					if _, isMap := ld.Type().Underlying().(*types.Map); !isMap || ld.Referrers() == nil {
						continue
					}
					n++
					for _, ref := range *ld.Referrers() {
						switch x := ref.(type) {
						case *ssa.Lookup, *ssa.Range, *ssa.DebugRef:
						case *ssa.Call:
							if bi, isB := x.Common().Value.(*ssa.Builtin); !isB || bi.Name() != "len" {
								bad = c.InstrPos(ref) + " (" + name + ": " + g.Name() + ")"
							}
						default:
							bad = c.InstrPos(ref) + " (" + name + ": " + g.Name() + ")"
						}
					}
				}
			}
		}
		switch {
		case bad != "":
			b.addP(props, core.Violation, key, bad, "the value of a package-level map is copied out at "+bad+" (stored, passed on or returned) instead of being read in place: every caller that receives it holds the same map — a nil map[string]any destination given {} aliases one process-wide map, into which the next decode of any goroutine writes its members")
		default:
			b.addP(props, core.Discharged, key, "-", fmt.Sprintf("%d loads of package-level maps in json, proto and thrift: each only looked up, ranged over or measured", n))
		}
	}
	// (ab) the struct decoder skips a field it does not know by consuming its payload: every wire
	// type its skip switch accepts has an arm that reads something (a varint, a length, four or eight
	// bytes); anything else is ErrWireTypeUnknown. An arm that accepts a wire type and consumes
	// nothing (the group markers 3 and 4) makes Unmarshal take tags that Parse and Scan reject, and
	// lets the fields inside an undeclared group leak into the target.
	{
		props := []string{"C07", "C12"}
		key := "unknown-field-skip:every-accepted-wire-type-consumes"
		var fn *ssa.Function
		for _, f := range c.RepoFunctions() {
			if f.Parent() != nil && f.Parent().Name() == "structDecodeFuncOf" && f.Blocks != nil {
				fn = f
			}
		}
		if fn == nil {
			b.addP(props, core.Undecided, key, "-", "the closure of proto.structDecodeFuncOf not found")
		} else {
			// the value the skip switch dispatches on: compared with wire type constants, in a block
			// from which ErrWireTypeUnknown is reachable as the default
			count := map[ssa.Value]int{}
			for _, blk := range fn.Blocks {
				for _, in := range blk.Instrs {
					if bo, ok := in.(*ssa.BinOp); ok && bo.Op == token.EQL && strings.HasSuffix(bo.X.Type().String(), "proto.wireType") {
						if _, isK := constInt(bo.Y); isK {
							count[bo.X]++
						}
					}
				}
			}
			var wt ssa.Value
			for v, k := range count {
				if wt == nil || k > count[wt] {
					wt = v
				}
			}
			if wt == nil {
				b.addP(props, core.Undecided, key, c.FuncPos(fn), "no switch over a wire type found in the struct decoder")
			} else {
				universe := []int64{0, 1, 2, 3, 4, 5, 6, 7}
				flow := constFlow(fn, wt, universe)
				other := uint32(1) << uint(len(universe))
				n, bad := 0, ""
				for _, blk := range fn.Blocks {
					set, ok := flow[blk]
					if !ok || set == 0 || set&other != 0 || popcount(set) > 3 {
						continue
					}
					// only the arms of the switch itself: blocks entered straight from a comparison of wt
					arm := false
					for _, p := range blk.Preds {
						if len(p.Instrs) > 0 {
							if ifi, isIf := p.Instrs[len(p.Instrs)-1].(*ssa.If); isIf {
								if bo, isBO := ifi.Cond.(*ssa.BinOp); isBO && bo.X == wt && p.Succs[0] == blk {
									arm = true
								}
							}
						}
					}
					if !arm {
						continue
					}
					n++
					consumes := false
					for _, in := range blk.Instrs {
						if _, isCall := in.(*ssa.Call); isCall {
							consumes = true
						}
						if ld, isLd := in.(*ssa.UnOp); isLd && ld.Op == token.MUL {
							if g, isG := ld.X.(*ssa.Global); isG && strings.HasPrefix(g.Name(), "Err") {
								consumes = true // the arm that refuses
							}
						}
					}
					if !consumes {
						var which []string
						for i, k := range universe {
							if set&(1<<uint(i)) != 0 {
								which = append(which, fmt.Sprint(k))
							}
						}
						bad = fmt.Sprintf("%s: wire type(s) %s", c.InstrPos(blk.Instrs[0]), strings.Join(which, ", "))
					}
				}
				// an empty arm has no block of its own: the true edge of its comparison goes straight
				// to the block where the arms join
				for _, p := range fn.Blocks {
					if len(p.Instrs) == 0 {
						continue
					}
					ifi, isIf := p.Instrs[len(p.Instrs)-1].(*ssa.If)
					if !isIf {
						continue
					}
					bo, isBO := ifi.Cond.(*ssa.BinOp)
					if !isBO || bo.X != wt || bo.Op != token.EQL {
						continue
					}
					k, isK := constInt(bo.Y)
					if !isK {
						continue
					}
					succ := p.Succs[0]
					for _, q := range succ.Preds {
						if len(q.Instrs) == 0 {
							continue
						}
						if _, fromJump := q.Instrs[len(q.Instrs)-1].(*ssa.Jump); fromJump {
							n++
							bad = fmt.Sprintf("%s: wire type %d", c.InstrPos(ifi), k)
						}
					}
				}
				switch {
				case n == 0:
					b.addP(props, core.Undecided, key, c.FuncPos(fn), "no arm of the wire type switch identified")
				case bad != "":
					b.addP(props, core.Violation, key, bad, "the skip switch of the struct decoder accepts "+bad+" without consuming anything: a tag with that wire type on an undeclared field number is taken as a field without payload, so Unmarshal accepts input that Parse and Scan reject (invalid wire type), and the fields between a group's start and end markers are decoded into the target as if they were its own")
				default:
					b.addP(props, core.Discharged, key, c.FuncPos(fn), fmt.Sprintf("%d arms of the skip switch, each reads a payload or refuses", n))
				}
			}
		}
	}
	// (ac) the pointer decoder allocates what its pointer points to — the element type, one level
	// down. Allocating the base type of a **T (a T where a *T is stored) hides the inner pointer from
	// the collector when T's first word is not a pointer, and overflows the allocation when T is
	// smaller than a pointer.
	{
		props := []string{"C07", "C03"}
		key := "pointer-decoder:allocates-the-element-type"
		fn := c.Lookup("proto.pointerDecodeFuncOf")
		if fn == nil {
			b.addP(props, core.Undecided, key, "-", "proto.pointerDecodeFuncOf not found")
		} else {
			var tp *ssa.Parameter
			for _, p := range fn.Params {
				if strings.HasSuffix(p.Type().String(), "reflect.Type") {
					tp = p
				}
			}
			n, bad := 0, ""
			for _, f := range append([]*ssa.Function{fn}, fn.AnonFuncs...) {
				for _, ci := range callsIn(f) {
					cn := calleeName(ci.Common())
					if cn != "reflect.New" && !strings.HasSuffix(cn, "unsafe_New") {
						continue
					}
					n++
					okT, other := false, false
					for _, o := range origins(ci.Common().Args[0]) {
						if o == ssa.Value(tp) {
							continue // the variable's value before it is reassigned
						}
						if call, isC := o.(*ssa.Call); isC && call.Common().IsInvoke() && call.Common().Method.Name() == "Elem" {
							okT = true
						} else {
							other = true
						}
					}
					okT = okT && !other
					if !okT {
						bad = c.InstrPos(ci)
					}
				}
			}
			switch {
			case n == 0:
				b.addP(props, core.Undecided, key, c.FuncPos(fn), "pointerDecodeFuncOf allocates nothing with reflect.New")
			case bad != "":
				b.addP(props, core.Violation, key, bad, "the pointer decoder allocates something other than t.Elem() of the pointer type it was built for: for a **T field the object that must hold a *T is allocated as a T — a pointer stored where the collector sees no pointer (use after free), or 8 bytes written into a smaller allocation")
			default:
				b.addP(props, core.Discharged, key, c.FuncPos(fn), "what is allocated is t.Elem()")
			}
		}
	}
	// (a) proto's entry points describe the value to the codec with the same constant flags: Size,
	// Marshal and MarshalTo all size and encode a top-level value (inline|toplevel) — the Message and
	// custom codecs write a length prefix unless told they are at top level, so an entry point that
	// drops the bit writes Size(v)+1 bytes that are not Marshal(v)
	{
		props := []string{"C16", "C03"}
		key := "proto-entry-flags:agree"
		type site struct {
			fn  string
			pos string
			k   int64
		}
		var sites []site
		for _, name := range []string{"proto.Size", "proto.Marshal", "proto.MarshalTo"} {
			fn := c.Lookup(name)
			if fn == nil {
				continue
			}
			for _, ci := range callsIn(fn) {
				cc := ci.Common()
				if staticCallee(cc) != nil || cc.IsInvoke() {
					continue
				}
				if _, isB := cc.Value.(*ssa.Builtin); isB {
					continue
				}
				for _, a := range cc.Args {
					if !strings.HasSuffix(a.Type().String(), "proto.flags") {
						continue
					}
					k, isK := constInt(a)
					if !isK {
						k = -1
					}
					sites = append(sites, site{name, c.InstrPos(ci), k})
				}
			}
		}
		switch {
		case len(sites) < 3:
			b.addP(props, core.Undecided, key, "-", fmt.Sprintf("only %d codec calls with a flags argument found in Size/Marshal/MarshalTo", len(sites)))
		default:
			bad := ""
			for _, s := range sites[1:] {
				if s.k != sites[0].k || s.k < 0 {
					bad = fmt.Sprintf("%s: %s passes flags %#x where %s passes %#x", s.pos, s.fn, s.k, sites[0].fn, sites[0].k)
				}
			}
			if bad != "" {
				b.addP(props, core.Violation, key, bad, bad+": the codecs of Message and custom types length-prefix their payload unless the toplevel bit says they are the outermost value, and the inline bit says how p is to be read — entry points that disagree produce different bytes (or a different size) for the same value, so MarshalTo into a buffer of Size(v) bytes fails or differs from Marshal")
			} else {
				b.addP(props, core.Discharged, key, "-", fmt.Sprintf("%d codec calls in Size, Marshal and MarshalTo, all with flags %#x", len(sites), sites[0].k))
			}
		}
	}
}

// smallWave30 — clauses added for the thirtieth round of seeded changes.
func smallWave30(c *core.Ctx, b *ob) {
	// (d) the Tokenizer computes Index for every token, openers included: at least one store of
	// t.index() is made before Next branches on whether the token is a delimiter
	{
		props := []string{"C17"}
		key := "token:index-stored-for-every-token"
		fn := c.Lookup("json.(*Tokenizer).Next")
		if fn == nil {
			b.addP(props, core.Undecided, key, "-", "json.(*Tokenizer).Next not found")
		} else {
			n, uncond := 0, false
			for _, blk := range fn.Blocks {
				for _, in := range blk.Instrs {
					st, ok := in.(*ssa.Store)
					if !ok {
						continue
					}
					fa, ok := st.Addr.(*ssa.FieldAddr)
					if !ok || fieldNameOf(fa) != "Index" {
						continue
					}
					call, ok := st.Val.(*ssa.Call)
					if !ok {
						continue
					}
					if g := staticCallee(call.Common()); g == nil || g.Name() != "index" {
						continue
					}
					n++
					underDelim := false
					for _, e := range dominatingEdges(blk) {
						if dependsOn(e.ifi.Cond, func(x ssa.Value) bool {
							f, isF := fieldOfLoad(x)
							return isF && strings.HasSuffix(f, "Tokenizer.Delim")
						}) {
							underDelim = true
						}
					}
					if !underDelim {
						uncond = true
					}
				}
			}
			switch {
			case n == 0:
				b.addP(props, core.Violation, key, c.FuncPos(fn), "Tokenizer.Next never stores t.index() into Index")
			case !uncond:
				b.addP(props, core.Violation, key, c.FuncPos(fn), "every store of t.index() into Index is made under a test of the token's Delim: the tokens on the other side of the test ('{' and '[' when only scalars and closers are covered) keep the Index of the token before them — in [1,[2]] the inner '[' reports Index 0 instead of 1")
			default:
				b.addP(props, core.Discharged, key, c.FuncPos(fn), "Index is stored before Next branches on the delimiter")
			}
		}
	}
	// (e) the literal scanners hand back the text right after the literal: the remainder is b[k:]
	// where the value is b[:k]. The Tokenizer keeps that remainder, and Remaining() is its length —
	// white space skipped inside the scanner moves the token's window
	for _, name := range []string{"json.(decoder).parseNull", "json.(decoder).parseTrue", "json.(decoder).parseFalse"} {
		props := []string{"C17", "C11"}
		key := "literal-scanner:remainder-follows-the-value:" + strings.TrimPrefix(name, "json.(decoder).")
		fn := c.Lookup(name)
		if fn == nil {
			b.addP(props, core.Undecided, key, "-", name+" not found")
			continue
		}
		n, bad := 0, ""
		for _, r := range returnsOf(fn) {
			if len(r.Results) < 2 {
				continue
			}
			v, isV := r.Results[0].(*ssa.Slice)
			if !isV || v.High == nil {
				continue
			}
			k, isK := constInt(v.High)
			if !isK {
				continue
			}
			n++
			rest, isR := r.Results[1].(*ssa.Slice)
			okR := false
			if isR && rest.X == v.X && rest.Low != nil {
				if lk, isLK := constInt(rest.Low); isLK && lk == k {
					okR = true
				}
			}
			if !okR {
				bad = c.InstrPos(r)
			}
		}
		switch {
		case n == 0:
			b.addP(props, core.Undecided, key, c.FuncPos(fn), "no successful return of the form b[:k], … found")
		case bad != "":
			b.addP(props, core.Violation, key, bad, name+" returns b[:k] as the value and something other than b[k:] as the remainder: the Tokenizer's Value no longer ends Remaining() bytes before the end of the input when the literal is followed by white space")
		default:
			b.addP(props, core.Discharged, key, c.FuncPos(fn), "value b[:k], remainder b[k:]")
		}
	}
	// (f) a Message field is sized with its length prefix unless it is the outermost value: the bare
	// size is returned under flags.has(toplevel) and under nothing else (an empty message still
	// takes its 00 length byte as an element of a repeated field)
	{
		props := []string{"C16", "C03"}
		key := "message-size:bare-only-at-top-level"
		var fn *ssa.Function
		for _, f := range c.RepoFunctions() {
			if f.Parent() != nil && f.Parent().Name() == "messageSizeFuncOf" && f.Blocks != nil {
				fn = f
			}
		}
		if fn == nil {
			b.addP(props, core.Undecided, key, "-", "the closure of proto.messageSizeFuncOf not found")
		} else {
			n, bad := 0, ""
			for _, r := range returnsOf(fn) {
				if len(r.Results) != 1 {
					continue
				}
				call, isC := r.Results[0].(*ssa.Call)
				if !isC || !call.Common().IsInvoke() || call.Common().Method.Name() != "Size" {
					continue
				}
				n++
				okT := false
				for _, a := range trueAtoms(r.Block(), 0) {
					if hc, isH := a.(*ssa.Call); isH {
						if g := staticCallee(hc.Common()); g != nil && g.Name() == "has" && len(hc.Common().Args) == 2 {
							if k, isK := constUint(hc.Common().Args[1]); isK {
								if tl, okTL := protoConst(c, "toplevel"); okTL && k == uint64(tl) {
									okT = true
								}
							}
						}
					}
				}
				if !okT {
					bad = c.InstrPos(r)
				}
			}
			switch {
			case n == 0:
				b.addP(props, core.Undecided, key, c.FuncPos(fn), "the message size function never returns m.Size() as it is")
			case bad != "":
				b.addP(props, core.Violation, key, bad, "the size of a Message is returned without its length prefix on a path that is not (only) the top-level one: the encoder still writes the prefix there, so Size is short — an empty element of a repeated Message field is counted as 0 bytes and written as 00, and MarshalTo fails with a short buffer whatever the buffer")
			default:
				b.addP(props, core.Discharged, key, c.FuncPos(fn), "m.Size() is returned bare only under flags.has(toplevel)")
			}
		}
	}
	// (g) an encoder that reports n > 0 bytes written has written them on that path: a return of a
	// positive constant count with a nil error is preceded, on every path, by a store into the
	// destination (a zero that "needs no store" is only zero if the caller's buffer was)
	{
		props := []string{"C16", "C03"}
		key := "encoder-count:bytes-reported-are-stored"
		n, bad := 0, ""
		for _, fn := range c.RepoFunctions() {
			name := shortName(fn)
			if fn.Blocks == nil || !strings.HasPrefix(name, "proto.encode") || len(fn.Params) == 0 || !isSliceType(fn.Params[0].Type()) {
				continue
			}
			dst := fn.Params[0]
			writes := map[*ssa.BasicBlock]bool{}
			for _, blk := range fn.Blocks {
				for _, in := range blk.Instrs {
					switch x := in.(type) {
					case *ssa.Store:
						if ia, ok := x.Addr.(*ssa.IndexAddr); ok {
							for _, o := range origins(ia.X) {
								if o == ssa.Value(dst) {
									writes[blk] = true
								}
								if sl, isS := o.(*ssa.Slice); isS && stripConv(sl.X) == ssa.Value(dst) {
									writes[blk] = true
								}
							}
						}
					case ssa.CallInstruction:
						for _, a := range x.Common().Args {
							root := a
							for {
								sl, ok := root.(*ssa.Slice)
								if !ok {
									break
								}
								root = sl.X
							}
							if root == ssa.Value(dst) {
								if bi, isB := x.Common().Value.(*ssa.Builtin); isB && bi.Name() == "len" {
									continue
								}
								writes[blk] = true
							}
						}
					}
				}
			}
			for _, r := range returnsOf(fn) {
				if len(r.Results) != 2 || !isNilConst(r.Results[1]) {
					continue
				}
				k, isK := constInt(r.Results[0])
				if !isK || k <= 0 {
					continue
				}
				n++
				// must-write: on every path from the entry to the return
				must := map[*ssa.BasicBlock]bool{}
				for _, blk := range fn.Blocks {
					must[blk] = true
				}
				must[fn.Blocks[0]] = false
				for changed := true; changed; {
					changed = false
					for _, blk := range fn.Blocks {
						if blk == fn.Blocks[0] {
							continue
						}
						v := true
						for _, pr := range blk.Preds {
							if !(must[pr] || writes[pr]) {
								v = false
							}
						}
						if v != must[blk] {
							must[blk] = v
							changed = true
						}
					}
				}
				if !(must[r.Block()] || writes[r.Block()]) {
					bad = c.InstrPos(r) + " (" + name + ")"
				}
			}
		}
		switch {
		case bad != "":
			b.addP(props, core.Violation, key, bad, "an encoder returns a positive byte count with a nil error at "+bad+" on a path that stores nothing into the destination: the bytes it claims are whatever the caller's buffer held (a fixed64 zero \"needs no store\" only if the buffer was zeroed — MarshalTo into a reused buffer emits the previous message's bytes)")
		default:
			b.addP(props, core.Discharged, key, "-", fmt.Sprintf("%d constant positive counts returned by proto encoders, each on a path that writes into the destination", n))
		}
	}
	// (h) the strings of an error value are the library's results like any other: what is stored into
	// an UnmarshalTypeError (Value, Field, Struct) is never an unsafe view of input bytes — the input,
	// or the Decoder's read buffer, changes under the caller who kept the error
	{
		props := []string{"C10"}
		key := "type-error:strings-are-copies"
		n, bad := 0, ""
		for _, fn := range c.RepoFunctions() {
			if fn.Blocks == nil || !strings.HasPrefix(shortName(fn), "json.") {
				continue
			}
			for _, blk := range fn.Blocks {
				for _, in := range blk.Instrs {
					st, ok := in.(*ssa.Store)
					if !ok {
						continue
					}
					fa, ok := st.Addr.(*ssa.FieldAddr)
					if !ok || !strings.Contains(fieldAddrID(fa), "UnmarshalTypeError.") || !isStringType(st.Val.Type()) {
						continue
					}
					n++
					for _, o := range append(origins(st.Val), st.Val) {
						if ld, isLd := o.(*ssa.UnOp); isLd && ld.Op == token.MUL {
							if cv, isC := ld.X.(*ssa.Convert); isC {
								if _, fromPtr := cv.X.Type().Underlying().(*types.Basic); fromPtr {
									bad = c.InstrPos(st) + " (" + shortName(fn) + ": " + fieldNameOf(fa) + ")"
								}
							}
						}
					}
				}
			}
		}
		switch {
		case n == 0:
			b.addP(props, core.Undecided, key, "-", "no store into an UnmarshalTypeError found")
		case bad != "":
			b.addP(props, core.Violation, key, bad, "a string field of an UnmarshalTypeError is an unsafe view of a byte slice at "+bad+": the text of the error is the caller's input (or the Decoder's read buffer), so it changes when that memory is reused — without any zero-copy flag having been given")
		default:
			b.addP(props, core.Discharged, key, "-", fmt.Sprintf("%d stores into UnmarshalTypeError string fields, none an unsafe view", n))
		}
	}
	// (i) null sets a map to nil, in every map decoder alike (encoding/json: "null into a map sets
	// it to nil", also when the target holds entries from an earlier decode)
	{
		props := []string{"C02"}
		key := "decode-map:null-clears-the-map"
		n, bad := 0, ""
		for _, fn := range c.RepoFunctions() {
			name := shortName(fn)
			if fn.Blocks == nil || !strings.HasPrefix(name, "json.(decoder).decodeMap") {
				continue
			}
			var nullBlk *ssa.BasicBlock
			for _, blk := range fn.Blocks {
				if nullBlk != nil {
					break
				}
				for _, a := range trueAtoms(blk, 0) {
					if call, isC := a.(*ssa.Call); isC {
						if g := staticCallee(call.Common()); g != nil && g.Name() == "hasNullPrefix" && len(blk.Preds) == 1 && blk.Preds[0] == call.Block() {
							nullBlk = blk
						}
					}
				}
			}
			if nullBlk == nil {
				continue
			}
			n++
			clears := false
			for _, in := range nullBlk.Instrs {
				switch x := in.(type) {
				case *ssa.Store:
					if isNilConst(x.Val) {
						clears = true
					}
				case ssa.CallInstruction:
					// the reflect-based decoder: v.Set(reflect.Zero(t)) and the like
					cn := calleeName(x.Common())
					if strings.Contains(cn, "reflect.") && (strings.HasSuffix(cn, ".Set") || strings.HasSuffix(cn, "SetZero") || strings.Contains(cn, "Zero")) {
						clears = true
					}
				}
			}
			if !clears {
				bad = c.InstrPos(nullBlk.Instrs[0]) + " (" + name + ")"
			}
		}
		switch {
		case n == 0:
			b.addP(props, core.Undecided, key, "-", "no map decoder with a null arm found")
		case bad != "":
			b.addP(props, core.Violation, key, bad, "the null arm of a map decoder at "+bad+" returns without setting the map to nil, unlike its siblings: a map that holds entries from an earlier decode keeps them when the next document says null, where encoding/json sets it to nil")
		default:
			b.addP(props, core.Discharged, key, "-", fmt.Sprintf("%d map decoders, each sets the map to nil on null", n))
		}
	}
	// (j) the generic map encoder reads the data word of the reflect.Values it encodes
	// ((*iface)(&v).ptr): that word is the value itself for the pointer-shaped results of MapKeys,
	// MapIndex and the iterator's Key/Value, and the address of the slot for an addressable Value. It
	// therefore never makes addressable Values of its own (reflect.New(t).Elem() filled with
	// SetIterKey/SetIterValue): the encoders of pointer-shaped types would dereference one level too
	// few and write an address
	{
		props := []string{"C14", "C01"}
		key := "encode-map:no-addressable-scratch-values"
		fn := c.Lookup("json.(encoder).encodeMap")
		if fn == nil {
			b.addP(props, core.Undecided, key, "-", "json.(encoder).encodeMap not found")
		} else {
			bad := ""
			for _, f := range append([]*ssa.Function{fn}, fn.AnonFuncs...) {
				for _, ci := range callsIn(f) {
					cn := calleeName(ci.Common())
					if cn == "reflect.New" || strings.HasSuffix(cn, "SetIterKey") || strings.HasSuffix(cn, "SetIterValue") {
						bad = c.InstrPos(ci) + " (" + cn + ")"
					}
				}
			}
			if bad != "" {
				b.addP(props, core.Violation, key, bad, "encodeMap builds or fills an addressable reflect.Value at "+bad+" and then hands its data word to the key/value encoders: for an addressable Value that word is the address of the slot, not the pointer-shaped value, so map[int]*int is written as {\"1\":824634485512} and a nil pointer as a zero struct — on the unsorted path only")
			} else {
				b.addP(props, core.Discharged, key, c.FuncPos(fn), "the Values encoded come from the map itself (MapKeys, MapIndex)")
			}
		}
	}
	// (k) the map header carries the key and value types whatever the count: an empty map in the
	// binary protocol is ktype vtype 00 00 00 00, not six zero bytes. Every WriteMap of the map
	// encoder is given a Map whose Key and Value come from TypeOf.
	{
		props := []string{"C13"}
		key := "encode-map-header:types-always-announced"
		var fn *ssa.Function
		for _, f := range c.RepoFunctions() {
			if f.Parent() != nil && f.Parent().Name() == "encodeFuncMapOf" && f.Blocks != nil && strings.HasPrefix(shortName(f), "thrift.") {
				fn = f
			}
		}
		if fn == nil {
			b.addP(props, core.Undecided, key, "-", "the closure of thrift.encodeFuncMapOf not found")
		} else {
			n, bad := 0, ""
			for _, ci := range callsIn(fn) {
				cc := ci.Common()
				if !cc.IsInvoke() || cc.Method.Name() != "WriteMap" || len(cc.Args) != 1 {
					continue
				}
				n++
				// the argument is a load of a local Map literal: its Key and Value fields are stored
				okK, okV := false, false
				if ld, isLd := cc.Args[0].(*ssa.UnOp); isLd && ld.Op == token.MUL {
					if cell, isA := ld.X.(*ssa.Alloc); isA {
						for _, blk := range fn.Blocks {
							for _, in := range blk.Instrs {
								st, isSt := in.(*ssa.Store)
								if !isSt {
									continue
								}
								fa, isFA := st.Addr.(*ssa.FieldAddr)
								if !isFA || fa.X != ssa.Value(cell) {
									continue
								}
								if _, isK := st.Val.(*ssa.Const); isK {
									continue
								}
								switch fieldNameOf(fa) {
								case "Key":
									okK = true
								case "Value":
									okV = true
								}
							}
						}
					}
				}
				if !okK || !okV {
					bad = c.InstrPos(ci)
				}
			}
			switch {
			case n == 0:
				b.addP(props, core.Undecided, key, c.FuncPos(fn), "the map encoder does not call WriteMap")
			case bad != "":
				b.addP(props, core.Violation, key, bad, "the map encoder calls WriteMap with a Map whose Key or Value type is not set: in the binary protocol the header of an empty map is written as 00 00 followed by the count, where the specification has the key and value type codes — the bytes are not the specification's encoding of the (empty) map")
			default:
				b.addP(props, core.Discharged, key, c.FuncPos(fn), fmt.Sprintf("%d WriteMap call(s), each with Key and Value set", n))
			}
		}
	}
	// (l) what a repeated field takes on the wire is never computed from what its elements take in
	// memory: alignedSize is for pointer arithmetic over the slice, the size function adds up what the
	// element codec reports (a *float32 element is 8 bytes in memory and 4 on the wire)
	{
		props := []string{"C03", "C16"}
		key := "repeated-size:not-from-memory-size"
		fn := c.Lookup("proto.sliceSizeFuncOf")
		if fn == nil {
			b.addP(props, core.Undecided, key, "-", "proto.sliceSizeFuncOf not found")
		} else {
			isMem := func(x ssa.Value) bool {
				if call, ok := x.(*ssa.Call); ok {
					if g := staticCallee(call.Common()); g != nil && g.Name() == "alignedSize" {
						return true
					}
				}
				return false
			}
			bad := ""
			for _, f := range append([]*ssa.Function{fn}, fn.AnonFuncs...) {
				// captured values derived from alignedSize in the constructor
				memFree := map[ssa.Value]bool{}
				if f != fn {
					for _, blk := range fn.Blocks {
						for _, in := range blk.Instrs {
							mc, ok := in.(*ssa.MakeClosure)
							if !ok || mc.Fn != ssa.Value(f) {
								continue
							}
							for i, bnd := range mc.Bindings {
								src := bnd
								tainted := dependsOn(src, isMem)
								if al, isA := bnd.(*ssa.Alloc); isA {
									for _, sv := range cellStores(al) {
										if dependsOn(sv, isMem) {
											tainted = true
										}
									}
								}
								if tainted && i < len(f.FreeVars) {
									memFree[f.FreeVars[i]] = true
								}
							}
						}
					}
				}
				// arithmetic flow only (sums, products, conversions, φ): what a codec call returns
				// for an element located with alignedSize does not count
				seenV := map[ssa.Value]bool{}
				var arith func(x ssa.Value, depth int) bool
				arith = func(x ssa.Value, depth int) bool {
					if depth > 12 || seenV[x] {
						return false
					}
					seenV[x] = true
					defer delete(seenV, x)
					if isMem(x) || memFree[x] {
						return true
					}
					switch y := x.(type) {
					case *ssa.BinOp:
						return arith(y.X, depth+1) || arith(y.Y, depth+1)
					case *ssa.Convert:
						return arith(y.X, depth+1)
					case *ssa.ChangeType:
						return arith(y.X, depth+1)
					case *ssa.Phi:
						for _, e := range y.Edges {
							if arith(e, depth+1) {
								return true
							}
						}
					case *ssa.UnOp:
						if y.Op == token.MUL {
							if memFree[y.X] {
								return true
							}
							if cell := cellOf(y.X); cell != nil {
								for _, sv := range cellStores(cell) {
									if arith(sv, depth+1) {
										return true
									}
								}
							}
						}
					}
					return false
				}
				for _, r := range returnsOf(f) {
					for _, res := range r.Results {
						if arith(res, 0) {
							bad = c.InstrPos(r)
						}
					}
				}
			}
			if bad != "" {
				b.addP(props, core.Violation, key, bad, "the size of a repeated field is computed from alignedSize — the element's size in memory — at "+bad+": for a repeated field of pointers to fixed-width values ([]*float32: 8 bytes in memory, 4 on the wire) the size is too large, the enclosing message's length prefix swallows the fields that follow, and Size no longer equals len(Marshal)")
			} else {
				b.addP(props, core.Discharged, key, c.FuncPos(fn), "no result of the slice size function derives from alignedSize")
			}
		}
	}
	// (m) whether a Message field is written does not depend on its size: an empty message is
	// written as a tag and a zero length (repeated elements and non-nil pointers must stay present),
	// so neither the size nor the encode function compares m.Size() with zero
	{
		props := []string{"C03", "C12"}
		key := "message-codec:empty-message-still-written"
		n, bad := 0, ""
		for _, f := range c.RepoFunctions() {
			if f.Parent() == nil || f.Blocks == nil || !(f.Parent().Name() == "messageSizeFuncOf" || f.Parent().Name() == "messageEncodeFuncOf") {
				continue
			}
			n++
			for _, blk := range f.Blocks {
				for _, in := range blk.Instrs {
					bo, ok := in.(*ssa.BinOp)
					if !ok || (bo.Op != token.EQL && bo.Op != token.NEQ) {
						continue
					}
					if k, isK := constInt(bo.Y); !isK || k != 0 {
						continue
					}
					if call, isC := bo.X.(*ssa.Call); isC && call.Common().IsInvoke() && call.Common().Method.Name() == "Size" {
						bad = c.InstrPos(bo) + " (" + shortName(f) + ")"
					}
				}
			}
		}
		switch {
		case n == 0:
			b.addP(props, core.Undecided, key, "-", "the closures of proto.messageSizeFuncOf / messageEncodeFuncOf not found")
		case bad != "":
			b.addP(props, core.Violation, key, bad, "the Message codec tests m.Size() against zero at "+bad+" and leaves an empty message out: an empty element of a repeated Message field becomes a tag without a length (Unmarshal fails or merges elements), and a non-nil pointer to an empty message comes back nil")
		default:
			b.addP(props, core.Discharged, key, "-", fmt.Sprintf("%d Message codec closures, none compares m.Size() with zero", n))
		}
	}
	// (n) a Go string is a sequence of bytes, and what Marshal writes Unmarshal reads back: the proto
	// and thrift codecs never validate UTF-8 (a check on one side only makes the library reject its
	// own output)
	{
		props := []string{"C03", "C04"}
		key := "string-codecs:no-utf8-validation"
		n, bad := 0, ""
		for _, fn := range c.RepoFunctions() {
			name := shortName(fn)
			if fn.Blocks == nil || !(strings.HasPrefix(name, "proto.") || strings.HasPrefix(name, "thrift.")) {
				continue
			}
			n++
			for _, ci := range callsIn(fn) {
				if cn := calleeName(ci.Common()); strings.HasPrefix(cn, "unicode/utf8.Valid") {
					bad = c.InstrPos(ci) + " (" + name + ")"
				}
			}
		}
		switch {
		case n == 0:
			b.addP(props, core.Undecided, key, "-", "no function of proto or thrift found")
		case bad != "":
			b.addP(props, core.Violation, key, bad, "a proto or thrift function validates UTF-8 at "+bad+": the encoders write any Go string, so a string holding a Latin-1 byte or binary data marshals and then fails to unmarshal — Unmarshal(Marshal(v)) is an error")
		default:
			b.addP(props, core.Discharged, key, "-", fmt.Sprintf("%d functions of proto and thrift, none calls utf8.Valid*", n))
		}
	}
	// (o) the struct decoder looks a field up at id-minID: its table is made for that purpose, one
	// slot per id between the smallest and the largest. The list of fields in declaration order is
	// not that table even when it has the same length (ids 2,1,3).
	{
		props := []string{"C04"}
		key := "struct-decoder:table-indexed-by-id"
		fn := c.Lookup("thrift.decodeFuncStructOf")
		if fn == nil {
			b.addP(props, core.Undecided, key, "-", "thrift.decodeFuncStructOf not found")
		} else {
			n, bad := 0, ""
			for _, f := range append([]*ssa.Function{fn}, fn.AnonFuncs...) {
				for _, blk := range f.Blocks {
					for _, in := range blk.Instrs {
						st, ok := in.(*ssa.Store)
						if !ok {
							continue
						}
						fa, ok := st.Addr.(*ssa.FieldAddr)
						if !ok || !strings.HasSuffix(fieldAddrID(fa), "structDecoder.fields") {
							continue
						}
						n++
						for _, o := range origins(st.Val) {
							if _, isMk := o.(*ssa.MakeSlice); !isMk {
								bad = c.InstrPos(st)
							}
						}
					}
				}
			}
			switch {
			case n == 0:
				b.addP(props, core.Undecided, key, c.FuncPos(fn), "no store to structDecoder.fields found")
			case bad != "":
				b.addP(props, core.Violation, key, bad, "structDecoder.fields is assigned something other than a table made for it: the decoder indexes it with id-minID, so a list in declaration order makes fields with contiguous ids declared out of order (2, 1, 3) swap their values")
			default:
				b.addP(props, core.Discharged, key, c.FuncPos(fn), "the lookup table is a slice made by the constructor")
			}
		}
	}
	// (p) a thrift container encoder announces its container on every path: a nil set, list or map
	// is an empty one on the wire (header with count 0), never nothing at all — a required field, a
	// list element or a map value that writes no bytes shifts everything after it
	{
		props := []string{"C04", "C13"}
		n, bad := 0, ""
		for _, f := range c.RepoFunctions() {
			if f.Parent() == nil || f.Blocks == nil || !strings.HasPrefix(shortName(f), "thrift.") {
				continue
			}
			pn := f.Parent().Name()
			if !(pn == "encodeFuncSliceOf" || pn == "encodeFuncMapOf" || pn == "encodeFuncMapAsSetOf") {
				continue
			}
			writes := map[*ssa.BasicBlock]bool{}
			for _, ci := range callsIn(f) {
				cc := ci.Common()
				if cc.IsInvoke() && (cc.Method.Name() == "WriteList" || cc.Method.Name() == "WriteSet" || cc.Method.Name() == "WriteMap") {
					writes[ci.Block()] = true
				}
			}
			must := map[*ssa.BasicBlock]bool{}
			for _, blk := range f.Blocks {
				must[blk] = true
			}
			must[f.Blocks[0]] = false
			for changed := true; changed; {
				changed = false
				for _, blk := range f.Blocks {
					if blk == f.Blocks[0] {
						continue
					}
					v := true
					for _, pr := range blk.Preds {
						if !(must[pr] || writes[pr]) {
							v = false
						}
					}
					if v != must[blk] {
						must[blk] = v
						changed = true
					}
				}
			}
			for _, r := range returnsOf(f) {
				if len(r.Results) != 1 || !isNilConst(r.Results[0]) {
					continue
				}
				n++
				if !(must[r.Block()] || writes[r.Block()]) {
					bad = c.InstrPos(r) + " (" + shortName(f) + ")"
				}
			}
		}
		key := "container-encoder:header-on-every-path"
		switch {
		case n == 0:
			b.addP(props, core.Undecided, key, "-", "no successful return found in thrift's container encoders")
		case bad != "":
			b.addP(props, core.Violation, key, bad, "a container encoder returns success at "+bad+" on a path that wrote no list, set or map header: a nil collection where a value must be emitted (a required field, a list element, a map value) produces no bytes at all, and the reader takes what follows for the container")
		default:
			b.addP(props, core.Discharged, key, "-", fmt.Sprintf("%d successful returns of container encoders, each after the header was written", n))
		}
	}
	// (q) dontExpectEOF compares its argument with io.EOF by identity: what it is given is the error
	// of the read itself, not a wrapper built around it (fmt.Errorf with %w) — a wrapped io.EOF goes
	// through unchanged, and truncated input is reported as a clean end of stream
	{
		props := []string{"C08"}
		key := "dont-expect-eof:given-the-raw-error"
		n, bad := 0, ""
		for _, fn := range c.RepoFunctions() {
			if fn.Blocks == nil || !strings.HasPrefix(shortName(fn), "thrift.") {
				continue
			}
			for _, ci := range callsIn(fn) {
				g := staticCallee(ci.Common())
				if g == nil || g.Name() != "dontExpectEOF" || len(ci.Common().Args) != 1 {
					continue
				}
				n++
				for _, o := range origins(ci.Common().Args[0]) {
					if call, isC := o.(*ssa.Call); isC {
						if cn := calleeName(call.Common()); strings.HasPrefix(cn, "fmt.Errorf") || strings.HasPrefix(cn, "errors.Join") {
							bad = c.InstrPos(ci) + " (" + shortName(fn) + ")"
						}
					}
				}
			}
		}
		switch {
		case n == 0:
			b.addP(props, core.Undecided, key, "-", "no call of dontExpectEOF found")
		case bad != "":
			b.addP(props, core.Violation, key, bad, "dontExpectEOF is handed an error built by fmt.Errorf at "+bad+": it recognises io.EOF by identity, so the wrapped end-of-file passes through and input cut between a length prefix and its payload yields io.EOF instead of io.ErrUnexpectedEOF")
		default:
			b.addP(props, core.Discharged, key, "-", fmt.Sprintf("%d calls of dontExpectEOF, none on a wrapped error", n))
		}
	}
	// (r) io.ReadAll treats the end of the stream as success: a thrift reader that collects a
	// length-prefixed value with it returns a shorter value and no error when the input is cut
	{
		props := []string{"C08"}
		key := "thrift-readers:no-read-all"
		bad := ""
		for _, fn := range c.RepoFunctions() {
			if fn.Blocks == nil || !strings.HasPrefix(shortName(fn), "thrift.") {
				continue
			}
			for _, ci := range callsIn(fn) {
				if cn := calleeName(ci.Common()); cn == "io.ReadAll" || cn == "io/ioutil.ReadAll" {
					bad = c.InstrPos(ci) + " (" + shortName(fn) + ")"
				}
			}
		}
		if bad != "" {
			b.addP(props, core.Violation, key, bad, "a thrift function reads a value with io.ReadAll at "+bad+": the end of the input is not an error for ReadAll, so a string cut short is returned as a shorter string with a nil error where truncated input must be reported as unexpected EOF")
		} else {
			b.addP(props, core.Discharged, key, "-", "no function of package thrift calls io.ReadAll")
		}
	}
	// (s) a map key type whose pointer implements TextUnmarshaler is decoded by UnmarshalText
	// whatever its kind (encoding/json: "if the key type implements encoding.TextUnmarshaler …" —
	// only the *encoding* side makes an exception for string kinds)
	{
		props := []string{"C02"}
		key := "map-key-decoder:text-unmarshaler-whatever-the-kind"
		fn := c.Lookup("json.constructMapCodec")
		if fn == nil {
			b.addP(props, core.Undecided, key, "-", "json.constructMapCodec not found")
		} else {
			n, bad := 0, ""
			for _, ci := range callsIn(fn) {
				g := staticCallee(ci.Common())
				if g == nil || g.Name() != "constructTextUnmarshalerDecodeFunc" {
					continue
				}
				n++
				for _, e := range dominatingEdges(ci.Block()) {
					if dependsOn(e.ifi.Cond, func(x ssa.Value) bool {
						call, ok := x.(*ssa.Call)
						return ok && call.Common().IsInvoke() && call.Common().Method.Name() == "Kind"
					}) {
						bad = c.InstrPos(ci)
					}
				}
			}
			switch {
			case n == 0:
				b.addP(props, core.Undecided, key, c.FuncPos(fn), "constructMapCodec installs no TextUnmarshaler key decoder")
			case bad != "":
				b.addP(props, core.Violation, key, bad, "the TextUnmarshaler key decoder is installed only under a test of the key's kind: a named string-kind key type with UnmarshalText is decoded as a plain string, so {\"A\":1} lands under \"A\" where encoding/json calls UnmarshalText (\"a\"), and keys that UnmarshalText rejects are accepted")
			default:
				b.addP(props, core.Discharged, key, c.FuncPos(fn), "installed under Implements(TextUnmarshaler) alone")
			}
		}
	}
	// (t) Time.MarshalJSON fails for years outside [0,9999] — negative years included: encodeTime
	// looks at the text it formatted (the byte after four year digits must be '-'), not at a
	// one-sided comparison of t.Year()
	{
		props := []string{"C01"}
		key := "time:year-width-checked-on-the-text"
		fn := c.Lookup("json.(encoder).encodeTime")
		if fn == nil {
			b.addP(props, core.Undecided, key, "-", "json.(encoder).encodeTime not found")
		} else {
			ok := false
			for _, blk := range fn.Blocks {
				for _, in := range blk.Instrs {
					bo, isBO := in.(*ssa.BinOp)
					if !isBO || (bo.Op != token.NEQ && bo.Op != token.EQL) {
						continue
					}
					if k, isK := constInt(bo.Y); !isK || k != '-' {
						continue
					}
					ld, isLd := bo.X.(*ssa.UnOp)
					if !isLd || ld.Op != token.MUL {
						continue
					}
					ia, isIA := ld.X.(*ssa.IndexAddr)
					if !isIA {
						continue
					}
					if st := flattenSum(ia.Index); st.k == 5 && len(st.terms) == 1 {
						ok = true
					}
				}
			}
			if ok {
				b.addP(props, core.Discharged, key, c.FuncPos(fn), "the byte after the four year digits is compared with '-'")
			} else {
				b.addP(props, core.Violation, key, c.FuncPos(fn), "encodeTime no longer checks that the formatted year is exactly four digits wide (the byte at start+5 is '-'): a one-sided test such as t.Year() > 9999 lets negative years through — time.Date(-44, …) is written as \"-0044-…\" where encoding/json returns \"year outside of range [0,9999]\"")
			}
		}
	}
	// (u) a 32-bit scalar decoder accepts the largest value of its type: the overflow test is
	// v > Max (or v < Min), never >= / <=
	{
		props := []string{"C03", "C12"}
		key := "scalar-decoders:bounds-are-inclusive"
		n, bad := 0, ""
		for _, fn := range c.RepoFunctions() {
			name := shortName(fn)
			if fn.Blocks == nil || !strings.HasPrefix(name, "proto.decode") {
				continue
			}
			for _, blk := range fn.Blocks {
				for _, in := range blk.Instrs {
					bo, ok := in.(*ssa.BinOp)
					if !ok {
						continue
					}
					ku, isU := constUint(bo.Y)
					ki, isI := constInt(bo.Y)
					switch {
					case isU && (ku == math.MaxUint32 || ku == math.MaxInt32) && (bo.Op == token.GTR || bo.Op == token.GEQ):
						n++
						if bo.Op == token.GEQ {
							bad = c.InstrPos(bo) + " (" + name + ")"
						}
					case isI && ki == math.MinInt32 && (bo.Op == token.LSS || bo.Op == token.LEQ):
						n++
						if bo.Op == token.LEQ {
							bad = c.InstrPos(bo) + " (" + name + ")"
						}
					}
				}
			}
		}
		switch {
		case n == 0:
			b.addP(props, core.Undecided, key, "-", "no comparison with a 32-bit bound found in proto's scalar decoders")
		case bad != "":
			b.addP(props, core.Violation, key, bad, "a scalar decoder rejects the bound itself at "+bad+" (>= where > is meant): Marshal writes math.MaxUint32 and Unmarshal of those bytes fails with an overflow error")
		default:
			b.addP(props, core.Discharged, key, "-", fmt.Sprintf("%d comparisons with 32-bit bounds in proto's scalar decoders, all strict", n))
		}
	}
	// (v) what is skipped is what the wire says is there: the element types handed to skipValues
	// come from the header that was just read (l.Type, s.Type, m.Key, m.Value), not from the type the
	// target expects — those differ exactly when skipValues is called
	{
		props := []string{"C08", "C04"}
		key := "skip-values:given-the-wire-types"
		n, bad := 0, ""
		for _, fn := range c.RepoFunctions() {
			name := shortName(fn)
			if fn.Blocks == nil || !strings.HasPrefix(name, "thrift.") {
				continue
			}
			for _, ci := range callsIn(fn) {
				g := staticCallee(ci.Common())
				if g == nil || g.Name() != "skipValues" {
					continue
				}
				n++
				for _, a := range ci.Common().Args {
					// the variadic types: a slice built from an array literal whose elements are stored
					if !isSliceType(a.Type()) {
						continue
					}
					sl, ok := a.(*ssa.Slice)
					if !ok {
						continue
					}
					arr, ok := sl.X.(*ssa.Alloc)
					if !ok {
						continue
					}
					for _, blk := range fn.Blocks {
						for _, in := range blk.Instrs {
							st, isSt := in.(*ssa.Store)
							if !isSt {
								continue
							}
							ia, isIA := st.Addr.(*ssa.IndexAddr)
							if !isIA || ia.X != ssa.Value(arr) {
								continue
							}
							fromHeader := false
							for _, o := range append(origins(st.Val), st.Val) {
								if f, isF := fieldOfLoad(o); isF && (strings.HasSuffix(f, ".Type") || strings.HasSuffix(f, ".Key") || strings.HasSuffix(f, ".Value")) {
									fromHeader = true
								}
								if ex, isE := o.(*ssa.Extract); isE {
									_ = ex
								}
							}
							if !fromHeader {
								bad = c.InstrPos(ci) + " (" + name + ")"
							}
						}
					}
				}
			}
		}
		switch {
		case n == 0:
			b.addP(props, core.Undecided, key, "-", "no call of skipValues found")
		case bad != "":
			b.addP(props, core.Violation, key, bad, "skipValues is told to skip elements of a type that does not come from the container header just read (the type the target expects instead): the call is made exactly when the two differ, so the elements are consumed with the wrong width and the reader loses its place — valid input ends in trailing bytes or unexpected EOF")
		default:
			b.addP(props, core.Discharged, key, "-", fmt.Sprintf("%d calls of skipValues, each with the types read from the wire", n))
		}
	}
	// (w) the string hints (noBackslash, validAsciiPrint) describe the whole document: the scan that
	// computes them looks at all of it (surrounding white space aside) — a bounded prefix leaves the
	// scanner trusting "no backslash" for text nobody looked at
	{
		props := []string{"C17", "C02", "C05"}
		key := "parse-hints:computed-over-the-whole-input"
		fn := c.Lookup("json.internalParseFlags")
		if fn == nil {
			b.addP(props, core.Undecided, key, "-", "json.internalParseFlags not found")
		} else {
			bad := ""
			for _, blk := range fn.Blocks {
				for _, in := range blk.Instrs {
					if sl, ok := in.(*ssa.Slice); ok && sl.High != nil {
						bad = c.InstrPos(sl)
					}
				}
			}
			if bad != "" {
				b.addP(props, core.Violation, key, bad, "internalParseFlags cuts the text it scans at "+bad+" and still sets the hints for the whole input: a document with its first backslash beyond the cut is scanned with noBackslash set, so a string token ends at an escaped quote and a valid document is reported as a syntax error")
			} else {
				b.addP(props, core.Discharged, key, c.FuncPos(fn), "the hints are computed over the trimmed input, uncut")
			}
		}
	}
	// (x) AppendVarlen appends a field whatever its payload: an empty string, bytes or message is a
	// field with length 0 (an element of a repeated field must stay an element)
	{
		props := []string{"C19"}
		key := "append-varlen:always-appends"
		fn := c.Lookup("proto.AppendVarlen")
		if fn == nil {
			b.addP(props, core.Undecided, key, "-", "proto.AppendVarlen not found")
		} else {
			bad := ""
			for _, r := range returnsOf(fn) {
				for _, res := range r.Results {
					if _, isP := res.(*ssa.Parameter); isP {
						bad = c.InstrPos(r)
					}
				}
			}
			if bad != "" {
				b.addP(props, core.Violation, key, bad, "AppendVarlen returns the message as it was on some path (an empty payload): MultiRewriter(String(\"a\"), String(\"\"), String(\"b\")) rewrites a repeated field to [a b] — the empty element is gone")
			} else {
				b.addP(props, core.Discharged, key, c.FuncPos(fn), "every return is the message with the field appended")
			}
		}
	}
	// (y) the text inside the quotes of a `,string` integer is the number and nothing else: what the
	// integer decoder leaves over is tested for emptiness as it is — white space inside the quotes
	// ("12 ") is a type error in encoding/json
	{
		props := []string{"C02"}
		key := "string-option-int:leftover-tested-raw"
		fn := c.Lookup("json.(decoder).decodeFromStringToInt")
		if fn == nil {
			b.addP(props, core.Undecided, key, "-", "json.(decoder).decodeFromStringToInt not found")
		} else {
			n, bad := 0, ""
			for _, blk := range fn.Blocks {
				for _, in := range blk.Instrs {
					bo, ok := in.(*ssa.BinOp)
					if !ok || (bo.Op != token.NEQ && bo.Op != token.EQL) {
						continue
					}
					la, isLen := lenArg(bo.X)
					if k, isK := constInt(bo.Y); !isLen || !isK || k != 0 {
						continue
					}
					n++
					if call, isC := la.(*ssa.Call); isC {
						if g := staticCallee(call.Common()); g != nil && strings.HasPrefix(g.Name(), "skipSpaces") {
							bad = c.InstrPos(bo)
						}
					}
				}
			}
			switch {
			case bad != "":
				b.addP(props, core.Violation, key, bad, "decodeFromStringToInt skips white space before testing what the integer decoder left of the quoted text: {\"a\":\"12 \"} is accepted where encoding/json returns an UnmarshalTypeError")
			case n == 0:
				b.addP(props, core.Undecided, key, c.FuncPos(fn), "no emptiness test found in decodeFromStringToInt")
			default:
				b.addP(props, core.Discharged, key, c.FuncPos(fn), "no emptiness test is made on a skipSpaces result")
			}
		}
	}
	// (z) the length-delimited scalar decoders of proto get their payload from decodeVarlen, which
	// checks the announced length against the bytes available: they never slice the input themselves
	// (a top-level string target is handed the raw input, not a window cut to size)
	{
		props := []string{"C07"}
		key := "varlen-decoders:payload-from-decodeVarlen"
		n, bad := 0, ""
		for _, name := range []string{"proto.decodeString", "proto.decodeBytes"} {
			fn := c.Lookup(name)
			if fn == nil || len(fn.Params) == 0 {
				continue
			}
			n++
			for _, blk := range fn.Blocks {
				for _, in := range blk.Instrs {
					if sl, ok := in.(*ssa.Slice); ok && stripConv(sl.X) == ssa.Value(fn.Params[0]) {
						bad = c.InstrPos(sl) + " (" + name + ")"
					}
				}
			}
		}
		switch {
		case n == 0:
			b.addP(props, core.Undecided, key, "-", "proto.decodeString / decodeBytes not found")
		case bad != "":
			b.addP(props, core.Violation, key, bad, "a length-delimited decoder slices its input itself at "+bad+" instead of taking the payload from decodeVarlen: the announced length is not checked against the bytes available, so a truncated top-level string panics (slice bounds out of range) or is decoded from the spare capacity of the caller's buffer")
		default:
			b.addP(props, core.Discharged, key, "-", fmt.Sprintf("%d length-delimited decoders, none slices its input", n))
		}
	}
	// (ab) a protobuf struct tag is wire type, number, label, then options: parseStructTag refuses a
	// tag only for what it finds in the first three positions. An option it does not know (oneof,
	// packed, def=…) is kept as an extension — refusing it makes structCodecOf, which ignores tags
	// that do not parse, fall back to the positional number and the varint encoding for the field.
	{
		props := []string{"C12", "C03"}
		key := "struct-tag:unknown-options-are-not-errors"
		fn := c.Lookup("proto.parseStructTag")
		if fn == nil {
			b.addP(props, core.Undecided, key, "-", "proto.parseStructTag not found")
		} else {
			count := map[ssa.Value]int{}
			for _, blk := range fn.Blocks {
				for _, in := range blk.Instrs {
					if bo, ok := in.(*ssa.BinOp); ok && bo.Op == token.EQL {
						if k, isK := constInt(bo.Y); isK && k >= 0 && k <= 2 {
							if bt, isB := bo.X.Type().Underlying().(*types.Basic); isB && bt.Kind() == types.Int {
								count[bo.X]++
							}
						}
					}
				}
			}
			var pos ssa.Value
			for v, k := range count {
				if pos == nil || k > count[pos] {
					pos = v
				}
			}
			if pos == nil || count[pos] < 3 {
				b.addP(props, core.Undecided, key, c.FuncPos(fn), "parseStructTag does not dispatch on the position of the tag's parts")
			} else {
				universe := []int64{0, 1, 2}
				flow := constFlow(fn, pos, universe)
				other := uint32(1) << uint(len(universe))
				n, bad := 0, ""
				for _, r := range returnsOf(fn) {
					if len(r.Results) != 2 || isNilConst(r.Results[1]) {
						continue
					}
					n++
					set, ok := flow[r.Block()]
					if !ok || set&other != 0 {
						bad = c.InstrPos(r)
					}
				}
				switch {
				case n == 0:
					b.addP(props, core.Undecided, key, c.FuncPos(fn), "parseStructTag returns no error")
				case bad != "":
					b.addP(props, core.Violation, key, bad, "parseStructTag returns an error at "+bad+" for something beyond the third part of the tag (an option): structCodecOf ignores a tag that does not parse, so a field tagged fixed64,7,opt,name=id,proto3,oneof is encoded as positional field 2 with a varint — not the message the tag describes")
				default:
					b.addP(props, core.Discharged, key, c.FuncPos(fn), fmt.Sprintf("%d error returns, each for the wire type, the number or the label", n))
				}
			}
		}
	}
	// (a) zig-zag decoding shifts the unsigned word: (v >> 1) ^ -(v & 1) with a logical shift. On a
	// value converted to a signed type first the shift carries the sign bit along, and every value
	// whose zig-zag form has the top bit set (|x| >= 2^30 for sint32) decodes to another number.
	{
		props := []string{"C19", "C12"}
		n, bad := 0, ""
		for _, name := range []string{"proto.decodeZigZag32", "proto.decodeZigZag64"} {
			fn := c.Lookup(name)
			if fn == nil {
				continue
			}
			for _, blk := range fn.Blocks {
				for _, in := range blk.Instrs {
					bo, ok := in.(*ssa.BinOp)
					if !ok || bo.Op != token.SHR {
						continue
					}
					n++
					if bt, isB := bo.X.Type().Underlying().(*types.Basic); !isB || bt.Info()&types.IsUnsigned == 0 {
						bad = c.InstrPos(bo) + " (" + name + ")"
					}
				}
			}
		}
		key := "zigzag-decode:logical-shift"
		switch {
		case n == 0:
			b.addP(props, core.Undecided, key, "-", "no shift found in proto.decodeZigZag32/64")
		case bad != "":
			b.addP(props, core.Violation, key, bad, "the zig-zag decoder shifts a signed value at "+bad+": the arithmetic shift keeps the sign bit, so a zig-zag word with its top bit set (a sint32 of magnitude 2^30 and more) decodes to a different number — BitOr on such a field rewrites it to garbage")
		default:
			b.addP(props, core.Discharged, key, "-", fmt.Sprintf("%d shifts in the zig-zag decoders, each on an unsigned operand", n))
		}
	}
	// (b) FieldNumber.Value writes a float32 as a fixed32 field: widening it to float64 first changes
	// the wire type of the field (fixed64), which the field's codec rejects
	{
		props := []string{"C19"}
		key := "field-value:float32-stays-32-bits"
		fn := c.Lookup("proto.(FieldNumber).Value")
		if fn == nil {
			b.addP(props, core.Undecided, key, "-", "proto.(FieldNumber).Value not found")
		} else {
			bad := ""
			for _, blk := range fn.Blocks {
				for _, in := range blk.Instrs {
					cv, ok := in.(*ssa.Convert)
					if !ok {
						continue
					}
					ft, ok1 := cv.X.Type().Underlying().(*types.Basic)
					tt, ok2 := cv.Type().Underlying().(*types.Basic)
					if ok1 && ok2 && ft.Kind() == types.Float32 && tt.Kind() == types.Float64 {
						bad = c.InstrPos(cv)
					}
				}
			}
			if bad != "" {
				b.addP(props, core.Violation, key, bad, "FieldNumber.Value widens a float32 to float64 before building the field: the value is written as an 8-byte fixed64 field where the message's float field is fixed32 — the rewritten message fails to decode (expected wire type 5)")
			} else {
				b.addP(props, core.Discharged, key, c.FuncPos(fn), "no float32 is widened in FieldNumber.Value")
			}
		}
	}
	// (c) what ParseRewriteTemplate returns depends on the type, the template and the rules: it is
	// not answered from a package-level table unless every one of them is part of the key (the
	// rules are arbitrary user values: in practice, not cached at all)
	{
		props := []string{"C19", "C09"}
		key := "rewrite-template:not-answered-from-a-cache"
		fn := c.Lookup("proto.ParseRewriteTemplate")
		if fn == nil {
			b.addP(props, core.Undecided, key, "-", "proto.ParseRewriteTemplate not found")
		} else {
			bad := ""
			for _, r := range returnsOf(fn) {
				for _, res := range r.Results {
					if dependsOn(res, func(x ssa.Value) bool {
						call, ok := x.(*ssa.Call)
						if !ok {
							return false
						}
						cn := calleeName(call.Common())
						if strings.HasPrefix(cn, "(*sync.Map).Load") || strings.HasPrefix(cn, "sync.(*Map).Load") || strings.Contains(cn, "sync.Map).Load") {
							return true
						}
						return false
					}) {
						bad = c.InstrPos(r)
					}
					if dependsOn(res, func(x ssa.Value) bool {
						lk, ok := x.(*ssa.Lookup)
						if !ok {
							return false
						}
						for _, o := range origins(lk.X) {
							if ld, isLd := o.(*ssa.UnOp); isLd {
								if _, isG := ld.X.(*ssa.Global); isG {
									return true
								}
							}
						}
						return false
					}) {
						bad = c.InstrPos(r)
					}
				}
			}
			if bad != "" {
				b.addP(props, core.Violation, key, bad, "ParseRewriteTemplate returns a rewriter found in a package-level table: the table's key cannot hold the rules (BitOr masks and other user values), so a template first parsed without rules answers the later call with rules — the field is replaced where it should be or-ed (flags 1 with mask 16 gives 16, not 17)")
			} else {
				b.addP(props, core.Discharged, key, c.FuncPos(fn), "every result is built by this call")
			}
		}
	}
}
