package rules

import (
	"fmt"
	"go/token"
	"go/types"
	"sort"
	"strings"

	"golang.org/x/tools/go/ssa"

	"verif/checker/core"
)

// R-SCRATCH — a decode destination that lives across the iterations of a container loop (a local
// whose address is taken, or a reflect.Value created before the loop) is reset inside the loop:
// otherwise a member that decodes to "nothing" (null, absent field) inherits the previous member's
// value.
// R-REUSE — existing pointees / maps are reused: a fresh allocation is stored into the
// destination only on the branch where the destination was tested nil.
func init() {
	Register(&Rule{
		ID:    "R-SCRATCH",
		Doc:   "in every container loop of the json/thrift decoders, each loop-invariant decode destination (address-taken local, reflect.Value created before the loop) passed to a decode function is reset inside the loop (a store to the local / reflect.Value.Set with a loop-invariant zero)",
		Props: []string{"C02", "C04", "C01", "C13", "C14", "C10"},
		Min:   map[string]int{"C02": 8, "C04": 2, "C01": 1},
		Run:   runScratch,
	})
	Register(&Rule{
		ID:    "R-REUSE",
		Doc:   "pointer and map destinations are reused across decodes: every store of a fresh allocation (reflect.New, MakeMap, make) through the destination pointer is dominated by the branch on which the destination was tested nil",
		Props: []string{"C02", "C03", "C04", "C12"},
		Min:   map[string]int{"C02": 2, "C03": 2, "C04": 1, "C12": 2},
		Run:   runReuse,
	})
}

// natural loop of header h: blocks dominated by h from which h is reachable.
func loopBlocks(h *ssa.BasicBlock) map[*ssa.BasicBlock]bool {
	body := map[*ssa.BasicBlock]bool{h: true}
	var stack []*ssa.BasicBlock
	for _, p := range h.Preds {
		if h.Dominates(p) {
			stack = append(stack, p)
		}
	}
	for len(stack) > 0 {
		x := stack[len(stack)-1]
		stack = stack[:len(stack)-1]
		if body[x] {
			continue
		}
		body[x] = true
		for _, p := range x.Preds {
			stack = append(stack, p)
		}
	}
	return body
}

func loopHeaders(fn *ssa.Function) []*ssa.BasicBlock {
	var out []*ssa.BasicBlock
	for _, b := range fn.Blocks {
		for _, p := range b.Preds {
			if b.Dominates(p) {
				out = append(out, b)
				break
			}
		}
	}
	return out
}

// rootLocal follows an address/pointer expression to the local variable it points into.
func rootLocal(v ssa.Value) *ssa.Alloc {
	for i := 0; i < 8; i++ {
		switch x := v.(type) {
		case *ssa.Alloc:
			return x
		case *ssa.Convert:
			v = x.X
		case *ssa.ChangeType:
			v = x.X
		case *ssa.FieldAddr:
			v = x.X
		case *ssa.IndexAddr:
			v = x.X
		case *ssa.UnOp:
			v = x.X
		default:
			return nil
		}
	}
	return nil
}

func isReflectValue(t types.Type) bool {
	n, ok := t.(*types.Named)
	return ok && n.Obj().Name() == "Value" && n.Obj().Pkg() != nil && n.Obj().Pkg().Path() == "reflect"
}

func runScratch(c *core.Ctx) []core.Obligation {
	b := newOb(c, "R-SCRATCH")
	var fns []*ssa.Function
	for _, fn := range c.RepoFunctions() {
		n := shortName(fn)
		if fn.Blocks == nil || fn.Synthetic != "" {
			continue
		}
		if strings.HasPrefix(n, "json.(decoder).decode") || (strings.HasPrefix(n, "thrift.decode") || strings.HasPrefix(n, "thrift.(*structDecoder)")) {
			fns = append(fns, fn)
		}
	}
	sort.Slice(fns, func(i, j int) bool { return shortName(fns[i]) < shortName(fns[j]) })
	for _, fn := range fns {
		props := []string{"C02", "C14", "C10"} // a value already stored is overwritten through the scratch; what a map member inherits from the previous one depends on the member order, which SortMapKeys chooses
		if strings.HasPrefix(shortName(fn), "thrift.") {
			props = []string{"C04", "C13"}
		}
		for _, h := range loopHeaders(fn) {
			body := loopBlocks(h)
			inLoop := func(v ssa.Value) bool {
				in, ok := v.(ssa.Instruction)
				return ok && in.Block() != nil && body[in.Block()]
			}
			seen := map[string]bool{}
			// a reset counts when every iteration performs it: it dominates the decode call it
			// protects, or it dominates every back edge (a reset at the bottom of the body)
			everyIteration := func(reset ssa.Instruction, use ssa.Instruction) bool {
				rb, ub := reset.Block(), use.Block()
				if rb == ub || rb.Dominates(ub) {
					return true
				}
				all := true
				for _, p := range h.Preds {
					if body[p] && !(rb == p || rb.Dominates(p)) {
						all = false
					}
				}
				return all
			}
			for blk := range body {
				if onFailingPath(blk) {
					continue
				}
				for _, ins := range blk.Instrs {
					call, ok := ins.(*ssa.Call)
					if !ok {
						continue
					}
					cc := call.Common()
					// decode-ish: receives the input/reader and a destination
					name := calleeName(cc)
					isDecode := false
					if f := staticCallee(cc); f != nil {
						isDecode = strings.HasPrefix(f.Name(), "decode") && c.InRepo(f)
					} else if !cc.IsInvoke() {
						if _, isB := cc.Value.(*ssa.Builtin); !isB {
							isDecode = true // codec function values
						}
					}
					_ = name
					if !isDecode {
						continue
					}
					for _, arg := range cc.Args {
						var id string
						var resetFound bool
						switch {
						case isPointerLike(arg.Type()):
							al := rootLocal(arg)
							if al == nil || body[al.Block()] {
								continue
							}
							// the function's own spilled parameters are not scratch
							isParamSpill := false
							for _, s := range cellStores(al) {
								if _, isP := s.(*ssa.Parameter); isP {
									isParamSpill = true
								}
							}
							if isParamSpill {
								continue
							}
							id = "local " + al.Comment
							for lb := range body {
								for _, in2 := range lb.Instrs {
									switch y := in2.(type) {
									case *ssa.Store:
										if rootLocal(y.Addr) == al && !dependsOnCall(y.Val, call) && everyIteration(y, call) {
											resetFound = true
										}
									case *ssa.Call:
										// reflect.Value.Set(x, zero) where x is loaded from the local
										if n2 := calleeName(y.Common()); n2 == "(reflect.Value).Set" && len(y.Common().Args) == 2 && rootLocal(y.Common().Args[0]) == al && everyIteration(y, call) {
											resetFound = true
										}
									}
								}
							}
						case isReflectValue(arg.Type()):
							if inLoop(arg) {
								continue
							}
							if _, isParam := arg.(*ssa.Parameter); isParam {
								continue
							}
							id = "destination of " + calleeLabel(cc)
							if al := rootLocal(arg); al != nil {
								id = "local " + al.Comment
							}
							for lb := range body {
								for _, in2 := range lb.Instrs {
									if y, ok := in2.(*ssa.Call); ok && calleeName(y.Common()) == "(reflect.Value).Set" && len(y.Common().Args) == 2 {
										if (y.Common().Args[0] == arg || (rootLocal(arg) != nil && rootLocal(y.Common().Args[0]) == rootLocal(arg))) && everyIteration(y, call) {
											resetFound = true
										}
									}
								}
							}
						default:
							continue
						}
						key := fmt.Sprintf("scratch:%s:%s", shortName(fn), id)
						if seen[key] {
							continue
						}
						seen[key] = true
						if resetFound {
							b.addP(props, core.Discharged, key, c.InstrPos(call), "reset inside the loop before the next member is decoded into it")
						} else {
							b.addP(props, core.Violation, key, c.InstrPos(call), fmt.Sprintf("%s decodes every member of a container into the same %s, created before the loop, and does not reset it on every iteration: a member that leaves the destination untouched (null, an absent field) inherits the previous member's value", shortName(fn), id))
						}
					}
				}
			}
		}
	}
	// a bytes.Buffer kept in the receiver and handed to an appending function is emptied (Reset) or
	// freshly allocated on every path before it is written again
	for _, fn := range c.RepoFunctions() {
		if fn.Blocks == nil || fn.Synthetic != "" || fn.Signature.Recv() == nil || !strings.HasPrefix(shortName(fn), "json.") {
			continue
		}
		isBufferField := func(v ssa.Value) (string, bool) {
			f, ok := fieldOfLoad(v)
			if !ok {
				return "", false
			}
			if pt, ok := v.Type().(*types.Pointer); ok && strings.HasSuffix(types.TypeString(pt.Elem(), nil), "bytes.Buffer") {
				return f, true
			}
			return "", false
		}
		k := 0
		for _, ci := range callsIn(fn) {
			cc := ci.Common()
			callee := calleeName(cc)
			// destinations: first argument of Indent/Compact/HTMLEscape-style functions
			if len(cc.Args) == 0 || !(strings.HasSuffix(callee, ".Indent") || strings.HasSuffix(callee, ".Compact") || strings.HasSuffix(callee, ".HTMLEscape")) {
				continue
			}
			field, ok := isBufferField(cc.Args[0])
			if !ok {
				continue
			}
			k++
			key := fmt.Sprintf("buffer-reset:%s:%s", shortName(fn), field)
			// every path to the call passes a Reset() on the same field or a store of a new buffer
			fresh := map[*ssa.BasicBlock]bool{}
			for _, blk := range fn.Blocks {
				for _, in := range blk.Instrs {
					switch x := in.(type) {
					case *ssa.Call:
						if calleeName(x.Common()) == "(*bytes.Buffer).Reset" && len(x.Common().Args) == 1 {
							if f2, ok := isBufferField(x.Common().Args[0]); ok && f2 == field {
								fresh[blk] = true
							}
						}
					case *ssa.Store:
						if fa, ok := x.Addr.(*ssa.FieldAddr); ok && fieldAddrID(fa) == field {
							if al, isNew := x.Val.(*ssa.Alloc); isNew && al.Heap {
								fresh[blk] = true
							}
						}
					}
				}
			}
			// reachability from entry to the call block avoiding fresh blocks
			reach := reachableFrom(fn.Blocks[0], fresh)
			if fresh[ci.Block()] {
				reach[ci.Block()] = false
			}
			if reach[ci.Block()] {
				b.addP([]string{"C01"}, core.Violation, key, c.InstrPos(ci), fmt.Sprintf("%s appends into the buffer it keeps in %s on a path where the buffer was neither Reset nor newly allocated: the second call writes the previous documents again in front of the current one", shortName(fn), field))
			} else {
				b.addP([]string{"C01"}, core.Discharged, key, c.InstrPos(ci), "the kept buffer is emptied or freshly allocated on every path before it is appended to")
			}
		}
	}

	// a scratch slice that is reset by truncation (x = x[:0]) keeps its old elements in the backing
	// array; decodeSlice decodes element i in place, and an element decoder leaves its target
	// untouched for null — so the elements must be cleared as well, or the slice replaced
	{
		for _, fn := range fns {
			for _, blk := range fn.Blocks {
				for _, in := range blk.Instrs {
					st, ok := in.(*ssa.Store)
					if !ok {
						continue
					}
					al, ok := st.Addr.(*ssa.Alloc)
					if !ok || !isSliceType(derefType(al.Type())) {
						continue
					}
					sl, ok := st.Val.(*ssa.Slice)
					if !ok || sl.High == nil {
						continue
					}
					if k, isK := constInt(sl.High); !isK || k != 0 {
						continue
					}
					ld, ok := sl.X.(*ssa.UnOp)
					if !ok || ld.X != ssa.Value(al) {
						continue
					}
					// the alloc is handed to a decode call by address
					decoded := false
					for _, ref := range *al.Referrers() {
						if cv, isCv := ref.(*ssa.Convert); isCv {
							for _, r2 := range *cv.Referrers() {
								if _, isCall := r2.(*ssa.Call); isCall {
									decoded = true
								}
							}
						}
					}
					if !decoded {
						continue
					}
					key := "scratch-slice-cleared:" + shortName(fn) + ":" + al.Comment
					cleared := false
					for _, b2 := range fn.Blocks {
						for _, in2 := range b2.Instrs {
							call, isCall := in2.(*ssa.Call)
							if !isCall {
								continue
							}
							if bi, isB := call.Call.Value.(*ssa.Builtin); isB && bi.Name() == "clear" && len(call.Call.Args) == 1 {
								if l2, isLd := call.Call.Args[0].(*ssa.UnOp); isLd && l2.X == ssa.Value(al) {
									cleared = true
								}
								if s2, isSl := call.Call.Args[0].(*ssa.Slice); isSl {
									if l2, isLd := s2.X.(*ssa.UnOp); isLd && l2.X == ssa.Value(al) {
										cleared = true
									}
								}
							}
						}
					}
					if cleared {
						b.addP([]string{"C02"}, core.Discharged, key, c.InstrPos(st), "truncated and cleared between uses")
					} else {
						b.addP([]string{"C02"}, core.Violation, key, c.InstrPos(st), shortName(fn)+" reuses the scratch slice "+al.Comment+" by truncating it: the old elements stay in the backing array, the slice decoder decodes element i in place and a null element leaves it untouched — {\"a\":[\"x\",\"y\"],\"b\":[\"z\",null]} gives b = [\"z\",\"y\"] where encoding/json gives [\"z\",\"\"]")
					}
				}
			}
		}
	}

	// a slice decoded into scratch and then copied out keeps its nil-ness: null decodes to a nil
	// slice (encoding/json), make([]T, len(scratch)) turns it into an empty one
	{
		n := 0
		for _, fn := range fns {
			for _, blk := range fn.Blocks {
				for _, in := range blk.Instrs {
					mk, ok := in.(*ssa.MakeSlice)
					if !ok {
						continue
					}
					lenCall, ok := mk.Len.(*ssa.Call)
					if !ok {
						continue
					}
					if bi, isB := lenCall.Call.Value.(*ssa.Builtin); !isB || bi.Name() != "len" {
						continue
					}
					src, ok := lenCall.Call.Args[0].(*ssa.UnOp)
					if !ok {
						continue
					}
					al, ok := src.X.(*ssa.Alloc)
					if !ok {
						continue
					}
					// the alloc is handed to a decode call by address
					decoded := false
					for _, ref := range *al.Referrers() {
						if cv, isCv := ref.(*ssa.Convert); isCv {
							for _, r2 := range *cv.Referrers() {
								if _, isCall := r2.(*ssa.Call); isCall {
									decoded = true
								}
							}
						}
					}
					if !decoded {
						continue
					}
					n++
					key := "scratch-copy:nil-preserved:" + shortName(fn)
					guarded := false
					for _, e := range dominatingEdges(blk) {
						bo, isB := e.ifi.Cond.(*ssa.BinOp)
						if !isB || !(isNilConst(bo.X) || isNilConst(bo.Y)) {
							continue
						}
						other := bo.X
						if isNilConst(bo.X) {
							other = bo.Y
						}
						ld, isLd := other.(*ssa.UnOp)
						if !isLd || ld.X != ssa.Value(al) {
							continue
						}
						if (bo.Op == token.NEQ && e.succ == 0) || (bo.Op == token.EQL && e.succ == 1) {
							guarded = true
						}
					}
					if guarded {
						b.addP([]string{"C02"}, core.Discharged, key, c.InstrPos(mk), "the copy is made only when the decoded slice is not nil")
					} else {
						b.addP([]string{"C02"}, core.Violation, key, c.InstrPos(mk), shortName(fn)+" copies the slice decoded into its scratch variable with make([]T, len(scratch)) whether or not it is nil: a null element becomes an empty non-nil slice where encoding/json stores a nil one ({\"k\":null} into map[string][]string)")
					}
				}
			}
		}
		if n == 0 {
			b.addP([]string{"C02"}, core.Info, "scratch-copy:nil-preserved", "-", "no copy-out of a decoded scratch slice found")
		}
	}

	// fixed-size arrays: when the input closes the array early, the elements it did not provide are
	// set to zero (encoding/json does; a pre-populated target must not keep its tail)
	if fn := c.Lookup("json.(decoder).decodeArray"); fn != nil {
		zeroes := func(f *ssa.Function) bool {
			if f == nil || f.Blocks == nil {
				return false
			}
			for _, ci := range callsIn(f) {
				n := calleeName(ci.Common())
				if n == "(reflect.Value).Set" || n == "(reflect.Value).SetZero" || strings.Contains(n, "memclr") || strings.Contains(n, "typedmemclr") {
					return true
				}
			}
			return false
		}
		n, bad := 0, ""
		for _, h := range loopHeaders(fn) {
			body := loopBlocks(h)
			// only the loop that decodes elements (it contains the dynamic decode call)
			decodes := false
			for blk := range body {
				for _, in := range blk.Instrs {
					if call, ok := in.(*ssa.Call); ok && staticCallee(call.Common()) == nil && !call.Common().IsInvoke() {
						if _, isB := call.Common().Value.(*ssa.Builtin); !isB {
							decodes = true
						}
					}
				}
			}
			if !decodes {
				continue
			}
			for _, blk := range fn.Blocks {
				if len(blk.Instrs) == 0 || body[blk] {
					continue
				}
				r, ok := blk.Instrs[len(blk.Instrs)-1].(*ssa.Return)
				if !ok || len(r.Results) != 2 || !isNilConst(r.Results[1]) {
					continue
				}
				// left from inside the body (not through the header's exit edge)?
				early := false
				seenB := map[*ssa.BasicBlock]bool{}
				var back func(x *ssa.BasicBlock)
				back = func(x *ssa.BasicBlock) {
					if seenB[x] {
						return
					}
					seenB[x] = true
					for _, p := range x.Preds {
						if body[p] {
							// the loop's own exit (the test of the induction variable, at the
							// header or, for rotated range loops, at the bottom) is not early
							normal := p == h
							if k := len(p.Instrs); k > 0 {
								if ifi, ok := p.Instrs[k-1].(*ssa.If); ok && isLoopCond(ifi.Cond) {
									normal = true
								}
							}
							if !normal {
								early = true
							}
							continue
						}
						back(p)
					}
				}
				back(blk)
				nullArm := false
				for _, e := range dominatingEdges(blk) {
					if call, isCall := e.ifi.Cond.(*ssa.Call); isCall && e.succ == 0 {
						if f := staticCallee(call.Common()); f != nil && f.Name() == "hasNullPrefix" {
							nullArm = true // null leaves an array untouched, like encoding/json
						}
					}
				}
				if nullArm {
					continue
				}
				if !early && !afterLoop(body)[blk] {
					early = true // a success return that never enters the element loop (an empty-array fast path)
				}
				if !early {
					continue
				}
				n++
				cleared := false
				for x := blk; x != nil; x = x.Idom() {
					for _, in := range x.Instrs {
						if ci, ok := in.(ssa.CallInstruction); ok && zeroes(staticCallee(ci.Common())) && (x != blk || true) {
							if x == blk || x.Dominates(blk) {
								cleared = true
							}
						}
					}
					if x == h && h.Dominates(blk) {
						break
					}
				}
				if !cleared {
					bad = c.InstrPos(r)
				}
			}
		}
		key := "array-tail-zeroed"
		switch {
		case n == 0:
			b.addP([]string{"C02"}, core.Undecided, key, c.FuncPos(fn), "no early success return found inside the element loop of decodeArray")
		case bad != "":
			b.addP([]string{"C02"}, core.Violation, key, bad, "decodeArray returns success before all elements were provided (the input closed the array early, or was empty) without zeroing the remaining elements: decoding [9] (or []) into a pre-populated [3]int{1,2,3} leaves [9 2 3] ([1 2 3]) where encoding/json gives [9 0 0] ([0 0 0])")
		default:
			b.addP([]string{"C02"}, core.Discharged, key, c.FuncPos(fn), fmt.Sprintf("%d early success return(s), each after the tail of the array is zeroed", n))
		}
	} else {
		b.addP([]string{"C02"}, core.Undecided, "array-tail-zeroed", "-", "json.(decoder).decodeArray not found")
	}
	return b.out
}

// afterLoop: the blocks reachable from the exits of a loop (the code that runs after it).
func afterLoop(body map[*ssa.BasicBlock]bool) map[*ssa.BasicBlock]bool {
	out := map[*ssa.BasicBlock]bool{}
	var work []*ssa.BasicBlock
	for blk := range body {
		for _, sc := range blk.Succs {
			if !body[sc] {
				work = append(work, sc)
			}
		}
	}
	for len(work) > 0 {
		blk := work[len(work)-1]
		work = work[:len(work)-1]
		if out[blk] {
			continue
		}
		out[blk] = true
		work = append(work, blk.Succs...)
	}
	return out
}

// dependsOnCall: v is computed from the result of call (so the store is the decode result itself,
// not a reset).
func dependsOnCall(v ssa.Value, call *ssa.Call) bool {
	return dependsOn(v, func(x ssa.Value) bool { return x == ssa.Value(call) })
}

func runReuse(c *core.Ctx) []core.Obligation {
	b := newOb(c, "R-REUSE")
	type site struct {
		fnKey string
		props []string
	}
	sites := []site{
		{"proto.pointerDecodeFuncOf$1", []string{"C03", "C12"}},
		{"proto.mapDecodeFuncOf$1", []string{"C03", "C12"}},
		{"json.(decoder).decodePointer", []string{"C02"}},
		{"json.(decoder).decodeEmbeddedStructPointer", []string{"C02"}},
		{"thrift.decodeFuncPtrOf$1", []string{"C04"}},
	}
	for _, s := range sites {
		fn := c.Lookup(s.fnKey)
		key := "reuse:" + s.fnKey
		if fn == nil {
			b.addP(s.props, core.Undecided, key, "-", "function not found")
			continue
		}
		n, bad := 0, ""
		for _, blk := range fn.Blocks {
			for _, ins := range blk.Instrs {
				var fresh ssa.Value
				var at ssa.Instruction
				switch x := ins.(type) {
				case *ssa.Store:
					if isFreshAlloc(x.Val) && derivesFromParamPointer(x.Addr, fn) {
						fresh, at = x.Val, x
					}
				case *ssa.Call:
					// v.Set(reflect.New(elem))
					if calleeName(x.Common()) == "(reflect.Value).Set" && len(x.Common().Args) == 2 && isFreshAlloc(x.Common().Args[1]) {
						fresh, at = x.Common().Args[1], x
					}
				}
				if fresh == nil {
					continue
				}
				n++
				guarded := false
				for _, e := range dominatingEdges(blk) {
					if nilTestEdge(e) {
						guarded = true
					}
				}
				if !guarded {
					bad = c.InstrPos(at)
				}
			}
		}
		switch {
		case n == 0:
			b.addP(s.props, core.Undecided, key, c.FuncPos(fn), "no allocation into the destination found")
		case bad != "":
			b.addP(s.props, core.Violation, key, bad, fmt.Sprintf("%s stores a fresh allocation into the destination on a path where the destination was not tested nil: a second occurrence of the field (or a decode into a pre-populated target) discards what was there instead of merging into it", s.fnKey))
		default:
			b.addP(s.props, core.Discharged, key, c.FuncPos(fn), fmt.Sprintf("%d allocation(s) into the destination, each under a nil test", n))
		}
	}
	// an interface target holding a pointer: encoding/json decodes through that pointer only when
	// it is not nil (indirect: e.Kind() == Pointer && !e.IsNil()); a nil typed pointer is just a
	// value to be replaced by what the input holds
	if fn := c.Lookup("json.(decoder).decodeInterface"); fn != nil {
		key := "reuse:json.(decoder).decodeInterface:held-pointer-non-nil"
		n, bad := 0, ""
		for _, blk := range fn.Blocks {
			for _, ins := range blk.Instrs {
				call, ok := ins.(*ssa.Call)
				if !ok {
					continue
				}
				f := staticCallee(call.Common())
				if f == nil || (f.Name() != "Parse" && f.Name() != "parse") {
					continue
				}
				n++
				guarded := false
				for _, e := range dominatingEdges(blk) {
					conds := []ssa.Value{e.ifi.Cond}
					want := 1 // IsNil() false
					if u, isNot := e.ifi.Cond.(*ssa.UnOp); isNot && u.Op == token.NOT {
						conds, want = []ssa.Value{u.X}, 0
					}
					for _, cv := range conds {
						if cc, isCall := cv.(*ssa.Call); isCall && calleeName(cc.Common()) == "(reflect.Value).IsNil" && e.succ == want {
							guarded = true
						}
					}
				}
				if !guarded {
					bad = c.InstrPos(call)
				}
			}
		}
		switch {
		case n == 0:
			b.addP([]string{"C02"}, core.Info, key, c.FuncPos(fn), "decodeInterface does not decode through a held pointer")
		case bad != "":
			b.addP([]string{"C02"}, core.Violation, key, bad, "decodeInterface decodes through the pointer held by the interface without having tested that it is not nil: a target such as any((*int)(nil)) given 5 fails with \"Unmarshal(nil *int)\" where encoding/json replaces the interface's content with the decoded value")
		default:
			b.addP([]string{"C02"}, core.Discharged, key, c.FuncPos(fn), "the held pointer is followed only when IsNil() is false")
		}
	}

	// interface targets of a named or non-empty interface type (decodeMaybeEmptyInterface): the
	// same two facts. A held pointer is followed only when it is not nil; and an interface without
	// methods can hold whatever the input holds, whether or not it currently holds something — the
	// "decode into it as an any" arm must not be reachable only when the interface is nil.
	if fn := c.Lookup("json.(decoder).decodeMaybeEmptyInterface"); fn != nil {
		key := "reuse:json.(decoder).decodeMaybeEmptyInterface:empty-interface-always-decodable"
		var generic *ssa.Call
		for _, ci := range callsIn(fn) {
			call, ok := ci.(*ssa.Call)
			if !ok {
				continue
			}
			f := staticCallee(call.Common())
			if f == nil || (f.Name() != "Parse" && f.Name() != "parse") {
				continue
			}
			for _, a := range call.Call.Args {
				if mi, isMI := a.(*ssa.MakeInterface); isMI && strings.Contains(mi.X.Type().String(), "*interface{}") || strings.Contains(a.Type().String(), "*interface{}") {
					generic = call
				}
				if mi, isMI := a.(*ssa.MakeInterface); isMI && strings.HasSuffix(mi.X.Type().String(), "*any") {
					generic = call
				}
			}
		}
		switch {
		case generic == nil:
			b.addP([]string{"C02"}, core.Info, key, c.FuncPos(fn), "no decode-as-any arm found")
		default:
			onlyWhenNil := false
			for _, e := range dominatingEdges(generic.Block()) {
				cond := e.ifi.Cond
				want := 0
				if u, isNot := cond.(*ssa.UnOp); isNot && u.Op == token.NOT {
					cond, want = u.X, 1
				}
				if cc, isCall := cond.(*ssa.Call); isCall && calleeName(cc.Common()) == "(reflect.Value).IsNil" && e.succ == want {
					onlyWhenNil = true
				}
			}
			if onlyWhenNil {
				b.addP([]string{"C02"}, core.Violation, key, c.InstrPos(generic), "decodeMaybeEmptyInterface decodes into an interface without methods as an any only when the interface is nil: a target of a named empty interface type that already holds a value (type Any interface{}; var x Any = 5) fails with an UnmarshalTypeError where encoding/json replaces the value")
			} else {
				b.addP([]string{"C02"}, core.Discharged, key, c.InstrPos(generic), "an interface without methods is decoded as an any whatever it holds")
			}
		}
	}

	return b.out
}

func isFreshAlloc(v ssa.Value) bool {
	switch x := v.(type) {
	case *ssa.Call:
		n := calleeName(x.Common())
		if n == "reflect.New" || n == "reflect.MakeMap" || n == "reflect.MakeMapWithSize" || strings.HasSuffix(n, "runtime_reflect.MakeMap") {
			return true
		}
		if n == "(reflect.Value).Pointer" || n == "(reflect.Value).UnsafePointer" {
			return isFreshAlloc(x.Common().Args[0])
		}
	case *ssa.Convert:
		return isFreshAlloc(x.X)
	case *ssa.MakeMap, *ssa.MakeSlice:
		return true
	case *ssa.Alloc:
		return x.Heap
	}
	return false
}

func derivesFromParamPointer(addr ssa.Value, fn *ssa.Function) bool {
	for _, p := range fn.Params {
		if isPointerLike(p.Type()) && derivesFromValue(addr, p) {
			return true
		}
	}
	return false
}

// nilTestEdge: the edge is the "is nil" side of a nil test (x == nil true, x != nil false,
// v.IsNil() true).
func nilTestEdge(e domEdge) bool {
	switch cnd := e.ifi.Cond.(type) {
	case *ssa.BinOp:
		if isNilConst(cnd.X) || isNilConst(cnd.Y) {
			other := cnd.X
			if isNilConst(cnd.X) {
				other = cnd.Y
			}
			if other.Type().String() == "error" {
				return false // "err == nil" says nothing about the destination
			}
			return (cnd.Op == token.EQL && e.succ == 0) || (cnd.Op == token.NEQ && e.succ == 1)
		}
	case *ssa.Call:
		if calleeName(cnd.Common()) == "(reflect.Value).IsNil" {
			return e.succ == 0
		}
	}
	return false
}

// calleeLabel names a call target stably: the function, or the captured variable / field a
// function value was loaded from.
func calleeLabel(cc *ssa.CallCommon) string {
	if f := staticCallee(cc); f != nil {
		return f.Name()
	}
	v := cc.Value
	if u, ok := v.(*ssa.UnOp); ok {
		v = u.X
	}
	switch x := v.(type) {
	case *ssa.FreeVar:
		return x.Name()
	case *ssa.FieldAddr:
		return fieldNameOf(x)
	case *ssa.Parameter:
		return x.Name()
	}
	return "a function value"
}
