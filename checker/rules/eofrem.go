package rules

import (
	"fmt"
	"sort"
	"strings"

	"golang.org/x/tools/go/ssa"

	"verif/checker/core"
)

// R-EOFREM — "ran out of input" is reported with an empty remainder. Decoder.readValue tells a
// truncated value from a syntax error by the remainder the parser hands back: empty means "the
// buffered data ended, read more and try again", non-empty means "stopped here, this is an
// error". Every return of json's parse* functions whose error comes from unexpectedEOF must
// therefore return a remainder that is provably empty — b[len(b):], or a slice the dominating
// tests show to be empty. A lone '[' at the end of a buffer fill returned with remainder "[" turns
// a valid stream into a syntax error.
func init() {
	Register(&Rule{
		ID:    "R-EOFREM",
		Doc:   "every return of a json parse function (results v, r []byte, Kind, error) whose error operand is a call of unexpectedEOF: the remainder operand is x[len(x):] or a slice whose length the dominating branch edges bound by 0; named results assigned before a bare return are followed through their φ",
		Props: []string{"C11", "C05"},
		Min:   map[string]int{"C11": 6, "C05": 6},
		Run:   runEOFRem,
	})
}

func runEOFRem(c *core.Ctx) []core.Obligation {
	b := newOb(c, "R-EOFREM", "C11", "C05")
	n := 0
	fns := c.RepoFunctions()
	sort.Slice(fns, func(i, j int) bool { return shortName(fns[i]) < shortName(fns[j]) })
	for _, fn := range fns {
		name := shortName(fn)
		if fn.Blocks == nil || !strings.HasPrefix(name, "json.(decoder).parse") {
			continue
		}
		res := fn.Signature.Results()
		if res.Len() != 4 || res.At(3).Type().String() != "error" {
			continue
		}
		count := 0
		for _, r := range returnsOf(fn) {
			if len(r.Results) != 4 {
				continue
			}
			// error operand: unexpectedEOF(...) possibly through φ (named results)
			for _, pair := range eofPairs(r.Results[1], r.Results[3], r.Block()) {
				n++
				count++
				key := fmt.Sprintf("eofrem:%s#%d", name, count)
				if emptyAt(pair.rem, pair.blk) {
					b.ok(key, c.InstrPos(r), "unexpected-EOF return with an empty remainder")
				} else {
					b.bad(key, c.InstrPos(r), name+" reports that the input ended (unexpectedEOF) but hands back a remainder that can be non-empty: Decoder.readValue takes a non-empty remainder for a syntax error and stops, instead of reading more — a value whose first bytes fall at the end of a buffer fill (offset 32767 of a stream) fails although the stream is valid")
				}
			}
		}
	}
	// the dual: a syntax error found at a position inside the buffered data is returned with the
	// remainder at that position. A nil remainder (a named result never assigned) reads as "input
	// ended": the Decoder keeps buffering the rest of the stream before it reports anything.
	m := 0
	for _, fn := range fns {
		name := shortName(fn)
		if fn.Blocks == nil || !strings.HasPrefix(name, "json.(decoder).parse") {
			continue
		}
		res := fn.Signature.Results()
		if res.Len() != 4 || res.At(3).Type().String() != "error" {
			continue
		}
		count := 0
		for _, r := range returnsOf(fn) {
			if len(r.Results) != 4 {
				continue
			}
			for _, pair := range errPairs(r.Results[1], r.Results[3], r.Block(), "syntaxError") {
				m++
				count++
				key := fmt.Sprintf("eofrem:syntax-error-positioned:%s#%d", name, count)
				if k, isK := pair.rem.(*ssa.Const); isK && k.Value == nil {
					b.bad(key, c.InstrPos(r), name+" returns a syntax error with a nil remainder (the result was never assigned on this path): Decoder.readValue reads an empty remainder as \"the buffered data ended\" and keeps reading the stream to its end before reporting anything, where its siblings hand back the remainder at the offending byte and the error is reported at once")
				} else {
					b.ok(key, c.InstrPos(r), "syntax error returned with a remainder")
				}
			}
		}
	}
	if n == 0 {
		b.und("eofrem:-", "-", "no unexpected-EOF return found in json's parse functions")
	}
	if m == 0 {
		b.und("eofrem:syntax-error-positioned", "-", "no syntax-error return found in json's parse functions")
	}
	return b.out
}

func errPairs(rem, err ssa.Value, blk *ssa.BasicBlock, ctor string) []eofPair {
	is := func(v ssa.Value) bool {
		call, ok := v.(*ssa.Call)
		if !ok {
			return false
		}
		f := staticCallee(call.Common())
		return f != nil && f.Name() == ctor
	}
	if is(err) {
		return []eofPair{{rem, blk}}
	}
	ephi, ok := err.(*ssa.Phi)
	if !ok {
		return nil
	}
	var out []eofPair
	for i, e := range ephi.Edges {
		if !is(e) {
			continue
		}
		r := rem
		if rphi, isPhi := rem.(*ssa.Phi); isPhi && rphi.Block() == ephi.Block() {
			r = rphi.Edges[i]
		}
		out = append(out, eofPair{r, ephi.Block().Preds[i]})
	}
	return out
}

type eofPair struct {
	rem ssa.Value
	blk *ssa.BasicBlock
}

// eofPairs: the (remainder, block) combinations on which err is an unexpectedEOF call. When both
// operands are φs of the same block (named results merged before the return), the pairs are taken
// edge by edge.
func eofPairs(rem, err ssa.Value, blk *ssa.BasicBlock) []eofPair {
	isEOF := func(v ssa.Value) bool {
		call, ok := v.(*ssa.Call)
		if !ok {
			return false
		}
		f := staticCallee(call.Common())
		return f != nil && f.Name() == "unexpectedEOF"
	}
	if isEOF(err) {
		return []eofPair{{rem, blk}}
	}
	ephi, ok := err.(*ssa.Phi)
	if !ok {
		return nil
	}
	var out []eofPair
	for i, e := range ephi.Edges {
		if !isEOF(e) {
			continue
		}
		r := rem
		if rphi, isPhi := rem.(*ssa.Phi); isPhi && rphi.Block() == ephi.Block() {
			r = rphi.Edges[i]
		}
		out = append(out, eofPair{r, ephi.Block().Preds[i]})
	}
	return out
}

// emptyAt: v is x[len(x):], or len(v) <= 0 by the dominating tests at blk.
func emptyAt(v ssa.Value, blk *ssa.BasicBlock) bool {
	if s, ok := v.(*ssa.Slice); ok && s.Low != nil && s.High == nil {
		if a, isLen := lenArg(s.Low); isLen && a == s.X {
			return true
		}
	}
	if k, ok := v.(*ssa.Const); ok && k.Value == nil {
		return true
	}
	_, hi, _ := lenInterval(v, blk)
	return hi != nil && hi.Sign() <= 0
}
