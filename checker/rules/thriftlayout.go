package rules

import (
	"fmt"
	"go/token"
	"go/types"
	"math/big"
	"os"
	"sort"
	"strings"

	"golang.org/x/tools/go/ssa"

	"verif/checker/core"
)

// texpr renders a value of a thrift Reader/Writer method in a normalised, name-independent form:
// struct fields by their declared type ("Field.ID"), conversions dropped, calls by callee name.
func texpr(v ssa.Value, depth int) string {
	if depth > 10 {
		return "…"
	}
	switch x := v.(type) {
	case *ssa.Const:
		if x.Value == nil {
			return "nil"
		}
		if k, ok := constInt(x); ok {
			return fmt.Sprint(k)
		}
		return x.Value.String()
	case *ssa.Convert:
		return texpr(x.X, depth+1)
	case *ssa.ChangeType:
		return texpr(x.X, depth+1)
	case *ssa.Parameter:
		if n, ok := x.Type().(*types.Named); ok {
			return n.Obj().Name()
		}
		return "param:" + types.TypeString(x.Type(), func(*types.Package) string { return "" })
	case *ssa.UnOp:
		if x.Op == token.MUL {
			if fa, ok := x.X.(*ssa.FieldAddr); ok {
				return fieldTypeName(fa.X.Type()) + "." + fieldNameOf(fa)
			}
			if ia, ok := x.X.(*ssa.IndexAddr); ok {
				return texpr(ia.X, depth+1) + "[" + texpr(ia.Index, depth+1) + "]"
			}
			if vals, ok := localStored(x); ok && len(vals) == 1 {
				return texpr(vals[0], depth+1)
			}
			if g, ok := x.X.(*ssa.Global); ok {
				return g.Pkg.Pkg.Name() + "." + g.Name()
			}
			return "*" + texpr(x.X, depth+1)
		}
		return x.Op.String() + texpr(x.X, depth+1)
	case *ssa.Field:
		st := x.X.Type().Underlying().(*types.Struct)
		return fieldTypeName(x.X.Type()) + "." + st.Field(x.Field).Name()
	case *ssa.FieldAddr:
		return "&" + fieldTypeName(x.X.Type()) + "." + fieldNameOf(x)
	case *ssa.BinOp:
		return "(" + texpr(x.X, depth+1) + x.Op.String() + texpr(x.Y, depth+1) + ")"
	case *ssa.Extract:
		return fmt.Sprintf("%s#%d", texpr(x.Tuple, depth+1), x.Index)
	case *ssa.Call:
		cc := x.Common()
		name := ""
		if cc.IsInvoke() {
			name = "invoke." + cc.Method.Name()
		} else if f := staticCallee(cc); f != nil {
			name = f.Name()
			if o := f.Object(); o != nil {
				name = o.Name()
				if o.Pkg() != nil && !strings.HasSuffix(o.Pkg().Path(), "/thrift") {
					if recv := recvTypeOf(f); recv != nil {
						name = o.Pkg().Name() + "." + strings.TrimPrefix(fieldTypeName(recv), "*") + "." + o.Name()
					} else {
						name = o.Pkg().Name() + "." + o.Name()
					}
				}
			}
		} else if bi, ok := cc.Value.(*ssa.Builtin); ok {
			name = bi.Name()
		} else {
			name = "dyn"
		}
		var args []string
		for i, a := range cc.Args {
			if i == 0 && !cc.IsInvoke() && staticCallee(cc) != nil && recvTypeOf(staticCallee(cc)) != nil {
				continue // receiver
			}
			args = append(args, texpr(a, depth+1))
		}
		return name + "(" + strings.Join(args, ",") + ")"
	case *ssa.Slice:
		lo, hi := "", ""
		if x.Low != nil {
			lo = texpr(x.Low, depth+1)
		}
		if x.High != nil {
			hi = texpr(x.High, depth+1)
		}
		return texpr(x.X, depth+1) + "[" + lo + ":" + hi + "]"
	case *ssa.Phi:
		var es []string
		for _, e := range x.Edges {
			es = append(es, texpr(e, depth+3))
		}
		sort.Strings(es)
		return "φ(" + strings.Join(es, "|") + ")"
	case *ssa.Alloc:
		return "local"
	case *ssa.MakeInterface:
		return texpr(x.X, depth+1)
	case *ssa.TypeAssert:
		return texpr(x.X, depth+1)
	}
	return strings.TrimPrefix(fmt.Sprintf("%T", v), "*ssa.")
}

func fieldTypeName(t types.Type) string {
	if p, ok := t.Underlying().(*types.Pointer); ok {
		t = p.Elem()
	}
	if p, ok := t.(*types.Pointer); ok {
		t = p.Elem()
	}
	if n, ok := t.(*types.Named); ok {
		return n.Obj().Name()
	}
	return "struct"
}

func fieldNameOf(fa *ssa.FieldAddr) string {
	st := fa.X.Type().Underlying().(*types.Pointer).Elem().Underlying().(*types.Struct)
	return st.Field(fa.Field).Name()
}

// R-THRIFTLAYOUT — the byte layouts written and read by the two thrift protocol implementations,
// extracted as normalised facts (emissions, branch conditions, field assignments) from the SSA of
// every Reader/Writer method, agree with the Apache Thrift binary and compact specifications
// transcribed below, and reader and writer agree with each other.
func init() {
	Register(&Rule{
		ID:    "R-THRIFTLAYOUT",
		Doc:   "normalised layout facts (primitive emitted/consumed with its operand, branch threshold, nibble/shift expression, header constants, resolved encoding/binary callee) of every binary*/compact* Reader/Writer method equal the specification table: type codes, endianness, one-byte STOP, message headers, field/list/map short forms, zig-zag varints; reader thresholds mirror writer thresholds",
		Props: []string{"C13", "C04"},
		Min:   map[string]int{"C13": 50, "C04": 20},
		Run:   runThriftLayout,
	})
}

type tlFacts struct {
	fn    *ssa.Function
	emits map[string]ssa.Instruction // calls (normalised)
	conds map[string]*ssa.If
	sets  map[string]ssa.Instruction // "Field.ID=expr"
}

func canonCond(v ssa.Value) string {
	bo, ok := v.(*ssa.BinOp)
	if !ok {
		return texpr(v, 0)
	}
	if k, ok := constInt(bo.Y); ok {
		l := texpr(bo.X, 0)
		switch bo.Op {
		case token.LEQ:
			return fmt.Sprintf("(%s<%d)", l, k+1)
		case token.GTR:
			return fmt.Sprintf("(%s>=%d)", l, k+1)
		}
	}
	return texpr(v, 0)
}

func collectTL(c *core.Ctx, key string) *tlFacts {
	fn := c.Lookup(key)
	if fn == nil {
		return nil
	}
	f := &tlFacts{fn: fn, emits: map[string]ssa.Instruction{}, conds: map[string]*ssa.If{}, sets: map[string]ssa.Instruction{}}
	for _, blk := range fn.Blocks {
		for _, in := range blk.Instrs {
			switch x := in.(type) {
			case *ssa.If:
				f.conds[canonCond(x.Cond)] = x
			case *ssa.Call:
				f.emits[texpr(x, 0)] = x
			case *ssa.Store:
				a := texpr(x.Addr, 0)
				if ia, ok := x.Addr.(*ssa.IndexAddr); ok {
					a = texpr(ia.X, 0) + "[" + texpr(ia.Index, 0) + "]"
				}
				f.sets[strings.TrimPrefix(a, "&")+"="+texpr(x.Val, 0)] = x
			}
		}
	}
	return f
}

// reaches: does method `from` (transitively through static thrift callees) call a function whose
// normalised name is `want`?
func tlReaches(c *core.Ctx, from *ssa.Function, want string, seen map[*ssa.Function]bool) bool {
	if from == nil || seen[from] {
		return false
	}
	seen[from] = true
	for _, ci := range callsIn(from) {
		f := staticCallee(ci.Common())
		if f == nil {
			continue
		}
		if strings.HasSuffix(qualName(f), want) {
			return true
		}
		if c.InRepo(f) && tlReaches(c, f, want, seen) {
			return true
		}
	}
	return false
}

type tlAssert struct {
	method string   // short FuncKey
	kind   string   // emit | cond | set | reach | noreach
	want   []string // any of
	key    string
	spec   string
}

func runThriftLayout(c *core.Ctx) []core.Obligation {
	b := newOb(c, "R-THRIFTLAYOUT", "C13", "C04")
	if d := os.Getenv("VCHECK_TLDUMP"); d != "" {
		for _, k := range strings.Split(d, ",") {
			if f := collectTL(c, k); f != nil {
				for e := range f.emits {
					fmt.Fprintf(os.Stderr, "TL %s emit %s\n", k, e)
				}
				for e := range f.conds {
					fmt.Fprintf(os.Stderr, "TL %s cond %s\n", k, e)
				}
				for e := range f.sets {
					fmt.Fprintf(os.Stderr, "TL %s set %s\n", k, e)
				}
			}
		}
	}
	bw, br, cw, cr := "thrift.(*binaryWriter).", "thrift.(*binaryReader).", "thrift.(*compactWriter).", "thrift.(*compactReader)."
	asserts := []tlAssert{
		// ---------------- binary protocol: primitives
		{bw + "WriteInt16", "reach", []string{"(encoding/binary.bigEndian).PutUint16"}, "binary:i16:big-endian:writer", "binary protocol: i16 is 2 bytes big-endian"},
		{bw + "WriteInt32", "reach", []string{"(encoding/binary.bigEndian).PutUint32"}, "binary:i32:big-endian:writer", "binary protocol: i32 is 4 bytes big-endian"},
		{bw + "WriteInt64", "reach", []string{"(encoding/binary.bigEndian).PutUint64"}, "binary:i64:big-endian:writer", "binary protocol: i64 is 8 bytes big-endian"},
		{bw + "WriteFloat64", "emit", []string{"binary.bigEndian.PutUint64(&binaryWriter.b[:8],math.Float64bits(param:float64))"}, "binary:double:big-endian:writer", "binary protocol: double is the IEEE-754 bits, 8 bytes big-endian"},
		{br + "ReadInt16", "emit", []string{"binary.bigEndian.Uint16(read(2)#0)"}, "binary:i16:big-endian:reader", "binary protocol: i16 is 2 bytes big-endian"},
		{br + "ReadInt32", "emit", []string{"binary.bigEndian.Uint32(read(4)#0)"}, "binary:i32:big-endian:reader", "binary protocol: i32 is 4 bytes big-endian"},
		{br + "ReadInt64", "emit", []string{"binary.bigEndian.Uint64(read(8)#0)"}, "binary:i64:big-endian:reader", "binary protocol: i64 is 8 bytes big-endian"},
		{br + "ReadFloat64", "emit", []string{"math.Float64frombits(binary.bigEndian.Uint64(read(8)#0))"}, "binary:double:big-endian:reader", "binary protocol: double is 8 bytes big-endian"},
		{bw + "WriteLength", "emit", []string{"WriteInt32(param:int)"}, "binary:length:i32:writer", "binary protocol: string/binary length is an i32"},
		{br + "ReadLength", "emit", []string{"binary.bigEndian.Uint32(read(4)#0)"}, "binary:length:i32:reader", "binary protocol: string/binary length is an i32"},
		{br + "ReadLength", "cond", []string{"(binary.bigEndian.Uint32(read(4)#0)>=2147483648)"}, "binary:length:nonnegative:reader", "a length with the sign bit set is rejected"},
		// binary: field header
		{bw + "WriteField", "cond", []string{"(Field.Type==0)"}, "binary:stop:one-byte:writer", "binary protocol: the stop field is the single byte 0 (no field id follows)"},
		{br + "ReadField", "cond", []string{"(ReadInt8()#0==0)", "(ReadByte()#0==0)"}, "binary:stop:one-byte:reader", "binary protocol: after a stop type byte no field id is read"},
		{bw + "WriteField", "emit", []string{"WriteInt16(Field.ID)"}, "binary:field:id-i16:writer", "binary protocol: field header is type byte then i16 id"},
		{br + "ReadField", "set", []string{"Field.ID=ReadInt16()#0"}, "binary:field:id-i16:reader", "binary protocol: field header is type byte then i16 id"},
		// binary: containers
		{bw + "WriteList", "emit", []string{"WriteInt32(List.Size)"}, "binary:list:size-i32:writer", "binary protocol: list header is element type byte then i32 size"},
		{br + "ReadList", "set", []string{"List.Size=ReadInt32()#0"}, "binary:list:size-i32:reader", "binary protocol: list header is element type byte then i32 size"},
		{bw + "WriteMap", "emit", []string{"WriteInt32(Map.Size)"}, "binary:map:size-i32:writer", "binary protocol: map header is key type, value type, i32 size"},
		{br + "ReadMap", "set", []string{"Map.Size=ReadInt32()#0"}, "binary:map:size-i32:reader", "binary protocol: map header is key type, value type, i32 size"},
		// binary: message header
		{bw + "WriteMessage", "set", []string{"binaryWriter.b[0]=128"}, "binary:strict-header:byte0:writer", "strict message header starts with 0x80"},
		{bw + "WriteMessage", "set", []string{"binaryWriter.b[1]=1"}, "binary:strict-header:version:writer", "strict message header is 0x8001 (version 1) followed by 0x00 and the message type"},
		{bw + "WriteMessage", "set", []string{"binaryWriter.b[3]=(Message.Type&7)"}, "binary:strict-header:type:writer", "strict message header carries the message type in the low 3 bits of byte 3"},
		{bw + "WriteMessage", "emit", []string{"binary.bigEndian.PutUint32(&binaryWriter.b[4:],len(Message.Name))"}, "binary:strict-header:name-length:writer", "name length is an i32 big-endian"},
		{br + "ReadMessage", "cond", []string{"((read(4)#0[0]>>7)==0)"}, "binary:strict-detection:reader", "the sign bit of the first word selects strict vs non-strict header"},
		{br + "ReadMessage", "set", []string{"Message.Type=(read(4)#0[3]&7)"}, "binary:strict-header:type:reader", "message type is the low 3 bits of byte 3"},
		// ---------------- compact protocol
		{cw + "WriteInt16", "reach", []string{"encoding/binary.PutVarint"}, "compact:i16:zigzag:writer", "compact protocol: i16 is a zig-zag varint"},
		{cw + "WriteInt32", "reach", []string{"encoding/binary.PutVarint"}, "compact:i32:zigzag:writer", "compact protocol: i32 is a zig-zag varint"},
		{cw + "WriteInt64", "reach", []string{"encoding/binary.PutVarint"}, "compact:i64:zigzag:writer", "compact protocol: i64 is a zig-zag varint"},
		{cr + "ReadInt16", "reach", []string{"encoding/binary.ReadVarint"}, "compact:i16:zigzag:reader", "compact protocol: i16 is a zig-zag varint"},
		{cr + "ReadInt32", "reach", []string{"encoding/binary.ReadVarint"}, "compact:i32:zigzag:reader", "compact protocol: i32 is a zig-zag varint"},
		{cr + "ReadInt64", "reach", []string{"encoding/binary.ReadVarint"}, "compact:i64:zigzag:reader", "compact protocol: i64 is a zig-zag varint"},
		{cw + "WriteLength", "reach", []string{"encoding/binary.PutUvarint"}, "compact:length:uvarint:writer", "compact protocol: lengths are unsigned varints"},
		{cw + "writeVarint", "only", []string{"write(&compactWriter.varint[:binary.PutVarint(&compactWriter.varint[:],param:int64)])"}, "compact:varint:single-encoder:writer", "every zig-zag varint is produced by encoding/binary.PutVarint (no second, hand-written encoding path)"},
		{cw + "writeUvarint", "only", []string{"write(&compactWriter.varint[:binary.PutUvarint(&compactWriter.varint[:],param:uint64)])"}, "compact:uvarint:single-encoder:writer", "every unsigned varint is produced by encoding/binary.PutUvarint (no second, hand-written encoding path)"},
		{cr + "readVarint", "only", []string{}, "compact:varint:single-decoder:reader", "every zig-zag varint is consumed by encoding/binary.ReadVarint (no second, hand-written decoding path)"},
		{cr + "readUvarint", "only", []string{}, "compact:uvarint:single-decoder:reader", "every unsigned varint is consumed by encoding/binary.ReadUvarint (no second, hand-written decoding path)"},
		{cr + "ReadLength", "reach", []string{"encoding/binary.ReadUvarint"}, "compact:length:uvarint:reader", "compact protocol: lengths are unsigned varints"},
		{cw + "WriteFloat64", "reach", []string{"(encoding/binary.littleEndian).PutUint64"}, "compact:double:little-endian:writer", "compact protocol: double is 8 bytes LITTLE-endian"},
		{cr + "ReadFloat64", "reach", []string{"(encoding/binary.littleEndian).Uint64"}, "compact:double:little-endian:reader", "compact protocol: double is 8 bytes LITTLE-endian"},
		// compact: field header
		{cw + "WriteField", "cond", []string{"(Field.Type==0)"}, "compact:stop:one-byte:writer", "compact protocol: the stop field is the single byte 0"},
		{cw + "WriteField", "emit", []string{"writeByte(((Field.ID<<4)|Field.Type))", "writeByte((Field.Type|(Field.ID<<4)))"}, "compact:field:short-form:writer", "short form field header is (delta<<4)|type"},
		{cw + "WriteField", "cond", []string{"(Field.ID<16)"}, "compact:field:short-threshold:writer", "the short form is used for deltas 1..15"},
		{cw + "WriteField", "cond", []string{"Field.Delta"}, "compact:field:short-needs-delta:writer", "the short form encodes a DELTA: it may be taken only when the id is a delta (Field.Delta), an absolute id <= 15 needs the long form"},
		{cw + "WriteField", "emit", []string{"WriteInt16(Field.ID)"}, "compact:field:long-form:writer", "long form field header is type byte then zig-zag i16 id"},
		{cr + "ReadField", "cond", []string{"(ReadByte()#0==0)"}, "compact:stop:one-byte:reader", "a zero byte is the stop field"},
		{cr + "ReadField", "cond", []string{"((ReadByte()#0>>4)!=0)", "((ReadByte()#0>>4)==0)"}, "compact:field:short-threshold:reader", "a non-zero high nibble is a delta"},
		{cr + "ReadField", "set", []string{"Field.ID=(ReadByte()#0>>4)"}, "compact:field:short-id:reader", "delta is the high nibble"},
		{cr + "ReadField", "set", []string{"Field.Type=(ReadByte()#0&15)"}, "compact:field:short-type:reader", "type is the low nibble"},
		{cr + "ReadField", "set", []string{"Field.Delta=true"}, "compact:field:short-delta:reader", "short form ids are deltas"},
		{cr + "ReadField", "set", []string{"Field.ID=ReadInt16()#0"}, "compact:field:long-form:reader", "long form id is a zig-zag i16"},
		// compact: list header
		{cw + "WriteList", "cond", []string{"(List.Size<15)"}, "compact:list:short-threshold:writer", "sizes 0..14 use the one-byte list header"},
		{cw + "WriteList", "emit", []string{"writeByte(((List.Size<<4)|List.Type))", "writeByte((List.Type|(List.Size<<4)))"}, "compact:list:short-form:writer", "short list header is (size<<4)|type"},
		{cw + "WriteList", "emit", []string{"writeByte((240|List.Type))", "writeByte((List.Type|240))"}, "compact:list:long-marker:writer", "long list header is 0xF0|type then the size as unsigned varint"},
		{cw + "WriteList", "emit", []string{"writeUvarint(List.Size)"}, "compact:list:long-size:writer", "long list header carries the size as unsigned varint"},
		{cr + "ReadList", "cond", []string{"((ReadByte()#0>>4)!=15)", "((ReadByte()#0>>4)==15)"}, "compact:list:short-threshold:reader", "high nibble 0xF announces a varint size"},
		{cr + "ReadList", "set", []string{"List.Size=(ReadByte()#0>>4)"}, "compact:list:short-size:reader", "short size is the high nibble"},
		{cr + "ReadList", "set", []string{"List.Type=(ReadByte()#0&15)"}, "compact:list:type:reader", "element type is the low nibble"},
		{cr + "ReadList", "set", []string{`List.Size=readUvarint("list size",2147483647)#0`}, "compact:list:long-size:reader", "long size is an unsigned varint bounded by MaxInt32"},
		// compact: map header
		{cw + "WriteMap", "cond", []string{"(Map.Size==0)"}, "compact:map:empty:writer", "an empty map is the single byte 0"},
		{cw + "WriteMap", "emit", []string{"writeUvarint(Map.Size)"}, "compact:map:size:writer", "map header starts with the size as unsigned varint"},
		{cw + "WriteMap", "emit", []string{"writeByte(((Map.Key<<4)|Map.Value))", "writeByte((Map.Value|(Map.Key<<4)))"}, "compact:map:types:writer", "key type in the high nibble, value type in the low nibble"},
		{cr + "ReadMap", "cond", []string{`(readUvarint("map size",2147483647)#0==0)`}, "compact:map:empty:reader", "size 0 has no type byte"},
		{cr + "ReadMap", "set", []string{"Map.Key=(ReadByte()#0>>4)"}, "compact:map:key:reader", "key type is the high nibble"},
		{cr + "ReadMap", "set", []string{"Map.Value=(ReadByte()#0&15)"}, "compact:map:value:reader", "value type is the low nibble"},
		// compact: message header
		{cw + "WriteMessage", "emit", []string{"writeByte(130)"}, "compact:message:protocol-id:writer", "compact message starts with protocol id 0x82"},
		{cr + "ReadMessage", "cond", []string{"(ReadByte()#0!=130)", "(ReadByte()#0==130)"}, "compact:message:protocol-id:reader", "protocol id 0x82 is checked"},
		{cw + "WriteMessage", "emit", []string{"writeByte((1|(Message.Type<<5)))", "writeByte(((Message.Type<<5)|1))"}, "compact:message:version-type:writer", "second byte is (type<<5)|version with version 1"},
		{cr + "ReadMessage", "set", []string{"Message.Type=((ReadByte()#0>>5)&7)"}, "compact:message:version-type:reader", "message type is bits 5..7 of the second byte"},
		{cw + "WriteMessage", "emit", []string{"writeUvarint(Message.SeqID)"}, "compact:message:seqid:writer", "sequence id is an unsigned varint"},
	}
	// deviations that writer and reader share do not break the round trip (C04), only conformance (C13)
	specOnly := map[string]bool{
		"binary:stop:one-byte:writer": true, "binary:stop:one-byte:reader": true, "binary:strict-header:version:writer": true,
		"compact:double:little-endian:writer": true, "compact:double:little-endian:reader": true,
		"compact:message:version-type:writer": true, "compact:message:version-type:reader": true,
		"compact:field:short-needs-delta:writer": true,
	}
	facts := map[string]*tlFacts{}
	for _, a := range asserts {
		b.props = []string{"C13", "C04"}
		if specOnly[a.key] {
			b.props = []string{"C13"}
		}
		f, ok := facts[a.method]
		if !ok {
			f = collectTL(c, a.method)
			facts[a.method] = f
		}
		key := a.key
		if f == nil {
			b.und(key, "-", "method "+a.method+" not found")
			continue
		}
		pos := c.FuncPos(f.fn)
		found := false
		var have []string
		switch a.kind {
		case "emit":
			for _, w := range a.want {
				if in, ok := f.emits[w]; ok {
					found, pos = true, c.InstrPos(in)
				}
			}
			have = sortedKeys(f.emits)
		case "cond":
			for _, w := range a.want {
				if in, ok := f.conds[w]; ok {
					found, pos = true, c.InstrPos(in)
				}
			}
			have = sortedKeys(f.conds)
		case "set":
			for _, w := range a.want {
				if in, ok := f.sets[w]; ok {
					found, pos = true, c.InstrPos(in)
				}
			}
			have = sortedKeys(f.sets)
		case "only":
			// every byte the function moves goes through the listed call: any other
			// write*/read* primitive is an alternative encoding path
			found = true
			for e, in := range f.emits {
				if !(strings.HasPrefix(e, "write(") || strings.HasPrefix(e, "writeByte(") || strings.HasPrefix(e, "read(") || strings.HasPrefix(e, "readByte(") || strings.HasPrefix(e, "ReadByte(") || strings.HasPrefix(e, "invoke.")) {
					continue
				}
				listed := false
				for _, w := range a.want {
					if e == w {
						listed = true
					}
				}
				if !listed && tlSingleByteFastPath(f.fn, in, e) {
					listed = true // a one-byte fast path whose guard implies the one-byte form
				}
				if !listed {
					found, pos = false, c.InstrPos(in)
					have = append(have, e)
				}
			}
			if found {
				pos = c.FuncPos(f.fn)
			}
		case "reach":
			for _, w := range a.want {
				if tlReaches(c, f.fn, w, map[*ssa.Function]bool{}) {
					found = true
				}
			}
			for _, ci := range callsIn(f.fn) {
				have = append(have, texpr(ci.Value(), 0))
			}
		}
		if found {
			b.ok(key, pos, a.spec)
		} else {
			var short []string
			for _, h := range have {
				if !strings.Contains(h, "Errorf") && !strings.HasSuffix(h, "!=nil)") && len(h) < 90 {
					short = append(short, h)
				}
			}
			b.bad(key, pos, fmt.Sprintf("specification: %s. %s has no %s fact %v; it has %v", a.spec, a.method, a.kind, a.want, short))
		}
	}

	// ---------------- type codes
	b.props = []string{"C13"}
	tp := c.Pkg("thrift")
	if tp == nil {
		b.und("typecodes", "-", "package thrift not loaded")
		return b.out
	}
	val := func(name string) int64 {
		k, _ := tp.Types.Scope().Lookup(name).(*types.Const)
		if k == nil {
			return -1
		}
		v, _ := constantUint(k)
		return int64(v)
	}
	compactCodes := map[string]int64{"STOP": 0, "TRUE": 1, "FALSE": 2, "I8": 3, "I16": 4, "I32": 5, "I64": 6, "DOUBLE": 7, "BINARY": 8, "LIST": 9, "SET": 10, "MAP": 11, "STRUCT": 12}
	binaryCodes := map[string]int64{"STOP": 0, "BOOL": 2, "I8": 3, "DOUBLE": 4, "I16": 6, "I32": 8, "I64": 10, "BINARY": 11, "STRUCT": 12, "MAP": 13, "SET": 14, "LIST": 15}
	var bad []string
	for _, n := range sortedKeys(compactCodes) {
		if val(n) != compactCodes[n] {
			bad = append(bad, fmt.Sprintf("%s=%d (spec %d)", n, val(n), compactCodes[n]))
		}
	}
	// the compact writers emit byte(Type) unmapped: the constants must be the compact codes
	if len(bad) == 0 {
		b.ok("typecodes:compact", c.PosOf(tp.Types.Scope().Lookup("STOP").Pos()), "Type constants equal the compact protocol type codes, which compactWriter emits unmapped")
	} else {
		b.bad("typecodes:compact", c.PosOf(tp.Types.Scope().Lookup("STOP").Pos()), "compact protocol type codes differ from the specification: "+strings.Join(bad, ", "))
	}
	// binary: either the writer maps Type to the binary codes, or the constants are the binary codes
	bwf := facts[bw+"WriteField"]
	unmapped := bwf != nil && bwf.emits["writeByte(Field.Type)"] != nil
	bad = nil
	for _, n := range sortedKeys(binaryCodes) {
		if val(n) != binaryCodes[n] {
			bad = append(bad, fmt.Sprintf("%s is written as %d (spec %d)", n, val(n), binaryCodes[n]))
		}
	}
	if unmapped && len(bad) > 0 {
		b.bad("typecodes:binary", c.FuncPos(bwf.fn), "binaryWriter emits byte(Type) unmapped, but the Type constants are the compact codes: "+strings.Join(bad, ", "))
	} else {
		b.ok("typecodes:binary", "-", "binary type codes are mapped to the specification's values")
	}
	// message types
	mt := map[string]int64{"Call": 1, "Reply": 2, "Exception": 3, "Oneway": 4}
	bad = nil
	for _, n := range sortedKeys(mt) {
		if val(n) != mt[n] {
			bad = append(bad, fmt.Sprintf("%s=%d (spec %d)", n, val(n), mt[n]))
		}
	}
	if len(bad) > 0 {
		b.bad("messagetypes", c.PosOf(tp.Types.Scope().Lookup("Call").Pos()), "MessageType constants are written unmapped into message headers but differ from the specification: "+strings.Join(bad, ", "))
	} else {
		b.ok("messagetypes", c.PosOf(tp.Types.Scope().Lookup("Call").Pos()), "MessageType constants equal the specification's values")
	}
	return b.out
}

// tlSingleByteFastPath: an extra writeByte in a varint writer is equivalent to the library
// encoder when its operand is the zig-zag (or plain, for unsigned) value and the dominating
// guards bound the parameter to the range whose encoding is one byte.
func tlSingleByteFastPath(fn *ssa.Function, in ssa.Instruction, expr string) bool {
	if len(fn.Params) < 2 {
		return false
	}
	p := fn.Params[len(fn.Params)-1]
	lo, hi := rangeFacts(p, in.Block())
	switch expr {
	case "writeByte(((param:int64<<1)^(param:int64>>63)))":
		return lo != nil && hi != nil && lo.Cmp(big.NewInt(-64)) >= 0 && hi.Cmp(big.NewInt(63)) <= 0
	case "writeByte(param:uint64)":
		return hi != nil && hi.Cmp(big.NewInt(127)) <= 0
	}
	return false
}
