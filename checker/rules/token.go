package rules

import (
	"fmt"
	"go/token"
	"go/types"
	"sort"
	"strings"

	"golang.org/x/tools/go/ssa"

	"verif/checker/core"
)

// R-TOKEN — the Tokenizer's bookkeeping is a function of the delimiter just read: for each of the
// six delimiters the effects performed on the paths where t.Delim is known to be that delimiter
// are exactly the ones the token-stream semantics require.
func init() {
	Register(&Rule{
		ID:    "R-TOKEN",
		Doc:   "forward dataflow of the possible values of t.Delim along the branch edges of Tokenizer.Next; on the paths where the delimiter is known, the effects (stores to isKey, push/pop with their scope constant, Depth decrement, element-count increment) equal the table: '{' push(inObject), isKey=true; '[' push(inArray); '}' pop(inObject), Depth--, isKey=false; ']' pop(inArray), Depth--; ':' isKey=false; ',' count++, isKey=true only under stack.is(inObject); a pooled stack is truncated when it is acquired",
		Props: []string{"C17"},
		Min:   map[string]int{"C17": 7},
		Run:   runToken,
	})
}

// constFlow: possible small-constant values of v on entry to each block (bit i of the set = the
// i-th entry of universe; the last bit = "anything else").
func constFlow(fn *ssa.Function, v ssa.Value, universe []int64) map[*ssa.BasicBlock]uint32 {
	idx := map[int64]int{}
	for i, k := range universe {
		idx[k] = i
	}
	all := uint32(1)<<uint(len(universe)+1) - 1
	in := map[*ssa.BasicBlock]uint32{}
	def := fn.Blocks[0]
	if ins, ok := v.(ssa.Instruction); ok && ins.Block() != nil {
		def = ins.Block()
	}
	in[def] = all
	work := []*ssa.BasicBlock{def}
	for len(work) > 0 {
		blk := work[len(work)-1]
		work = work[:len(work)-1]
		cur := in[blk]
		outs := make([]uint32, len(blk.Succs))
		for i := range outs {
			outs[i] = cur
		}
		if n := len(blk.Instrs); n > 0 {
			if ifi, ok := blk.Instrs[n-1].(*ssa.If); ok {
				if bo, ok := ifi.Cond.(*ssa.BinOp); ok && (bo.Op == token.EQL || bo.Op == token.NEQ) {
					var k int64
					found := false
					if bo.X == v {
						k, found = constInt(bo.Y)
					} else if bo.Y == v {
						k, found = constInt(bo.X)
					}
					if found {
						eq, ne := 0, 1
						if bo.Op == token.NEQ {
							eq, ne = 1, 0
						}
						if i, ok := idx[k]; ok {
							outs[eq] = cur & (1 << uint(i))
							outs[ne] = cur &^ (1 << uint(i))
						} else {
							outs[eq] = cur & (1 << uint(len(universe)))
						}
					}
				}
			}
		}
		for i, s := range blk.Succs {
			if s == def {
				continue
			}
			old, seen := in[s]
			nv := old | outs[i]
			if !seen || nv != old {
				in[s] = nv
				work = append(work, s)
			}
		}
	}
	return in
}

func runToken(c *core.Ctx) []core.Obligation {
	b := newOb(c, "R-TOKEN")
	props := []string{"C17"}
	fn := c.Lookup("json.(*Tokenizer).Next")
	if fn == nil {
		b.addP(props, core.Undecided, "token:next", "-", "json.(*Tokenizer).Next not found")
		return b.out
	}
	delims := []int64{'{', '}', '[', ']', ':', ','}
	inObject := int64(jsonScopeConst(c, "inObject"))
	inArray := int64(jsonScopeConst(c, "inArray"))

	// effects per delimiter
	type effects struct {
		isKeyTrue, isKeyFalse []ssa.Instruction
		isKeyTrueGuarded      bool
		push, pop             map[int64]bool
		depthDec, countInc    bool
		at                    string
	}
	eff := map[int64]*effects{}
	for _, d := range delims {
		eff[d] = &effects{push: map[int64]bool{}, pop: map[int64]bool{}}
	}
	// every load of t.Delim gets its own flow
	var loads []ssa.Value
	for _, blk := range fn.Blocks {
		for _, in := range blk.Instrs {
			if ld, ok := in.(*ssa.UnOp); ok && ld.Op == token.MUL {
				if fa, ok := ld.X.(*ssa.FieldAddr); ok && fieldNameOf(fa) == "Delim" {
					loads = append(loads, ld)
				}
			}
		}
	}
	if len(loads) == 0 {
		b.addP(props, core.Undecided, "token:next", c.FuncPos(fn), "no load of t.Delim found")
		return b.out
	}
	for _, ld := range loads {
		flow := constFlow(fn, ld, delims)
		for _, blk := range fn.Blocks {
			set, ok := flow[blk]
			if !ok || set == 0 || popcount(set) != 1 || set == 1<<uint(len(delims)) {
				continue
			}
			var d int64
			for i, k := range delims {
				if set == 1<<uint(i) {
					d = k
				}
			}
			e := eff[d]
			if e.at == "" && len(blk.Instrs) > 0 {
				e.at = c.InstrPos(blk.Instrs[0])
			}
			for _, in := range blk.Instrs {
				switch x := in.(type) {
				case *ssa.Store:
					if fa, ok := x.Addr.(*ssa.FieldAddr); ok {
						switch fieldNameOf(fa) {
						case "isKey":
							if k, ok := x.Val.(*ssa.Const); ok && k.Value != nil {
								if k.Value.String() == "true" {
									e.isKeyTrue = append(e.isKeyTrue, x)
									for _, de := range dominatingEdges(blk) {
										if call, ok := de.ifi.Cond.(*ssa.Call); ok && de.succ == 0 {
											if f := staticCallee(call.Common()); f != nil && f.Name() == "is" && len(call.Common().Args) == 2 {
												if k, ok := constInt(call.Common().Args[1]); ok && k == inObject {
													e.isKeyTrueGuarded = true
												}
											}
										}
									}
								} else {
									e.isKeyFalse = append(e.isKeyFalse, x)
								}
							}
						case "Depth":
							if bo, ok := x.Val.(*ssa.BinOp); ok && bo.Op == token.SUB {
								if k, ok := constInt(bo.Y); ok && k == 1 {
									e.depthDec = true
								}
							}
						case "len":
							if bo, ok := x.Val.(*ssa.BinOp); ok && bo.Op == token.ADD {
								if k, ok := constInt(bo.Y); ok && k == 1 {
									e.countInc = true
								}
							}
						}
					}
				case *ssa.Call:
					f := staticCallee(x.Common())
					if f == nil || len(x.Common().Args) != 2 {
						continue
					}
					k, isK := constInt(x.Common().Args[1])
					if !isK {
						continue
					}
					switch f.Name() {
					case "push":
						e.push[k] = true
					case "pop":
						e.pop[k] = true
					}
				}
			}
		}
	}
	type want struct {
		d                  int64
		push, pop          int64 // -1 none
		keyTrue, keyFalse  bool
		keyTrueGuarded     bool
		depthDec, countInc bool
	}
	table := []want{
		{d: '{', push: inObject, pop: -1, keyTrue: true},
		{d: '[', push: inArray, pop: -1},
		{d: '}', push: -1, pop: inObject, keyFalse: true, depthDec: true},
		{d: ']', push: -1, pop: inArray, depthDec: true},
		{d: ':', push: -1, pop: -1, keyFalse: true},
		{d: ',', push: -1, pop: -1, keyTrue: true, keyTrueGuarded: true, countInc: true},
	}
	scopeName := func(k int64) string {
		switch k {
		case inObject:
			return "inObject"
		case inArray:
			return "inArray"
		}
		return fmt.Sprint(k)
	}
	for _, w := range table {
		e := eff[w.d]
		key := fmt.Sprintf("token:delim:%q", rune(w.d))
		var problems []string
		var pushes, pops []string
		for k := range e.push {
			pushes = append(pushes, scopeName(k))
		}
		for k := range e.pop {
			pops = append(pops, scopeName(k))
		}
		sort.Strings(pushes)
		sort.Strings(pops)
		wantPush, wantPop := []string{}, []string{}
		if w.push >= 0 {
			wantPush = []string{scopeName(w.push)}
		}
		if w.pop >= 0 {
			wantPop = []string{scopeName(w.pop)}
		}
		if strings.Join(pushes, ",") != strings.Join(wantPush, ",") {
			problems = append(problems, fmt.Sprintf("pushes %v where %v is required", pushes, wantPush))
		}
		if strings.Join(pops, ",") != strings.Join(wantPop, ",") {
			problems = append(problems, fmt.Sprintf("pops %v where %v is required", pops, wantPop))
		}
		if w.keyTrue != (len(e.isKeyTrue) > 0) {
			problems = append(problems, fmt.Sprintf("sets isKey=true: %v, required: %v", len(e.isKeyTrue) > 0, w.keyTrue))
		}
		if w.keyFalse != (len(e.isKeyFalse) > 0) {
			problems = append(problems, fmt.Sprintf("sets isKey=false: %v, required: %v (a scalar that follows would be reported with a stale IsKey)", len(e.isKeyFalse) > 0, w.keyFalse))
		}
		if w.keyTrueGuarded && len(e.isKeyTrue) > 0 && !e.isKeyTrueGuarded {
			problems = append(problems, "sets isKey=true without testing that the enclosing container is an object")
		}
		if w.depthDec != e.depthDec {
			problems = append(problems, fmt.Sprintf("decrements Depth: %v, required: %v", e.depthDec, w.depthDec))
		}
		if w.countInc != e.countInc {
			problems = append(problems, fmt.Sprintf("increments the element count: %v, required: %v", e.countInc, w.countInc))
		}
		pos := e.at
		if pos == "" {
			pos = c.FuncPos(fn)
			problems = append(problems, "no path on which t.Delim is known to be this delimiter")
		}
		if len(problems) > 0 {
			b.addP(props, core.Violation, key, pos, fmt.Sprintf("Tokenizer.Next on %q %s", rune(w.d), strings.Join(problems, "; ")))
		} else {
			b.addP(props, core.Discharged, key, pos, "effects match the token-stream table")
		}
	}

	// every token has its own kind and its own Delim: the kind field of the flags is stored on every
	// path, whatever the kind is (a separator has kind Undefined — keeping the previous token's kind
	// makes Kind() answer Num on the commas of [1,2,3]), and Delim is stored on every path that leads to
	// a scanner call (a scalar that keeps the previous token's Delim replays that delimiter's
	// bookkeeping: the '[' before a null is pushed twice)
	{
		var kindStore *ssa.Store
		for _, blk := range fn.Blocks {
			for _, in := range blk.Instrs {
				st, ok := in.(*ssa.Store)
				if !ok {
					continue
				}
				fa, ok := st.Addr.(*ssa.FieldAddr)
				if !ok || fieldNameOf(fa) != "flags" {
					continue
				}
				if call, ok := st.Val.(*ssa.Call); ok {
					if f := staticCallee(call.Common()); f != nil && f.Name() == "withKind" {
						kindStore = st
					}
				}
			}
		}
		key := "token:kind-stored-for-every-token"
		switch {
		case kindStore == nil:
			b.addP(props, core.Violation, key, c.FuncPos(fn), "Tokenizer.Next no longer stores the token's kind with flags.withKind: Kind() reports the kind of an earlier token")
		default:
			kindArg := kindStore.Val.(*ssa.Call).Common().Args[len(kindStore.Val.(*ssa.Call).Common().Args)-1]
			cond := ""
			for _, e := range dominatingEdges(kindStore.Block()) {
				if dependsOn(e.ifi.Cond, func(x ssa.Value) bool { return x == kindArg }) {
					cond = c.InstrPos(e.ifi)
				}
			}
			if cond != "" {
				b.addP(props, core.Violation, key, c.InstrPos(kindStore), "the kind of the token is only stored under a test of the kind itself ("+cond+"): a token without a kind (',' ':' '}' ']') keeps the kind of the token before it, so Kind() reports Num for the commas and the closing bracket of [1,2,3]")
			} else {
				b.addP(props, core.Discharged, key, c.InstrPos(kindStore), "flags.withKind(kind) is stored whatever the kind")
			}
		}
		// must-store of Delim before each scanner call
		stored := map[*ssa.BasicBlock]bool{}
		hasStore := func(blk *ssa.BasicBlock, before ssa.Instruction) bool {
			for _, in := range blk.Instrs {
				if in == before {
					return false
				}
				if st, ok := in.(*ssa.Store); ok {
					if fa, ok := st.Addr.(*ssa.FieldAddr); ok && fieldNameOf(fa) == "Delim" {
						return true
					}
				}
			}
			return false
		}
		for _, blk := range fn.Blocks {
			stored[blk] = true
		}
		stored[fn.Blocks[0]] = false
		inOf := func(blk *ssa.BasicBlock) bool {
			if blk == fn.Blocks[0] {
				return false
			}
			v := true
			for _, p := range blk.Preds {
				if !(stored[p] || hasStore(p, nil)) {
					v = false
				}
			}
			return v
		}
		for changed := true; changed; {
			changed = false
			for _, blk := range fn.Blocks {
				if v := inOf(blk); v != stored[blk] {
					stored[blk] = v
					changed = true
				}
			}
		}
		n, bad := 0, ""
		for _, ci := range callsIn(fn) {
			f := staticCallee(ci.Common())
			if f == nil || !strings.HasPrefix(f.Name(), "parse") {
				continue
			}
			n++
			if !(stored[ci.Block()] || hasStore(ci.Block(), ci)) {
				bad = c.InstrPos(ci) + " (" + f.Name() + ")"
			}
		}
		key2 := "token:delim-stored-for-every-scalar"
		switch {
		case n == 0:
			b.addP(props, core.Undecided, key2, c.FuncPos(fn), "Tokenizer.Next calls no parse* scanner")
		case bad != "":
			b.addP(props, core.Violation, key2, bad, "a scalar is scanned at "+bad+" on a path where t.Delim has not been stored since Next was entered: the token keeps the previous token's delimiter, and the delimiter half of Next replays its bookkeeping — in [null,7] the '[' is pushed twice and 7 is reported at depth 2")
		default:
			b.addP(props, core.Discharged, key2, c.FuncPos(fn), fmt.Sprintf("t.Delim is stored on every path to each of the %d scanner calls", n))
		}
	}

	// a pooled stack is empty when acquired
	if fa := c.Lookup("json.acquireStack"); fa != nil {
		var get ssa.Value
		for _, ci := range callsIn(fa) {
			if _, m, ok := poolOp(ci); ok && m == "Get" {
				get = ci.Value()
			}
		}
		truncated := false
		for _, blk := range fa.Blocks {
			for _, in := range blk.Instrs {
				st, ok := in.(*ssa.Store)
				if !ok {
					continue
				}
				fad, isFA := st.Addr.(*ssa.FieldAddr)
				sl, isSl := st.Val.(*ssa.Slice)
				if !isFA || !isSl || sl.High == nil {
					continue
				}
				if k, ok := constInt(sl.High); ok && k == 0 && fieldNameOf(fad) == "state" {
					// s.state = s.state[:0] — a reslice of the recycled object's own field, not
					// the [:0] of a freshly made array
					if ld, ok := sl.X.(*ssa.UnOp); ok && ld.Op == token.MUL {
						if fa2, ok := ld.X.(*ssa.FieldAddr); ok && fa2.Field == fad.Field {
							truncated = true
						}
					}
				}
			}
		}
		// or truncated on release
		if fr := c.Lookup("json.releaseStack"); fr != nil && !truncated {
			for _, blk := range fr.Blocks {
				for _, in := range blk.Instrs {
					if st, ok := in.(*ssa.Store); ok {
						if sl, ok := st.Val.(*ssa.Slice); ok && sl.High != nil {
							if k, ok := constInt(sl.High); ok && k == 0 {
								if ld, ok := sl.X.(*ssa.UnOp); ok && ld.Op == token.MUL {
									if _, ok := ld.X.(*ssa.FieldAddr); ok {
										truncated = true
									}
								}
							}
						}
					}
				}
			}
		}
		key := "token:stack-acquire-empty"
		switch {
		case get == nil:
			b.addP(props, core.Undecided, key, c.FuncPos(fa), "acquireStack no longer takes the stack from a sync.Pool")
		case truncated:
			b.addP(props, core.Discharged, key, c.FuncPos(fa), "the recycled stack's state is truncated to length 0")
		default:
			b.addP(props, core.Violation, key, c.FuncPos(fa), "a stack taken from the pool is used without truncating its state: a tokenizer that released its stack with containers still open (truncated document, Reset mid-document) leaves entries that the next tokenizer reports as extra Depth")
		}
	} else {
		b.addP(props, core.Undecided, "token:stack-acquire-empty", "-", "json.acquireStack not found")
	}
	return b.out
}

func jsonScopeConst(c *core.Ctx, name string) uint64 {
	jp := c.Pkg("json")
	if jp == nil {
		return 0
	}
	k, _ := jp.Types.Scope().Lookup(name).(*types.Const)
	if k == nil {
		return 0
	}
	v, _ := constantUint(k)
	return v
}
