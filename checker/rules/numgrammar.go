package rules

import (
	"fmt"
	"go/token"
	"go/types"
	"sort"
	"strings"

	"golang.org/x/tools/go/ssa"

	"verif/checker/core"
)

// R-NUMGRAMMAR — json.(decoder).parseNumber recognises exactly the RFC 8259 number grammar with
// maximal munch, decided by a product construction between the reference automaton and an
// abstract interpretation of the function's SSA.
//
// Abstract domain (finite): every integer value is a position relative to the scanner's current
// position cur (cur-k, k in {-1,0,1,2,3+}); len(b) is related to cur by {unknown, cur<len, cur==len};
// the byte at cur is one of the classes induced by the byte constants the function compares with;
// the absolute value of cur is tracked while it is below 3 (constants 0 and 1 are positions).
// φs are resolved by the incoming edge, conditions that depend on what is not known yet (is there a
// byte at cur? which class?) fork the state. Nothing is executed: the exploration covers every
// abstract state, each standing for all inputs with that history.
func init() {
	Register(&Rule{
		ID:    "R-NUMGRAMMAR",
		Doc:   "product of the RFC 8259 number automaton (sign, leading zero, integer, fraction, exponent) with an exhaustive abstract interpretation of json.(decoder).parseNumber over {position relative to the cursor, end-of-input relation, byte class}: in every reachable pair the function consumes a byte iff the automaton has that transition, returns the prefix ending at the cursor with a nil error iff the automaton is stuck in an accepting state, returns an error iff it is stuck in a non-accepting one, reads no byte it has not bounds-tested, and reports the Kind (Uint / Int / Float) the consumed text has",
		Props: []string{"C05", "C02", "C11", "C17", "C06", "C14"},
		Min:   map[string]int{"C05": 1, "C02": 1, "C11": 1, "C17": 1, "C06": 1},
		Run:   runNumGrammar,
	})
}

// ---- reference automaton

const (
	nsStart     = iota // nothing consumed
	nsMinus            // '-'
	nsZero             // leading 0
	nsInt              // 1-9 digits*
	nsDot              // '.' just consumed
	nsFrac             // fraction digits
	nsExp              // 'e' just consumed
	nsExpSign          // exponent sign consumed
	nsExpDigits        // exponent digits
)

var nsNames = []string{"start", "after '-'", "after leading 0", "in integer digits", "after '.'", "in fraction digits", "after 'e'", "after exponent sign", "in exponent digits"}

func nsAccepting(s int) bool {
	return s == nsZero || s == nsInt || s == nsFrac || s == nsExpDigits
}

// nsStep: the automaton's transition on byte c, or -1.
func nsStep(s int, c byte) int {
	digit := c >= '0' && c <= '9'
	switch s {
	case nsStart:
		switch {
		case c == '-':
			return nsMinus
		case c == '0':
			return nsZero
		case digit:
			return nsInt
		}
	case nsMinus:
		switch {
		case c == '0':
			return nsZero
		case digit:
			return nsInt
		}
	case nsZero:
		switch {
		case c == '.':
			return nsDot
		case c == 'e' || c == 'E':
			return nsExp
		}
	case nsInt:
		switch {
		case digit:
			return nsInt
		case c == '.':
			return nsDot
		case c == 'e' || c == 'E':
			return nsExp
		}
	case nsDot:
		if digit {
			return nsFrac
		}
	case nsFrac:
		switch {
		case digit:
			return nsFrac
		case c == 'e' || c == 'E':
			return nsExp
		}
	case nsExp:
		switch {
		case c == '+' || c == '-':
			return nsExpSign
		case digit:
			return nsExpDigits
		}
	case nsExpSign:
		if digit {
			return nsExpDigits
		}
	case nsExpDigits:
		if digit {
			return nsExpDigits
		}
	}
	return -1
}

// ---- abstract state

const (
	eofUnknown = iota
	eofHas
	eofEnd
)

const farK = 3 // cur-3 or further back

type ngState struct {
	blk     *ssa.BasicBlock
	pred    int // index of the predecessor we came from (-1 at entry)
	spec    int
	neg     bool // '-' consumed
	flt     bool // '.' or exponent consumed
	curAbs  int  // absolute cur if < 3, else 3
	eof     int
	cls     int // class index of the byte at cur, -1 unknown
	env     map[ssa.Value]int
	kenv    map[ssa.Value]int64 // constant-valued φs (the Kind result)
	witness string
	// position inside the block and the facts about the block's own values, so that a fork
	// resumes at the instruction that needed more information
	pc     int
	bools  map[ssa.Value]int // 1 true, 2 false
	bytes  map[ssa.Value]bool
	lens   map[ssa.Value]bool
	slices map[ssa.Value]ngSlice
	nonNil map[ssa.Value]bool
}

type ngSlice struct {
	lo, hi       int
	hasLo, hasHi bool
	ok           bool
}

func (s *ngState) clone() *ngState {
	c := *s
	c.env = make(map[ssa.Value]int, len(s.env))
	for k, v := range s.env {
		c.env[k] = v
	}
	c.kenv = make(map[ssa.Value]int64, len(s.kenv))
	for k, v := range s.kenv {
		c.kenv[k] = v
	}
	c.bools = map[ssa.Value]int{}
	for k, v := range s.bools {
		c.bools[k] = v
	}
	c.bytes = map[ssa.Value]bool{}
	for k, v := range s.bytes {
		c.bytes[k] = v
	}
	c.lens = map[ssa.Value]bool{}
	for k, v := range s.lens {
		c.lens[k] = v
	}
	c.slices = map[ssa.Value]ngSlice{}
	for k, v := range s.slices {
		c.slices[k] = v
	}
	c.nonNil = map[ssa.Value]bool{}
	for k, v := range s.nonNil {
		c.nonNil[k] = v
	}
	return &c
}

type numGrammar struct {
	c         *core.Ctx
	fn        *ssa.Function
	buf       *ssa.Parameter
	classes   [][2]int // byte ranges [lo,hi]
	live      map[*ssa.BasicBlock]map[ssa.Value]bool
	kinds     map[string]int64
	problems  map[string]string // message -> position
	best      map[string]string // site|kind -> message kept
	undecided map[string]string
}

func (g *numGrammar) classOf(b byte) int {
	for i, r := range g.classes {
		if int(b) >= r[0] && int(b) <= r[1] {
			return i
		}
	}
	return -1
}

func (g *numGrammar) rep(cls int) byte { return byte(g.classes[cls][0]) }

func printable(b byte) string {
	if b >= 0x20 && b < 0x7f {
		return string(rune(b))
	}
	return fmt.Sprintf("\\x%02x", b)
}

func runNumGrammar(c *core.Ctx) []core.Obligation {
	b := newOb(c, "R-NUMGRAMMAR")
	props := []string{"C05", "C02", "C11", "C17", "C06", "C14"}
	key := "numgrammar:json.(decoder).parseNumber"
	fn := c.Lookup("json.(decoder).parseNumber")
	if fn == nil {
		b.addP(props, core.Undecided, key, "-", "json.(decoder).parseNumber not found")
		return b.out
	}
	g := &numGrammar{c: c, fn: fn, buf: bufParam(fn), problems: map[string]string{}, best: map[string]string{}, undecided: map[string]string{}, kinds: map[string]int64{}}
	for _, n := range []string{"Uint", "Int", "Float"} {
		g.kinds[n] = int64(jsonScopeConst(c, n))
	}
	// byte classes: cut the alphabet at every byte constant the function compares with
	cuts := map[int]bool{}
	for _, blk := range fn.Blocks {
		for _, in := range blk.Instrs {
			bo, ok := in.(*ssa.BinOp)
			if !ok {
				continue
			}
			for _, v := range []ssa.Value{bo.X, bo.Y} {
				if k, ok := v.(*ssa.Const); ok {
					if bt, ok := k.Type().Underlying().(*types.Basic); ok && bt.Kind() == types.Uint8 {
						if x, ok := constInt(k); ok {
							cuts[int(x)] = true
						}
					}
				}
			}
		}
	}
	// the automaton's own constants too, so that a class never straddles a grammar boundary
	for _, x := range []int{'-', '+', '.', '0', '1', '9', 'e', 'E'} {
		cuts[x] = true
	}
	var pts []int
	for x := range cuts {
		pts = append(pts, x)
	}
	sort.Ints(pts)
	lo := 0
	for _, x := range pts {
		if x > lo {
			g.classes = append(g.classes, [2]int{lo, x - 1})
		}
		g.classes = append(g.classes, [2]int{x, x})
		lo = x + 1
	}
	if lo <= 255 {
		g.classes = append(g.classes, [2]int{lo, 255})
	}
	g.computeLive()

	start := &ngState{blk: fn.Blocks[0], pred: -1, spec: nsStart, curAbs: 0, eof: eofUnknown, cls: -1, env: map[ssa.Value]int{}, kenv: map[ssa.Value]int64{}}
	seen := map[string]bool{}
	work := []*ngState{start}
	steps := 0
	for len(work) > 0 && steps < 200000 {
		steps++
		st := work[len(work)-1]
		work = work[:len(work)-1]
		k := g.keyOf(st)
		if seen[k] {
			continue
		}
		seen[k] = true
		work = append(work, g.exec(st)...)
	}
	switch {
	case len(g.problems) > 0:
		var msgs []string
		for m := range g.problems {
			msgs = append(msgs, m)
		}
		sort.Strings(msgs)
		for i, m := range msgs {
			kk := key
			if i > 0 {
				kk = fmt.Sprintf("%s#%d", key, i+1)
			}
			b.addP(props, core.Violation, kk, g.problems[m], m)
		}
	case len(g.undecided) > 0 || steps >= 200000:
		var msgs []string
		for m := range g.undecided {
			msgs = append(msgs, m)
		}
		sort.Strings(msgs)
		if len(msgs) == 0 {
			msgs = []string{"state space not exhausted"}
		}
		b.addP(props, core.Undecided, key, c.FuncPos(fn), "the abstract interpretation met a construct outside its domain: "+msgs[0])
	default:
		b.addP(props, core.Discharged, key, c.FuncPos(fn), fmt.Sprintf("%d abstract states explored (%d byte classes): the function and the RFC 8259 number automaton agree on every transition, every accept, every error, every Kind; every byte read is bounds-tested", len(seen), len(g.classes)))
	}
	return b.out
}

func (g *numGrammar) computeLive() {
	g.live = map[*ssa.BasicBlock]map[ssa.Value]bool{}
	isInt := func(v ssa.Value) bool {
		if _, ok := v.(*ssa.Const); ok {
			return false
		}
		bt, ok := v.Type().Underlying().(*types.Basic)
		return ok && bt.Kind() == types.Int
	}
	for _, blk := range g.fn.Blocks {
		g.live[blk] = map[ssa.Value]bool{}
	}
	changed := true
	for changed {
		changed = false
		for i := len(g.fn.Blocks) - 1; i >= 0; i-- {
			blk := g.fn.Blocks[i]
			out := map[ssa.Value]bool{}
			for _, s := range blk.Succs {
				for v := range g.live[s] {
					out[v] = true
				}
				// φ operands on the edge blk -> s
				for pi, p := range s.Preds {
					if p != blk {
						continue
					}
					for _, in := range s.Instrs {
						phi, ok := in.(*ssa.Phi)
						if !ok {
							break
						}
						if isInt(phi.Edges[pi]) {
							out[phi.Edges[pi]] = true
						}
					}
				}
			}
			for j := len(blk.Instrs) - 1; j >= 0; j-- {
				in := blk.Instrs[j]
				if v, ok := in.(ssa.Value); ok {
					delete(out, v)
				}
				if _, isPhi := in.(*ssa.Phi); isPhi {
					continue
				}
				var ops []*ssa.Value
				for _, op := range in.Operands(ops) {
					if *op != nil && isInt(*op) {
						out[*op] = true
					}
				}
			}
			if len(out) != len(g.live[blk]) {
				changed = true
			} else {
				for v := range out {
					if !g.live[blk][v] {
						changed = true
					}
				}
			}
			g.live[blk] = out
		}
	}
}

func (g *numGrammar) keyOf(s *ngState) string {
	var parts []string
	for v, k := range s.env {
		if g.live[s.blk][v] || g.phiInput(s, v) {
			parts = append(parts, fmt.Sprintf("%s=%d", v.Name(), k))
		}
	}
	for v, k := range s.kenv {
		parts = append(parts, fmt.Sprintf("%s:%d", v.Name(), k))
	}
	sort.Strings(parts)
	return fmt.Sprintf("%d@%d|%d|%d|%v|%v|%d|%d|%d|%s", s.blk.Index, s.pc, s.pred, s.spec, s.neg, s.flt, s.curAbs, s.eof, s.cls, strings.Join(parts, ","))
}

// phiInput: v is the operand of a φ of s.blk on the edge we arrived by.
func (g *numGrammar) phiInput(s *ngState, v ssa.Value) bool {
	if s.pred < 0 {
		return false
	}
	for _, in := range s.blk.Instrs {
		phi, ok := in.(*ssa.Phi)
		if !ok {
			break
		}
		if phi.Edges[s.pred] == v {
			return true
		}
	}
	return false
}

func (g *numGrammar) problem(st *ngState, in ssa.Instruction, msg string) {
	// one report per (site, kind of disagreement): keep the shortest witness
	base := msg
	if i := strings.Index(base, " ("); i > 0 {
		base = base[:i]
	}
	id := g.c.InstrPos(in) + "|" + base
	m := fmt.Sprintf("%s (input so far %q, automaton %s)", msg, st.witness, nsNames[st.spec])
	if prev, dup := g.best[id]; dup && len(prev) <= len(m) {
		return
	} else if dup {
		delete(g.problems, prev)
	}
	g.best[id] = m
	g.problems[m] = g.c.InstrPos(in)
}

// posOf: the position of an int value relative to cur (k such that value = cur-k), ok=false if
// the value is not a tracked position.
func (g *numGrammar) posOf(st *ngState, v ssa.Value) (int, bool) {
	if k, ok := v.(*ssa.Const); ok {
		x, isK := constInt(k)
		if !isK || st.curAbs >= 3 {
			return 0, false
		}
		d := st.curAbs - int(x)
		if d < -1 {
			return 0, false
		}
		if d > farK {
			d = farK
		}
		return d, true
	}
	k, ok := st.env[v]
	return k, ok
}

// advance moves cur one position forward: the byte at cur is consumed.
func (g *numGrammar) advance(st *ngState, at ssa.Instruction) bool {
	if st.eof != eofHas || st.cls < 0 {
		return false
	}
	c := g.rep(st.cls)
	next := nsStep(st.spec, c)
	if next < 0 {
		g.problem(st, at, fmt.Sprintf("parseNumber moves past the byte %q, which the JSON number grammar does not allow here: the text accepted as a number is not one", printable(c)))
		return false
	}
	if c == '-' && st.spec == nsStart {
		st.neg = true
	}
	if next == nsDot || next == nsExp {
		st.flt = true
	}
	st.spec = next
	st.witness += printable(c)
	for v, k := range st.env {
		if k < farK {
			st.env[v] = k + 1
		}
	}
	if st.curAbs < 3 {
		st.curAbs++
	}
	st.eof, st.cls = eofUnknown, -1
	for v := range st.bytes {
		delete(st.bytes, v) // what was loaded is no longer the byte at the cursor
	}
	return true
}

// exec interprets one block; it returns the successor states (or the refined copies of st when a
// condition depends on something not known yet).
func (g *numGrammar) exec(st0 *ngState) []*ngState {
	st := st0.clone()
	bools, bytes, lens, slices, nonNil := st.bools, st.bytes, st.lens, st.slices, st.nonNil
	type sl = ngSlice
	cur := 0 // index of the instruction being interpreted

	// forks resume at the current instruction, from the current (possibly advanced) state
	forkEOF := func() []*ngState {
		a, b2 := st.clone(), st.clone()
		a.eof, b2.eof = eofHas, eofEnd
		a.pc, b2.pc = cur, cur
		return []*ngState{a, b2}
	}
	forkCls := func() []*ngState {
		var out []*ngState
		for i := range g.classes {
			c := st.clone()
			c.cls = i
			c.pc = cur
			out = append(out, c)
		}
		return out
	}
	und := func(in ssa.Instruction, msg string) []*ngState {
		g.undecided[fmt.Sprintf("%s at %s", msg, g.c.InstrPos(in))] = g.c.InstrPos(in)
		return nil
	}
	enter := func(succ *ssa.BasicBlock) []*ngState {
		n := st.clone()
		n.blk, n.pc, n.pred = succ, 0, -1
		n.bools, n.bytes, n.lens, n.slices, n.nonNil = map[ssa.Value]int{}, map[ssa.Value]bool{}, map[ssa.Value]bool{}, map[ssa.Value]ngSlice{}, map[ssa.Value]bool{}
		for v := range st.nonNil {
			n.nonNil[v] = true // error values flow across blocks through φs
		}
		for v := range st.bytes {
			n.bytes[v] = true // a byte loaded in one block may be compared in the next
		}
		for i, p := range succ.Preds {
			if p == st.blk {
				n.pred = i
			}
		}
		return []*ngState{n}
	}

	// a position about to be used as an index / compared with len: make it <= cur
	settle := func(v ssa.Value, in ssa.Instruction) (k int, forks []*ngState, ok bool) {
		k, ok = g.posOf(st, v)
		if !ok {
			return 0, nil, false
		}
		if k == -1 {
			// v = cur+1: the byte at cur is being stepped over
			if st.eof == eofUnknown {
				return 0, forkEOF(), true
			}
			if st.eof == eofEnd {
				return -1, nil, true // one past the end
			}
			if st.cls < 0 {
				return 0, forkCls(), true
			}
			if !g.advance(st, in) {
				return 0, []*ngState{}, true
			}
			k = 0
		}
		return k, nil, true
	}

	for idx, in := range st.blk.Instrs {
		if idx < st0.pc {
			continue
		}
		cur = idx
		switch x := in.(type) {
		case *ssa.Phi:
			if st.pred < 0 {
				continue
			}
			e := x.Edges[st.pred]
			if bt, ok := x.Type().Underlying().(*types.Basic); ok && bt.Kind() == types.Int {
				if k, ok := g.posOf(st, e); ok {
					st.env[x] = k
				} else {
					delete(st.env, x)
				}
			}
			if nonNil[e] {
				nonNil[x] = true
			}
			if namedKey(x.Type()) == "json.Kind" {
				if kc, ok := constInt(e); ok {
					st.kenv[x] = kc
				} else if kc, ok := st.kenv[e]; ok {
					st.kenv[x] = kc
				} else {
					delete(st.kenv, x)
				}
			}
		case *ssa.Call:
			if bi, ok := x.Common().Value.(*ssa.Builtin); ok && bi.Name() == "len" && len(x.Common().Args) == 1 && x.Common().Args[0] == ssa.Value(g.buf) {
				lens[x] = true
				continue
			}
			if isErrorType(x.Type()) {
				nonNil[x] = true // syntaxError / unexpectedEOF construct errors
			}
		case *ssa.IndexAddr:
			if x.X != ssa.Value(g.buf) {
				continue
			}
			k, forks, ok := settle(x.Index, in)
			if !ok {
				return und(in, "index into the input that is not a tracked position")
			}
			if forks != nil {
				return forks
			}
			switch {
			case k == 0:
				if st.eof == eofUnknown {
					g.problem(st, in, "parseNumber reads b[i] without having tested i < len(b) on this path: input that ends here panics with index out of range")
					return nil
				}
				if st.eof == eofEnd {
					g.problem(st, in, "parseNumber reads b[i] with i == len(b): index out of range")
					return nil
				}
				bytes[x] = true
			case k == -1:
				g.problem(st, in, "parseNumber reads one past the end of the input")
				return nil
			default:
				return und(in, "re-reads a byte behind the cursor")
			}
		case *ssa.UnOp:
			if x.Op == token.MUL && bytes[x.X] {
				if st.cls < 0 {
					return forkCls()
				}
				bytes[x] = true
			}
			if x.Op == token.NOT {
				if v, ok := bools[x.X]; ok {
					bools[x] = 3 - v
				}
			}
		case *ssa.BinOp:
			bt, _ := x.X.Type().Underlying().(*types.Basic)
			switch {
			case x.Op == token.ADD && bt != nil && bt.Kind() == types.Int:
				if c, isK := constInt(x.Y); isK && c == 1 {
					if k, ok := g.posOf(st, x.X); ok && k >= 0 {
						st.env[x] = k - 1
						if k == farK {
							st.env[x] = farK
						}
						continue
					}
				}
				return und(in, "integer arithmetic other than position+1")
			case bt != nil && bt.Kind() == types.Uint8:
				// comparison of the current byte with a constant
				var cv int64
				var isK bool
				swapped := false
				if bytes[x.X] {
					cv, isK = constInt(x.Y)
				} else if bytes[x.Y] {
					cv, isK = constInt(x.X)
					swapped = true
				} else {
					return und(in, "byte comparison on something that is not the byte at the cursor")
				}
				if !isK {
					return und(in, "byte compared with a non-constant")
				}
				if st.cls < 0 {
					return forkCls()
				}
				lo := int64(g.classes[st.cls][0])
				var res bool
				a, bb := lo, cv
				if swapped {
					a, bb = cv, lo
				}
				switch x.Op {
				case token.EQL:
					res = a == bb
				case token.NEQ:
					res = a != bb
				case token.LSS:
					res = a < bb
				case token.LEQ:
					res = a <= bb
				case token.GTR:
					res = a > bb
				case token.GEQ:
					res = a >= bb
				default:
					return und(in, "unsupported byte operator")
				}
				if res {
					bools[x] = 1
				} else {
					bools[x] = 2
				}
			case bt != nil && bt.Kind() == types.Int:
				// position vs len, or position vs position
				xl, yl := lens[x.X], lens[x.Y]
				var res, known bool
				cmp := func(d int) bool { // d = sign of (X - Y)
					switch x.Op {
					case token.EQL:
						return d == 0
					case token.NEQ:
						return d != 0
					case token.LSS:
						return d < 0
					case token.LEQ:
						return d <= 0
					case token.GTR:
						return d > 0
					case token.GEQ:
						return d >= 0
					}
					return false
				}
				switch {
				case xl != yl:
					pv := x.X
					if xl {
						pv = x.Y
					}
					k, forks, ok := settle(pv, in)
					if !ok {
						return und(in, "len(b) compared with something that is not a tracked position")
					}
					if forks != nil {
						return forks
					}
					var d int // sign of (pos - len)
					switch {
					case k == -1:
						d = 1
					case k >= 1:
						d = -1
					default:
						if st.eof == eofUnknown {
							return forkEOF()
						}
						if st.eof == eofHas {
							d = -1
						} else {
							d = 0
						}
					}
					if xl {
						d = -d
					}
					res, known = cmp(d), true
				case !xl && !yl:
					kx, okx := g.posOf(st, x.X)
					ky, oky := g.posOf(st, x.Y)
					if !okx || !oky {
						return und(in, "comparison of integers that are not tracked positions")
					}
					if kx == farK && ky == farK {
						return und(in, "comparison of two positions far behind the cursor")
					}
					// position = cur - k: X - Y = ky - kx
					d := ky - kx
					res, known = cmp(d), true
				}
				if known {
					if res {
						bools[x] = 1
					} else {
						bools[x] = 2
					}
				}
			}
		case *ssa.Slice:
			if x.X != ssa.Value(g.buf) {
				continue
			}
			s := sl{ok: true}
			if x.Low != nil {
				k, forks, ok := settle(x.Low, in)
				if !ok {
					s.ok = false
				}
				if forks != nil {
					return forks
				}
				s.lo, s.hasLo = k, true
			}
			if x.High != nil {
				if lens[x.High] {
					s.hi, s.hasHi = -100, true // len(b)
				} else {
					k, forks, ok := settle(x.High, in)
					if !ok {
						s.ok = false
					}
					if forks != nil {
						return forks
					}
					s.hi, s.hasHi = k, true
				}
			}
			slices[x] = s
		case *ssa.If:
			v, ok := bools[x.Cond]
			if !ok {
				return und(in, "branch on a condition outside the domain")
			}
			return enter(st.blk.Succs[v-1])
		case *ssa.Jump:
			return enter(st.blk.Succs[0])
		case *ssa.Return:
			if len(x.Results) != 4 {
				return und(in, "unexpected result arity")
			}
			// what does the automaton say at (state, lookahead)?
			if st.eof == eofUnknown {
				return forkEOF()
			}
			if st.eof == eofHas && st.cls < 0 {
				return forkCls()
			}
			canContinue := st.eof == eofHas && nsStep(st.spec, g.rep(st.cls)) >= 0
			look := "end of input"
			if st.eof == eofHas {
				look = "next byte " + fmt.Sprintf("%q", printable(g.rep(st.cls)))
			}
			errNil := isNilConst(x.Results[3])
			if !errNil && !nonNil[x.Results[3]] {
				return und(in, "error result that is neither nil nor a constructed error")
			}
			switch {
			case canContinue:
				g.problem(st, in, fmt.Sprintf("parseNumber stops although the grammar continues (%s): the number is cut short and its tail is left to the caller", look))
			case nsAccepting(st.spec) && !errNil:
				g.problem(st, in, fmt.Sprintf("parseNumber reports an error for a complete number (%s)", look))
			case !nsAccepting(st.spec) && errNil:
				g.problem(st, in, fmt.Sprintf("parseNumber accepts text that is not a complete JSON number (%s): Valid, RawMessage and skipped values let it through", look))
			case errNil:
				// the prefix handed back ends at the cursor, the remainder starts there
				v, okv := slices[x.Results[0]]
				r, okr := slices[x.Results[1]]
				if !okv || !v.ok || v.hasLo || !v.hasHi || v.hi != 0 {
					g.problem(st, in, "the value returned on success is not b[:i] with i at the cursor")
				}
				if !okr || !r.ok || !r.hasLo || r.hasHi || r.lo != 0 {
					g.problem(st, in, "the remainder returned on success is not b[i:] with i at the cursor")
				}
				// kind
				want := g.kinds["Uint"]
				wantName := "Uint"
				if st.neg {
					want, wantName = g.kinds["Int"], "Int"
				}
				if st.flt {
					want, wantName = g.kinds["Float"], "Float"
				}
				kv := x.Results[2]
				got, ok := constInt(kv)
				if !ok {
					got, ok = st.kenv[kv]
				}
				if !ok {
					return und(in, "Kind result that is not a constant on this path")
				}
				if got != want {
					g.problem(st, in, fmt.Sprintf("parseNumber reports Kind %d for a number that is %s (%d)", got, wantName, want))
				}
			}
			return nil
		}
	}
	return nil
}
