package rules

import (
	"fmt"
	"sort"
	"strings"

	"golang.org/x/tools/go/ssa"

	"verif/checker/core"
)

// R-MAPKEY — writer/reader agreement on the normal form of map keys: a map held in a struct field
// is filled under keys of one form (the name as written, or its lower-cased form) and must be
// consulted under keys of the same form. A lookup under the other form silently misses (json's
// exact-name index filled with lower-cased names drops every field with an upper-case letter when
// case-insensitive matching is switched off).
func init() {
	Register(&Rule{
		ID:    "R-MAPKEY",
		Doc:   "for every string-keyed map stored in a struct field of the repository that is both updated and consulted: the key of each MapUpdate and of each Lookup is classified by backward flow (conversions, slices, φ) as lower-cased (it passes through strings.ToLower / appendToLower) or as-written; all updates and all lookups of one field must have the same class, and json.structType must keep one index of each class",
		Props: []string{"C02", "C14", "C19", "C04"},
		Min:   map[string]int{"C02": 2, "C14": 2, "C19": 1},
		Run:   runMapKey,
	})
}

func keyForm(v ssa.Value, depth int, seen map[ssa.Value]bool) map[string]bool {
	out := map[string]bool{}
	if depth > 12 || seen[v] {
		return out
	}
	seen[v] = true
	switch x := v.(type) {
	case *ssa.Convert:
		return keyForm(x.X, depth+1, seen)
	case *ssa.ChangeType:
		return keyForm(x.X, depth+1, seen)
	case *ssa.Slice:
		return keyForm(x.X, depth+1, seen)
	case *ssa.Phi:
		for _, e := range x.Edges {
			for k := range keyForm(e, depth+1, seen) {
				out[k] = true
			}
		}
		return out
	case *ssa.Call:
		if f := staticCallee(x.Common()); f != nil {
			switch f.Name() {
			case "ToLower", "appendToLower":
				out["lower-cased"] = true
				return out
			case "ToUpper":
				out["upper-cased"] = true
				return out
			}
		}
	}
	out["as-written"] = true
	return out
}

func formString(m map[string]bool) string {
	var s []string
	for k := range m {
		s = append(s, k)
	}
	sort.Strings(s)
	return strings.Join(s, "|")
}

func runMapKey(c *core.Ctx) []core.Obligation {
	b := newOb(c, "R-MAPKEY", "C02", "C14")
	type use struct {
		form string
		pos  string
		fn   string
	}
	writes, reads := map[string][]use{}, map[string][]use{}
	for _, fn := range c.RepoFunctions() {
		if fn.Blocks == nil || fn.Pkg == nil {
			continue
		}
		for _, blk := range fn.Blocks {
			for _, in := range blk.Instrs {
				switch x := in.(type) {
				case *ssa.MapUpdate:
					if f, ok := fieldOfLoad(x.Map); ok && isStringKeyed(x.Map) {
						writes[f] = append(writes[f], use{formString(keyForm(x.Key, 0, map[ssa.Value]bool{})), c.InstrPos(x), shortName(fn)})
					}
				case *ssa.Lookup:
					if f, ok := fieldOfLoad(x.X); ok && isStringKeyed(x.X) {
						reads[f] = append(reads[f], use{formString(keyForm(x.Index, 0, map[ssa.Value]bool{})), c.InstrPos(x), shortName(fn)})
					}
				}
			}
		}
	}
	var fields []string
	for f := range writes {
		if len(reads[f]) > 0 {
			fields = append(fields, f)
		}
	}
	sort.Strings(fields)
	classOf := map[string]string{}
	for _, f := range fields {
		key := "mapkey:" + f
		wf := writes[f][0].form
		bad := ""
		pos := writes[f][0].pos
		for _, u := range append(append([]use{}, writes[f]...), reads[f]...) {
			if u.form != wf {
				bad = fmt.Sprintf("%s uses a %s key at %s while %s fills the map under %s keys", u.fn, u.form, u.pos, writes[f][0].fn, wf)
				pos = u.pos
				break
			}
		}
		props := []string{"C02", "C14"}
		if strings.HasPrefix(f, "proto.") {
			props = []string{"C19"}
		} else if !strings.HasPrefix(f, "json.") {
			props = []string{"C04"}
		}
		if bad != "" {
			b.addP(props, core.Violation, key, pos, f+": "+bad+": entries whose two forms differ are never found")
			continue
		}
		classOf[f] = wf
		b.addP(props, core.Discharged, key, pos, fmt.Sprintf("%d updates and %d lookups all use %s keys", len(writes[f]), len(reads[f]), wf))
	}
	// json.structType keeps an exact index and a case-insensitive one
	if _, ok := classOf["json.structType.fieldsIndex"]; ok {
		if _, ok2 := classOf["json.structType.ficaseIndex"]; ok2 {
			if classOf["json.structType.fieldsIndex"] == classOf["json.structType.ficaseIndex"] {
				b.bad("mapkey:json.structType:two-forms", "-", "both field indexes of json.structType use "+classOf["json.structType.fieldsIndex"]+" keys: exact matching (DontMatchCaseInsensitiveStructFields) and case-insensitive matching can no longer differ")
			} else {
				b.ok("mapkey:json.structType:two-forms", "-", "one index per key form")
			}
		}
	}
	if len(fields) == 0 {
		b.und("mapkey:-", "-", "no string-keyed map field that is both updated and consulted was found in json")
	}
	return b.out
}

func isStringKeyed(m ssa.Value) bool {
	return strings.HasPrefix(m.Type().Underlying().String(), "map[string]")
}
