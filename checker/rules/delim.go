package rules

import (
	"fmt"
	"go/token"
	"sort"
	"strings"

	"golang.org/x/tools/go/ssa"

	"verif/checker/core"
)

// R-DELIM — every JSON container loop (validator and decoders) realises the delimiter automaton
// of RFC 8259: elements are separated by exactly one comma, members are key ':' value, an empty
// container is accepted, and nothing is consumed without the delimiter that must precede it.
// Disjunctive typestate over SSA: state = (last event, first-iteration counter, close tested).
func init() {
	Register(&Rule{
		ID:    "R-DELIM",
		Doc:   "typestate over every container loop of json (parseArray/parseObject and the decode* loops): an element/key is consumed only after '[' '{' or ','; a value only after ':'; ',' is accepted only after an element; the first element is consumed only after the closing delimiter was tested; the first-iteration idiom (i != 0, s.len != 0, range index) is followed path-sensitively",
		Props: []string{"C02", "C05"},
		Min:   map[string]int{"C02": 11, "C05": 11},
		Run:   runDelim,
	})
}

type dLast int

const (
	dNone dLast = iota
	dOpen
	dElem
	dComma
	dKey
	dColon
)

func (l dLast) String() string {
	return [...]string{"start", "open", "element", "comma", "key", "colon"}[l]
}

type dState struct {
	last        dLast
	ctr         int // 0 zero, 1 non-zero
	closeTested bool
}

type delimFn struct {
	c      *core.Ctx
	fn     *ssa.Function
	buf    map[ssa.Value]bool // versions of the input buffer
	object bool
	open   byte
	close  byte
}

// bufferVersions: values that denote (a suffix of) the input being scanned.
func (d *delimFn) versions(root *ssa.Parameter) {
	d.buf = map[ssa.Value]bool{root: true}
	for changed := true; changed; {
		changed = false
		for _, blk := range d.fn.Blocks {
			for _, in := range blk.Instrs {
				v, ok := in.(ssa.Value)
				if !ok || d.buf[v] {
					continue
				}
				hit := false
				switch x := in.(type) {
				case *ssa.Phi:
					for _, e := range x.Edges {
						hit = hit || d.buf[e]
					}
				case *ssa.Slice:
					hit = d.buf[x.X]
				case *ssa.Extract:
					if call, ok := x.Tuple.(*ssa.Call); ok && isByteSliceType(x.Type()) {
						for _, a := range call.Common().Args {
							if d.buf[a] {
								hit = true
							}
						}
					}
				case *ssa.Call:
					if isByteSliceType(x.Type()) {
						for _, a := range x.Common().Args {
							if d.buf[a] {
								hit = true
							}
						}
					}
				case *ssa.UnOp:
					if vals, ok := localStored(x); ok {
						for _, s := range vals {
							hit = hit || d.buf[s]
						}
					}
				}
				if hit {
					d.buf[v] = true
					changed = true
				}
			}
		}
	}
}

// byteTest: cond compares the first byte of a buffer version with a constant; returns the
// constant and whether the true edge means equality.
func (d *delimFn) byteTest(cond ssa.Value) (byte, bool, bool) {
	bo, ok := cond.(*ssa.BinOp)
	if !ok || (bo.Op != token.EQL && bo.Op != token.NEQ) {
		return 0, false, false
	}
	k, isK := constInt(bo.Y)
	if !isK {
		return 0, false, false
	}
	key, okk := byteKeyOf(bo.X)
	if !okk || key.idx == nil || !d.buf[key.x] {
		return 0, false, false
	}
	if i, ok := constInt(key.idx); !ok || i != 0 {
		return 0, false, false
	}
	return byte(k), bo.Op == token.EQL, true
}

// counterTest: cond is `X != 0` / `X == 0` on a loop counter (φ, range index or an integer field),
// not on a length of the input.
func counterTest(cond ssa.Value) (trueMeansNonZero bool, ok bool) {
	bo, isB := cond.(*ssa.BinOp)
	if !isB || (bo.Op != token.EQL && bo.Op != token.NEQ) {
		return false, false
	}
	if k, isK := constInt(bo.Y); !isK || k != 0 {
		return false, false
	}
	switch x := bo.X.(type) {
	case *ssa.Phi:
		if _, isInt := constInt(x.Edges[0]); !isInt && len(x.Edges) < 2 {
			return false, false
		}
	case *ssa.BinOp:
		if x.Op != token.ADD {
			return false, false
		}
		if _, isPhi := x.X.(*ssa.Phi); !isPhi {
			return false, false
		}
	case *ssa.UnOp:
		if _, isField := fieldOfLoad(x); !isField {
			return false, false
		}
	default:
		return false, false
	}
	if !isIntType(bo.X.Type()) {
		return false, false
	}
	return bo.Op == token.NEQ, true
}

func isIntType(t interface{ String() string }) bool {
	s := t.String()
	return s == "int" || s == "int64" || s == "uint" || s == "int32"
}

// consuming: the call takes the current buffer and returns the buffer after one JSON value/key.
func (d *delimFn) consuming(call *ssa.Call) bool {
	takes := false
	for _, a := range call.Common().Args {
		if d.buf[a] {
			takes = true
		}
	}
	if !takes {
		return false
	}
	if f := staticCallee(call.Common()); f != nil {
		switch f.Name() {
		case "skipSpaces", "skipSpacesN", "syntaxError", "inputError", "objectKeyError", "unexpectedEOF", "unmarshalTypeError", "hasNullPrefix", "hasPrefix", "appendToLower", "unmarshalOverflow":
			return false
		}
		if _, isB := call.Common().Value.(*ssa.Builtin); isB {
			return false
		}
	} else if _, isB := call.Common().Value.(*ssa.Builtin); isB {
		return false
	}
	// must return a buffer
	if isByteSliceType(call.Type()) {
		return true
	}
	for _, ref := range *call.Referrers() {
		if ex, ok := ref.(*ssa.Extract); ok && isByteSliceType(ex.Type()) {
			return true
		}
	}
	return false
}

func runDelim(c *core.Ctx) []core.Obligation {
	b := newOb(c, "R-DELIM", "C02", "C05")
	var fns []*ssa.Function
	for _, fn := range c.RepoFunctions() {
		if fn.Blocks == nil || !strings.HasPrefix(shortName(fn), "json.(decoder).") || fn.Synthetic != "" {
			continue
		}
		if !hasBackEdge(fn) {
			continue
		}
		fns = append(fns, fn)
	}
	sort.Slice(fns, func(i, j int) bool { return shortName(fns[i]) < shortName(fns[j]) })
	for _, fn := range fns {
		bp := bufParam(fn)
		if bp == nil {
			continue
		}
		d := &delimFn{c: c, fn: fn}
		d.versions(bp)
		// container kind: a test of the first byte against '[' or '{'
		for _, blk := range fn.Blocks {
			if n := len(blk.Instrs); n > 0 {
				if ifi, ok := blk.Instrs[n-1].(*ssa.If); ok {
					if k, _, ok := d.byteTest(ifi.Cond); ok && (k == '[' || k == '{') && d.open == 0 {
						d.open = k
					}
				}
			}
		}
		if d.open == 0 {
			continue
		}
		d.close = ']'
		if d.open == '{' {
			d.object, d.close = true, '}'
		}
		name := shortName(fn)
		problems := d.analyse()
		key := "loop:" + name
		if len(problems) == 0 {
			kind := "array"
			if d.object {
				kind = "object"
			}
			b.ok(key, c.FuncPos(fn), fmt.Sprintf("%s loop follows open (elem (',' elem)*)? close%s", kind, map[bool]string{true: " with key ':' value members", false: ""}[d.object]))
			continue
		}
		// one obligation per distinct problem kind
		kinds := map[string]string{}
		for _, p := range problems {
			i := strings.Index(p, "|")
			if _, dup := kinds[p[:i]]; !dup {
				kinds[p[:i]] = p[i+1:]
			}
		}
		for _, k := range sortedKeys(kinds) {
			parts := strings.SplitN(kinds[k], "@", 2)
			b.bad(key+":"+k, parts[1], fmt.Sprintf("%s: %s", name, parts[0]))
		}
	}
	return b.out
}

func (d *delimFn) analyse() []string {
	fn := d.fn
	c := d.c
	in := map[*ssa.BasicBlock]map[dState]bool{fn.Blocks[0]: {dState{}: true}}
	work := []*ssa.BasicBlock{fn.Blocks[0]}
	var problems []string
	report := func(kind, msg string, at ssa.Instruction) {
		problems = append(problems, kind+"|"+msg+"@"+c.InstrPos(at))
	}
	iter := 0
	for len(work) > 0 && iter < 20000 {
		iter++
		blk := work[0]
		work = work[1:]
		failing := onFailingPath(blk)
		cur := map[dState]bool{}
		for s := range in[blk] {
			cur[s] = true
		}
		for _, ins := range blk.Instrs {
			switch x := ins.(type) {
			case *ssa.Call:
				if failing || !d.consuming(x) {
					continue
				}
				// a call whose result goes straight into a return on this block is an error/exit path
				next := map[dState]bool{}
				for s := range cur {
					if s.last == dNone {
						next[s] = true // before the opening delimiter (e.g. null / type checks)
						continue
					}
					ns := s
					ns.ctr = 1 // from now on an element has been consumed in this container
					switch {
					case !d.object:
						if s.last == dElem {
							report("missing-comma", "an element is consumed right after another element with no ',' test in between (e.g. \"[1 2]\" is accepted)", x)
						}
						if s.last == dOpen && !s.closeTested {
							report("empty-container", fmt.Sprintf("the first element is consumed without testing for %q first: an empty container is rejected", rune(d.close)), x)
						}
						ns.last = dElem
					default:
						switch s.last {
						case dOpen, dComma:
							if s.last == dOpen && !s.closeTested {
								report("empty-container", fmt.Sprintf("the first key is consumed without testing for %q first: an empty object is rejected", rune(d.close)), x)
							}
							ns.last = dKey
						case dColon:
							ns.last = dElem
						case dKey:
							report("missing-colon", "a member value is consumed after its key with no ':' test in between", x)
							ns.last = dElem
						case dElem:
							report("missing-comma", "a key is consumed right after the previous member with no ',' test in between", x)
							ns.last = dKey
						}
					}
					next[ns] = true
				}
				cur = next
			case *ssa.Store:
				// s.len++ style counters
				if bo, ok := x.Val.(*ssa.BinOp); ok && bo.Op == token.ADD {
					if k, ok := constInt(bo.Y); ok && k == 1 {
						if ld, ok := bo.X.(*ssa.UnOp); ok && ld.X == x.Addr {
							next := map[dState]bool{}
							for s := range cur {
								s.ctr = 1
								next[s] = true
							}
							cur = next
						}
					}
				}
			}
		}
		// successors
		var ifi *ssa.If
		if n := len(blk.Instrs); n > 0 {
			ifi, _ = blk.Instrs[n-1].(*ssa.If)
		}
		for si, succ := range blk.Succs {
			out := map[dState]bool{}
			for s := range cur {
				ns := s
				feasible := true
				if ifi != nil {
					if k, trueEq, ok := d.byteTest(ifi.Cond); ok {
						eq := (si == 0) == trueEq
						switch {
						case k == d.open && eq && ns.last == dNone:
							ns.last = dOpen
						case k == d.open && !eq && ns.last == dNone:
							// not this container: leaves (error / other decoding)
						case k == ',' && eq:
							if !failing {
								if ns.last == dOpen || ns.last == dComma || ns.last == dKey || ns.last == dColon {
									report("stray-comma", fmt.Sprintf("a ',' is accepted after %s (leading or repeated comma, e.g. \"[,1]\")", ns.last), ifi)
								}
							}
							ns.last = dComma
						case k == ':' && eq:
							if ns.last != dKey && !failing && ns.last != dNone {
								report("stray-colon", fmt.Sprintf("a ':' is accepted after %s", ns.last), ifi)
							}
							ns.last = dColon
						case k == d.close && !eq:
							ns.closeTested = true
						}
					} else if bo, ok := ifi.Cond.(*ssa.BinOp); ok && (bo.Op == token.EQL || bo.Op == token.NEQ) && isLenOfVersion(bo.X, d.buf) {
						// input exhausted: whatever follows fails with an EOF error, it is not an
						// empty container being rejected
						if z, isZ := constInt(bo.Y); isZ && z == 0 && ((si == 0) == (bo.Op == token.EQL)) {
							ns.closeTested = true
						}
					} else if nz, ok := counterTest(ifi.Cond); ok {
						isNZ := (si == 0) == nz
						if isNZ && ns.ctr == 0 {
							feasible = false
						}
						if !isNZ && ns.ctr == 1 {
							feasible = false
						}
					}
				}
				if !feasible {
					continue
				}
				// back edge: the counter is non-zero from the second iteration on
				if succ.Dominates(blk) {
					ns.ctr = 1
				}
				out[ns] = true
			}
			if len(out) == 0 {
				continue
			}
			if in[succ] == nil {
				in[succ] = map[dState]bool{}
			}
			changed := false
			for s := range out {
				if !in[succ][s] {
					in[succ][s] = true
					changed = true
				}
			}
			if changed {
				work = append(work, succ)
			}
		}
	}
	sort.Strings(problems)
	return problems
}

func isLenOfVersion(v ssa.Value, buf map[ssa.Value]bool) bool {
	a, ok := lenArg(v)
	return ok && buf[a]
}
