package rules

import (
	"fmt"
	"go/token"
	"go/types"
	"strings"

	"golang.org/x/tools/go/ssa"

	"verif/checker/core"
)

// R-FRAME — structural necessary conditions of chunking independence of json.Decoder.
func init() {
	Register(&Rule{
		ID:    "R-FRAME",
		Doc:   "on Decoder.readValue: (i) the success return after parseValue is guarded by a test of the remainder length, the sticky error or the value kind (a value ending exactly at the end of buffered data may be a prefix); (ii) the reader is called only after dec.err tested nil; (iii) every path to the read passes the first allocation or the tail compaction, and growth copies before replacing the buffer; (iv) inputOffset only ever increases by non-negative lengths",
		Props: []string{"C11", "C06", "C05"},
		Min:   map[string]int{"C11": 5},
		Run:   runFrame,
	})
}

func loadOfField(v ssa.Value, id string) bool {
	f, ok := fieldOfLoad(v)
	return ok && f == id
}

func runFrame(c *core.Ctx) []core.Obligation {
	b := newOb(c, "R-FRAME", "C11", "C05")
	fn := c.Lookup("json.(*Decoder).readValue")
	if fn == nil {
		b.und("anchor", "-", "json.(*Decoder).readValue not found")
		frameSkipCount(c, b)
		return b.out
	}
	parseValue := c.Lookup("json.(decoder).parseValue")
	var parseCall *ssa.Call
	var readFull *ssa.Call
	for _, ci := range callsIn(fn) {
		call, ok := ci.(*ssa.Call)
		if !ok {
			continue
		}
		if staticCallee(call.Common()) == parseValue && parseValue != nil {
			parseCall = call
		}
		if n := calleeName(call.Common()); n == "io.ReadFull" || n == "io.ReadAtLeast" || (call.Common().IsInvoke() && call.Common().Method.Name() == "Read") {
			readFull = call
		}
	}
	if parseCall == nil || readFull == nil {
		b.und("anchor", c.FuncPos(fn), "readValue no longer calls parseValue and a reader in the recognised form")
		return b.out
	}
	var rem, kind, perr ssa.Value
	for _, ref := range *parseCall.Referrers() {
		if ex, ok := ref.(*ssa.Extract); ok {
			switch ex.Index {
			case 1:
				rem = ex
			case 2:
				kind = ex
			case 3:
				perr = ex
			}
		}
	}

	// ---- (i) framing guard
	{
		key := "framing-guard"
		isGuardCond := func(cond ssa.Value) bool {
			return dependsOn(cond, func(v ssa.Value) bool {
				if rem != nil && isLenOf(v, rem) {
					return true
				}
				if kind != nil && v == kind {
					return true
				}
				return loadOfField(v, "json.Decoder.err")
			})
		}
		// success returns: dominated by the nil edge of the parse error test
		var successBlocks []*ssa.BasicBlock
		for _, r := range returnsOf(fn) {
			for _, e := range dominatingEdges(r.Block()) {
				bo, ok := e.ifi.Cond.(*ssa.BinOp)
				if !ok || perr == nil {
					continue
				}
				if (bo.X == perr && isNilConst(bo.Y)) || (bo.Y == perr && isNilConst(bo.X)) {
					if (bo.Op == token.EQL && e.succ == 0) || (bo.Op == token.NEQ && e.succ == 1) {
						successBlocks = append(successBlocks, r.Block())
					}
				}
			}
		}
		if len(successBlocks) == 0 {
			b.und(key, c.InstrPos(parseCall), "no return dominated by the nil branch of parseValue's error test")
		}
		for _, sb := range successBlocks {
			// is there a path parse -> sb avoiding every guard edge? a guard edge = any branch edge of an If whose condition is a guard
			cut := map[edgeKey]bool{}
			for _, x := range fn.Blocks {
				if n := len(x.Instrs); n > 0 {
					if ifi, ok := x.Instrs[n-1].(*ssa.If); ok && isGuardCond(ifi.Cond) {
						cut[edgeKey{x, x.Succs[0]}] = true
						cut[edgeKey{x, x.Succs[1]}] = true
					}
				}
			}
			seen := map[*ssa.BasicBlock]bool{}
			var walk func(x *ssa.BasicBlock) bool
			walk = func(x *ssa.BasicBlock) bool {
				if x == sb {
					return true
				}
				if seen[x] {
					return false
				}
				seen[x] = true
				for _, s := range x.Succs {
					if !cut[edgeKey{x, s}] && walk(s) {
						return true
					}
				}
				return false
			}
			if walk(parseCall.Block()) {
				b.bad(key, c.InstrPos(sb.Instrs[len(sb.Instrs)-1]), "readValue returns a successfully parsed value without testing whether the parse stopped exactly at the end of the buffered data (len(remainder), dec.err or the value kind): a number cut by a read boundary is returned as two values")
			} else {
				b.ok(key, c.InstrPos(sb.Instrs[len(sb.Instrs)-1]), "the success return is reachable only through a test of the remainder length / sticky error / value kind")
			}
		}
	}

	// ---- (i') when the guard exempts values by kind, every numeric kind must stay subject to it
	if kind != nil {
		num := int64(jsonConst(c, "Num"))
		str := int64(jsonConst(c, "String"))
		direct := map[int64]bool{}
		viaClass, usesKind := false, false
		for _, x := range fn.Blocks {
			n := len(x.Instrs)
			if n == 0 {
				continue
			}
			ifi, ok := x.Instrs[n-1].(*ssa.If)
			if !ok {
				continue
			}
			bo, ok := ifi.Cond.(*ssa.BinOp)
			if !ok || !dependsOn(bo, func(v ssa.Value) bool { return v == kind }) {
				continue
			}
			usesKind = true
			k, isK := constInt(bo.Y)
			if !isK {
				continue
			}
			if call, ok := bo.X.(*ssa.Call); ok && strings.HasSuffix(calleeName(call.Common()), "Kind).Class") && k == num {
				viaClass = true
			}
			if bo.X == kind {
				direct[k] = true
			}
		}
		if usesKind {
			missing := []string{}
			if !viaClass {
				jp := c.Pkg("json")
				for _, name := range jp.Types.Scope().Names() {
					if k, ok := jp.Types.Scope().Lookup(name).(*types.Const); ok && namedKey(k.Type()) == "json.Kind" {
						v, _ := constantUint(k)
						if int64(v) > num && int64(v) < str && !direct[int64(v)] {
							missing = append(missing, name)
						}
					}
				}
			}
			if len(missing) > 0 {
				b.bad("framing-guard:number-kinds", c.InstrPos(parseCall), fmt.Sprintf("the end-of-buffer guard exempts values by kind but does not keep every numeric kind under it (missing %v): such a number cut by a read boundary is returned as two values", missing))
			} else {
				b.ok("framing-guard:number-kinds", c.InstrPos(parseCall), "every numeric kind (Class() == Num) stays subject to the end-of-buffer guard")
			}
		}
	}

	// ---- (ii) sticky error
	{
		key := "sticky-error"
		ok := false
		for _, e := range dominatingEdges(readFull.Block()) {
			if dependsOn(e.ifi.Cond, func(v ssa.Value) bool { return loadOfField(v, "json.Decoder.err") }) {
				bo, isB := e.ifi.Cond.(*ssa.BinOp)
				if isB && ((bo.Op == token.NEQ && e.succ == 1) || (bo.Op == token.EQL && e.succ == 0)) {
					ok = true
				}
			}
		}
		if ok {
			b.ok(key, c.InstrPos(readFull), "the read is dominated by the nil branch of the dec.err test")
		} else {
			b.addP([]string{"C11", "C06"}, core.Violation, key, c.InstrPos(readFull), "the reader is called on a path where dec.err was not tested nil (a reader that keeps failing is then called for ever: Decode never returns): after a terminal error the reader is called again and its data or a different error is observed")
		}
	}

	// ---- (iii) tail preservation
	{
		key := "tail-preserved"
		preserving := map[*ssa.BasicBlock]bool{}
		for _, blk := range fn.Blocks {
			for _, in := range blk.Instrs {
				switch x := in.(type) {
				case *ssa.Store:
					if fa, ok := x.Addr.(*ssa.FieldAddr); ok && fieldAddrID(fa) == "json.Decoder.buffer" {
						if isFreshEmptySlice(x.Val) {
							// first allocation: only valid when nothing was buffered
							for _, e := range dominatingEdges(blk) {
								if dependsOn(e.ifi.Cond, func(v ssa.Value) bool { return loadOfField(v, "json.Decoder.buffer") }) {
									preserving[blk] = true
								}
							}
						}
					}
				case *ssa.Call:
					if bi, ok := x.Common().Value.(*ssa.Builtin); ok && bi.Name() == "copy" {
						dst, src := x.Common().Args[0], x.Common().Args[1]
						if dependsOn(dst, func(v ssa.Value) bool { return loadOfField(v, "json.Decoder.buffer") }) && loadOfField(src, "json.Decoder.remain") {
							preserving[blk] = true
						}
					}
				}
			}
		}
		seen := map[*ssa.BasicBlock]bool{}
		var walk func(x *ssa.BasicBlock) bool
		walk = func(x *ssa.BasicBlock) bool {
			if x == readFull.Block() {
				return true
			}
			if seen[x] || preserving[x] {
				return false
			}
			seen[x] = true
			for _, s := range x.Succs {
				if walk(s) {
					return true
				}
			}
			return false
		}
		if len(preserving) == 0 || walk(fn.Blocks[0]) {
			b.bad(key, c.InstrPos(readFull), "a path reaches the read without the first allocation or the compaction copy(dec.buffer[:cap], dec.remain): the unconsumed tail of the previous read is lost or overwritten")
		} else {
			b.ok(key, c.InstrPos(readFull), "every path to the read passes the first allocation or the tail compaction")
		}
		// growth copies before replacing
		for _, blk := range fn.Blocks {
			for _, in := range blk.Instrs {
				st, ok := in.(*ssa.Store)
				if !ok {
					continue
				}
				fa, ok := st.Addr.(*ssa.FieldAddr)
				if !ok || fieldAddrID(fa) != "json.Decoder.buffer" {
					continue
				}
				ms, ok := st.Val.(*ssa.MakeSlice)
				if !ok {
					continue
				}
				if k, ok := constInt(ms.Len); ok && k == 0 {
					continue
				}
				copied := false
				for _, in2 := range blk.Instrs {
					if call, ok := in2.(*ssa.Call); ok && instrDominates(call, st) {
						if bi, ok := call.Common().Value.(*ssa.Builtin); ok && bi.Name() == "copy" && call.Common().Args[0] == ssa.Value(ms) && loadOfField(call.Common().Args[1], "json.Decoder.buffer") {
							copied = true
						}
					}
				}
				if copied {
					b.ok("growth-copies", c.InstrPos(st), "the grown buffer receives a copy of the old one before replacing it")
				} else {
					b.bad("growth-copies", c.InstrPos(st), "the read buffer is replaced by a larger one without copying the buffered bytes first")
				}
			}
		}
	}

	// ---- (iv) monotone offset
	{
		n := 0
		for _, f2 := range c.RepoFunctions() {
			if !strings.HasPrefix(shortName(f2), "json.") {
				continue
			}
			for _, blk := range f2.Blocks {
				for _, in := range blk.Instrs {
					st, ok := in.(*ssa.Store)
					if !ok {
						continue
					}
					fa, ok := st.Addr.(*ssa.FieldAddr)
					if !ok || fieldAddrID(fa) != "json.Decoder.inputOffset" {
						continue
					}
					n++
					key := fmt.Sprintf("offset-monotone:%s#%d", shortName(f2), n)
					add, ok := st.Val.(*ssa.BinOp)
					good := false
					if ok && add.Op == token.ADD {
						for _, pair := range [][2]ssa.Value{{add.X, add.Y}, {add.Y, add.X}} {
							if loadOfField(pair[0], "json.Decoder.inputOffset") && nonNegative(pair[1], 0) {
								good = true
							}
						}
					}
					if good {
						b.ok(key, c.InstrPos(st), "inputOffset += non-negative length")
					} else {
						b.bad(key, c.InstrPos(st), "inputOffset is assigned something other than its old value plus a non-negative length: the offset can decrease or restart")
					}
				}
			}
		}
		if n == 0 {
			b.und("offset-monotone", c.FuncPos(fn), "no store to Decoder.inputOffset found")
		}
	}
	frameSkipCount(c, b)
	return b.out
}

// isFreshEmptySlice: make([]T, 0, n) in either of its SSA forms.
func isFreshEmptySlice(v ssa.Value) bool {
	switch x := v.(type) {
	case *ssa.MakeSlice:
		k, ok := constInt(x.Len)
		return ok && k == 0
	case *ssa.Slice:
		if _, ok := x.X.(*ssa.Alloc); ok && x.High != nil {
			k, ok := constInt(x.High)
			return ok && k == 0 && x.Low == nil
		}
	}
	return false
}

// nonNegative: len(), copy(), counts returned by skipSpacesN-like helpers, sums thereof.
func nonNegative(v ssa.Value, depth int) bool {
	if depth > 6 {
		return false
	}
	switch x := v.(type) {
	case *ssa.Const:
		k, ok := constInt(x)
		return ok && k >= 0
	case *ssa.Convert:
		if bt, ok := x.Type().Underlying().(*types.Basic); ok && bt.Info()&types.IsInteger != 0 {
			return nonNegative(x.X, depth+1)
		}
	case *ssa.BinOp:
		if x.Op == token.ADD {
			return nonNegative(x.X, depth+1) && nonNegative(x.Y, depth+1)
		}
	case *ssa.Call:
		if bi, ok := x.Common().Value.(*ssa.Builtin); ok {
			return bi.Name() == "len" || bi.Name() == "copy" || bi.Name() == "cap"
		}
	case *ssa.Extract:
		// the count returned beside a remainder slice: (rest []byte, n int)
		if call, ok := x.Tuple.(*ssa.Call); ok {
			if f := staticCallee(call.Common()); f != nil && f.Blocks != nil {
				for _, r := range returnsOf(f) {
					if x.Index >= len(r.Results) || !countLike(r.Results[x.Index]) {
						return false
					}
				}
				return true
			}
		}
	case *ssa.Phi:
		for _, e := range x.Edges {
			if e != v && !nonNegative(e, depth+1) {
				return false
			}
		}
		return true
	case *ssa.UnOp:
		if vals, ok := localStored(x); ok && len(vals) > 0 {
			for _, s := range vals {
				if !nonNegative(s, depth+1) {
					return false
				}
			}
			return true
		}
	}
	return false
}

// countLike: a constant >= 0, a range index, or a len.
func countLike(v ssa.Value) bool {
	if k, ok := constInt(v); ok {
		return k >= 0
	}
	switch x := v.(type) {
	case *ssa.Phi:
		for _, e := range x.Edges {
			if e == v {
				continue
			}
			if k, ok := constInt(e); ok && k >= -1 {
				continue
			}
			if bo, ok := e.(*ssa.BinOp); ok && bo.Op == token.ADD {
				continue
			}
			return false
		}
		return true
	case *ssa.BinOp:
		// rangeindex: t = phi + 1
		if x.Op == token.ADD {
			if k, ok := constInt(x.Y); ok && k >= 0 {
				if _, isPhi := x.X.(*ssa.Phi); isPhi {
					return true
				}
			}
		}
	case *ssa.Call:
		if bi, ok := x.Common().Value.(*ssa.Builtin); ok {
			return bi.Name() == "len"
		}
	}
	return false
}

func frameSkipCount(c *core.Ctx, b *ob) {
	// skipSpacesN's count is what Decoder.InputOffset is built from: on every return it is the
	// number of bytes skipped (the start of the returned remainder, or the whole input)
	if fn := c.Lookup("json.skipSpacesN"); fn != nil {
		bp := bufParam(fn)
		n, bad := 0, ""
		for _, r := range returnsOf(fn) {
			if len(r.Results) != 2 {
				continue
			}
			n++
			cnt := r.Results[1]
			if sl, ok := r.Results[0].(*ssa.Slice); ok && sl.X == ssa.Value(bp) && sl.Low != nil {
				if stripConv(sl.Low) != stripConv(cnt) {
					bad = c.InstrPos(r)
				}
				continue
			}
			// nothing left: everything was skipped
			if la, ok := lenArg(cnt); !ok || la != ssa.Value(bp) {
				bad = c.InstrPos(r)
			}
		}
		key := "frame:skip-count"
		switch {
		case n == 0:
			b.addP([]string{"C11"}, core.Undecided, key, c.FuncPos(fn), "no return found in skipSpacesN")
		case bad != "":
			b.addP([]string{"C11"}, core.Violation, key, bad, "skipSpacesN returns a count that is not the number of bytes it skipped (the offset of the returned remainder, or len(b) when only white space was left): Decoder.InputOffset, which accumulates it, falls behind the bytes actually consumed")
		default:
			b.addP([]string{"C11"}, core.Discharged, key, c.FuncPos(fn), fmt.Sprintf("%d returns, each reporting the number of bytes skipped", n))
		}
	} else {
		b.addP([]string{"C11"}, core.Undecided, "frame:skip-count", "-", "json.skipSpacesN not found")
	}
}
