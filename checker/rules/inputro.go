package rules

import (
	"fmt"
	"go/token"
	"go/types"
	"sort"
	"strings"

	"golang.org/x/tools/go/ssa"

	"verif/checker/core"
)

// R-INPUTRO — memory lent as input is never written: a bottom-up mod summary (which slice
// parameters a function may write, which it may return aliases of) over json/proto/thrift, then
// every decode/parse/validate/tokenize/rewrite entry must not have its input in its mod set.
func init() {
	Register(&Rule{
		ID:    "R-INPUTRO",
		Doc:   "interprocedural mod summary (index store, copy/append destination, external writers; aliases followed through slicing, φ and callees' returned aliases, dynamic calls by signature class): the input parameter of every json decoder/parser/validator entry and decoder method, of proto Unmarshal/Parse/Scan/decode functions and of every Rewriter.Rewrite (`in`) is not in the function's mod set; Tokenizer never writes through its input field",
		Props: []string{"C10", "C19", "C17", "C02", "C09"},
		Min:   map[string]int{"C10": 60, "C19": 8, "C17": 2},
		Run:   runInputRO,
	})
}

// externalWrites: external functions and the argument index they write through.
var externalWrites = map[string]int{
	"unicode/utf8.EncodeRune":                            0,
	"(*encoding/base64.Encoding).Encode":                 1,
	"(*encoding/base64.Encoding).Decode":                 1,
	"(*github.com/segmentio/asm/base64.Encoding).Encode": 1,
	"(*github.com/segmentio/asm/base64.Encoding).Decode": 1,
	"strconv.AppendInt":                                  0,
	"strconv.AppendUint":                                 0,
	"strconv.AppendFloat":                                0,
	"strconv.AppendQuote":                                0,
	"(time.Time).AppendFormat":                           1,
	"io.ReadFull":                                        1,
	"(encoding/binary.littleEndian).PutUint16":           1,
	"(encoding/binary.littleEndian).PutUint32":           1,
	"(encoding/binary.littleEndian).PutUint64":           1,
	"(encoding/binary.bigEndian).PutUint16":              1,
	"(encoding/binary.bigEndian).PutUint32":              1,
	"(encoding/binary.bigEndian).PutUint64":              1,
	"encoding/binary.PutUvarint":                         0,
	"encoding/binary.PutVarint":                          0,
	"unicode/utf8.AppendRune":                            0,
}

type modSummary struct {
	mod map[int]string // param index -> how it is written
	ret map[int]bool   // param indices the results may alias
}

type inputRO struct {
	c     *core.Ctx
	sum   map[*ssa.Function]*modSummary
	bySig map[string][]*ssa.Function
}

func isByteSliceType(t types.Type) bool {
	s, ok := t.Underlying().(*types.Slice)
	if !ok {
		return false
	}
	b, ok := s.Elem().Underlying().(*types.Basic)
	return ok && (b.Kind() == types.Uint8)
}

func sigKey(sig *types.Signature) string {
	// receiver dropped: method values are called through their function type
	return types.TypeString(types.NewSignatureType(nil, nil, nil, sig.Params(), sig.Results(), sig.Variadic()), nil)
}

// derived computes the values of fn that may alias the backing array of root.
func (a *inputRO) derived(fn *ssa.Function, root ssa.Value) map[ssa.Value]bool {
	d := map[ssa.Value]bool{root: true}
	for changed := true; changed; {
		changed = false
		for _, blk := range fn.Blocks {
			for _, in := range blk.Instrs {
				v, ok := in.(ssa.Value)
				if !ok || d[v] {
					continue
				}
				hit := false
				switch x := in.(type) {
				case *ssa.Slice:
					hit = d[x.X]
				case *ssa.Phi:
					for _, e := range x.Edges {
						hit = hit || d[e]
					}
				case *ssa.ChangeType:
					hit = d[x.X]
				case *ssa.Convert:
					// []byte <-> string conversions copy; named slice conversions alias
					hit = d[x.X] && isSliceType(x.Type()) && isSliceType(x.X.Type())
				case *ssa.Extract:
					hit = d[x.Tuple] && isSliceType(x.Type())
				case *ssa.UnOp:
					if vals, ok := localStored(x); ok {
						for _, s := range vals {
							hit = hit || d[s]
						}
					}
				case *ssa.Call:
					cc := x.Common()
					if _, isB := cc.Value.(*ssa.Builtin); isB {
						break
					}
					retSlice := isSliceType(x.Type()) || isTupleWithRef(x.Type())
					if !retSlice {
						break
					}
					for i, arg := range cc.Args {
						if !d[arg] {
							continue
						}
						if f := staticCallee(cc); f != nil {
							if s := a.sum[f]; s != nil {
								if s.ret[i] {
									hit = true
								}
							} else if !a.c.InRepo(f) {
								// external: bytes.TrimSpace-like helpers may return sub-slices
								if isSliceType(arg.Type()) {
									hit = true
								}
							}
						} else if !cc.IsInvoke() {
							// dynamic: union over the signature class
							for _, g := range a.bySig[sigKey(cc.Signature())] {
								if s := a.sum[g]; s != nil && s.ret[i] {
									hit = true
								}
							}
						}
					}
				}
				if hit {
					d[v] = true
					changed = true
				}
			}
		}
	}
	return d
}

// writesThrough lists how fn writes memory aliased by d.
func (a *inputRO) writesThrough(fn *ssa.Function, d map[ssa.Value]bool) []string {
	var out []string
	c := a.c
	for _, blk := range fn.Blocks {
		for _, in := range blk.Instrs {
			switch x := in.(type) {
			case *ssa.Store:
				if ia, ok := x.Addr.(*ssa.IndexAddr); ok && d[ia.X] {
					out = append(out, "index store at "+c.InstrPos(x))
				}
			case *ssa.Call:
				cc := x.Common()
				if bi, ok := cc.Value.(*ssa.Builtin); ok {
					switch bi.Name() {
					case "copy":
						if d[cc.Args[0]] {
							out = append(out, "copy destination at "+c.InstrPos(x))
						}
					case "append":
						if d[cc.Args[0]] {
							out = append(out, "append destination (writes spare capacity) at "+c.InstrPos(x))
						}
					case "clear":
						if d[cc.Args[0]] {
							out = append(out, "clear at "+c.InstrPos(x))
						}
					}
					continue
				}
				name := calleeName(cc)
				if idx, ok := externalWrites[name]; ok {
					if idx < len(cc.Args) && d[cc.Args[idx]] {
						out = append(out, name+" destination at "+c.InstrPos(x))
					}
					continue
				}
				for i, arg := range cc.Args {
					if !d[arg] {
						continue
					}
					if f := staticCallee(cc); f != nil {
						if s := a.sum[f]; s != nil {
							if how, w := s.mod[i]; w {
								out = append(out, fmt.Sprintf("passed to %s which writes it (%s) at %s", shortName(f), how, c.InstrPos(x)))
							}
						}
					} else if !cc.IsInvoke() {
						for _, g := range a.bySig[sigKey(cc.Signature())] {
							if s := a.sum[g]; s != nil {
								if how, w := s.mod[i]; w {
									out = append(out, fmt.Sprintf("passed through a function value to %s which writes it (%s) at %s", shortName(g), how, c.InstrPos(x)))
								}
							}
						}
					}
				}
			}
		}
	}
	return out
}

func (a *inputRO) compute(fns []*ssa.Function) {
	a.sum = map[*ssa.Function]*modSummary{}
	a.bySig = map[string][]*ssa.Function{}
	for _, fn := range fns {
		a.sum[fn] = &modSummary{mod: map[int]string{}, ret: map[int]bool{}}
		a.bySig[sigKey(fn.Signature)] = append(a.bySig[sigKey(fn.Signature)], fn)
	}
	for changed := true; changed; {
		changed = false
		for _, fn := range fns {
			s := a.sum[fn]
			for i, p := range fn.Params {
				if !isSliceType(p.Type()) {
					continue
				}
				d := a.derived(fn, p)
				if _, done := s.mod[i]; !done {
					if w := a.writesThrough(fn, d); len(w) > 0 {
						s.mod[i] = w[0]
						changed = true
					}
				}
				if !s.ret[i] {
					for _, r := range returnsOf(fn) {
						for _, res := range r.Results {
							if d[res] {
								s.ret[i] = true
								changed = true
							}
						}
					}
				}
			}
		}
	}
}

func runInputRO(c *core.Ctx) []core.Obligation {
	b := newOb(c, "R-INPUTRO")
	var fns []*ssa.Function
	for _, fn := range c.RepoFunctions() {
		n := shortName(fn)
		if fn.Blocks != nil && (strings.HasPrefix(n, "json.") || strings.HasPrefix(n, "proto.") || strings.HasPrefix(n, "thrift.") || strings.HasPrefix(n, "iso8601.")) {
			fns = append(fns, fn)
		}
	}
	a := &inputRO{c: c}
	a.compute(fns)

	// entries: (function, param index, properties)
	type entry struct {
		fn    *ssa.Function
		idx   int
		props []string
		why   string
	}
	var entries []entry
	jp, pp := c.Pkg("json"), c.Pkg("proto")
	var decodeSig, protoDecodeSig types.Type
	if jp != nil {
		if tn, ok := jp.Types.Scope().Lookup("decodeFunc").(*types.TypeName); ok {
			decodeSig = tn.Type().Underlying()
		}
	}
	if pp != nil {
		if tn, ok := pp.Types.Scope().Lookup("decodeFunc").(*types.TypeName); ok {
			protoDecodeSig = tn.Type().Underlying()
		}
	}
	var rewriterIface *types.Interface
	if pp != nil {
		if tn, ok := pp.Types.Scope().Lookup("Rewriter").(*types.TypeName); ok {
			rewriterIface, _ = tn.Type().Underlying().(*types.Interface)
		}
	}
	for _, fn := range fns {
		if fn.Synthetic != "" {
			continue
		}
		n := shortName(fn)
		firstBytes := -1
		for i, p := range fn.Params {
			if isByteSliceType(p.Type()) {
				firstBytes = i
				break
			}
		}
		switch {
		case strings.HasPrefix(n, "json."):
			recv := fn.Signature.Recv()
			isDecoderMethod := recv != nil && namedTypeIs(recv.Type(), "json", "decoder")
			isDecodeFunc := decodeSig != nil && types.Identical(fn.Signature, decodeSig)
			exported := fn.Parent() == nil && recv == nil && (fn.Name() == "Unmarshal" || fn.Name() == "Parse" || fn.Name() == "Valid" || fn.Name() == "NewTokenizer" || fn.Name() == "Unescape" || fn.Name() == "AppendUnescape")
			if (isDecoderMethod || isDecodeFunc || exported) && firstBytes >= 0 {
				idx := firstBytes
				if fn.Name() == "AppendUnescape" {
					idx = firstBytes + 1 // (b dst, s input)
				}
				entries = append(entries, entry{fn, idx, []string{"C10", "C02", "C09"}, "json input"})
			}
			if recv != nil && namedTypeIs(recv.Type(), "json", "Tokenizer") && fn.Name() == "Reset" && firstBytes >= 0 {
				entries = append(entries, entry{fn, firstBytes, []string{"C10", "C17"}, "tokenizer input"})
			}
		case strings.HasPrefix(n, "proto."):
			isDec := protoDecodeSig != nil && types.Identical(fn.Signature, protoDecodeSig) && isProtoDecode(c, fn)
			exported := fn.Parent() == nil && fn.Signature.Recv() == nil && (fn.Name() == "Unmarshal" || fn.Name() == "Parse" || fn.Name() == "Scan")
			if (isDec || exported) && firstBytes >= 0 {
				entries = append(entries, entry{fn, firstBytes, []string{"C19"}, "proto input"})
			}
			if fn.Name() == "Rewrite" && fn.Signature.Recv() != nil && rewriterIface != nil && len(fn.Params) == 3 {
				// (recv, out, in)
				entries = append(entries, entry{fn, 2, []string{"C19"}, "rewriter input `in`"})
			}
			if fn.Name() == "ParseRewriteTemplate" && fn.Signature.Recv() == nil && firstBytes >= 0 {
				entries = append(entries, entry{fn, firstBytes, []string{"C19"}, "rewrite template"})
			}
		}
	}
	sort.Slice(entries, func(i, j int) bool { return shortName(entries[i].fn) < shortName(entries[j].fn) })
	for _, e := range entries {
		key := fmt.Sprintf("input:%s:%s", shortName(e.fn), e.fn.Params[e.idx].Name())
		if how, w := a.sum[e.fn].mod[e.idx]; w {
			b.addP(e.props, core.Violation, key, c.FuncPos(e.fn), fmt.Sprintf("%s may write the %s it was lent (parameter %s): %s", shortName(e.fn), e.why, e.fn.Params[e.idx].Name(), how))
		} else {
			b.addP(e.props, core.Discharged, key, c.FuncPos(e.fn), fmt.Sprintf("parameter %s (%s) is not in the function's mod set", e.fn.Params[e.idx].Name(), e.why))
		}
	}

	// Tokenizer: no write through values loaded from its input fields
	for _, fn := range fns {
		recv := fn.Signature.Recv()
		if recv == nil || !namedTypeIs(recv.Type(), "json", "Tokenizer") {
			continue
		}
		for _, blk := range fn.Blocks {
			for _, in := range blk.Instrs {
				ld, ok := in.(*ssa.UnOp)
				if !ok || ld.Op != token.MUL {
					continue
				}
				fa, ok := ld.X.(*ssa.FieldAddr)
				if !ok {
					continue
				}
				id := fieldAddrID(fa)
				if id != "json.Tokenizer.json" && id != "json.Tokenizer.Value" {
					continue
				}
				d := a.derived(fn, ld)
				if w := a.writesThrough(fn, d); len(w) > 0 {
					b.addP([]string{"C10", "C17"}, core.Violation, "tokenizer-field:"+shortName(fn)+":"+id, c.InstrPos(ld), fmt.Sprintf("%s writes through %s, which aliases the caller's input: %s", shortName(fn), id, w[0]))
				}
			}
		}
	}
	b.addP([]string{"C10", "C17"}, core.Discharged, "tokenizer-fields-read-only", "-", "no Tokenizer method writes through json.Tokenizer.json / Value")
	return b.out
}

// isProtoDecode: the function is stored in a codec's decode slot (not an encoder of the same shape).
func isProtoDecode(c *core.Ctx, fn *ssa.Function) bool {
	for _, pc := range protoCodecs(c) {
		for _, d := range pc.decode {
			if d == fn {
				return true
			}
		}
	}
	return false
}
