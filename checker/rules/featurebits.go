package rules

import (
	"fmt"
	"go/token"
	"sort"
	"strings"

	"golang.org/x/tools/go/ssa"

	"verif/checker/core"
)

// R-FEATUREBITS — thrift's protocol features (delta-encoded field ids, booleans folded into the
// field header) reach every nested codec. The writer/reader decide how a field header looks from
// what they are handed (compactWriter.WriteField uses the short form whenever the number fits,
// compactReader.ReadField always reads the short form as a delta), so the struct encoder of a
// nested value must be told about the feature exactly as the outermost one is: a container or
// pointer wrapper that masks the feature bits out of the flags it hands down makes the two sides
// disagree for every struct below it.
func init() {
	Register(&Rule{
		ID:    "R-FEATUREBITS",
		Doc:   "bit-mask abstract interpretation (per bit: set in the function's own flags parameter ⇒ set in the value, through &, |, &^, ^ with constants, φ, and the bodies of the flags helpers only/with/without) of the flags argument of every call, in package thrift, from a function that has a flags parameter to an encodeFunc/decodeFunc value or to a function that takes flags: the bits of protocolFlags (useDeltaEncoding, coalesceBoolFields) are preserved",
		Props: []string{"C04", "C13", "C08"},
		Min:   map[string]int{"C04": 10, "C13": 5, "C08": 5},
		Run:   runFeatureBits,
	})
}

type maskVal struct {
	isConst bool
	k       uint64
	keep    uint64 // bits b such that param&b != 0 ⇒ value&b != 0
}

func evalMask(v ssa.Value, root ssa.Value, bind map[ssa.Value]maskVal, depth int, seen map[ssa.Value]bool) maskVal {
	if depth > 6 {
		return maskVal{}
	}
	if m, ok := bind[v]; ok {
		return m
	}
	if v == root {
		return maskVal{keep: ^uint64(0)}
	}
	if k, ok := constUint(v); ok {
		return maskVal{isConst: true, k: k}
	}
	if k, ok := constInt(v); ok {
		return maskVal{isConst: true, k: uint64(k)}
	}
	switch x := v.(type) {
	case *ssa.Convert:
		return evalMask(x.X, root, bind, depth, seen)
	case *ssa.ChangeType:
		return evalMask(x.X, root, bind, depth, seen)
	case *ssa.UnOp:
		if x.Op == token.XOR {
			a := evalMask(x.X, root, bind, depth, seen)
			if a.isConst {
				return maskVal{isConst: true, k: ^a.k}
			}
			return maskVal{}
		}
		if x.Op == token.MUL {
			if cell := cellOf(x.X); cell != nil {
				out := maskVal{keep: ^uint64(0)}
				st := cellStores(cell)
				if len(st) == 0 {
					return maskVal{}
				}
				for _, sv := range st {
					a := evalMask(sv, root, bind, depth+1, seen)
					if a.isConst {
						a.keep = 0
					}
					out.keep &= a.keep
				}
				return out
			}
		}
		return maskVal{}
	case *ssa.BinOp:
		a := evalMask(x.X, root, bind, depth, seen)
		c := evalMask(x.Y, root, bind, depth, seen)
		switch x.Op {
		case token.AND:
			switch {
			case a.isConst && c.isConst:
				return maskVal{isConst: true, k: a.k & c.k}
			case c.isConst:
				return maskVal{keep: a.keep & c.k}
			case a.isConst:
				return maskVal{keep: c.keep & a.k}
			}
			return maskVal{keep: a.keep & c.keep}
		case token.OR:
			if a.isConst && c.isConst {
				return maskVal{isConst: true, k: a.k | c.k}
			}
			ka, kc := a.keep, c.keep
			if a.isConst {
				ka = 0
			}
			if c.isConst {
				kc = 0
			}
			return maskVal{keep: ka | kc}
		case token.AND_NOT:
			switch {
			case a.isConst && c.isConst:
				return maskVal{isConst: true, k: a.k &^ c.k}
			case c.isConst:
				return maskVal{keep: a.keep &^ c.k}
			}
			return maskVal{}
		}
		return maskVal{}
	case *ssa.Phi:
		if seen[v] {
			return maskVal{keep: ^uint64(0)}
		}
		seen[v] = true
		out := maskVal{keep: ^uint64(0)}
		for _, e := range x.Edges {
			a := evalMask(e, root, bind, depth, seen)
			if a.isConst {
				a.keep = 0
			}
			out.keep &= a.keep
		}
		delete(seen, v)
		return out
	case *ssa.Call:
		f := staticCallee(x.Common())
		if f == nil || f.Blocks == nil || len(f.Blocks) != 1 || f.Pkg == nil || f.Pkg.Pkg.Name() != "thrift" {
			return maskVal{}
		}
		// a one-block helper (only, with, without): evaluate its result with the arguments bound
		nb := map[ssa.Value]maskVal{}
		for i, p := range f.Params {
			if i < len(x.Common().Args) {
				nb[p] = evalMask(x.Common().Args[i], root, bind, depth+1, seen)
			}
		}
		for _, in := range f.Blocks[0].Instrs {
			if r, ok := in.(*ssa.Return); ok && len(r.Results) == 1 {
				return evalMask(r.Results[0], nil, nb, depth+1, map[ssa.Value]bool{})
			}
		}
	}
	return maskVal{}
}

func runFeatureBits(c *core.Ctx) []core.Obligation {
	b := newOb(c, "R-FEATUREBITS", "C04", "C13")
	pf, ok := thriftConst(c, "protocolFlags")
	if !ok || pf == 0 {
		b.und("featurebits:-", "-", "thrift.protocolFlags not found")
		return b.out
	}
	want := uint64(pf)
	fns := c.RepoFunctions()
	sort.Slice(fns, func(i, j int) bool { return shortName(fns[i]) < shortName(fns[j]) })
	isFlags := func(v ssa.Value) bool { return strings.HasSuffix(v.Type().String(), "thrift.flags") }
	n := 0
	for _, fn := range fns {
		name := shortName(fn)
		if fn.Blocks == nil || !strings.HasPrefix(name, "thrift.") || fn.Synthetic != "" {
			continue
		}
		var fp *ssa.Parameter
		for _, p := range fn.Params {
			if isFlags(p) {
				fp = p
			}
		}
		if fp == nil {
			continue
		}
		// the flags helpers themselves are interpreted, not checked
		if recv := fn.Signature.Recv(); recv != nil && strings.HasSuffix(recv.Type().String(), "thrift.flags") {
			continue
		}
		dir := []string{"C04", "C13"}
		need := want
		lname := strings.ToLower(name)
		if strings.Contains(lname, "decode") || strings.Contains(lname, "read") || strings.Contains(lname, "skip") {
			dir = []string{"C04", "C08"}
			// the decoders also hand down the strict bit (decodeFlags = strict | protocolFlags): a
			// wrapper that forgets it makes strict mode stop at the first pointer
			if df, ok := thriftConst(c, "decodeFlags"); ok {
				need = want | uint64(df)
			}
		}
		count := 0
		for _, ci := range callsIn(fn) {
			cc := ci.Common()
			if _, isB := cc.Value.(*ssa.Builtin); isB {
				continue
			}
			if f := staticCallee(cc); f != nil {
				if recv := f.Signature.Recv(); recv != nil && strings.HasSuffix(recv.Type().String(), "thrift.flags") {
					continue
				}
			}
			var farg ssa.Value
			for _, a := range cc.Args {
				if isFlags(a) {
					farg = a
				}
			}
			if farg == nil {
				continue
			}
			n++
			count++
			key := fmt.Sprintf("featurebits:%s:%s#%d", closureIndex.ReplaceAllString(name, ""), calleeLabel(cc), count)
			m := evalMask(farg, fp, nil, 0, map[ssa.Value]bool{})
			if m.isConst {
				m.keep = 0
			}
			if m.keep&need == need {
				b.addP(dir, core.Discharged, key, c.InstrPos(ci), "the nested codec receives the protocol feature bits of the caller's flags")
			} else {
				b.addP(dir, core.Violation, key, c.InstrPos(ci), fmt.Sprintf("%s hands flags (%s) to a nested codec that do not keep the bits %#x of its own flags parameter (kept: %#x; protocol features %#x, and on the decoding side the strict bit): the struct codecs below it decide between delta-encoded and absolute field ids, and between booleans folded into the field header and written after it, without knowing what the protocol's writer and reader do with the header — in the compact protocol ids written as 1, 2, 5 are read back as 1, 3, 8 — and a decoder that loses the strict bit silently skips a wrong wire type below that point instead of reporting a TypeMismatch", name, texpr(farg, 0), need, m.keep&need, want))
			}
		}
	}
	if n == 0 {
		b.und("featurebits:-", "-", "no nested codec call with a flags argument found in package thrift")
	}
	return b.out
}

// ---- R-FLAGAFFINE: proto's wrapper codecs transform the flags the same way when sizing and when
// encoding -----------------------------------------------------------------------------------------

func init() {
	Register(&Rule{
		ID:    "R-FLAGAFFINE",
		Doc:   "proto's wrapper constructors (pointer, slice, map, struct …SizeFuncOf / …EncodeFuncOf): the flags argument of every call to a wrapped codec is evaluated as (flags & keep) | set by abstract interpretation of &, |, &^ with constants and of the helpers with/without/only; the set of (keep, set) pairs of the size closure equals that of the encode closure of the same constructor family — a bit that one side drops or adds and the other does not (toplevel, wantzero, inline, zigzag) makes Size describe another encoding than the one written",
		Props: []string{"C16", "C03"},
		Min:   map[string]int{"C16": 2},
		Run:   runFlagAffine,
	})
}

type affine struct {
	keep, set uint64
	ok        bool
}

func evalAffine(v ssa.Value, root ssa.Value, bind map[ssa.Value]affine, depth int) affine {
	if depth > 8 {
		return affine{}
	}
	if a, ok := bind[v]; ok {
		return a
	}
	if v == root {
		return affine{keep: ^uint64(0), ok: true}
	}
	if k, ok := constUint(v); ok {
		return affine{set: k, ok: true}
	}
	switch x := v.(type) {
	case *ssa.Convert:
		return evalAffine(x.X, root, bind, depth)
	case *ssa.ChangeType:
		return evalAffine(x.X, root, bind, depth)
	case *ssa.UnOp:
		if x.Op == token.XOR {
			a := evalAffine(x.X, root, bind, depth)
			if a.ok && a.keep == 0 {
				return affine{set: ^a.set, ok: true}
			}
		}
		return affine{}
	case *ssa.BinOp:
		a, c := evalAffine(x.X, root, bind, depth), evalAffine(x.Y, root, bind, depth)
		if !a.ok || !c.ok {
			return affine{}
		}
		// one side must be a constant (keep == 0) for the result to stay affine
		if a.keep != 0 && c.keep != 0 {
			if x.Op == token.OR {
				// (p&k1|s1) | (p&k2|s2) = p&(k1|k2) | (s1|s2)
				return affine{keep: (a.keep | c.keep) &^ (a.set | c.set), set: a.set | c.set, ok: true}
			}
			return affine{}
		}
		if a.keep == 0 {
			a, c = c, a // c is the constant now, except for AND_NOT below
			if x.Op == token.AND_NOT {
				return affine{} // const &^ var
			}
		}
		k := c.set
		switch x.Op {
		case token.AND:
			return affine{keep: a.keep & k, set: a.set & k, ok: true}
		case token.OR:
			return affine{keep: a.keep &^ k, set: a.set | k, ok: true}
		case token.AND_NOT:
			return affine{keep: a.keep &^ k, set: a.set &^ k, ok: true}
		}
		return affine{}
	case *ssa.Phi:
		var out affine
		for i, e := range x.Edges {
			a := evalAffine(e, root, bind, depth+1)
			if !a.ok {
				return affine{}
			}
			if i == 0 {
				out = a
			} else if a != out {
				return affine{}
			}
		}
		return out
	case *ssa.Call:
		f := staticCallee(x.Common())
		if f == nil || f.Blocks == nil || len(f.Blocks) != 1 {
			return affine{}
		}
		nb := map[ssa.Value]affine{}
		for i, p := range f.Params {
			if i < len(x.Common().Args) {
				nb[p] = evalAffine(x.Common().Args[i], root, bind, depth+1)
			}
		}
		for _, in := range f.Blocks[0].Instrs {
			if r, ok := in.(*ssa.Return); ok && len(r.Results) == 1 {
				return evalAffine(r.Results[0], nil, nb, depth+1)
			}
		}
	}
	return affine{}
}

func runFlagAffine(c *core.Ctx) []core.Obligation {
	b := newOb(c, "R-FLAGAFFINE", "C16", "C03")
	type side struct {
		fn     *ssa.Function
		xforms map[string]bool
		opaque bool
	}
	fams := map[string]map[string]*side{} // family -> "Size"/"Encode" -> side
	for _, fn := range c.RepoFunctions() {
		name := shortName(fn)
		if fn.Blocks == nil || fn.Parent() == nil || !strings.HasPrefix(name, "proto.") {
			continue
		}
		parent := fn.Parent().Name()
		var kind string
		switch {
		case strings.HasSuffix(parent, "SizeFuncOf"):
			kind = "Size"
		case strings.HasSuffix(parent, "EncodeFuncOf"):
			kind = "Encode"
		default:
			continue
		}
		fam := strings.TrimSuffix(strings.TrimSuffix(parent, "SizeFuncOf"), "EncodeFuncOf")
		var fp *ssa.Parameter
		for _, p := range fn.Params {
			if strings.HasSuffix(p.Type().String(), "proto.flags") {
				fp = p
			}
		}
		if fp == nil {
			continue
		}
		if fams[fam] == nil {
			fams[fam] = map[string]*side{}
		}
		s := fams[fam][kind]
		if s == nil {
			s = &side{fn: fn, xforms: map[string]bool{}}
			fams[fam][kind] = s
		}
		for _, ci := range callsIn(fn) {
			cc := ci.Common()
			if staticCallee(cc) != nil || cc.IsInvoke() {
				continue
			}
			if _, isB := cc.Value.(*ssa.Builtin); isB {
				continue
			}
			for _, a := range cc.Args {
				if !strings.HasSuffix(a.Type().String(), "proto.flags") {
					continue
				}
				af := evalAffine(a, fp, nil, 0)
				if !af.ok {
					s.opaque = true
					continue
				}
				s.xforms[fmt.Sprintf("(flags & %#x) | %#x", af.keep&0xffff, af.set&0xffff)] = true
			}
		}
	}
	var names []string
	for f := range fams {
		names = append(names, f)
	}
	sort.Strings(names)
	n := 0
	for _, fam := range names {
		sz, en := fams[fam]["Size"], fams[fam]["Encode"]
		if sz == nil || en == nil || (len(sz.xforms) == 0 && len(en.xforms) == 0) {
			continue
		}
		key := "flagaffine:proto." + fam
		list := func(m map[string]bool) []string {
			var out []string
			for k := range m {
				out = append(out, k)
			}
			sort.Strings(out)
			return out
		}
		if sz.opaque != en.opaque {
			n++
			which, other := "size", "encode"
			if en.opaque {
				which, other = "encode", "size"
			}
			b.bad(key, c.FuncPos(sz.fn), fmt.Sprintf("the %s closure of proto.%s*FuncOf hands the wrapped codec flags that are not a fixed function (flags & keep) | set of its own flags (a mask chosen per codec at construction), the %s closure a fixed one: the two can disagree — a **int reached with inline set is sized from the wrong memory, Size(v) no longer matches what MarshalTo writes", which, fam, other))
			continue
		}
		if sz.opaque && en.opaque {
			b.addP([]string{"C16", "C03"}, core.Info, key, c.FuncPos(sz.fn), "a flags argument of this family is not an affine function of the closure's own flags (makeFlags of a field): decided by R-FLAGPASS")
			continue
		}
		n++
		ls, le := list(sz.xforms), list(en.xforms)
		if strings.Join(ls, ";") == strings.Join(le, ";") {
			b.ok(key, c.FuncPos(sz.fn), fmt.Sprintf("size and encode hand the wrapped codec %v", ls))
		} else {
			b.bad(key, c.FuncPos(en.fn), fmt.Sprintf("proto.%sSizeFuncOf hands the wrapped codec %v, proto.%sEncodeFuncOf hands it %v: the codec is sized under other flags than it is encoded under (a Message codec that is told it is at top level when sized and not when encoded writes a length prefix that Size did not count — MarshalTo into Size(v) bytes fails with a short buffer)", fam, ls, fam, le))
		}
	}
	if n == 0 {
		b.und("flagaffine:-", "-", "no proto wrapper family with affine flags arguments on both sides")
	}
	return b.out
}
