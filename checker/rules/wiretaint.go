package rules

import (
	"fmt"
	"go/token"
	"go/types"
	"sort"
	"strings"

	"golang.org/x/tools/go/ssa"

	"verif/checker/core"
)

// R-WIRETAINT — integers read from the wire do not window the input, advance the cursor or size
// an allocation without a bound that matches the use.
func init() {
	Register(&Rule{
		ID:    "R-WIRETAINT",
		Doc:   "proto: every window b[P : P+int(l)] cut with a wire length l is dominated by the unsigned guard l > uint64(len(b)-P) over the same P (flattened sums), wire lengths are compared before being converted to a signed int, and every cursor advance by a wire-derived amount is dominated by (cursor+amount) <= len(b); thrift: every allocation sized by a wire integer has a non-negative size by construction or by a dominating sign test, and a bound related to the bytes available",
		Props: []string{"C07", "C08", "C12"},
		Min:   map[string]int{"C07": 5, "C08": 6, "C12": 2},
		Run:   runWireTaint,
	})
}

// wireValues: the uint64 values decoded from the input in fn (first result of decodeVarint).
func wireValues(fn *ssa.Function) map[ssa.Value]bool {
	out := map[ssa.Value]bool{}
	for _, ci := range callsIn(fn) {
		call, ok := ci.(*ssa.Call)
		if !ok {
			continue
		}
		if n := strings.TrimPrefix(calleeName(call.Common()), protoPath); n == "decodeVarint" {
			for _, ref := range *call.Referrers() {
				if ex, ok := ref.(*ssa.Extract); ok && ex.Index == 0 {
					out[ex] = true
				}
			}
		}
	}
	// φ and local cells carrying them
	for changed := true; changed; {
		changed = false
		for _, blk := range fn.Blocks {
			for _, in := range blk.Instrs {
				v, ok := in.(ssa.Value)
				if !ok || out[v] {
					continue
				}
				switch x := in.(type) {
				case *ssa.Phi:
					for _, e := range x.Edges {
						if out[e] {
							out[v] = true
							changed = true
						}
					}
				}
			}
		}
	}
	return out
}

func taintedBy(v ssa.Value, w map[ssa.Value]bool) bool {
	return dependsOn(v, func(x ssa.Value) bool { return w[x] })
}

func runWireTaint(c *core.Ctx) []core.Obligation {
	b := newOb(c, "R-WIRETAINT")
	// ---------------- proto
	var fns []*ssa.Function
	for _, fn := range c.RepoFunctions() {
		if fn.Blocks != nil && strings.HasPrefix(shortName(fn), "proto.") && fn.Synthetic == "" && bufParam(fn) != nil {
			fns = append(fns, fn)
		}
	}
	sort.Slice(fns, func(i, j int) bool { return shortName(fns[i]) < shortName(fns[j]) })
	for _, fn := range fns {
		w := wireValues(fn)
		if len(w) == 0 {
			continue
		}
		bp := bufParam(fn)
		name := shortName(fn)
		bufVersions := map[ssa.Value]bool{bp: true}
		for _, blk := range fn.Blocks {
			for _, in := range blk.Instrs {
				if phi, ok := in.(*ssa.Phi); ok {
					for _, e := range phi.Edges {
						if bufVersions[e] {
							bufVersions[phi] = true
						}
					}
				}
				if sl, ok := in.(*ssa.Slice); ok && bufVersions[sl.X] && sl.High == nil {
					bufVersions[sl] = true
				}
			}
		}
		props := []string{"C07", "C12"}
		n := 0
		kn := map[string]int{}
		nk := func(kind string) string {
			kn[kind]++
			if kn[kind] == 1 {
				return fmt.Sprintf("%s:%s", kind, name)
			}
			return fmt.Sprintf("%s:%s#%d", kind, name, kn[kind])
		}
		_ = nk
		// W-a: signed comparison of a wire length
		for _, blk := range fn.Blocks {
			for _, in := range blk.Instrs {
				bo, ok := in.(*ssa.BinOp)
				if !ok {
					continue
				}
				switch bo.Op {
				case token.LSS, token.GTR, token.LEQ, token.GEQ:
				default:
					continue
				}
				for _, side := range []ssa.Value{bo.X, bo.Y} {
					cv, ok := side.(*ssa.Convert)
					if !ok || !w[cv.X] {
						continue
					}
					if bt, ok := cv.Type().Underlying().(*types.Basic); ok && bt.Info()&types.IsUnsigned == 0 {
						n++
						b.addP(props, core.Violation, fmt.Sprintf("signed-length-compare:%s", name), c.InstrPos(bo), fmt.Sprintf("%s converts a wire-supplied uint64 length to %s before comparing it with the remaining input: a length with the top bit set becomes negative, passes the test and panics in the slice expression", name, typeShort(cv.Type())))
					}
				}
			}
		}
		// W-b: windows
		for _, blk := range fn.Blocks {
			for _, in := range blk.Instrs {
				sl, ok := in.(*ssa.Slice)
				if !ok || !bufVersions[sl.X] || sl.High == nil {
					continue
				}
				hi := flattenConv(sl.High)
				direct := false
				for t := range hi.terms {
					if w[t] {
						direct = true
					}
				}
				if !direct {
					// a bound computed from the wire length through something else than P + int(l)
					indirect := false
					for t := range hi.terms {
						if _, isPhi := t.(*ssa.Phi); isPhi {
							continue // the cursor
						}
						if ex, ok := t.(*ssa.Extract); ok && ex.Index >= 1 {
							continue
						}
						if taintedBy(t, w) {
							indirect = true
						}
					}
					if indirect {
						b.addP(props, core.Violation, nk("window"), c.InstrPos(sl), fmt.Sprintf("%s cuts a window of the input whose end (%s) is derived from the wire length but is not P + int(l) for the l and P that the bounds check used: a non-minimal length prefix makes the window and the consumed prefix disagree", name, hi))
						continue
					}
					// fixed-size window b[P : P+K]: needs (P+K) <= len(b)
					if hi.k > 0 && len(hi.terms) > 0 {
						n++
						key := nk("window")
						guarded := false
						for _, e := range dominatingEdges(blk) {
							bo, ok := e.ifi.Cond.(*ssa.BinOp)
							if !ok {
								continue
							}
							var lhs, rhs ssa.Value
							switch {
							case bo.Op == token.LEQ && e.succ == 0, bo.Op == token.GTR && e.succ == 1:
								lhs, rhs = bo.X, bo.Y
							case bo.Op == token.GEQ && e.succ == 0, bo.Op == token.LSS && e.succ == 1:
								lhs, rhs = bo.Y, bo.X
							default:
								continue
							}
							if la, ok := lenArg(rhs); ok && bufVersions[la] && flattenConv(lhs).equal(hi) {
								guarded = true
							}
						}
						if guarded {
							b.addP(props, core.Discharged, key, c.InstrPos(sl), "fixed-size window dominated by (P+K) <= len(b)")
						} else {
							b.addP(props, core.Violation, key, c.InstrPos(sl), fmt.Sprintf("%s cuts the fixed-size window b[P:P+%d] with no dominating test (P+%d) <= len(b): truncated input panics instead of returning an error", name, hi.k, hi.k))
						}
					}
					continue
				}
				n++
				key := nk("window")
				good := false
				why := ""
				for _, e := range dominatingEdges(blk) {
					bo, ok := e.ifi.Cond.(*ssa.BinOp)
					if !ok {
						continue
					}
					// l > uint64(len(b) - P)   (failing side is the true edge)
					var l, rem ssa.Value
					switch {
					case bo.Op == token.GTR && e.succ == 1:
						l, rem = bo.X, bo.Y
					case bo.Op == token.LSS && e.succ == 1:
						l, rem = bo.Y, bo.X
					case bo.Op == token.LEQ && e.succ == 0:
						l, rem = bo.X, bo.Y
					default:
						continue
					}
					if !w[l] {
						continue
					}
					sub, ok := stripConv(rem).(*ssa.BinOp)
					if !ok || sub.Op != token.SUB {
						continue
					}
					la, isLen := lenArg(sub.X)
					if !isLen || !bufVersions[la] {
						continue
					}
					// expected high = P + int(l), relative to the slice's base
					want := flattenConv(sub.Y)
					want.terms[l]++
					// slicing a sub-slice b[n:] of the guarded buffer shifts P: accept when the sliced
					// value is the buffer whose length was tested
					if la != sl.X {
						continue
					}
					if want.equal(hi) {
						good = true
					} else {
						why = fmt.Sprintf("guard bounds %s but the window ends at %s", want, hi)
					}
				}
				if good {
					b.addP(props, core.Discharged, key, c.InstrPos(sl), "window end = P + int(l) under the guard l > uint64(len(b) - P)")
				} else {
					if why == "" {
						why = "no dominating unsigned guard of the form l > uint64(len(b) - P)"
					}
					b.addP(props, core.Violation, key, c.InstrPos(sl), fmt.Sprintf("%s cuts a window of the input with a wire-supplied length: %s; a crafted or non-minimal length prefix reads past the field or fails on valid input", name, why))
				}
			}
		}
		// W-c: cursor advance by a wire-derived amount
		cursors := map[*ssa.Phi]bool{}
		for _, blk := range fn.Blocks {
			for _, in := range blk.Instrs {
				if sl, ok := in.(*ssa.Slice); ok && bufVersions[sl.X] {
					for _, bound := range []ssa.Value{sl.Low, sl.High} {
						if bound == nil {
							continue
						}
						for t := range flattenConv(bound).terms {
							if phi, ok := t.(*ssa.Phi); ok && isIntType(phi.Type()) {
								cursors[phi] = true
							}
						}
					}
				}
			}
		}
		for _, blk := range fn.Blocks {
			for _, in := range blk.Instrs {
				add, ok := in.(*ssa.BinOp)
				if !ok || add.Op != token.ADD || !isIntType(add.Type()) {
					continue
				}
				sum := flattenConv(add)
				var cur *ssa.Phi
				wireAmount := false
				for t := range sum.terms {
					if phi, ok := t.(*ssa.Phi); ok && cursors[phi] {
						cur = phi
						continue
					}
					if ex, ok := t.(*ssa.Extract); ok && ex.Index >= 1 {
						continue // a decoder's own byte count
					}
					if taintedBy(t, w) {
						wireAmount = true
					}
				}
				if cur == nil || !wireAmount {
					continue
				}
				feeds := false
				for _, ref := range *add.Referrers() {
					if p2, ok := ref.(*ssa.Phi); ok && (p2 == cur || feedsPhi(p2, cur)) {
						feeds = true
					}
				}
				if !feeds {
					continue
				}
				n++
				key := nk("cursor-advance")
				guarded := false
				for _, e := range dominatingEdges(blk) {
					bo, ok := e.ifi.Cond.(*ssa.BinOp)
					if !ok {
						continue
					}
					var lhs, rhs ssa.Value
					switch {
					case bo.Op == token.LEQ && e.succ == 0, bo.Op == token.GTR && e.succ == 1:
						lhs, rhs = bo.X, bo.Y
					case bo.Op == token.GEQ && e.succ == 0, bo.Op == token.LSS && e.succ == 1:
						lhs, rhs = bo.Y, bo.X
					default:
						continue
					}
					if la, ok := lenArg(rhs); ok && bufVersions[la] && flattenConv(lhs).equal(sum) {
						guarded = true
					}
				}
				if guarded {
					b.addP(props, core.Discharged, key, c.InstrPos(add), "advance dominated by (cursor+amount) <= len(b)")
				} else {
					b.addP(props, core.Violation, key, c.InstrPos(add), fmt.Sprintf("%s advances its cursor by a wire-derived amount with no dominating test (cursor+amount) <= len(b): a field whose announced length overruns the buffer is accepted and the decoder reports more bytes consumed than it was given", name))
				}
			}
		}
	}

	// ---------------- window / count agreement: a function that hands out a window b[lo:hi] of its
	// input together with the number of bytes consumed reports exactly hi
	for _, fn := range c.RepoFunctions() {
		if fn.Blocks == nil || fn.Synthetic != "" || !strings.HasPrefix(shortName(fn), "proto.") {
			continue
		}
		res := fn.Signature.Results()
		if res.Len() != 3 || !isSliceType(res.At(0).Type()) || !isErrorType(res.At(2).Type()) {
			continue
		}
		if bt, ok := res.At(1).Type().Underlying().(*types.Basic); !ok || bt.Kind() != types.Int {
			continue
		}
		bp := bufParam(fn)
		if bp == nil {
			continue
		}
		k := 0
		for _, r := range returnsOf(fn) {
			if len(r.Results) != 3 || !isNilConst(r.Results[2]) {
				continue
			}
			sl, ok := r.Results[0].(*ssa.Slice)
			if !ok || sl.High == nil || !derivesFromValue(sl.X, bp) {
				continue
			}
			k++
			key := fmt.Sprintf("window-count:%s#%d", shortName(fn), k)
			if flattenConv(r.Results[1]).equal(flattenConv(sl.High)) {
				b.addP([]string{"C07", "C12"}, core.Discharged, key, c.InstrPos(r), "the consumed count equals the end of the window handed out")
			} else {
				b.addP([]string{"C07", "C12"}, core.Violation, key, c.InstrPos(r), fmt.Sprintf("%s hands out the window b[..:%s] but reports %s bytes consumed: the count must be where the window ends in the input (recomputing it from the value assumes the length prefix was minimally encoded, and a padded varint such as 83 00 desynchronises the decoder)", shortName(fn), describeValue(sl.High), describeValue(r.Results[1])))
			}
		}
	}

	// ---------------- decode-side accounting uses the counts of bytes actually read: the encoder's
	// size helpers (minimal encodings) never appear in a decode function
	{
		nDec, bad := 0, 0
		for _, fn := range c.RepoFunctions() {
			name := shortName(fn)
			if fn.Blocks == nil || !strings.HasPrefix(name, "proto.") {
				continue
			}
			low := strings.ToLower(name)
			if !(strings.Contains(low, "decode") || strings.HasSuffix(name, ".Parse") || strings.Contains(name, "Scan")) {
				continue
			}
			nDec++
			for _, ci := range callsIn(fn) {
				f := staticCallee(ci.Common())
				if f == nil || !strings.HasPrefix(f.Name(), "sizeOf") {
					continue
				}
				bad++
				b.addP([]string{"C07", "C12"}, core.Violation, fmt.Sprintf("decode-count-from-read:%s:%s", name, f.Name()), c.InstrPos(ci), fmt.Sprintf("%s computes how far to advance with %s, the size of the *minimal* encoding of a value, instead of the number of bytes it read: a field whose length prefix is a padded varint (83 00 for 3) is valid on the wire, and the decoder resumes in the middle of it", name, f.Name()))
			}
		}
		if bad == 0 {
			b.addP([]string{"C07", "C12"}, core.Discharged, "decode-count-from-read", "proto", fmt.Sprintf("%d decode-side functions, none calls an encoder-side sizeOf* helper", nDec))
		}
	}

	// ---------------- thrift element counts that bound a loop: negative counts are rejected
	for _, fn := range c.RepoFunctions() {
		if fn.Blocks == nil || !strings.HasPrefix(shortName(fn), "thrift.") || fn.Synthetic != "" {
			continue
		}
		name := shortName(fn)
		k := 0
		seenV := map[ssa.Value]bool{}
		for _, h := range loopHeaders(fn) {
			body := loopBlocks(h)
			for blk := range body {
				if len(blk.Instrs) == 0 {
					continue
				}
				ifi, ok := blk.Instrs[len(blk.Instrs)-1].(*ssa.If)
				if !ok {
					continue
				}
				bo, ok := ifi.Cond.(*ssa.BinOp)
				if !ok || bo.Op != token.LSS || !isLoopCond(bo) {
					continue
				}
				bound := bo.Y
				v := stripConv(bound)
				if bt, ok := v.Type().Underlying().(*types.Basic); !ok || bt.Kind() != types.Int32 || !wireSized(v) || seenV[v] {
					continue
				}
				seenV[v] = true
				k++
				key := fmt.Sprintf("count:%s:sign", name)
				if k > 1 {
					key = fmt.Sprintf("count:%s#%d:sign", name, k)
				}
				// the sign test must dominate the loop header
				if signedUnchecked(bound, h) && signedUnchecked(bound, blk) {
					b.addP([]string{"C08"}, core.Violation, key, c.InstrPos(ifi), fmt.Sprintf("%s loops over a signed 32-bit element count read from the wire with no dominating test that it is >= 0: a negative count is accepted as an empty container instead of being rejected", name))
				} else {
					b.addP([]string{"C08"}, core.Discharged, key, c.InstrPos(ifi), "element count tested >= 0 before the loop")
				}
			}
		}
	}

	// ---------------- thrift allocations
	for _, fn := range c.RepoFunctions() {
		if fn.Blocks == nil || !strings.HasPrefix(shortName(fn), "thrift.") || fn.Synthetic != "" {
			continue
		}
		name := shortName(fn)
		n := 0
		for _, blk := range fn.Blocks {
			for _, in := range blk.Instrs {
				var size ssa.Value
				what := ""
				switch x := in.(type) {
				case *ssa.MakeSlice:
					if _, isK := constInt(x.Len); !isK {
						size, what = x.Len, "make([]byte, n)"
					}
				case *ssa.Call:
					switch calleeName(x.Common()) {
					case "reflect.MakeSlice":
						size, what = x.Common().Args[1], "reflect.MakeSlice"
					case "reflect.MakeMapWithSize":
						size, what = x.Common().Args[1], "reflect.MakeMapWithSize"
					}
				}
				if size == nil || !wireSized(size) {
					continue
				}
				n++
				key := fmt.Sprintf("alloc:%s", name)
				if n > 1 {
					key = fmt.Sprintf("alloc:%s#%d", name, n)
				}
				// sign
				if signedUnchecked(size, blk) {
					b.addP([]string{"C08"}, core.Violation, key+":sign", c.InstrPos(in), fmt.Sprintf("%s sizes %s with a signed 32-bit count read from the wire and no dominating test that it is >= 0: a negative count panics (makeslice: len out of range) instead of returning an error", name, what))
				} else {
					b.addP([]string{"C08"}, core.Discharged, key+":sign", c.InstrPos(in), "size is non-negative by construction (unsigned varint / checked length) or by a dominating sign test")
				}
				// magnitude
				if boundedAlloc(size, blk) {
					b.addP([]string{"C08"}, core.Discharged, key+":bound", c.InstrPos(in), "allocation bounded by a constant or by the bytes available")
				} else {
					b.addP([]string{"C08"}, core.Violation, key+":bound", c.InstrPos(in), fmt.Sprintf("%s allocates %s sized by a wire integer bounded only by MaxInt32: a few bytes of input request gigabytes, far beyond a constant factor of the bytes available", name, what))
				}
			}
		}
	}
	// ---------------- the lengths that the allocations above take as non-negative by construction
	for _, fn := range c.RepoFunctions() {
		if fn.Blocks == nil || !strings.HasPrefix(shortName(fn), "thrift.") || fn.Synthetic != "" || fn.Name() != "ReadLength" {
			continue
		}
		key := "length:" + shortName(fn) + ":sign"
		bad := ""
		n := 0
		for _, r := range returnsOf(fn) {
			if len(r.Results) != 2 {
				continue
			}
			if k, isK := constInt(r.Results[0]); isK && k >= 0 {
				continue
			}
			n++
			for _, o := range origins(r.Results[0]) {
				v := stripConv(o)
				if k, isK := constInt(v); isK && k >= 0 {
					continue
				}
				bt, ok := v.Type().Underlying().(*types.Basic)
				if ok && bt.Info()&types.IsUnsigned != 0 {
					continue
				}
				if ok && bt.Kind() == types.Int32 && !signedUnchecked(o, r.Block()) {
					continue
				}
				if call, isCall := v.(*ssa.Call); isCall {
					if f := staticCallee(call.Common()); f != nil && f.Name() == "ReadLength" {
						continue // delegation to another ReadLength, itself checked
					}
				}
				if ex, isEx := v.(*ssa.Extract); isEx {
					if call, isCall := ex.Tuple.(*ssa.Call); isCall {
						if f := staticCallee(call.Common()); f != nil && (f.Name() == "ReadLength" || f.Name() == "readUvarint") {
							continue
						}
						if call.Common().IsInvoke() && call.Common().Method.Name() == "ReadLength" {
							continue // a wrapper around another Reader
						}
					}
				}
				bad = c.InstrPos(r)
			}
		}
		switch {
		case bad != "":
			b.addP([]string{"C08"}, core.Violation, key, bad, fmt.Sprintf("%s can return a negative length with a nil error (a signed wire integer converted without a sign test): ReadBytes, ReadString and every string or []byte decode size their buffer with it and panic (makeslice: len out of range) on a length prefix with the top bit set", shortName(fn)))
		case n == 0:
			b.addP([]string{"C08"}, core.Undecided, key, c.FuncPos(fn), "ReadLength has no value return")
		default:
			b.addP([]string{"C08"}, core.Discharged, key, c.FuncPos(fn), "the length is an unsigned quantity, or sign-tested, on every return")
		}
	}
	return b.out
}

// flattenConv flattens a sum, looking through integer conversions.
func flattenConv(v ssa.Value) sumTerms {
	st := sumTerms{terms: map[ssa.Value]int{}}
	var walk func(ssa.Value)
	walk = func(v ssa.Value) {
		if k, ok := constInt(v); ok {
			st.k += k
			return
		}
		switch x := v.(type) {
		case *ssa.BinOp:
			if x.Op == token.ADD {
				walk(x.X)
				walk(x.Y)
				return
			}
		case *ssa.Convert:
			walk(x.X)
			return
		}
		st.terms[v]++
	}
	walk(v)
	return st
}

func feedsPhi(from, to *ssa.Phi) bool {
	seen := map[*ssa.Phi]bool{}
	var walk func(p *ssa.Phi) bool
	walk = func(p *ssa.Phi) bool {
		if p == to {
			return true
		}
		if seen[p] {
			return false
		}
		seen[p] = true
		for _, ref := range *p.Referrers() {
			if q, ok := ref.(*ssa.Phi); ok && walk(q) {
				return true
			}
		}
		return false
	}
	return walk(from)
}

// wireSized: the size derives from a Reader call result (ReadList/ReadMap/ReadLength/ReadInt32/…)
// or from bytes just read.
func wireSized(v ssa.Value) bool {
	seen := map[ssa.Value]bool{}
	var walk func(ssa.Value) bool
	walk = func(x ssa.Value) bool {
		if x == nil || seen[x] {
			return false
		}
		seen[x] = true
		if call, ok := x.(*ssa.Call); ok {
			cc := call.Common()
			if cc.IsInvoke() {
				if strings.HasPrefix(cc.Method.Name(), "Read") {
					return true
				}
			} else {
				n := calleeName(cc)
				if strings.Contains(n, ").Read") || strings.Contains(n, ").read") || strings.HasSuffix(n, "bigEndian).Uint32") {
					return true
				}
			}
		}
		// loads of fields of a local struct: the values stored into that local
		if u, ok := x.(*ssa.UnOp); ok && u.Op == token.MUL {
			if al := rootLocal(u.X); al != nil {
				for _, sv := range cellStores(al) {
					if walk(sv) {
						return true
					}
				}
			}
		}
		if in, ok := x.(ssa.Instruction); ok {
			var ops []*ssa.Value
			for _, op := range in.Operands(ops) {
				if *op != nil && walk(*op) {
					return true
				}
			}
		}
		return false
	}
	return walk(v)
}

// signedUnchecked: the size is (a conversion of) a signed wire integer — an int32 field of a
// List/Set/Map header or a ReadInt32 result — with no dominating `< 0` test. Lengths obtained
// through ReadLength / readUvarint / a checked Uint32 are non-negative by construction.
func signedUnchecked(size ssa.Value, blk *ssa.BasicBlock) bool {
	v := stripConv(size)
	bt, ok := v.Type().Underlying().(*types.Basic)
	if !ok || bt.Kind() != types.Int32 {
		return false
	}
	for _, e := range dominatingEdges(blk) {
		bo, ok := e.ifi.Cond.(*ssa.BinOp)
		if !ok {
			continue
		}
		if z, isZ := constInt(bo.Y); isZ && z == 0 && sameSource(stripConv(bo.X), v) {
			if (bo.Op == token.LSS && e.succ == 1) || (bo.Op == token.GEQ && e.succ == 0) {
				return false
			}
		}
	}
	return true
}

// boundedAlloc: a dominating comparison of the size with a constant cap or with a length.
func boundedAlloc(size ssa.Value, blk *ssa.BasicBlock) bool {
	v := stripConv(size)
	for _, e := range dominatingEdges(blk) {
		bo, ok := e.ifi.Cond.(*ssa.BinOp)
		if !ok || !(sameSource(stripConv(bo.X), v) || sameSource(stripConv(bo.Y), v)) {
			continue
		}
		if bo.Op == token.GTR || bo.Op == token.LSS || bo.Op == token.GEQ || bo.Op == token.LEQ {
			other := bo.Y
			if sameSource(stripConv(bo.Y), v) {
				other = bo.X
			}
			if k, ok := constInt(other); ok && k > 0 && k <= 1<<24 {
				return true
			}
			if _, ok := lenArg(other); ok {
				return true
			}
		}
	}
	return false
}
