package rules

import (
	"fmt"
	"go/ast"
	"go/constant"
	"go/token"
	"go/types"
	"sort"

	"golang.org/x/tools/go/ssa"

	"verif/checker/core"
)

// protoCodec is one `codec{wire,size,encode,decode}` registration of package proto, found
// structurally: a composite literal of the named type codec, or assignments to the fields of a
// *codec variable inside one constructor.
type protoCodec struct {
	name    string // package-level variable name, or constructor function name
	wire    string // name of the wireType constant, "" when computed at run time
	wireVal int64
	wireDyn bool
	size    []*ssa.Function
	encode  []*ssa.Function
	decode  []*ssa.Function
	pos     token.Pos
}

func protoCodecs(c *core.Ctx) []*protoCodec {
	p := c.Pkg("proto")
	if p == nil {
		return nil
	}
	byName := map[string]*protoCodec{}
	get := func(name string, pos token.Pos) *protoCodec {
		pc := byName[name]
		if pc == nil {
			pc = &protoCodec{name: name, pos: pos, wireVal: -1}
			byName[name] = pc
		}
		return pc
	}
	setField := func(pc *protoCodec, field string, val ast.Expr) {
		switch field {
		case "wire":
			if cv, ok := constOfExpr(p, val); ok {
				if i, ok := constant.Int64Val(cv); ok {
					pc.wireVal = i
				}
				if id, ok := ast.Unparen(val).(*ast.Ident); ok {
					pc.wire = id.Name
				} else {
					pc.wire = fmt.Sprint(pc.wireVal)
				}
			} else {
				pc.wireDyn = true
			}
		case "size":
			pc.size = append(pc.size, funcsOfExpr(c, p, val)...)
		case "encode":
			pc.encode = append(pc.encode, funcsOfExpr(c, p, val)...)
		case "decode":
			pc.decode = append(pc.decode, funcsOfExpr(c, p, val)...)
		}
	}
	isCodec := func(t types.Type) bool { return t != nil && namedTypeIs(t, "proto", "codec") }

	for _, f := range p.Syntax {
		// package-level vars
		for _, d := range f.Decls {
			gd, ok := d.(*ast.GenDecl)
			if !ok || gd.Tok != token.VAR {
				continue
			}
			for _, s := range gd.Specs {
				vs := s.(*ast.ValueSpec)
				for i, v := range vs.Values {
					if cl, ok := v.(*ast.CompositeLit); ok && isCodec(p.TypesInfo.TypeOf(cl)) && i < len(vs.Names) {
						pc := get(vs.Names[i].Name, cl.Pos())
						for _, el := range cl.Elts {
							if kv, ok := el.(*ast.KeyValueExpr); ok {
								setField(pc, kv.Key.(*ast.Ident).Name, kv.Value)
							}
						}
					}
				}
			}
		}
		// constructors
		for _, d := range f.Decls {
			fd, ok := d.(*ast.FuncDecl)
			if !ok || fd.Body == nil {
				continue
			}
			nLit := 0
			ast.Inspect(fd.Body, func(n ast.Node) bool {
				switch x := n.(type) {
				case *ast.CompositeLit:
					if isCodec(p.TypesInfo.TypeOf(x)) {
						// a function may build more than one codec (the struct compiler also wraps
						// scalar codecs in pointer codecs): each literal is its own entry
						nLit++
						name := fd.Name.Name
						if nLit > 1 {
							name = fmt.Sprintf("%s#%d", fd.Name.Name, nLit)
						}
						pc := get(name, x.Pos())
						for _, el := range x.Elts {
							if kv, ok := el.(*ast.KeyValueExpr); ok {
								setField(pc, kv.Key.(*ast.Ident).Name, kv.Value)
							}
						}
					}
				case *ast.AssignStmt:
					for i, lhs := range x.Lhs {
						sel, ok := lhs.(*ast.SelectorExpr)
						if !ok || i >= len(x.Rhs) {
							continue
						}
						if !isCodec(p.TypesInfo.TypeOf(sel.X)) {
							continue
						}
						switch sel.Sel.Name {
						case "wire", "size", "encode", "decode":
							setField(get(fd.Name.Name, x.Pos()), sel.Sel.Name, x.Rhs[i])
						}
					}
				}
				return true
			})
		}
	}
	var out []*protoCodec
	for _, pc := range byName {
		out = append(out, pc)
	}
	sort.Slice(out, func(i, j int) bool { return out[i].name < out[j].name })
	return out
}

// protoFn looks up a package-level function of proto by name.
func protoFn(c *core.Ctx, name string) *ssa.Function { return c.Lookup("proto." + name) }
