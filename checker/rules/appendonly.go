package rules

import (
	"fmt"
	"go/token"
	"go/types"
	"sort"
	"strings"

	"golang.org/x/tools/go/ssa"

	"verif/checker/core"
)

// R-APPENDONLY — json encoders write the destination only by append, or at offsets derived from a
// len() snapshot of the destination plus non-negative terms; every shrinking reslice returns to
// such a snapshot (rollback).
func init() {
	Register(&Rule{
		ID:    "R-APPENDONLY",
		Doc:   "in every json encoder function (encoder methods, encodeFunc closures, Append and the append* helpers they pass the buffer to): the destination is written only by append / append-style callees, or by index/copy/Encode at an offset with lower bound len(dst)+k, k>=0; every reslice b[:k] has k >= a len(dst) snapshot",
		Props: []string{"C15", "C10", "C06", "C01", "C14"},
		Min:   map[string]int{"C15": 40},
		Run:   runAppendOnly,
	})
}

// appendOnlyExceptions: function|kind → reason.
var appendOnlyExceptions = map[string]string{
	"json.(encoder).encodeFloat|store":   "writes b[n-2] with n = len(b) after strconv.AppendFloat appended at least 4 bytes ending in e-0d (tested on b[n-4..n-2]): inside the bytes this call appended",
	"json.(encoder).encodeFloat|reslice": "drops the last byte of the exponent just appended by strconv.AppendFloat (n >= 4 tested)",
}

// appendStyleExternal: external functions that only append to their []byte argument.
var appendStyleExternal = map[string]bool{
	"strconv.AppendFloat": true, "strconv.AppendInt": true, "strconv.AppendUint": true, "strconv.AppendQuote": true,
	"(time.Time).AppendFormat": true, "unicode/utf8.AppendRune": true, "strconv.AppendBool": true,
}

type lb struct {
	base bool  // includes a len(dst) snapshot
	off  int64 // lower bound of the rest
	ok   bool
}

type aoFunc struct {
	fn  *ssa.Function
	dst *ssa.Parameter
	v   map[ssa.Value]bool // versions of the destination
}

func (a *aoFunc) versions() {
	a.v = map[ssa.Value]bool{a.dst: true}
	for changed := true; changed; {
		changed = false
		add := func(v ssa.Value) {
			if !a.v[v] {
				a.v[v] = true
				changed = true
			}
		}
		for _, blk := range a.fn.Blocks {
			for _, in := range blk.Instrs {
				switch x := in.(type) {
				case *ssa.Phi:
					for _, e := range x.Edges {
						if a.v[e] {
							add(x)
						}
					}
				case *ssa.Slice:
					if a.v[x.X] {
						add(x)
					}
				case *ssa.Call:
					isByteSlice := func(t types.Type) bool {
						s, ok := t.Underlying().(*types.Slice)
						if !ok {
							return false
						}
						b, ok := s.Elem().Underlying().(*types.Basic)
						return ok && b.Kind() == types.Uint8
					}
					passes := false
					for _, arg := range x.Common().Args {
						if a.v[arg] {
							passes = true
						}
					}
					if bi, ok := x.Common().Value.(*ssa.Builtin); ok {
						if bi.Name() == "append" && len(x.Common().Args) > 0 && a.v[x.Common().Args[0]] {
							add(x)
						}
						continue
					}
					if !passes {
						continue
					}
					if isByteSlice(x.Type()) {
						add(x)
					}
					if tup, ok := x.Type().(*types.Tuple); ok && tup.Len() > 0 && isByteSlice(tup.At(0).Type()) {
						for _, ref := range *x.Referrers() {
							if ex, ok := ref.(*ssa.Extract); ok && ex.Index == 0 {
								add(ex)
							}
						}
					}
				case *ssa.UnOp:
					// loads of a local cell holding the buffer (named results / captured)
					if vals, ok := localStored(x); ok {
						for _, s := range vals {
							if a.v[s] {
								add(x)
							}
						}
					}
				}
			}
		}
	}
}

func (a *aoFunc) lower(v ssa.Value, depth int) lb {
	if depth > 10 {
		return lb{}
	}
	switch x := v.(type) {
	case *ssa.Const:
		if k, ok := constInt(x); ok {
			return lb{false, k, true}
		}
	case *ssa.Call:
		if bi, ok := x.Common().Value.(*ssa.Builtin); ok {
			switch bi.Name() {
			case "len":
				if a.v[x.Common().Args[0]] {
					return lb{true, 0, true}
				}
				return lb{false, 0, true}
			case "copy", "cap":
				return lb{false, 0, true}
			}
			return lb{}
		}
		if n := calleeName(x.Common()); strings.HasSuffix(n, ".EncodedLen") || strings.HasSuffix(n, ".DecodedLen") {
			return lb{false, 0, true}
		}
	case *ssa.BinOp:
		l, r := a.lower(x.X, depth+1), a.lower(x.Y, depth+1)
		switch x.Op {
		case token.ADD:
			if l.ok && r.ok && !(l.base && r.base) {
				return lb{l.base || r.base, l.off + r.off, true}
			}
		case token.SUB:
			if k, ok := constInt(x.Y); ok && l.ok {
				return lb{l.base, l.off - k, true}
			}
		}
	case *ssa.Phi:
		res := lb{true, 1 << 40, true}
		for _, e := range x.Edges {
			if e == ssa.Value(x) {
				continue
			}
			l := a.lower(e, depth+1)
			if !l.ok {
				return lb{}
			}
			res.base = res.base && l.base
			if l.off < res.off {
				res.off = l.off
			}
		}
		return res
	case *ssa.Convert:
		return a.lower(x.X, depth+1)
	case *ssa.UnOp:
		if vals, ok := localStored(x); ok && len(vals) > 0 {
			res := lb{true, 1 << 40, true}
			for _, s := range vals {
				l := a.lower(s, depth+1)
				if !l.ok {
					return lb{}
				}
				res.base = res.base && l.base
				if l.off < res.off {
					res.off = l.off
				}
			}
			return res
		}
	}
	return lb{}
}

func runAppendOnly(c *core.Ctx) []core.Obligation {
	b := newOb(c, "R-APPENDONLY", "C15", "C10", "C14")
	jp := c.Pkg("json")
	if jp == nil {
		b.und("package", "-", "json not loaded")
		return b.out
	}
	encFuncT, _ := jp.Types.Scope().Lookup("encodeFunc").(*types.TypeName)
	// scope
	scope := map[*ssa.Function]*ssa.Parameter{}
	firstBytes := func(fn *ssa.Function) *ssa.Parameter { return bufParam(fn) }
	for _, fn := range c.RepoFunctions() {
		if !strings.HasPrefix(shortName(fn), "json.") || fn.Blocks == nil || fn.Synthetic != "" {
			continue
		}
		in := false
		if recv := fn.Signature.Recv(); recv != nil && namedTypeIs(recv.Type(), "json", "encoder") {
			in = true
		}
		if encFuncT != nil && types.Identical(fn.Signature, encFuncT.Type().Underlying()) {
			in = true
		}
		if fn.Name() == "Append" && fn.Parent() == nil && fn.Signature.Recv() == nil {
			in = true
		}
		if in && firstBytes(fn) != nil {
			scope[fn] = firstBytes(fn)
		}
	}
	// helpers receiving the buffer
	for changed := true; changed; {
		changed = false
		for fn, dst := range scope {
			a := &aoFunc{fn: fn, dst: dst}
			a.versions()
			for _, ci := range callsIn(fn) {
				callee := staticCallee(ci.Common())
				if callee == nil || !c.InRepo(callee) || callee.Blocks == nil || scope[callee] != nil {
					continue
				}
				if !strings.HasPrefix(shortName(callee), "json.") {
					continue
				}
				for i, arg := range ci.Common().Args {
					if a.v[arg] && i < len(callee.Params) {
						if _, isSlice := callee.Params[i].Type().Underlying().(*types.Slice); isSlice {
							// decoder methods validate, they do not write: only append-style helpers (returning []byte first)
							if res := callee.Signature.Results(); res.Len() > 0 {
								if _, ok := res.At(0).Type().Underlying().(*types.Slice); ok && callee.Signature.Recv() == nil {
									scope[callee] = callee.Params[i]
									changed = true
								}
							}
						}
					}
				}
			}
		}
	}
	var fns []*ssa.Function
	for fn := range scope {
		fns = append(fns, fn)
	}
	sort.Slice(fns, func(i, j int) bool { return shortName(fns[i]) < shortName(fns[j]) })

	for _, fn := range fns {
		a := &aoFunc{fn: fn, dst: scope[fn]}
		a.versions()
		name := shortName(fn)
		cnt := map[string]int{}
		mk := func(kind string) string {
			cnt[kind]++
			if cnt[kind] > 1 {
				return fmt.Sprintf("%s|%s#%d", name, kind, cnt[kind])
			}
			return name + "|" + kind
		}
		decide := func(kind string, at ssa.Instruction, off ssa.Value, what string) {
			key := mk(kind)
			l := a.lower(off, 0)
			if l.ok && l.base && l.off >= 0 {
				b.ok(key, c.InstrPos(at), fmt.Sprintf("%s at len(dst)+%d or beyond", what, l.off))
				return
			}
			if why, ok := appendOnlyExceptions[name+"|"+kind]; ok {
				// the exception holds only under the guard it was confirmed with: the bytes being
				// rewritten were just appended in exponent form, i.e. the site is dominated by the
				// true edge of a test `x == 'e'` on a value that is not read back from the buffer
				guarded := false
				for _, e := range dominatingEdges(at.Block()) {
					bo, isB := e.ifi.Cond.(*ssa.BinOp)
					if !isB || bo.Op != token.EQL || e.succ != 0 {
						continue
					}
					if k, isK := constInt(bo.Y); isK && k == 'e' {
						fromBuf := dependsOn(bo.X, func(v ssa.Value) bool {
							if ia, ok := v.(*ssa.IndexAddr); ok {
								return a.v[ia.X]
							}
							return false
						})
						if !fromBuf {
							guarded = true
						}
					}
				}
				if guarded {
					b.ok(key, c.InstrPos(at), "table: "+why)
				} else {
					b.bad(key, c.InstrPos(at), fmt.Sprintf("%s: %s below len(dst) is only sound for bytes this call appended in exponent form, but the site is no longer guarded by the format test (fmt == 'e'): a caller's prefix ending in \"e-0\" is rewritten", name, what))
				}
				return
			}
			switch {
			case !l.ok:
				b.bad(key, c.InstrPos(at), fmt.Sprintf("%s: %s at an offset (%s) that is not derived from a len(dst) snapshot: bytes below the entry length of the destination may be overwritten or dropped", name, what, exprString(off)))
			case !l.base:
				b.bad(key, c.InstrPos(at), fmt.Sprintf("%s: %s at an absolute offset (>= %d) unrelated to the destination's entry length: the caller's prefix is overwritten or dropped", name, what, l.off))
			default:
				b.bad(key, c.InstrPos(at), fmt.Sprintf("%s: %s at len(dst)%+d, below a length snapshot of the destination", name, what, l.off))
			}
		}
		any := false
		for _, blk := range fn.Blocks {
			for _, in := range blk.Instrs {
				switch x := in.(type) {
				case *ssa.Store:
					if ia, ok := x.Addr.(*ssa.IndexAddr); ok && a.v[ia.X] {
						any = true
						decide("store", x, ia.Index, "index store")
					}
				case *ssa.Slice:
					if !a.v[x.X] {
						continue
					}
					if x.High != nil {
						any = true
						decide("reslice", x, x.High, "reslice b[:k]")
					}
				case *ssa.Call:
					cc := x.Common()
					if bi, ok := cc.Value.(*ssa.Builtin); ok {
						if bi.Name() == "copy" && a.v[cc.Args[0]] {
							any = true
							// dst of copy is a version: a Slice with a low bound, or the whole buffer
							if sl, ok := cc.Args[0].(*ssa.Slice); ok && sl.Low != nil {
								decide("copy", x, sl.Low, "copy into dst[lo:]")
							} else {
								b.bad(mk("copy"), c.InstrPos(x), name+": copy into the destination from offset 0 overwrites the caller's prefix")
							}
						}
						continue
					}
					passes := -1
					for i, arg := range cc.Args {
						if a.v[arg] {
							passes = i
						}
					}
					if passes < 0 {
						continue
					}
					cn := calleeName(cc)
					callee := staticCallee(cc)
					switch {
					case callee == nil:
						// dynamic: encodeFunc values and interface methods — covered when they are json encoders
					case c.InRepo(callee):
						// checked in its own right when it is in scope; decoder/parse functions do not write (R-INPUTRO)
					case appendStyleExternal[cn]:
					case strings.HasSuffix(cn, ".Encode") && strings.Contains(cn, "base64"):
						any = true
						if sl, ok := cc.Args[passes].(*ssa.Slice); ok && sl.Low != nil {
							decide("extwrite", x, sl.Low, "base64 Encode into dst[lo:hi]")
						} else {
							b.bad(mk("extwrite"), c.InstrPos(x), name+": external writer receives the destination from offset 0")
						}
					case cn == "sort.Sort" || cn == "reflect.ValueOf" || cn == "unsafe.Pointer":
					default:
						if _, isSlice := cc.Args[passes].Type().Underlying().(*types.Slice); isSlice {
							b.und(mk("extcall"), c.InstrPos(x), fmt.Sprintf("%s passes the destination to %s, which is not a known append-style function", name, cn))
						}
					}
				}
			}
		}
		// growth by reslicing: b[:len(b)+E] needs E bytes of spare capacity ensured by a test on
		// cap(b)-len(b) against the same E
		for _, blk := range fn.Blocks {
			for _, in := range blk.Instrs {
				sl, ok := in.(*ssa.Slice)
				if !ok || !a.v[sl.X] || sl.High == nil {
					continue
				}
				grow, ok := growthAmount(sl.High, sl.X)
				if !ok {
					// a bound above the length of an older version of the destination (i+5 with
					// i := len(b) taken before this call appended): the slice is in range only if
					// the current version is known to be that long — a test made after the slice
					// expression comes too late, and the capacity may stop short of the bound
					st := flattenSum(sl.High)
					older := false
					for t := range st.terms {
						if la, isLen := lenArg(t); isLen && a.v[la] && la != sl.X {
							older = true
						}
					}
					if !older || st.k <= 0 || len(st.terms) != 1 {
						continue
					}
					proven := false
					for _, e := range dominatingEdges(blk) {
						bo, isBO := e.ifi.Cond.(*ssa.BinOp)
						if !isBO {
							continue
						}
						la, isLen := lenArg(bo.X)
						if !isLen || la != sl.X {
							continue
						}
						if flattenSum(bo.Y).String() != st.String() {
							continue
						}
						if (bo.Op == token.GEQ && e.succ == 0) || (bo.Op == token.EQL && e.succ == 0) || (bo.Op == token.LSS && e.succ == 1) {
							proven = true
						}
					}
					any = true
					if proven {
						b.ok(mk("slice-above-snapshot"), c.InstrPos(sl), "the destination is known to be at least that long")
					} else {
						b.addP([]string{"C15", "C06", "C01"}, core.Violation, mk("slice-above-snapshot"), c.InstrPos(sl), fmt.Sprintf("%s slices the destination up to %s — a bound above a length taken before this call appended — without a dominating test that the destination is that long: when fewer bytes were appended the expression reaches into the spare capacity, and panics (slice bounds out of range) when the capacity stops short of it", name, st.String()))
					}
					continue
				}
				any = true
				key := mk("grow")
				ensured := capacityEnsured(fn, sl.X, a)
				same := false
				for _, e := range ensured {
					if e.equal(grow) {
						same = true
					}
				}
				switch {
				case len(ensured) == 0:
					b.addP([]string{"C15", "C06", "C01"}, core.Violation, key, c.InstrPos(sl), fmt.Sprintf("%s extends the destination to len+(%s) by reslicing without ensuring spare capacity: panics (slice bounds out of range) when cap(dst)-len(dst) is smaller", name, grow))
				case !same:
					var es []string
					for _, e := range ensured {
						es = append(es, e.String())
					}
					b.addP([]string{"C15", "C06", "C01"}, core.Violation, key, c.InstrPos(sl), fmt.Sprintf("%s extends the destination by %s bytes but the capacity test only ensures %v: for spare capacities in between, the reslice panics", name, grow, es))
				default:
					b.ok(key, c.InstrPos(sl), "growth by "+grow.String()+" bytes after a capacity test on the same amount")
				}
			}
		}
		// the destination is never swapped for another buffer that lacks its bytes: where a φ
		// merges a version of the destination with something else (a fresh make), the prefix must
		// have been copied into it
		for _, blk := range fn.Blocks {
			for _, in := range blk.Instrs {
				phi, ok := in.(*ssa.Phi)
				if !ok || !a.v[phi] || !isSliceType(phi.Type()) {
					continue
				}
				for _, e := range phi.Edges {
					if a.v[e] || isNilConst(e) {
						continue
					}
					copied := false
					for _, ci := range callsIn(fn) {
						bi, isB := ci.Common().Value.(*ssa.Builtin)
						if !isB || bi.Name() != "copy" || len(ci.Common().Args) != 2 {
							continue
						}
						dstArg, srcArg := ci.Common().Args[0], ci.Common().Args[1]
						root := func(v ssa.Value) ssa.Value {
							for {
								sl, ok := v.(*ssa.Slice)
								if !ok {
									return v
								}
								v = sl.X
							}
						}
						// the new buffer must be sized from the destination: one sized from the
						// value alone truncates a longer prefix in the copy
						sizedFromDst := true
						if ms, isMake := root(e).(*ssa.MakeSlice); isMake {
							sizedFromDst = false
							// copy() moves min(len(new), len(src)) bytes: the new buffer's length (not
							// its capacity) is what must cover the source, and the source as it is
							// when copied — a length taken before the last append leaves that byte
							// behind
							for _, sz := range []ssa.Value{ms.Len} {
								if sz != nil && dependsOn(sz, func(x ssa.Value) bool {
									call, ok := x.(*ssa.Call)
									if !ok {
										return false
									}
									bi, isB := call.Common().Value.(*ssa.Builtin)
									return isB && (bi.Name() == "len" || bi.Name() == "cap") && len(call.Common().Args) == 1 && call.Common().Args[0] == srcArg
								}) {
									sizedFromDst = true
								}
							}
						}
						if root(dstArg) == root(e) && a.v[srcArg] && sizedFromDst {
							copied = true
						}
					}
					if !copied {
						any = true
						b.bad(mk("replace"), c.InstrPos(phi), fmt.Sprintf("%s continues with %s in place of the destination on some path, without copying the destination's bytes into it (or copying them into a buffer whose size does not derive from the destination's length: a longer prefix is cut): everything the caller had in b[:len(b)] comes back as zero bytes (only when the path is taken — a full buffer, a size threshold)", name, describeValue(e)))
					}
				}
			}
		}
		// every return hands back the destination (a version of it), never nil or another slice
		for _, r := range returnsOf(fn) {
			if len(r.Results) == 0 || !isSliceType(r.Results[0].Type()) {
				continue
			}
			// … from its first byte: a re-slice that moves the low bound (b[start:]) hands back the
			// bytes written by this call in place of the caller's prefix
			if sl, isS := r.Results[0].(*ssa.Slice); isS && a.v[sl.X] && sl.Low != nil {
				if k, isK := constInt(sl.Low); !isK || k != 0 {
					any = true
					b.bad(mk("return-suffix"), c.InstrPos(r), fmt.Sprintf("%s returns the destination re-sliced from a non-zero low bound (%s): the slice no longer begins with the caller's bytes — the enclosing encoders re-slice what they get back, so the prefix is replaced by this call's partial output or the re-slice is out of range", name, describeValue(r.Results[0])))
					continue
				}
			}
			if !a.v[r.Results[0]] {
				any = true
				if prm, isP := r.Results[0].(*ssa.Parameter); isP && strings.HasPrefix(name, "json.") {
					// another parameter handed back as the result: memory the function was lent
					// (a RawMessage, a Marshaler's output) becomes the encoder's buffer
					b.addP([]string{"C15", "C10"}, core.Violation, mk("return"), c.InstrPos(r), fmt.Sprintf("%s returns its parameter %s instead of the destination: the caller's prefix is lost, and memory the function was only lent (a RawMessage, the output of a MarshalJSON) becomes the buffer the encoder goes on appending to, returns from Append and recycles through its pool", name, prm.Name()))
					continue
				}
				b.bad(mk("return"), c.InstrPos(r), fmt.Sprintf("%s returns %s instead of the destination: the caller's prefix is lost (on the error path Append must still return a slice that begins with b's bytes)", name, describeValue(r.Results[0])))
			}
		}
		if !any {
			b.ok(name+"|append-only", c.FuncPos(fn), "destination written only through append and append-style callees; every return hands back the destination")
		}
	}
	return b.out
}

// sumTerms flattens a tree of additions into its non-constant terms and the constant sum.
type sumTerms struct {
	terms map[ssa.Value]int
	k     int64
}

func flattenSum(v ssa.Value) sumTerms {
	st := sumTerms{terms: map[ssa.Value]int{}}
	var walk func(ssa.Value)
	walk = func(v ssa.Value) {
		if k, ok := constInt(v); ok {
			st.k += k
			return
		}
		if bo, ok := v.(*ssa.BinOp); ok && bo.Op == token.ADD {
			walk(bo.X)
			walk(bo.Y)
			return
		}
		st.terms[v]++
	}
	walk(v)
	return st
}

func (a sumTerms) equal(b sumTerms) bool {
	if a.k != b.k || len(a.terms) != len(b.terms) {
		return false
	}
	for t, n := range a.terms {
		if b.terms[t] != n {
			return false
		}
	}
	return true
}

func (a sumTerms) String() string {
	var parts []string
	for t, n := range a.terms {
		for i := 0; i < n; i++ {
			parts = append(parts, exprString(t))
		}
	}
	sort.Strings(parts)
	if a.k != 0 || len(parts) == 0 {
		parts = append(parts, fmt.Sprint(a.k))
	}
	return strings.Join(parts, "+")
}

// growthAmount: high = len(x) + E for the very slice x being resliced; returns E as a sum.
func growthAmount(high ssa.Value, x ssa.Value) (sumTerms, bool) {
	st := flattenSum(high)
	for t := range st.terms {
		if isLenOf(t, x) {
			st.terms[t]--
			if st.terms[t] == 0 {
				delete(st.terms, t)
			}
			return st, true
		}
	}
	return st, false
}

// capacityEnsured: amounts E' such that the function tests cap(b)-len(b) < E' (directly or through
// a local holding the difference) and reallocates on that branch.
func capacityEnsured(fn *ssa.Function, x ssa.Value, a *aoFunc) []sumTerms {
	var out []sumTerms
	isAvail := func(v ssa.Value) bool {
		sub, ok := v.(*ssa.BinOp)
		if !ok || sub.Op != token.SUB {
			return false
		}
		capc, ok1 := sub.X.(*ssa.Call)
		lenc, ok2 := sub.Y.(*ssa.Call)
		if !ok1 || !ok2 {
			return false
		}
		b1, ok1 := capc.Common().Value.(*ssa.Builtin)
		b2, ok2 := lenc.Common().Value.(*ssa.Builtin)
		return ok1 && ok2 && b1.Name() == "cap" && b2.Name() == "len" && a.v[capc.Common().Args[0]] && a.v[lenc.Common().Args[0]]
	}
	for _, blk := range fn.Blocks {
		if n := len(blk.Instrs); n > 0 {
			if ifi, ok := blk.Instrs[n-1].(*ssa.If); ok {
				if bo, ok := ifi.Cond.(*ssa.BinOp); ok {
					switch {
					case bo.Op == token.LSS && isAvail(bo.X):
						out = append(out, flattenSum(bo.Y))
					case bo.Op == token.GTR && isAvail(bo.Y):
						out = append(out, flattenSum(bo.X))
					}
				}
			}
		}
	}
	return out
}
