package rules

import (
	"fmt"
	"go/constant"
	"go/token"
	"go/types"
	"os"
	"sort"
	"strings"

	"golang.org/x/tools/go/ssa"

	"verif/checker/core"
)

// R-ISOGRAMMAR — iso8601.Valid is a loop-free sequential recogniser built from two token readers.
// Enumerating every path of its control-flow graph (forking on the outcome of each reader call, on
// each flag test and on the end-of-input tests) yields, for each of the 32 flag sets, the finite
// set of sentence forms it accepts; that set must equal the one generated from the grammar
// YYYY-MM-DD[(T|space)hh:mm:ss[.d{1,9}][Z|[space](+|-)hh[:]mm]] with each optional part under its flag.
// R-ISOINDEX — every index/slice of the input in package iso8601 is within bounds by the
// dominating length tests (interval reasoning).
func init() {
	Register(&Rule{
		ID:    "R-ISOGRAMMAR",
		Doc:   "path enumeration of iso8601.Valid's loop-free CFG (forking on reader outcomes, flag tests and end tests; each reader must be applied to the current remainder): the set of accepted sentence forms per flag set (32 sets) equals the set generated from the documented grammar; the two token readers consume exactly a fixed byte / min..max digits",
		Props: []string{"C18"},
		Min:   map[string]int{"C18": 33},
		Run:   runIsoGrammar,
	})
	Register(&Rule{
		ID:    "R-ISOINDEX",
		Doc:   "every index and slice expression on the input in package iso8601 is in range by interval reasoning over the dominating length tests (i < len(x) for variable indices; constant indices and slice bounds below the proven minimum length)",
		Props: []string{"C18"},
		Min:   map[string]int{"C18": 6},
		Run:   runIsoIndex,
	})
}

type isoState struct {
	blk     *ssa.BasicBlock
	pc      int
	from    *ssa.BasicBlock
	toks    []string
	flags   map[uint64]bool // flag bit -> assumed value
	outcome map[*ssa.Call]bool
	cur     ssa.Value       // current remainder
	atEnd   int             // 0 unknown, 1 at end, 2 not at end
	failed  map[string]bool // bytes that failed to match at the current position
	stale   bool
}

func (s *isoState) clone() *isoState {
	n := *s
	n.toks = append([]string(nil), s.toks...)
	n.flags = map[uint64]bool{}
	for k, v := range s.flags {
		n.flags[k] = v
	}
	n.outcome = map[*ssa.Call]bool{}
	for k, v := range s.outcome {
		n.outcome[k] = v
	}
	n.failed = map[string]bool{}
	for k, v := range s.failed {
		n.failed[k] = v
	}
	return &n
}

// resolvePhi follows φ along the path (we know the predecessor we came from).
func resolveOnPath(v ssa.Value, blk, from *ssa.BasicBlock) ssa.Value {
	for i := 0; i < 4; i++ {
		phi, ok := v.(*ssa.Phi)
		if !ok || phi.Block() != blk || from == nil {
			return v
		}
		for j, p := range blk.Preds {
			if p == from {
				v = phi.Edges[j]
			}
		}
	}
	return v
}

func runIsoGrammar(c *core.Ctx) []core.Obligation {
	b := newOb(c, "R-ISOGRAMMAR", "C18")
	fn := c.Lookup("iso8601.Valid")
	readDigits := c.Lookup("iso8601.readDigits")
	readByte := c.Lookup("iso8601.readByte")
	if fn == nil || readDigits == nil || readByte == nil {
		b.und("anchors", "-", "iso8601.Valid / readDigits / readByte not found")
		return b.out
	}
	if hasBackEdge(fn) {
		b.und("shape", c.FuncPos(fn), "iso8601.Valid has a loop: the path enumeration does not apply")
		return b.out
	}
	ip := c.Pkg("iso8601")
	flagNames := []string{"AllowSpaceSeparator", "AllowMissingTime", "AllowMissingSubsecond", "AllowMissingTimezone", "AllowNumericTimezone"}
	flagBit := map[string]uint64{}
	for _, n := range flagNames {
		k, _ := ip.Types.Scope().Lookup(n).(*types.Const)
		if k == nil {
			b.und("flags", c.FuncPos(fn), "flag constant "+n+" not found")
			return b.out
		}
		v, _ := constantUint(k)
		flagBit[n] = v
	}
	var valueParam, flagsParam *ssa.Parameter
	for _, p := range fn.Params {
		if isStringType(p.Type()) {
			valueParam = p
		} else {
			flagsParam = p
		}
	}
	if valueParam == nil || flagsParam == nil {
		b.und("shape", c.FuncPos(fn), "Valid(value string, flags) parameters not recognised")
		return b.out
	}

	// accepted[form] = list of flag assumptions under which a path accepts it
	type accept struct {
		form  string
		flags map[uint64]bool
	}
	var accepts []accept
	var problems []string
	steps := 0

	var run func(st *isoState)
	run = func(st *isoState) {
		steps++
		if steps > 400000 {
			return
		}
		blk := st.blk
		if st.pc == 0 && st.from != nil {
			// the remainder may be renamed by a φ at the join
			for _, in := range blk.Instrs {
				phi, ok := in.(*ssa.Phi)
				if !ok {
					break
				}
				if isStringType(phi.Type()) && resolveOnPath(phi, blk, st.from) == st.cur {
					st.cur = phi
					break
				}
			}
		}
		for idx := st.pc; idx < len(blk.Instrs); idx++ {
			in := blk.Instrs[idx]
			switch x := in.(type) {
			case *ssa.Call:
				callee := staticCallee(x.Common())
				if callee != readDigits && callee != readByte {
					continue
				}
				arg := resolveOnPath(x.Common().Args[0], blk, st.from)
				if arg != resolveOnPath(st.cur, blk, st.from) && arg != st.cur {
					st.stale = true
					if os.Getenv("VCHECK_DEBUG") != "" {
						fmt.Println("stale at", c.InstrPos(x), "arg", arg, "cur", st.cur, "from", st.from, "blk", blk)
					}
				}
				// fork on the outcome
				ok := st.clone()
				ok.outcome[x] = true
				fail := st
				fail.outcome[x] = false
				feasible := st.atEnd != 1
				tok := ""
				if callee == readByte {
					k, isK := constInt(x.Common().Args[1])
					if !isK {
						problems = append(problems, "readByte with a non-constant byte at "+c.InstrPos(x))
						return
					}
					tok = fmt.Sprintf("%q", rune(k))
					if st.failed[tok] {
						feasible = false
					}
					fail.failed[tok] = true
				} else {
					mn, ok1 := constInt(x.Common().Args[1])
					mx, ok2 := constInt(x.Common().Args[2])
					if !ok1 || !ok2 {
						problems = append(problems, "readDigits with non-constant bounds at "+c.InstrPos(x))
						return
					}
					if mn == mx {
						tok = fmt.Sprintf("D%d", mn)
					} else {
						tok = fmt.Sprintf("D%d-%d", mn, mx)
					}
					fail.failed["digit"] = true
				}
				if feasible {
					ok.toks = append(ok.toks, tok)
					ok.failed = map[string]bool{}
					ok.atEnd = 0
					// the remainder is the call's first result
					for _, ref := range *x.Referrers() {
						if ex, isEx := ref.(*ssa.Extract); isEx && ex.Index == 0 {
							ok.cur = ex
						}
					}
					// the ok branch continues after the call
					ok.pc = idx + 1
					run(ok)
				}
				// failing branch: the remainder returned equals the argument
				for _, ref := range *x.Referrers() {
					if ex, isEx := ref.(*ssa.Extract); isEx && ex.Index == 0 {
						fail.cur = ex
					}
				}
				continue
			}
		}
		// terminator
		last := blk.Instrs[len(blk.Instrs)-1]
		switch t := last.(type) {
		case *ssa.Return:
			res := resolveOnPath(t.Results[0], blk, st.from)
			acc := func(s *isoState) {
				if s.stale {
					problems = append(problems, "a token reader is applied to a stale remainder (not the value returned by the previous reader)")
				}
				accepts = append(accepts, accept{strings.Join(s.toks, " "), s.flags})
			}
			switch v := res.(type) {
			case *ssa.Const:
				if v.Value != nil && constant.BoolVal(v.Value) {
					// `return true` is only reached on paths that tested the end of input
					acc(st)
				}
			case *ssa.BinOp:
				// return len(value) == 0
				if la, ok := lenArg(v.X); ok && v.Op == token.EQL {
					if z, ok := constInt(v.Y); ok && z == 0 {
						if r := resolveOnPath(la, blk, st.from); r != st.cur && r != resolveOnPath(st.cur, blk, st.from) {
							st.stale = true
						}
						if st.atEnd != 2 {
							acc(st)
						}
						return
					}
				}
				problems = append(problems, "unrecognised return expression at "+c.InstrPos(t))
			default:
				problems = append(problems, "unrecognised return value at "+c.InstrPos(t))
			}
			return
		case *ssa.Jump:
			n := st
			n.from, n.blk, n.pc = blk, blk.Succs[0], 0
			run(n)
			return
		case *ssa.If:
			cond := t.Cond
			goBranch := func(s *isoState, taken bool) {
				i := 1
				if taken {
					i = 0
				}
				s.from, s.blk, s.pc = blk, blk.Succs[i], 0
				run(s)
			}
			// outcome of a reader
			if ex, ok := resolveOnPath(cond, blk, st.from).(*ssa.Extract); ok && ex.Index == 1 {
				if call, ok := ex.Tuple.(*ssa.Call); ok {
					if out, known := st.outcome[call]; known {
						goBranch(st, out)
						return
					}
				}
			}
			if bo, ok := cond.(*ssa.BinOp); ok {
				// flag test
				if and, ok := bo.X.(*ssa.BinOp); ok && and.Op == token.AND && and.X == ssa.Value(flagsParam) {
					if k, ok := constUint(and.Y); ok {
						if z, ok := constUint(bo.Y); ok && z == 0 && (bo.Op == token.EQL || bo.Op == token.NEQ) {
							for _, val := range []bool{true, false} {
								if cur, known := st.flags[k]; known && cur != val {
									continue
								}
								s := st.clone()
								s.flags[k] = val
								goBranch(s, val == (bo.Op == token.NEQ))
							}
							return
						}
					}
				}
				// end test
				if la, ok := lenArg(bo.X); ok && (bo.Op == token.EQL || bo.Op == token.NEQ) {
					if z, ok := constInt(bo.Y); ok && z == 0 {
						if r := resolveOnPath(la, blk, st.from); r != st.cur && r != resolveOnPath(st.cur, blk, st.from) {
							st.stale = true
						}
						for _, end := range []bool{true, false} {
							if (st.atEnd == 1 && !end) || (st.atEnd == 2 && end) {
								continue
							}
							s := st.clone()
							if end {
								s.atEnd = 1
							} else {
								s.atEnd = 2
							}
							goBranch(s, end == (bo.Op == token.EQL))
						}
						return
					}
				}
			}
			problems = append(problems, "unrecognised branch condition at "+c.InstrPos(t))
			return
		}
	}
	init0 := &isoState{blk: fn.Blocks[0], flags: map[uint64]bool{}, outcome: map[*ssa.Call]bool{}, cur: valueParam, failed: map[string]bool{}}
	run(init0)

	if len(problems) > 0 {
		sort.Strings(problems)
		b.und("extraction", c.FuncPos(fn), "cannot extract the grammar of Valid: "+problems[0])
		return b.out
	}
	if steps > 400000 {
		b.und("extraction", c.FuncPos(fn), "path enumeration exceeded its budget")
		return b.out
	}

	// per flag set
	bitsOf := func(fs int) map[string]bool {
		m := map[string]bool{}
		for i, n := range flagNames {
			m[n] = fs&(1<<i) != 0
		}
		return m
	}
	for fs := 0; fs < 32; fs++ {
		on := bitsOf(fs)
		got := map[string]bool{}
		for _, a := range accepts {
			okA := true
			for bit, val := range a.flags {
				for n, bb := range flagBit {
					if bb == bit && on[n] != val {
						okA = false
					}
				}
			}
			if okA {
				got[a.form] = true
			}
		}
		want := isoSpecForms(on)
		var extra, missing []string
		for f := range got {
			if !want[f] {
				extra = append(extra, f)
			}
		}
		for f := range want {
			if !got[f] {
				missing = append(missing, f)
			}
		}
		sort.Strings(extra)
		sort.Strings(missing)
		var names []string
		for _, n := range flagNames {
			if on[n] {
				names = append(names, n)
			}
		}
		label := strings.Join(names, "|")
		if label == "" {
			label = "Strict"
		}
		key := fmt.Sprintf("grammar:flags=%02d", fs)
		if len(extra)+len(missing) == 0 {
			b.ok(key, c.FuncPos(fn), fmt.Sprintf("%s: %d sentence forms, equal to the grammar", label, len(got)))
		} else {
			show := func(l []string) []string {
				if len(l) > 3 {
					return append(l[:3:3], fmt.Sprintf("… (%d)", len(l)))
				}
				return l
			}
			b.bad(key, c.FuncPos(fn), fmt.Sprintf("with %s, Valid accepts forms outside the grammar %v and rejects grammatical forms %v", label, show(extra), show(missing)))
		}
	}

	// token readers
	readerShape(c, b, readByte, readDigits)
	return b.out
}

func isoSpecForms(on map[string]bool) map[string]bool {
	out := map[string]bool{}
	q := func(r rune) string { return fmt.Sprintf("%q", r) }
	date := strings.Join([]string{"D4", q('-'), "D2", q('-'), "D2"}, " ")
	if on["AllowMissingTime"] {
		out[date] = true
	}
	seps := []string{q('T')}
	if on["AllowSpaceSeparator"] {
		seps = append(seps, q(' '))
	}
	for _, sep := range seps {
		base := strings.Join([]string{date, sep, "D2", q(':'), "D2", q(':'), "D2"}, " ")
		fracs := []string{" " + q('.') + " D1-9"}
		if on["AllowMissingSubsecond"] {
			fracs = append(fracs, "")
		}
		for _, fr := range fracs {
			b2 := base + fr
			if on["AllowMissingTimezone"] {
				out[b2] = true
			}
			out[b2+" "+q('Z')] = true
			sps := []string{""}
			if on["AllowSpaceSeparator"] {
				sps = append(sps, " "+q(' '))
			}
			for _, sp := range sps {
				for _, sign := range []rune{'+', '-'} {
					out[b2+sp+" "+q(sign)+" D2 "+q(':')+" D2"] = true
					if on["AllowNumericTimezone"] {
						out[b2+sp+" "+q(sign)+" D2 D2"] = true
					}
				}
			}
		}
	}
	return out
}

// readerShape: readByte consumes exactly one byte equal to its argument; readDigits consumes
// between min and max digits and returns the input unchanged on failure.
func readerShape(c *core.Ctx, b *ob, readByte, readDigits *ssa.Function) {
	// readByte: success return is value[1:], dominated by value[0] == c (false edge of !=) and len != 0
	{
		key := "reader:readByte"
		good, unchangedOnFail := false, true
		for _, r := range returnsOf(readByte) {
			ok, isK := r.Results[1].(*ssa.Const)
			if !isK {
				unchangedOnFail = false
				continue
			}
			if constant.BoolVal(ok.Value) {
				sl, isSl := r.Results[0].(*ssa.Slice)
				if isSl && sl.X == ssa.Value(readByte.Params[0]) && sl.High == nil {
					if k, ok := constInt(sl.Low); ok && k == 1 {
						eq := false
						for _, e := range dominatingEdges(r.Block()) {
							if bo, ok := e.ifi.Cond.(*ssa.BinOp); ok {
								kx, okx := byteKeyOf(bo.X)
								if okx && kx.x == ssa.Value(readByte.Params[0]) && bo.Y == ssa.Value(readByte.Params[1]) {
									if k0, ok := constInt(kx.idx); ok && k0 == 0 && ((bo.Op == token.NEQ && e.succ == 1) || (bo.Op == token.EQL && e.succ == 0)) {
										eq = true
									}
								}
							}
						}
						good = eq
					}
				}
			} else if r.Results[0] != ssa.Value(readByte.Params[0]) {
				unchangedOnFail = false
			}
		}
		if good && unchangedOnFail {
			b.ok(key, c.FuncPos(readByte), "consumes exactly one byte, only when it equals the expected byte; input unchanged on failure")
		} else {
			b.bad(key, c.FuncPos(readByte), "readByte no longer consumes exactly value[0] == c → value[1:] (or changes the input on failure): the grammar extracted from Valid does not describe its behaviour")
		}
	}
	// readDigits: loop advances while i < max && i < len && isDigit(value[i]); fails iff i < min
	{
		key := "reader:readDigits"
		fn := readDigits
		var conds []string
		for _, blk := range fn.Blocks {
			if n := len(blk.Instrs); n > 0 {
				if ifi, ok := blk.Instrs[n-1].(*ssa.If); ok {
					conds = append(conds, valueSig(ifi.Cond, 0))
				}
			}
		}
		sort.Strings(conds)
		hasDigit, hasMax, hasMin := false, false, false
		for _, s := range conds {
			if strings.Contains(s, "isDigit(") {
				hasDigit = true
			}
		}
		// structural: the loop counter is compared with max (continue) and with min (failure)
		for _, blk := range fn.Blocks {
			if n := len(blk.Instrs); n > 0 {
				if ifi, ok := blk.Instrs[n-1].(*ssa.If); ok {
					if bo, ok := ifi.Cond.(*ssa.BinOp); ok && bo.Op == token.LSS {
						if bo.Y == ssa.Value(fn.Params[2]) {
							hasMax = true
						}
						if bo.Y == ssa.Value(fn.Params[1]) {
							hasMin = true
						}
					}
				}
			}
		}
		okRet := true
		for _, r := range returnsOf(fn) {
			if k, isK := r.Results[1].(*ssa.Const); isK && !constant.BoolVal(k.Value) && r.Results[0] != ssa.Value(fn.Params[0]) {
				okRet = false
			}
		}
		if hasDigit && hasMax && hasMin && okRet {
			b.ok(key, c.FuncPos(fn), "advances over digits (isDigit) up to max, fails below min, input unchanged on failure")
		} else {
			b.bad(key, c.FuncPos(fn), fmt.Sprintf("readDigits no longer has the shape 'advance while i < max && isDigit(value[i]); fail if i < min' (digit test %v, max test %v, min test %v, unchanged on failure %v)", hasDigit, hasMax, hasMin, okRet))
		}
	}
}

// ---------------------------------------------------------------------------------------------

func runIsoIndex(c *core.Ctx) []core.Obligation {
	b := newOb(c, "R-ISOINDEX", "C18")
	for _, fn := range c.RepoFunctions() {
		if !strings.HasPrefix(shortName(fn), "iso8601.") || fn.Blocks == nil {
			continue
		}
		name := shortName(fn)
		// inputs: string / []byte parameters and byte views of them
		inputs := map[ssa.Value]bool{}
		for _, p := range fn.Params {
			if isStringType(p.Type()) || isByteSliceType(p.Type()) {
				inputs[p] = true
			}
		}
		for _, ci := range callsIn(fn) {
			if call, ok := ci.(*ssa.Call); ok && isByteSliceType(call.Type()) {
				for _, a := range call.Common().Args {
					if inputs[a] {
						inputs[call] = true
					}
				}
			}
		}
		if len(inputs) == 0 {
			continue
		}
		minLen := func(x ssa.Value, blk *ssa.BasicBlock) int64 {
			lo, _, excl := lenInterval(x, blk)
			m := int64(0)
			if lo != nil {
				m = lo.Int64()
			}
			for excl[m] {
				m++
			}
			return m
		}
		varBounded := func(i ssa.Value, x ssa.Value, blk *ssa.BasicBlock, strict bool) bool {
			// i < len(x) on a dominating edge
			for _, e := range dominatingEdges(blk) {
				bo, ok := e.ifi.Cond.(*ssa.BinOp)
				if !ok {
					continue
				}
				if bo.Op == token.LSS && bo.X == i && e.succ == 0 {
					if la, ok := lenArg(bo.Y); ok && la == x {
						return true
					}
				}
			}
			if strict {
				return false
			}
			// slice bound: i <= len(x) when i is a counter incremented only under i < len(x)
			phi, ok := i.(*ssa.Phi)
			if !ok {
				return false
			}
			for _, e := range phi.Edges {
				if k, ok := constInt(e); ok && k == 0 {
					continue
				}
				add, ok := e.(*ssa.BinOp)
				if !ok || add.Op != token.ADD || add.X != ssa.Value(phi) {
					return false
				}
				if k, ok := constInt(add.Y); !ok || k != 1 {
					return false
				}
				guarded := false
				for _, de := range dominatingEdges(add.Block()) {
					if bo, ok := de.ifi.Cond.(*ssa.BinOp); ok && bo.Op == token.LSS && bo.X == ssa.Value(phi) && de.succ == 0 {
						if la, ok := lenArg(bo.Y); ok && la == x {
							guarded = true
						}
					}
				}
				if !guarded {
					return false
				}
			}
			return true
		}
		n := 0
		decide := func(at ssa.Instruction, x ssa.Value, idx ssa.Value, isSliceBound bool, what string) {
			n++
			key := fmt.Sprintf("index:%s#%d", name, n)
			blk := at.Block()
			m := minLen(x, blk)
			good := false
			why := ""
			if k, ok := constInt(idx); ok {
				if isSliceBound {
					good = k <= m
				} else {
					good = k < m
				}
				why = fmt.Sprintf("constant %d with len >= %d", k, m)
			} else if sub, ok := idx.(*ssa.BinOp); ok && sub.Op == token.SUB {
				la, isLen := lenArg(sub.X)
				k, isK := constInt(sub.Y)
				if isLen && la == x && isK {
					good = m >= k
					why = fmt.Sprintf("len-%d with len >= %d", k, m)
				}
			} else {
				good = varBounded(idx, x, blk, !isSliceBound)
				why = "variable index under i < len(x)"
			}
			if good {
				b.ok(key, c.InstrPos(at), what+": "+why)
			} else {
				b.bad(key, c.InstrPos(at), fmt.Sprintf("%s: %s %s is not proven within the input's length by the dominating tests (len >= %d here): Valid/Parse can panic on a short input", name, what, exprString(idx), m))
			}
		}
		for _, blk := range fn.Blocks {
			for _, in := range blk.Instrs {
				switch x := in.(type) {
				case *ssa.Index:
					if inputs[x.X] {
						decide(x, x.X, x.Index, false, "index")
					}
				case *ssa.IndexAddr:
					if inputs[x.X] {
						decide(x, x.X, x.Index, false, "index")
					}
				case *ssa.Slice:
					if !inputs[x.X] {
						continue
					}
					if x.Low != nil {
						decide(x, x.X, x.Low, true, "slice low bound")
					}
					if x.High != nil {
						decide(x, x.X, x.High, true, "slice high bound")
					}
				case *ssa.Call:
					need := int64(0)
					switch calleeName(x.Common()) {
					case "(encoding/binary.littleEndian).Uint64", "(encoding/binary.bigEndian).Uint64":
						need = 8
					case "(encoding/binary.littleEndian).Uint32", "(encoding/binary.bigEndian).Uint32":
						need = 4
					}
					if need == 0 || len(x.Common().Args) < 2 {
						continue
					}
					arg := x.Common().Args[1]
					base, lowK := arg, int64(0)
					if sl, ok := arg.(*ssa.Slice); ok {
						base = sl.X
						if sl.Low != nil {
							lowK, _ = constInt(sl.Low)
						}
						if sl.High != nil {
							if hk, ok := constInt(sl.High); ok && hk-lowK >= need {
								continue // the slice expression itself is checked above
							}
						}
					}
					if !inputs[base] {
						continue
					}
					n++
					key := fmt.Sprintf("index:%s#%d", name, n)
					if m := minLen(base, blk); m >= lowK+need {
						b.ok(key, c.InstrPos(x), fmt.Sprintf("%d-byte load with len >= %d", need, m))
					} else {
						b.bad(key, c.InstrPos(x), fmt.Sprintf("%s: %d-byte load at offset %d with only len >= %d proven", name, need, lowK, m))
					}
				}
			}
		}
	}
	return b.out
}
