package rules

import (
	"fmt"
	"go/token"
	"strings"

	"golang.org/x/tools/go/ssa"

	"verif/checker/core"
)

// R-WIRESIB — every proto codec registered with a constant wire type sizes, emits and consumes
// through the primitive of that wire type, and returns the primitive's own byte count.
func init() {
	Register(&Rule{
		ID:    "R-WIRESIB",
		Doc:   "each proto codec{wire: W} sizes/encodes/decodes through W's primitive (varint: decodeVarint, fixed32: decodeLE32, fixed64: decodeLE64, varlen: decodeVarlen/window) and returns that primitive's byte count; tag shift/mask constants agree (3, 7)",
		Props: []string{"C03", "C07", "C12", "C19"},
		Min:   map[string]int{"C03": 20, "C07": 12, "C12": 20},
		Run:   runWireSib,
	})
}

const protoPath = core.ModPath + "/proto."

var wirePrims = map[int64]struct {
	name           string
	dec, enc, size map[string]bool
	sizeConst      int64
}{
	0: {"varint", map[string]bool{"decodeVarint": true, "decodeVarintZigZag": true}, map[string]bool{"encodeVarint": true, "encodeVarintZigZag": true}, map[string]bool{"sizeOfVarint": true, "sizeOfVarintZigZag": true}, -1},
	5: {"fixed32", map[string]bool{"decodeLE32": true}, map[string]bool{"encodeLE32": true}, nil, 4},
	1: {"fixed64", map[string]bool{"decodeLE64": true}, map[string]bool{"encodeLE64": true}, nil, 8},
	2: {"varlen", map[string]bool{"decodeVarlen": true}, nil, nil, -1},
}

// countLeaves returns the leaves of the arithmetic backward slice of v.
func countLeaves(v ssa.Value) []ssa.Value {
	var leaves []ssa.Value
	sliceBack(v, func(x ssa.Value) bool {
		if throughArith(x) {
			return true
		}
		return false
	}, func(x ssa.Value) { leaves = append(leaves, x) })
	return leaves
}

func protoCalleeShort(v ssa.Value) (name string, idx int, ok bool) {
	idx = 0
	if e, isE := v.(*ssa.Extract); isE {
		idx = e.Index
		v = e.Tuple
	}
	call, isC := v.(*ssa.Call)
	if !isC {
		return "", 0, false
	}
	n := calleeName(call.Common())
	if strings.HasPrefix(n, protoPath) {
		return strings.TrimPrefix(n, protoPath), idx, true
	}
	return n, idx, n != ""
}

func runWireSib(c *core.Ctx) []core.Obligation {
	b := newOb(c, "R-WIRESIB", "C03", "C07", "C12")
	dec := newOb(c, "R-WIRESIB", "C03", "C07", "C12")
	_ = dec
	for _, pc := range protoCodecs(c) {
		if pc.wireDyn && pc.wireVal < 0 {
			b.info("codec:"+pc.name+":wire", c.PosOf(pc.pos), "wire type is copied from the element codec at construction; nothing to compare")
			continue
		}
		prim, ok := wirePrims[pc.wireVal]
		if !ok {
			b.bad("codec:"+pc.name+":wire", c.PosOf(pc.pos), fmt.Sprintf("wire constant %d is not a protobuf wire type handled by the decoder", pc.wireVal))
			continue
		}
		if len(pc.decode) == 0 || len(pc.encode) == 0 || len(pc.size) == 0 {
			b.und("codec:"+pc.name, c.PosOf(pc.pos), "cannot resolve the size/encode/decode functions stored in this codec")
			continue
		}
		// ---- decode
		for _, fn := range pc.decode {
			key := "codec:" + pc.name + ":decode"
			var bads []string
			found := false
			if pc.wireVal == 2 {
				// varlen: a leaf codec reads its length prefix with decodeVarlen; a composite
				// (message, map entry) is windowed by its caller and delegates to child decoders.
				for _, ci := range callsIn(fn) {
					if call, ok := ci.(*ssa.Call); ok && isDynamicCallResult(call) {
						found = true
					}
				}
			}
			for _, r := range returnsOf(fn) {
				if len(r.Results) < 1 || pc.wireVal == 2 {
					continue
				}
				for _, leaf := range countLeaves(r.Results[0]) {
					if k, ok := constInt(leaf); ok {
						if k != 0 {
							bads = append(bads, fmt.Sprintf("%s returns the constant count %d", c.InstrPos(r), k))
						}
						continue
					}
					name, idx, isCall := protoCalleeShort(leaf)
					switch {
					case isCall && prim.dec[name] && idx >= 1:
						found = true
					default:
						bads = append(bads, fmt.Sprintf("%s: count derives from %s, not from %s's byte count", c.InstrPos(r), describeValue(leaf), strings.Join(sortedKeys(prim.dec), "/")))
					}
				}
			}
			if !found {
				// varlen codecs of user messages consume len(b) at top level; they must still call decodeVarlen when nested
				for _, ci := range callsIn(fn) {
					if n := strings.TrimPrefix(calleeName(ci.Common()), protoPath); prim.dec[n] {
						found = true
					}
				}
				if !found {
					bads = append(bads, "never calls "+strings.Join(sortedKeys(prim.dec), "/"))
				}
			}
			if len(bads) > 0 {
				b.bad(key, c.FuncPos(fn), fmt.Sprintf("codec registered with wire %s, but %s does not consume a %s: %s", prim.name, shortName(fn), prim.name, strings.Join(bads, "; ")))
			} else {
				b.ok(key, c.FuncPos(fn), fmt.Sprintf("%s consumes through %s and returns its count", shortName(fn), strings.Join(sortedKeys(prim.dec), "/")))
			}
		}
		// ---- encode (scalars only: varint / fixed)
		if prim.enc != nil {
			for _, fn := range pc.encode {
				key := "codec:" + pc.name + ":encode"
				var bads []string
				for _, r := range returnsOf(fn) {
					for _, leaf := range countLeaves(r.Results[0]) {
						if k, ok := constInt(leaf); ok {
							if k == 0 || (k == 1 && pc.wireVal == 0) {
								continue // nothing emitted, or a one-byte varint written directly
							}
							bads = append(bads, fmt.Sprintf("%s returns the constant count %d", c.InstrPos(r), k))
							continue
						}
						name, idx, isCall := protoCalleeShort(leaf)
						if !(isCall && prim.enc[name] && idx == 0) {
							bads = append(bads, fmt.Sprintf("%s: count derives from %s, not from %s", c.InstrPos(r), describeValue(leaf), strings.Join(sortedKeys(prim.enc), "/")))
						}
					}
				}
				if len(bads) > 0 {
					b.bad(key, c.FuncPos(fn), fmt.Sprintf("codec registered with wire %s, but %s does not emit a %s: %s", prim.name, shortName(fn), prim.name, strings.Join(bads, "; ")))
				} else {
					b.ok(key, c.FuncPos(fn), fmt.Sprintf("%s emits through %s", shortName(fn), strings.Join(sortedKeys(prim.enc), "/")))
				}
			}
			for _, fn := range pc.size {
				key := "codec:" + pc.name + ":size"
				var bads []string
				for _, r := range returnsOf(fn) {
					for _, leaf := range countLeaves(r.Results[0]) {
						if k, ok := constInt(leaf); ok {
							if k == 0 || k == prim.sizeConst || (k == 1 && pc.wireVal == 0) {
								continue
							}
							bads = append(bads, fmt.Sprintf("%s returns the constant size %d", c.InstrPos(r), k))
							continue
						}
						name, _, isCall := protoCalleeShort(leaf)
						if !(isCall && prim.size[name]) {
							bads = append(bads, fmt.Sprintf("%s: size derives from %s", c.InstrPos(r), describeValue(leaf)))
						}
					}
				}
				if len(bads) > 0 {
					b.bad(key, c.FuncPos(fn), fmt.Sprintf("codec registered with wire %s, but %s is not the size of a %s: %s", prim.name, shortName(fn), prim.name, strings.Join(bads, "; ")))
				} else {
					b.ok(key, c.FuncPos(fn), fmt.Sprintf("%s is the size of a %s", shortName(fn), prim.name))
				}
			}
		}
	}

	// ---- tag arithmetic constants
	shifts := map[int64][]string{}
	masks := map[int64][]string{}
	for _, name := range []string{"EncodeTag", "encodeTag", "DecodeTag", "decodeTag", "sizeOfTag"} {
		fn := protoFn(c, name)
		if fn == nil {
			b.und("tag-constants:"+name, "-", "function proto."+name+" not found")
			continue
		}
		n := 0
		for _, blk := range fn.Blocks {
			for _, in := range blk.Instrs {
				bo, ok := in.(*ssa.BinOp)
				if !ok {
					continue
				}
				if k, ok := constInt(bo.Y); ok {
					switch bo.Op {
					case token.SHL, token.SHR:
						shifts[k] = append(shifts[k], name)
						n++
					case token.AND:
						masks[k] = append(masks[k], name)
						n++
					}
				}
			}
		}
		if n == 0 {
			b.und("tag-constants:"+name, c.FuncPos(fn), "no shift/mask found in the tag arithmetic")
		}
	}
	if len(shifts) == 1 && len(shifts[3]) > 0 && len(masks) == 1 && len(masks[7]) > 0 {
		b.ok("tag-constants", c.FuncPos(protoFn(c, "encodeTag")), fmt.Sprintf("tag = number<<3 | type&7 in %v and %v", shifts[3], masks[7]))
	} else {
		b.addP([]string{"C03", "C07", "C12", "C19"}, core.Violation, "tag-constants", c.FuncPos(protoFn(c, "encodeTag")), fmt.Sprintf("tag arithmetic disagrees with number<<3|wiretype: shifts %v masks %v", shifts, masks))
	}
	return b.out
}

func isDynamicCallResult(v ssa.Value) bool {
	if e, ok := v.(*ssa.Extract); ok {
		v = e.Tuple
	}
	call, ok := v.(*ssa.Call)
	if !ok || call.Common().IsInvoke() {
		return false
	}
	if _, isB := call.Common().Value.(*ssa.Builtin); isB {
		return false
	}
	return staticCallee(call.Common()) == nil
}

func describeValue(v ssa.Value) string {
	switch x := v.(type) {
	case *ssa.Const:
		return "constant " + x.String()
	case *ssa.Parameter:
		return "parameter " + x.Name()
	case *ssa.Extract:
		return fmt.Sprintf("result #%d of %s", x.Index, describeValue(x.Tuple))
	case *ssa.Call:
		n := calleeName(x.Common())
		if n == "" {
			n = "a dynamic call " + x.Common().Value.Name()
		}
		return "call " + n
	case *ssa.FreeVar:
		return "captured " + x.Name()
	}
	return v.Name() + " (" + strings.TrimPrefix(fmt.Sprintf("%T", v), "*ssa.") + ")"
}
