package rules

import (
	"fmt"
	"go/types"
	"sort"
	"strings"

	"golang.org/x/tools/go/ssa"

	"verif/checker/core"
)

// R-RESETALL — a Reset method re-initialises every field. "A Reset tokenizer behaves like a new
// one" holds only if no field survives the Reset: the exported results (Delim, Value, Err, Depth,
// Index, IsKey) and the private cursor state (isKey: "the next value is a key", json, stack,
// decoder). A field left out carries the previous document's state into the next one — invisible
// after a complete document, which leaves most of them at their initial value, and wrong after an
// abandoned or failed one.
func init() {
	Register(&Rule{
		ID:    "R-RESETALL",
		Doc:   "for every Reset method of a repository struct (json.Tokenizer, thrift.Encoder, thrift.Decoder): each field of the receiver's struct type is stored on every path through the method (a store through the receiver's field address, or a store of a whole struct value over the receiver); fields that deliberately survive a Reset are listed with the reason",
		Props: []string{"C17", "C04", "C10"},
		Min:   map[string]int{"C17": 1, "C04": 2},
		Run:   runResetAll,
	})
}

// resetSurvivors: type.field -> why the field keeps its value across Reset.
var resetSurvivors = map[string]string{}

func runResetAll(c *core.Ctx) []core.Obligation {
	b := newOb(c, "R-RESETALL")
	fns := c.RepoFunctions()
	sort.Slice(fns, func(i, j int) bool { return shortName(fns[i]) < shortName(fns[j]) })
	n := 0
	for _, fn := range fns {
		if fn.Blocks == nil || fn.Name() != "Reset" || fn.Signature.Recv() == nil || fn.Synthetic != "" {
			continue
		}
		if fn.Pkg == nil || strings.Contains(fn.Pkg.Pkg.Path(), "fixtures") {
			continue
		}
		pt, ok := fn.Signature.Recv().Type().(*types.Pointer)
		if !ok {
			continue
		}
		st, ok := pt.Elem().Underlying().(*types.Struct)
		if !ok {
			continue
		}
		n++
		name := shortName(fn)
		key := "resetall:" + name
		props := []string{"C04"}
		if fn.Pkg.Pkg.Name() == "json" {
			props = []string{"C17", "C10"} // what Reset leaves behind includes pooled memory it released
		}
		recv := fn.Params[0]
		// fields stored in blocks that every path to a return goes through: keep it simple and
		// sound — a store counts if its block dominates every return block
		var rets []*ssa.BasicBlock
		for _, r := range returnsOf(fn) {
			rets = append(rets, r.Block())
		}
		stored := map[int]bool{}
		whole := false
		for _, blk := range fn.Blocks {
			domAll := true
			for _, rb := range rets {
				if !(blk == rb || blk.Dominates(rb)) {
					domAll = false
				}
			}
			if !domAll {
				continue
			}
			for _, in := range blk.Instrs {
				s, isStore := in.(*ssa.Store)
				if !isStore {
					continue
				}
				if s.Addr == ssa.Value(recv) {
					whole = true
				}
				if fa, isFA := s.Addr.(*ssa.FieldAddr); isFA && fa.X == ssa.Value(recv) {
					stored[fa.Field] = true
				}
			}
		}
		var missing []string
		typeName := typeShort(pt.Elem())
		for i := 0; i < st.NumFields(); i++ {
			if whole || stored[i] {
				continue
			}
			f := st.Field(i).Name()
			if _, ok := resetSurvivors[typeName+"."+f]; ok {
				continue
			}
			missing = append(missing, f)
		}
		if len(missing) > 0 {
			b.addP(props, core.Violation, key, c.FuncPos(fn), fmt.Sprintf("%s does not re-initialise field(s) %v of %s: their value from the previous use survives the Reset, so a reused object does not behave like a new one (after an abandoned or failed document the next one is read in the old state)", name, missing, typeName))
		} else {
			b.addP(props, core.Discharged, key, c.FuncPos(fn), fmt.Sprintf("all %d fields of %s are assigned on every path", st.NumFields(), typeName))
		}
	}
	if n == 0 {
		b.addP([]string{"C17", "C04"}, core.Undecided, "resetall:-", "-", "no Reset method found")
	}
	return b.out
}
