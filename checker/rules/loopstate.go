package rules

import (
	"fmt"
	"sort"
	"strings"

	"golang.org/x/tools/go/ssa"

	"verif/checker/core"
)

// loopCarriedConditional lists, per function, the source-level variables that carry a value from
// one loop iteration to the next and are only conditionally reassigned in the body (the header φ
// reaches its own back edge unchanged along some path).
func loopCarriedConditional(fn *ssa.Function) []string {
	var out []string
	for _, h := range loopHeaders(fn) {
		body := loopBlocks(h)
		for _, in := range h.Instrs {
			phi, ok := in.(*ssa.Phi)
			if !ok {
				break
			}
			// does a back-edge input lead back to phi through φs inside the loop only?
			selfCarried := false
			for i, p := range h.Preds {
				if !h.Dominates(p) {
					continue
				}
				seen := map[ssa.Value]bool{}
				var walk func(v ssa.Value) bool
				walk = func(v ssa.Value) bool {
					if v == ssa.Value(phi) {
						return true
					}
					if seen[v] {
						return false
					}
					seen[v] = true
					if q, ok := v.(*ssa.Phi); ok && body[q.Block()] {
						for _, e := range q.Edges {
							if walk(e) {
								return true
							}
						}
					}
					return false
				}
				if walk(phi.Edges[i]) {
					selfCarried = true
				}
			}
			if !selfCarried {
				continue
			}
			// used by something other than φs
			used := false
			chain := map[*ssa.Phi]bool{}
			var fwd func(q *ssa.Phi)
			fwd = func(q *ssa.Phi) {
				if chain[q] {
					return
				}
				chain[q] = true
				for _, ref := range *q.Referrers() {
					if r, isPhi := ref.(*ssa.Phi); isPhi {
						if body[r.Block()] {
							fwd(r)
						}
					} else if in, ok := ref.(ssa.Instruction); ok && body[in.Block()] {
						used = true
					}
				}
			}
			fwd(phi)
			name := phi.Comment
			if name == "" {
				name = "?"
			}
			if used {
				out = append(out, name)
			}
		}
	}
	sort.Strings(out)
	return out
}

// loopStateConfirmed: the loop-carried, conditionally updated variables that were read and
// confirmed to be meant to survive from one iteration to the next.
var loopStateConfirmed = map[string]map[string]string{
	"json.(decoder).decodeFromStringToInt": {"u": "digits with leading zeroes removed, built up across the loop"},
	"json.(encoder).encodeString":          {"b": "output buffer", "i": "start of the not yet flushed segment"},
	"json.(encoder).encodeStruct":          {"b": "output buffer", "n": "number of members written so far (decides the comma)"},
	"json.appendCompact":                   {"dst": "output buffer", "escape": "backslash state of the scanner", "inString": "string state of the scanner", "start": "start of the not yet flushed segment"},
	"json.appendStructFields":              {"embedded": "embedded fields collected so far, promoted after the loop"},
	"json.appendToLower":                   {"b": "output buffer", "i": "start of the not yet copied segment"},
	"json.fmtFrac":                         {"w": "write position, moves right to left"},
	"json.foldRune":                        {"lower": "smallest lower-case rune seen so far in the case orbit", "min": "smallest rune seen so far in the case orbit"},
	"proto.(MessageRewriter).Rewrite":      {"out": "output buffer", "seen": "bitset of the template fields already emitted"},
	"proto.parseRewriteTemplateStruct":     {"message": "rewriters collected so far", "rewriters": "rewriters collected so far"},
	"proto.structCodecOf":                  {"fields": "fields collected so far", "number": "implicit field number: advances once per exported field"},
	"proto.structDecodeFuncOf":             {"maxFieldNumber": "running maximum"},
	"proto.structEncodeFuncOf$1":           {"flags": "wantzero is dropped once a field has been written", "offset": "write position"},
	"proto.structSizeFuncOf$1":             {"flags": "wantzero is dropped once a field has a size", "n": "running size"},
	"proto.structTypeOf":                   {"fieldNumber": "implicit field number counter", "taggedFields": "count of tagged fields"},
	"thrift.(*structEncoder).encode":       {"lastFieldID": "base of the compact id delta: id of the field written last", "numFields": "count of union members written"},
	"thrift.decodeFuncStructOf":            {"maxID": "running maximum", "minID": "running minimum"},
}

func init() {
	Register(&Rule{
		ID:    "R-LOOPSTATE",
		Doc:   "the set of variables that carry a value from one loop iteration to the next while being only conditionally reassigned in the body (SSA: a loop-header φ that reaches its own back edge unchanged and is read by a non-φ instruction) equals the table confirmed by reading; a variable hoisted out of a loop, or a reset dropped from the top of the body, shows up as a new entry: an iteration that does not assign it inherits the previous iteration's value",
		Props: []string{"C01", "C03", "C04", "C12", "C13", "C19"},
		Min:   map[string]int{"C01": 5, "C03": 5, "C04": 2, "C12": 5, "C13": 1, "C19": 2},
		Run:   runLoopState,
	})
}

func runLoopState(c *core.Ctx) []core.Obligation {
	b := newOb(c, "R-LOOPSTATE")
	propsOf := func(name string) []string {
		switch {
		case strings.HasPrefix(name, "json.(decoder)") || strings.HasPrefix(name, "json.(*Decoder)") || strings.HasPrefix(name, "json.(*Tokenizer)"):
			return []string{"C01"}
		case strings.HasPrefix(name, "json."):
			return []string{"C01"}
		case strings.HasPrefix(name, "proto.") && strings.Contains(name, "ewrite"):
			return []string{"C19"}
		case strings.HasPrefix(name, "proto."):
			return []string{"C03", "C12"}
		case strings.HasPrefix(name, "thrift.") && strings.Contains(name, "ncode"):
			return []string{"C04", "C13"}
		case strings.HasPrefix(name, "thrift."):
			return []string{"C04"}
		}
		return nil
	}
	seenFn := map[string]bool{}
	for _, fn := range c.RepoFunctions() {
		if fn.Blocks == nil || fn.Synthetic != "" {
			continue
		}
		name := shortName(fn)
		props := propsOf(name)
		if props == nil {
			continue
		}
		vs := loopCarriedConditional(fn)
		if len(vs) == 0 {
			continue
		}
		seenFn[name] = true
		done := map[string]bool{}
		for _, v := range vs {
			if done[v] {
				continue
			}
			done[v] = true
			key := "loopstate:" + name + ":" + v
			if why, ok := loopStateConfirmed[name][v]; ok {
				b.addP(props, core.Discharged, key, c.FuncPos(fn), "carried across iterations on purpose: "+why)
			} else {
				b.addP(props, core.Violation, key, c.FuncPos(fn), fmt.Sprintf("%s: variable %q keeps its value from the previous loop iteration whenever the current iteration does not assign it, and it is not one of the variables confirmed to be carried on purpose: a per-iteration selection (a rule, a scratch slice, a flag) hoisted out of the loop, or a reset dropped from the top of the body, makes one element inherit what was chosen for the previous one", name, v))
			}
		}
	}
	return b.out
}

// R-APPENDSHARE — append(base, …) inside a loop with a loop-invariant base hands out, on every
// iteration, a slice that may share base's backing array with the slices of the other iterations
// (whenever cap(base) > len(base)). If the result is retained (stored in a descriptor, passed to a
// callback, recursed on), it must be clamped with a full slice expression x[:len(x):len(x)] — or
// base must be — so that a later append copies instead of overwriting a sibling's elements.
func init() {
	Register(&Rule{
		ID:    "R-APPENDSHARE",
		Doc:   "every append whose first argument is loop-invariant inside a loop (not the accumulator idiom x = append(x, …)) and whose result escapes the iteration (stored, passed to a call) is followed by a full slice expression with max = len before it escapes, or its base is such an expression: otherwise the retained slices of different iterations alias each other's elements",
		Props: []string{"C04", "C03", "C01", "C02", "C13", "C08"},
		Min:   map[string]int{"C04": 1},
		Run:   runAppendShare,
	})
}

func runAppendShare(c *core.Ctx) []core.Obligation {
	b := newOb(c, "R-APPENDSHARE")
	for _, fn := range c.RepoFunctions() {
		if fn.Blocks == nil || fn.Synthetic != "" {
			continue
		}
		name := shortName(fn)
		var props []string
		switch {
		case strings.HasPrefix(name, "thrift."):
			props = []string{"C04", "C13", "C08"}
		case strings.HasPrefix(name, "proto."):
			props = []string{"C03"}
		case strings.HasPrefix(name, "json.(decoder)") || strings.HasPrefix(name, "json.(*Decoder)"):
			props = []string{"C02"}
		case strings.HasPrefix(name, "json."):
			props = []string{"C01"}
		default:
			continue
		}
		n := 0
		for _, h := range loopHeaders(fn) {
			body := loopBlocks(h)
			for blk := range body {
				for _, in := range blk.Instrs {
					call, ok := in.(*ssa.Call)
					if !ok {
						continue
					}
					bi, ok := call.Common().Value.(*ssa.Builtin)
					if !ok || bi.Name() != "append" || len(call.Common().Args) != 2 {
						continue
					}
					base := call.Common().Args[0]
					if bin, ok := base.(ssa.Instruction); ok && bin.Block() != nil && body[bin.Block()] {
						continue // defined in the loop: accumulator or per-iteration value
					}
					if k, isK := base.(*ssa.Const); isK && k.Value == nil {
						continue // append(nil, …) allocates
					}
					if sl, ok := base.(*ssa.Slice); ok && sl.Max != nil {
						continue // base already clamped
					}
					// does the result escape without a clamp?
					escapes, clamped := false, false
					var walk func(v ssa.Value, depth int)
					seen := map[ssa.Value]bool{}
					walk = func(v ssa.Value, depth int) {
						if seen[v] || depth > 4 {
							return
						}
						seen[v] = true
						for _, ref := range *v.Referrers() {
							switch r := ref.(type) {
							case *ssa.Slice:
								if r.Max != nil {
									clamped = true
								} else {
									walk(r, depth+1)
								}
							case *ssa.Phi:
								walk(r, depth+1)
							case *ssa.Store:
								if r.Val == v {
									escapes = true
								}
							case *ssa.Call:
								if _, isB := r.Common().Value.(*ssa.Builtin); !isB {
									escapes = true
								}
							case *ssa.MakeClosure, *ssa.Return:
								escapes = true
							}
						}
					}
					walk(call, 0)
					if !escapes && !clamped {
						continue
					}
					n++
					key := fmt.Sprintf("appendshare:%s#%d", name, n)
					if clamped && !escapes {
						b.addP(props, core.Discharged, key, c.InstrPos(call), "the appended slice is clamped (x[:len(x):len(x)]) before it is retained")
					} else {
						b.addP(props, core.Violation, key, c.InstrPos(call), fmt.Sprintf("%s appends to the same loop-invariant base on every iteration and retains the result without clamping its capacity: once the base has spare capacity the retained slices share one backing array, and the next append overwrites a sibling's elements (every field of the next embedded struct ends up with the last sibling's index path)", name))
					}
				}
			}
		}
	}
	return b.out
}
