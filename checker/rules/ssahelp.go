package rules

import (
	"go/ast"
	"go/constant"
	"go/token"
	"go/types"
	"sort"
	"strings"

	"golang.org/x/tools/go/packages"
	"golang.org/x/tools/go/ssa"

	"verif/checker/core"
)

// ---- generic SSA helpers -------------------------------------------------------------------

func constInt(v ssa.Value) (int64, bool) {
	c, ok := v.(*ssa.Const)
	if !ok || c.Value == nil {
		return 0, false
	}
	if c.Value.Kind() != constant.Int {
		return 0, false
	}
	if i, ok := constant.Int64Val(c.Value); ok {
		return i, true
	}
	if u, ok := constant.Uint64Val(c.Value); ok {
		return int64(u), true
	}
	return 0, false
}

func constUint(v ssa.Value) (uint64, bool) {
	c, ok := v.(*ssa.Const)
	if !ok || c.Value == nil || c.Value.Kind() != constant.Int {
		return 0, false
	}
	if u, ok := constant.Uint64Val(c.Value); ok {
		return u, true
	}
	if i, ok := constant.Int64Val(c.Value); ok {
		return uint64(i), true
	}
	return 0, false
}

func isNilConst(v ssa.Value) bool {
	c, ok := v.(*ssa.Const)
	return ok && c.Value == nil
}

// stripConv removes value-preserving wrappers: ChangeType, Convert between integer types,
// MakeInterface is NOT stripped.
func stripConv(v ssa.Value) ssa.Value {
	for {
		switch x := v.(type) {
		case *ssa.ChangeType:
			v = x.X
		case *ssa.Convert:
			v = x.X
		default:
			return v
		}
	}
}

// callCommon returns the CallCommon of a call-like instruction (Call, Go, Defer).
func callCommon(in ssa.Instruction) *ssa.CallCommon {
	if ci, ok := in.(ssa.CallInstruction); ok {
		return ci.Common()
	}
	return nil
}

// staticCallee resolves the callee of a call when it is statically known: direct calls,
// method calls on concrete receivers, calls of a MakeClosure value and calls of bound/thunk
// wrappers (resolved to the wrapped method).
func staticCallee(cc *ssa.CallCommon) *ssa.Function {
	if cc == nil {
		return nil
	}
	if f := cc.StaticCallee(); f != nil {
		return f
	}
	return nil
}

// calleeName returns pkgpath.Name or pkgpath.(Recv).Name of the static callee, "" if dynamic.
func calleeName(cc *ssa.CallCommon) string {
	if cc == nil {
		return ""
	}
	if cc.IsInvoke() {
		return "invoke:" + cc.Method.FullName()
	}
	if b, ok := cc.Value.(*ssa.Builtin); ok {
		return "builtin:" + b.Name()
	}
	f := staticCallee(cc)
	if f == nil {
		return ""
	}
	return qualName(f)
}

// qualName: full import path qualified name, e.g. "encoding/binary.(littleEndian).PutUint32",
// "github.com/segmentio/encoding/proto.decodeVarint".
func qualName(f *ssa.Function) string {
	if f == nil {
		return ""
	}
	if o := f.Object(); o != nil {
		if fn, ok := o.(*types.Func); ok {
			return fn.FullName()
		}
	}
	if f.Origin() != nil && f.Origin() != f {
		return qualName(f.Origin())
	}
	if f.Pkg != nil {
		return f.Pkg.Pkg.Path() + "." + f.Name()
	}
	return f.Name()
}

// shortName: package name qualified, as core.FuncKey.
func shortName(f *ssa.Function) string { return core.FuncKey(f) }

// callsIn lists call instructions of fn in block order.
func callsIn(fn *ssa.Function) []ssa.CallInstruction {
	var out []ssa.CallInstruction
	for _, b := range fn.Blocks {
		for _, in := range b.Instrs {
			if ci, ok := in.(ssa.CallInstruction); ok {
				out = append(out, ci)
			}
		}
	}
	return out
}

func returnsOf(fn *ssa.Function) []*ssa.Return {
	var out []*ssa.Return
	for _, b := range fn.Blocks {
		if len(b.Instrs) == 0 {
			continue
		}
		if r, ok := b.Instrs[len(b.Instrs)-1].(*ssa.Return); ok {
			out = append(out, r)
		}
	}
	return out
}

// returnedFuncs follows the function-valued results of fn: closures it makes and functions it
// returns directly (through φ). Used to resolve `xxxFuncOf(...)` constructors.
func returnedFuncs(fn *ssa.Function, idx int) []*ssa.Function {
	var out []*ssa.Function
	seen := map[ssa.Value]bool{}
	var walk func(v ssa.Value)
	walk = func(v ssa.Value) {
		if seen[v] {
			return
		}
		seen[v] = true
		switch x := v.(type) {
		case *ssa.MakeClosure:
			out = append(out, x.Fn.(*ssa.Function))
		case *ssa.Function:
			out = append(out, x)
		case *ssa.Phi:
			for _, e := range x.Edges {
				walk(e)
			}
		case *ssa.ChangeType:
			walk(x.X)
		case *ssa.Call:
			if f := staticCallee(x.Common()); f != nil && f.Blocks != nil {
				out = append(out, returnedFuncs(f, 0)...)
			}
		}
	}
	for _, r := range returnsOf(fn) {
		if idx < len(r.Results) {
			walk(r.Results[idx])
		}
	}
	return out
}

// funcsOfExpr resolves an AST expression that denotes a function value stored into a codec slot:
// an identifier of a declared function, a method value, a function literal, or a call of a
// constructor whose result is a closure.
func funcsOfExpr(c *core.Ctx, p *packages.Package, e ast.Expr) []*ssa.Function {
	e = ast.Unparen(e)
	switch x := e.(type) {
	case *ast.Ident:
		if fn, ok := p.TypesInfo.Uses[x].(*types.Func); ok {
			if f := c.FuncOf(fn); f != nil {
				return []*ssa.Function{f}
			}
		}
	case *ast.SelectorExpr:
		if sel := p.TypesInfo.Selections[x]; sel != nil {
			if fn, ok := sel.Obj().(*types.Func); ok {
				if f := c.FuncOf(fn); f != nil {
					return []*ssa.Function{f}
				}
			}
		}
		if fn, ok := p.TypesInfo.Uses[x.Sel].(*types.Func); ok {
			if f := c.FuncOf(fn); f != nil {
				return []*ssa.Function{f}
			}
		}
	case *ast.CallExpr:
		var callee *types.Func
		switch f := ast.Unparen(x.Fun).(type) {
		case *ast.Ident:
			callee, _ = p.TypesInfo.Uses[f].(*types.Func)
		case *ast.SelectorExpr:
			callee, _ = p.TypesInfo.Uses[f.Sel].(*types.Func)
		}
		if callee != nil {
			if f := c.FuncOf(callee); f != nil {
				return returnedFuncs(f, 0)
			}
		}
	case *ast.FuncLit:
		return []*ssa.Function{anonFuncAt(c, x.Pos())}
	}
	return nil
}

// anonFuncAt finds the SSA function of a function literal by position.
func anonFuncAt(c *core.Ctx, pos token.Pos) *ssa.Function {
	for fn := range c.AllFunctions() {
		if fn.Parent() != nil && fn.Pos() == pos {
			return fn
		}
		if fn.Syntax() != nil && fn.Syntax().Pos() == pos {
			return fn
		}
	}
	return nil
}

// backward slice ----------------------------------------------------------------------------

// sliceBack walks the operands of v transitively through the instruction kinds accepted by
// `through` and calls leaf on everything else. It never crosses calls unless through says so.
func sliceBack(v ssa.Value, through func(ssa.Value) bool, leaf func(ssa.Value)) {
	seen := map[ssa.Value]bool{}
	var walk func(ssa.Value)
	walk = func(v ssa.Value) {
		if v == nil || seen[v] {
			return
		}
		seen[v] = true
		if !through(v) {
			leaf(v)
			return
		}
		if in, ok := v.(ssa.Instruction); ok {
			for _, op := range in.Operands(nil) {
				if *op != nil {
					walk(*op)
				}
			}
		}
	}
	walk(v)
}

// arith: φ, +, -, conversions, extraction of tuple components.
func throughArith(v ssa.Value) bool {
	switch x := v.(type) {
	case *ssa.Phi, *ssa.Convert, *ssa.ChangeType:
		return true
	case *ssa.BinOp:
		return x.Op == token.ADD || x.Op == token.SUB
	}
	return false
}

// dependsOn reports whether v is data-dependent (through any value-producing instruction, not
// through memory) on a value satisfying pred.
func dependsOn(v ssa.Value, pred func(ssa.Value) bool) bool {
	seen := map[ssa.Value]bool{}
	var walk func(ssa.Value) bool
	walk = func(v ssa.Value) bool {
		if v == nil || seen[v] {
			return false
		}
		seen[v] = true
		if pred(v) {
			return true
		}
		if in, ok := v.(ssa.Instruction); ok {
			for _, op := range in.Operands(nil) {
				if *op != nil && walk(*op) {
					return true
				}
			}
		}
		return false
	}
	return walk(v)
}

// dominance ------------------------------------------------------------------------------------

func instrIndex(in ssa.Instruction) int {
	for i, x := range in.Block().Instrs {
		if x == in {
			return i
		}
	}
	return -1
}

// instrDominates: a is executed before b on every path reaching b.
func instrDominates(a, b ssa.Instruction) bool {
	if a.Block() == b.Block() {
		return instrIndex(a) < instrIndex(b)
	}
	return a.Block().Dominates(b.Block())
}

// edgeDominates: the edge from -> to (a successor index of `from`) dominates block b, i.e. every
// path to b goes through that edge. Conservative: `to` must have `from` as sole predecessor and
// dominate b, or to == b with a sole predecessor.
func edgeDominates(from *ssa.BasicBlock, succ int, b *ssa.BasicBlock) bool {
	to := from.Succs[succ]
	if len(to.Preds) != 1 {
		return false
	}
	return to == b || to.Dominates(b)
}

// reachable blocks from b (forward), optionally not passing through `stop` blocks.
func reachableFrom(b *ssa.BasicBlock, stop map[*ssa.BasicBlock]bool) map[*ssa.BasicBlock]bool {
	seen := map[*ssa.BasicBlock]bool{}
	var walk func(*ssa.BasicBlock)
	walk = func(x *ssa.BasicBlock) {
		if seen[x] || stop[x] {
			return
		}
		seen[x] = true
		for _, s := range x.Succs {
			walk(s)
		}
	}
	walk(b)
	return seen
}

// misc -----------------------------------------------------------------------------------------

func sortedKeys[M ~map[string]V, V any](m M) []string {
	out := make([]string, 0, len(m))
	for k := range m {
		out = append(out, k)
	}
	sort.Strings(out)
	return out
}

func setString(m map[string]bool) string {
	return "{" + strings.Join(sortedKeys(m), ", ") + "}"
}

// namedTypeIs reports whether t (after pointer stripping) is the named type pkgName.name declared
// in a repo package.
func namedTypeIs(t types.Type, pkgName, name string) bool {
	if p, ok := t.(*types.Pointer); ok {
		t = p.Elem()
	}
	n, ok := t.(*types.Named)
	if !ok {
		return false
	}
	o := n.Obj()
	return o.Name() == name && o.Pkg() != nil && o.Pkg().Name() == pkgName
}

// enclosingFuncDecl returns the FuncDecl in file f containing pos.
func enclosingFuncDecl(f *ast.File, pos token.Pos) *ast.FuncDecl {
	for _, d := range f.Decls {
		if fd, ok := d.(*ast.FuncDecl); ok && fd.Pos() <= pos && pos <= fd.End() {
			return fd
		}
	}
	return nil
}

// constOfExpr evaluates a constant expression from type info.
func constOfExpr(p *packages.Package, e ast.Expr) (constant.Value, bool) {
	if tv, ok := p.TypesInfo.Types[e]; ok && tv.Value != nil {
		return tv.Value, true
	}
	return nil, false
}

// ---- cells: locals spilled to memory and variables captured by closures ----------------------

// cellOf resolves an address value to the Alloc that owns the storage when the address is a local
// Alloc or a closure's FreeVar bound to one (transitively). Returns nil otherwise.
func cellOf(addr ssa.Value) *ssa.Alloc {
	for i := 0; i < 6; i++ {
		switch x := addr.(type) {
		case *ssa.Alloc:
			return x
		case *ssa.FreeVar:
			fn := x.Parent()
			parent := fn.Parent()
			if parent == nil {
				return nil
			}
			idx := -1
			for j, fv := range fn.FreeVars {
				if fv == x {
					idx = j
				}
			}
			var bound ssa.Value
			for _, b := range parent.Blocks {
				for _, in := range b.Instrs {
					if mc, ok := in.(*ssa.MakeClosure); ok && mc.Fn == fn && idx >= 0 && idx < len(mc.Bindings) {
						bound = mc.Bindings[idx]
					}
				}
			}
			if bound == nil {
				return nil
			}
			addr = bound
		default:
			return nil
		}
	}
	return nil
}

// cellStores returns every value stored into the cell, in its function and in nested closures.
func cellStores(cell *ssa.Alloc) []ssa.Value {
	var out []ssa.Value
	var visit func(fn *ssa.Function)
	visit = func(fn *ssa.Function) {
		for _, b := range fn.Blocks {
			for _, in := range b.Instrs {
				if st, ok := in.(*ssa.Store); ok && cellOf(st.Addr) == cell {
					out = append(out, st.Val)
				}
			}
		}
		for _, a := range fn.AnonFuncs {
			visit(a)
		}
	}
	visit(cell.Parent())
	return out
}

// origins expands a value through φ, conversions and loads of local/captured cells down to the
// values that can flow into it.
func origins(v ssa.Value) []ssa.Value {
	var out []ssa.Value
	seen := map[ssa.Value]bool{}
	var walk func(ssa.Value)
	walk = func(v ssa.Value) {
		if v == nil || seen[v] {
			return
		}
		seen[v] = true
		switch x := v.(type) {
		case *ssa.Phi:
			for _, e := range x.Edges {
				walk(e)
			}
			return
		case *ssa.ChangeType:
			walk(x.X)
			return
		case *ssa.UnOp:
			if x.Op == token.MUL {
				if cell := cellOf(x.X); cell != nil {
					for _, s := range cellStores(cell) {
						walk(s)
					}
					return
				}
			}
		}
		out = append(out, v)
	}
	walk(v)
	return out
}

// fieldOfLoad: v is a load of a struct field; returns "pkg.Type.field".
func fieldOfLoad(v ssa.Value) (string, bool) {
	u, ok := v.(*ssa.UnOp)
	if !ok || u.Op != token.MUL {
		return "", false
	}
	fa, ok := u.X.(*ssa.FieldAddr)
	if !ok {
		return "", false
	}
	return fieldAddrID(fa), true
}

func fieldAddrID(fa *ssa.FieldAddr) string {
	pt := fa.X.Type().Underlying().(*types.Pointer).Elem()
	st := pt.Underlying().(*types.Struct)
	name := pt.String()
	if n, ok := pt.(*types.Named); ok {
		name = n.Obj().Pkg().Name() + "." + n.Obj().Name()
	}
	return name + "." + st.Field(fa.Field).Name()
}
