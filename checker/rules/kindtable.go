package rules

import (
	"fmt"
	"go/token"
	"go/types"
	"sort"
	"strings"

	"golang.org/x/tools/go/ssa"

	"verif/checker/core"
)

// R-KINDTABLE — wherever a codec constructor dispatches on reflect.Kind, the function selected
// for a scalar kind accesses memory with a type of that kind's size and class.
// R-IFACEWORD — the predicate that says "an interface holding this type stores the value itself in
// its data word" covers every pointer-shaped type the package supports.
// R-CANADDR — addressability is propagated through the json type compiler the way reflect defines
// it (slice elements and pointees are addressable, map values are not, array elements and struct
// fields inherit).
func init() {
	Register(&Rule{
		ID:    "R-KINDTABLE",
		Doc:   "forward dataflow of the possible reflect.Kind values along the branch edges of every function that tests t.Kind(); each function value (closure, method expression, global proto codec) selected on a path where the kind is a scalar is summarised by the types it loads/stores through its unsafe.Pointer parameter (following static callees one level) or the reflect.Value accessors it calls; size and class (bool/int/uint/float/string) must match the kind — integer signedness may differ only when the loaded value is used solely in comparisons with zero",
		Props: []string{"C01", "C02", "C03", "C04", "C07", "C12"},
		Min:   map[string]int{"C01": 25, "C02": 14, "C03": 9, "C04": 5, "C07": 1, "C12": 9},
		Run:   runKindTable,
	})
	Register(&Rule{
		ID:    "R-IFACEWORD",
		Doc:   "the inlined() predicates of json and proto return true for pointers, maps, single-field structs of an inlined type and (json, which supports arrays of any element, and reaches chan, func and unsafe.Pointer values through marshaling interfaces implemented on such types) one-element arrays of an inlined type, channels, functions and unsafe pointers: exactly the types whose interface data word holds the value itself",
		Props: []string{"C06", "C03", "C01"},
		Min:   map[string]int{"C06": 3, "C03": 1, "C01": 3},
		Run:   runIfaceWord,
	})
	Register(&Rule{
		ID:    "R-CANADDR",
		Doc:   "every call that passes a canAddr argument in json's type compiler passes what reflect's addressability rules give: true for slice elements and pointees, false for map keys and values, the caller's own canAddr for array elements, struct fields and ',string' wrappers, true or the caller's for the fields of an embedded struct pointer, kind==Ptr at the top level; the memo of compiled struct types is keyed by (type, canAddr); pointer-receiver marshalers are installed only under canAddr",
		Props: []string{"C01", "C09"},
		Min:   map[string]int{"C01": 12},
		Run:   runCanAddr,
	})
}

var kindNames = map[int64]string{1: "Bool", 2: "Int", 3: "Int8", 4: "Int16", 5: "Int32", 6: "Int64", 7: "Uint", 8: "Uint8", 9: "Uint16", 10: "Uint32", 11: "Uint64", 12: "Uintptr", 13: "Float32", 14: "Float64", 15: "Complex64", 16: "Complex128", 17: "Array", 18: "Chan", 19: "Func", 20: "Interface", 21: "Map", 22: "Ptr", 23: "Slice", 24: "String", 25: "Struct", 26: "UnsafePointer"}

type kindClass struct {
	class string // bool int uint float string
	size  int    // bytes; 0 = word
}

var scalarKinds = map[int64]kindClass{
	1: {"bool", 1}, 2: {"int", 0}, 3: {"int", 1}, 4: {"int", 2}, 5: {"int", 4}, 6: {"int", 8},
	7: {"uint", 0}, 8: {"uint", 1}, 9: {"uint", 2}, 10: {"uint", 4}, 11: {"uint", 8}, 12: {"uint", 0},
	13: {"float", 4}, 14: {"float", 8}, 24: {"string", 0},
}

func basicClass(t types.Type) (kindClass, bool) {
	bt, ok := t.Underlying().(*types.Basic)
	if !ok {
		return kindClass{}, false
	}
	switch bt.Kind() {
	case types.Bool:
		return kindClass{"bool", 1}, true
	case types.Int:
		return kindClass{"int", 0}, true
	case types.Int8:
		return kindClass{"int", 1}, true
	case types.Int16:
		return kindClass{"int", 2}, true
	case types.Int32:
		return kindClass{"int", 4}, true
	case types.Int64:
		return kindClass{"int", 8}, true
	case types.Uint, types.Uintptr:
		return kindClass{"uint", 0}, true
	case types.Uint8:
		return kindClass{"uint", 1}, true
	case types.Uint16:
		return kindClass{"uint", 2}, true
	case types.Uint32:
		return kindClass{"uint", 4}, true
	case types.Uint64:
		return kindClass{"uint", 8}, true
	case types.Float32:
		return kindClass{"float", 4}, true
	case types.Float64:
		return kindClass{"float", 8}, true
	case types.String:
		return kindClass{"string", 0}, true
	}
	return kindClass{}, false
}

// isKindCall: v is the result of reflect.Type.Kind() / reflect.Value.Kind() / a repo helper that
// returns a reflect.Kind.
func isKindValue(v ssa.Value) bool {
	n, ok := v.Type().(*types.Named)
	return ok && n.Obj().Name() == "Kind" && n.Obj().Pkg() != nil && n.Obj().Pkg().Path() == "reflect"
}

type kset uint32 // bit k set: kind k possible

const allKinds kset = (1 << 27) - 1

// kindFlow computes, for one Kind-typed SSA value, the kinds possible on entry to each block.
func kindFlow(fn *ssa.Function, kv ssa.Value) map[*ssa.BasicBlock]kset {
	in := map[*ssa.BasicBlock]kset{}
	if len(fn.Blocks) == 0 {
		return in
	}
	def := fn.Blocks[0]
	if ins, ok := kv.(ssa.Instruction); ok && ins.Block() != nil {
		def = ins.Block()
	}
	in[def] = allKinds
	work := []*ssa.BasicBlock{def}
	for len(work) > 0 {
		blk := work[len(work)-1]
		work = work[:len(work)-1]
		cur := in[blk]
		outs := make([]kset, len(blk.Succs))
		for i := range outs {
			outs[i] = cur
		}
		if len(blk.Instrs) > 0 {
			if ifi, ok := blk.Instrs[len(blk.Instrs)-1].(*ssa.If); ok {
				if bo, ok := ifi.Cond.(*ssa.BinOp); ok && (bo.Op == token.EQL || bo.Op == token.NEQ) {
					var k int64 = -1
					if bo.X == kv {
						if c, ok := constInt(bo.Y); ok {
							k = c
						}
					} else if bo.Y == kv {
						if c, ok := constInt(bo.X); ok {
							k = c
						}
					}
					if k >= 0 && k < 27 {
						eq, ne := 0, 1
						if bo.Op == token.NEQ {
							eq, ne = 1, 0
						}
						outs[eq] = cur & (1 << uint(k))
						outs[ne] = cur &^ (1 << uint(k))
					}
				}
			}
		}
		for i, s := range blk.Succs {
			if s == def {
				continue
			}
			nv := in[s] | outs[i]
			if nv != in[s] {
				in[s] = nv
				work = append(work, s)
			} else if _, seen := in[s]; !seen {
				in[s] = nv
				work = append(work, s)
			}
		}
	}
	return in
}

// access summary of a selected function
type accessSummary struct {
	types    map[string]kindClass // rendered type -> class, for scalar accesses through the data pointer
	zeroOnly map[string]bool      // no use of the loaded value depends on its signedness
	reflects map[string]bool      // reflect.Value accessors called (Int, SetInt, Float, ...)
}

func summariseAccess(c *core.Ctx, fn *ssa.Function, depth int, out *accessSummary, seen map[*ssa.Function]bool) {
	if fn == nil || fn.Blocks == nil || seen[fn] {
		return
	}
	seen[fn] = true
	// unsafe.Pointer parameters and free variables are not distinguished: any conversion of an
	// unsafe.Pointer parameter to *T followed by a load or store is an access of type T
	ptrParams := map[ssa.Value]bool{}
	for _, p := range fn.Params {
		if bt, ok := p.Type().Underlying().(*types.Basic); ok && bt.Kind() == types.UnsafePointer {
			ptrParams[p] = true
		}
	}
	for _, blk := range fn.Blocks {
		for _, in := range blk.Instrs {
			switch x := in.(type) {
			case *ssa.Convert:
				if !ptrParams[x.X] {
					continue
				}
				pt, ok := x.Type().Underlying().(*types.Pointer)
				if !ok {
					continue
				}
				kc, ok := basicClass(pt.Elem())
				if !ok {
					continue
				}
				name := types.TypeString(pt.Elem().Underlying(), nil)
				for _, ref := range *x.Referrers() {
					switch r := ref.(type) {
					case *ssa.UnOp:
						if r.Op != token.MUL {
							continue
						}
						out.types[name] = kc
						// signedness matters only where the value is widened, ordered, divided
						// or shifted right; moving the same-width bits around does not care
						zo := true
						for _, use := range *r.Referrers() {
							switch u := use.(type) {
							case *ssa.Convert:
								from, ok1 := basicClass(r.Type())
								to, ok2 := basicClass(u.Type())
								if ok1 && ok2 && (to.class == "float" || sizeOfClass(to) > sizeOfClass(from)) {
									zo = false
								}
							case *ssa.BinOp:
								switch u.Op {
								case token.LSS, token.GTR, token.LEQ, token.GEQ, token.QUO, token.REM, token.SHR:
									zo = false
								}
							}
						}
						if prev, had := out.zeroOnly[name]; had {
							out.zeroOnly[name] = prev && zo
						} else {
							out.zeroOnly[name] = zo
						}
					case *ssa.Store:
						if r.Addr == ssa.Value(x) {
							out.types[name] = kc
							if _, had := out.zeroOnly[name]; !had {
								out.zeroOnly[name] = true // a same-width store moves bits, whatever their sign
							}
						}
					}
				}
			case *ssa.Call:
				cc := x.Common()
				n := calleeName(cc)
				if strings.HasPrefix(n, "(reflect.Value).") {
					m := strings.TrimPrefix(n, "(reflect.Value).")
					switch m {
					case "Bool", "Int", "Uint", "Float", "String", "SetBool", "SetInt", "SetUint", "SetFloat", "SetString":
						out.reflects[m] = true
					}
				}
				if depth > 0 {
					if callee := staticCallee(cc); callee != nil && c.InRepo(callee) {
						passes := false
						for _, a := range cc.Args {
							if ptrParams[a] || isReflectValue(a.Type()) {
								passes = true
							}
						}
						if passes {
							summariseAccess(c, callee, depth-1, out, seen)
						}
					}
				}
			}
		}
	}
}

func sizeOfClass(k kindClass) int {
	if k.size == 0 {
		return 8
	}
	return k.size
}

func newSummary() *accessSummary {
	return &accessSummary{types: map[string]kindClass{}, zeroOnly: map[string]bool{}, reflects: map[string]bool{}}
}

// selectedFunctions: function values an instruction hands out (closure, method expression thunk,
// function constant, or the functions of a global proto codec whose address is taken).
func selectedFunctions(c *core.Ctx, in ssa.Instruction, codecs map[string]*protoCodec) map[string]*ssa.Function {
	out := map[string]*ssa.Function{}
	var ops []*ssa.Value
	for _, op := range in.Operands(ops) {
		if *op == nil {
			continue
		}
		switch v := (*op).(type) {
		case *ssa.Function:
			if call, ok := in.(ssa.CallInstruction); ok && call.Common().Value == ssa.Value(v) {
				continue // a call, not a selection
			}
			f := realFunc(c, v)
			out[shortName(f)] = f
		case *ssa.MakeClosure:
			f := v.Fn.(*ssa.Function)
			out[shortName(f)] = f
		case *ssa.Global:
			if pc := codecs[v.Name()]; pc != nil {
				for role, fs := range map[string][]*ssa.Function{"size": pc.size, "encode": pc.encode, "decode": pc.decode} {
					for _, f := range fs {
						if f != nil {
							out[v.Name()+"."+role+"="+shortName(f)] = f
						}
					}
				}
			}
		}
	}
	return out
}

func runKindTable(c *core.Ctx) []core.Obligation {
	b := newOb(c, "R-KINDTABLE")
	codecs := map[string]*protoCodec{}
	for _, pc := range protoCodecs(c) {
		codecs[pc.name] = pc
	}
	var fns []*ssa.Function
	for _, fn := range c.RepoFunctions() {
		if fn.Blocks != nil && fn.Synthetic == "" {
			fns = append(fns, fn)
		}
	}
	sort.Slice(fns, func(i, j int) bool { return shortName(fns[i]) < shortName(fns[j]) })
	for _, fn := range fns {
		name := shortName(fn)
		var props []string
		switch {
		case strings.HasPrefix(name, "json."):
			props = []string{"C01", "C02"}
		case strings.HasPrefix(name, "proto."):
			props = []string{"C03", "C12"}
		case strings.HasPrefix(name, "thrift."):
			props = []string{"C04"}
		default:
			continue
		}
		// Kind-typed values compared with constants in this function
		var kvs []ssa.Value
		seenKV := map[ssa.Value]bool{}
		for _, blk := range fn.Blocks {
			for _, in := range blk.Instrs {
				if bo, ok := in.(*ssa.BinOp); ok && (bo.Op == token.EQL || bo.Op == token.NEQ) {
					for _, v := range []ssa.Value{bo.X, bo.Y} {
						if _, isK := v.(*ssa.Const); !isK && isKindValue(v) && !seenKV[v] {
							seenKV[v] = true
							kvs = append(kvs, v)
						}
					}
				}
			}
		}
		if len(kvs) == 0 {
			continue
		}
		// the innermost information wins: intersect the sets of all kind values that are
		// "about" the same type is not attempted; each kind value is checked on its own and a
		// block is attributed to the kind value with the smallest set
		flows := make([]map[*ssa.BasicBlock]kset, len(kvs))
		for i, kv := range kvs {
			flows[i] = kindFlow(fn, kv)
		}
		done := map[string]bool{}
		for _, blk := range fn.Blocks {
			best := allKinds
			for i := range kvs {
				if s, ok := flows[i][blk]; ok && s != 0 && popcount(uint32(s)) < popcount(uint32(best)) {
					best = s
				}
			}
			if best == allKinds || popcount(uint32(best)) > 8 {
				continue
			}
			// only scalar kinds
			var kinds []int64
			scalar := true
			for k := int64(0); k < 27; k++ {
				if best&(1<<uint(k)) != 0 {
					kinds = append(kinds, k)
					if _, ok := scalarKinds[k]; !ok {
						scalar = false
					}
				}
			}
			if !scalar || len(kinds) == 0 {
				continue
			}
			for _, in := range blk.Instrs {
				for label, f := range selectedFunctions(c, in, codecs) {
					sum := newSummary()
					summariseAccess(c, f, 2, sum, map[*ssa.Function]bool{})
					if len(sum.types) == 0 && len(sum.reflects) == 0 {
						continue
					}
					for _, k := range kinds {
						kc := scalarKinds[k]
						key := fmt.Sprintf("kind:%s:%s:%s", name, kindNames[k], label)
						if done[key] {
							continue
						}
						done[key] = true
						var problems []string
						var tnames []string
						for tn := range sum.types {
							tnames = append(tnames, tn)
						}
						sort.Strings(tnames)
						for _, tn := range tnames {
							tc := sum.types[tn]
							switch {
							case tc.size != kc.size:
								problems = append(problems, fmt.Sprintf("accesses the value as %s, which is not the size of a %s", tn, kindNames[k]))
							case tc.class == kc.class:
							case (tc.class == "int" || tc.class == "uint") && (kc.class == "int" || kc.class == "uint"):
								if !sum.zeroOnly[tn] {
									problems = append(problems, fmt.Sprintf("accesses a %s as %s and then widens, orders, divides or shifts the value: values with the top bit set change sign", kindNames[k], tn))
								}
							default:
								problems = append(problems, fmt.Sprintf("accesses a %s as %s: the bit pattern is not the value (for floats -0.0 is zero but its bits are not)", kindNames[k], tn))
							}
						}
						var rnames []string
						for m := range sum.reflects {
							rnames = append(rnames, m)
						}
						sort.Strings(rnames)
						for _, m := range rnames {
							want := map[string]string{"bool": "Bool", "int": "Int", "uint": "Uint", "float": "Float", "string": "String"}[kc.class]
							if strings.TrimPrefix(m, "Set") != want {
								problems = append(problems, fmt.Sprintf("uses reflect.Value.%s on a %s (reflect panics)", m, kindNames[k]))
							}
						}
						pos := c.InstrPos(in)
						if len(problems) > 0 {
							b.addP(props, core.Violation, key, pos, fmt.Sprintf("%s selects %s for kind %s, but that function %s", name, label, kindNames[k], strings.Join(problems, "; ")))
						} else {
							b.addP(props, core.Discharged, key, pos, fmt.Sprintf("%s accesses %v %v: matches %s", label, tnames, rnames, kindNames[k]))
						}
					}
				}
			}
		}
	}
	kindTableBaseKind(c, b)
	return b.out
}

// kindTableBaseKind: a scalar codec chosen by looking at baseKindOf (the kind behind any number of
// pointers) must reach the scalar through those pointers.
func kindTableBaseKind(c *core.Ctx, b *ob) {
	props := []string{"C03", "C07", "C12"}
	key := "basekind:scalar-through-pointer"
	fn := c.Lookup("proto.structCodecOf")
	if fn == nil {
		b.addP(props, core.Undecided, key, "-", "proto.structCodecOf not found")
		return
	}
	// kind values produced by baseKindOf
	var kvs []ssa.Value
	for _, ci := range callsIn(fn) {
		if f := staticCallee(ci.Common()); f != nil && f.Name() == "baseKindOf" && ci.Value() != nil {
			kvs = append(kvs, ci.Value())
		}
	}
	var sel []ssa.Instruction
	for _, kv := range kvs {
		flow := kindFlow(fn, kv)
		for _, blk := range fn.Blocks {
			set, ok := flow[blk]
			if !ok || set == allKinds || popcount(uint32(set)) != 1 {
				continue
			}
			scalar := false
			for k := range scalarKinds {
				if set == 1<<uint(k) {
					scalar = true
				}
			}
			if !scalar {
				continue
			}
			for _, in := range blk.Instrs {
				st, ok := in.(*ssa.Store)
				if !ok {
					continue
				}
				if g, ok := st.Val.(*ssa.Global); ok && strings.HasSuffix(g.Name(), "Codec") {
					sel = append(sel, st)
				}
			}
		}
	}
	// or through a helper that maps (base kind, wire type) to a scalar codec
	for _, ci := range callsIn(fn) {
		f := staticCallee(ci.Common())
		if f == nil || !c.InRepo(f) || f.Name() == "baseKindOf" || ci.Value() == nil {
			continue
		}
		if !strings.HasSuffix(typeShort(ci.Value().Type()), "codec") {
			continue
		}
		for _, a := range ci.Common().Args {
			for _, kv := range kvs {
				if a == kv {
					sel = append(sel, ci)
				}
			}
		}
	}
	if len(sel) == 0 {
		b.addP(props, core.Discharged, key, c.FuncPos(fn), "no scalar codec is selected from baseKindOf")
		return
	}
	bad, once := "", ""
	for _, st := range sel {
		reach := reachableFrom(st.Block(), nil)
		have := map[string]bool{}
		for blk := range reach {
			for _, in := range blk.Instrs {
				if ci, ok := in.(ssa.CallInstruction); ok {
					if f := staticCallee(ci.Common()); f != nil {
						have[f.Name()] = true
					}
				}
			}
		}
		if !(have["pointerSizeFuncOf"] && have["pointerEncodeFuncOf"] && have["pointerDecodeFuncOf"]) {
			bad = c.InstrPos(st)
		}
		// baseKindOf strips every pointer level (it loops): the wrapping must repeat as well
		strips := false
		if bk := c.Lookup("proto.baseKindOf"); bk != nil {
			strips = len(loopHeaders(bk)) > 0
			for _, ci := range callsIn(bk) {
				if f := staticCallee(ci.Common()); f != nil && c.InRepo(f) && f.Blocks != nil && len(loopHeaders(f)) > 0 {
					strips = true
				}
			}
		}
		if strips && bad == "" {
			for blk := range reach {
				for _, in := range blk.Instrs {
					ci, ok := in.(ssa.CallInstruction)
					if !ok {
						continue
					}
					if f := staticCallee(ci.Common()); f != nil && f.Name() == "pointerDecodeFuncOf" {
						cyc := false
						for _, s := range blk.Succs {
							if reachableFrom(s, map[*ssa.BasicBlock]bool{st.Block(): true})[blk] {
								cyc = true
							}
						}
						if !cyc {
							once = c.InstrPos(in)
						}
					}
				}
			}
		}
	}
	if bad == "" && once != "" {
		b.addP(props, core.Violation, key, once, "structCodecOf selects a scalar fixed-width codec from baseKindOf(f.Type), which looks through every pointer level, but wraps it in the pointer codec once, not once per level: for a field such as A **uint32 `fixed32` Unmarshal stores the decoded integer into the inner pointer (an address chosen by the input) and Marshal writes the bits of that pointer")
		return
	}
	if bad != "" {
		b.addP(props, core.Violation, key, bad, "structCodecOf selects a scalar fixed-width codec from baseKindOf(f.Type), which looks through pointers, and never wraps it in the pointer codec: for a field such as A *uint32 `fixed32` Marshal writes the bits of the pointer and Unmarshal stores the decoded integer into the pointer itself")
	} else {
		b.addP(props, core.Discharged, key, c.InstrPos(sel[0]), fmt.Sprintf("%d scalar codec selection(s) from baseKindOf, each followed by the pointer wrapping", len(sel)))
	}
}

func popcount(x uint32) int {
	n := 0
	for x != 0 {
		x &= x - 1
		n++
	}
	return n
}

// ---------------------------------------------------------------------------------------------

func runIfaceWord(c *core.Ctx) []core.Obligation {
	b := newOb(c, "R-IFACEWORD")
	// map keys and values come out of reflect as interface data words: both need the inline adapter
	if fn := c.Lookup("json.constructMapCodec"); fn != nil {
		adapted := map[string]bool{}
		for _, ci := range callsIn(fn) {
			callee := staticCallee(ci.Common())
			if callee == nil || callee.Name() != "inlined" || len(ci.Common().Args) != 1 {
				continue
			}
			for _, o := range origins(ci.Common().Args[0]) {
				if call, ok := o.(*ssa.Call); ok && call.Common().IsInvoke() {
					adapted[call.Common().Method.Name()] = true // Key / Elem
				}
			}
			// the adapter must actually be installed on that branch
		}
		for _, part := range []struct{ m, what string }{{"Key", "key"}, {"Elem", "value"}} {
			key := "ifaceword:map-" + part.what + "-adapter"
			if adapted[part.m] {
				b.addP([]string{"C06", "C01"}, core.Discharged, key, c.FuncPos(fn), "constructMapCodec tests inlined() on the map's "+part.what+" type and adapts its encoder")
			} else {
				b.addP([]string{"C06", "C01"}, core.Violation, key, c.FuncPos(fn), "constructMapCodec never tests inlined() on the map's "+part.what+" type: reflect hands pointer-shaped "+part.what+"s out in the data word itself, and the "+part.what+" encoder then dereferences the "+part.what+" as if it were a pointer to it (SIGSEGV for map[*K]V with a TextMarshaler key)")
			}
		}
	} else {
		b.addP([]string{"C06", "C01"}, core.Undecided, "ifaceword:map-adapters", "-", "json.constructMapCodec not found")
	}
	for _, spec := range []struct {
		fn    string
		props []string
		want  []int64
	}{
		// json reaches chan, func and unsafe.Pointer values through Marshaler/TextMarshaler
		// implementations on such types: they are pointer-shaped too
		{"json.inlined", []string{"C06", "C01"}, []int64{22, 21, 25, 17, 18, 19, 26}},
		{"proto.inlined", []string{"C03"}, []int64{22, 21, 25}},
	} {
		fn := c.Lookup(spec.fn)
		key := "ifaceword:" + spec.fn
		if fn == nil {
			b.addP(spec.props, core.Undecided, key, "-", "function not found")
			continue
		}
		// kinds on whose path the function can return something other than the constant false
		var kv ssa.Value
		for _, blk := range fn.Blocks {
			for _, in := range blk.Instrs {
				if v, ok := in.(ssa.Value); ok && isKindValue(v) {
					if _, isCall := in.(*ssa.Call); isCall && kv == nil {
						kv = v
					}
				}
			}
		}
		if kv == nil {
			b.addP(spec.props, core.Undecided, key, c.FuncPos(fn), "no Kind() call found")
			continue
		}
		flow := kindFlow(fn, kv)
		truthy := kset(0)
		for _, r := range returnsOf(fn) {
			if len(r.Results) != 1 {
				continue
			}
			mayTrue := func(v ssa.Value) bool {
				for _, o := range origins(v) {
					if k, ok := o.(*ssa.Const); ok && k.Value != nil && k.Value.String() == "false" {
						continue
					}
					return true
				}
				return false
			}
			res := r.Results[0]
			if phi, ok := res.(*ssa.Phi); ok {
				for i, e := range phi.Edges {
					if mayTrue(e) {
						// the edge's predecessor block carries the kind facts
						truthy |= flowOut(flow, phi.Block().Preds[i], phi.Block())
					}
				}
				continue
			}
			if mayTrue(res) {
				truthy |= flow[r.Block()]
			}
		}
		var missing []string
		for _, k := range spec.want {
			if truthy&(1<<uint(k)) == 0 {
				missing = append(missing, kindNames[k])
			}
		}
		// the composite kinds are pointer-shaped exactly when their single component is, at any
		// depth: their arm must ask the predicate itself about the component type
		var shallow []string
		for _, k := range spec.want {
			if k != 25 && k != 17 {
				continue
			}
			recurses := false
			for _, blk := range fn.Blocks {
				if flow[blk] != 1<<uint(k) {
					continue
				}
				for _, ci := range callsIn2(blk) {
					if staticCallee(ci.Common()) == fn {
						recurses = true
					}
				}
			}
			if !recurses && truthy&(1<<uint(k)) != 0 {
				shallow = append(shallow, kindNames[k])
			}
		}
		if len(shallow) > 0 && len(missing) == 0 {
			b.addP(spec.props, core.Violation, key, c.FuncPos(fn), fmt.Sprintf("%s decides kind(s) %v without asking itself about the component type: a one-element array (single-field struct) is pointer-shaped whenever its component is — a map, a single-pointer struct, another such array — not only when the component is a pointer; for the others the codec dereferences the interface's data word as if it pointed to the value (nil dereference or a fatal \"invalid pointer found on stack\")", spec.fn, shallow))
			continue
		}
		if len(missing) > 0 {
			b.addP(spec.props, core.Violation, key, c.FuncPos(fn), fmt.Sprintf("%s can only return false for kind(s) %v, yet an interface holding such a type (when it is pointer-shaped: one pointer-shaped field / element) stores the value itself in its data word: the codec then dereferences the pointee as if it were the container (wrong output or SIGSEGV)", spec.fn, missing))
		} else {
			b.addP(spec.props, core.Discharged, key, c.FuncPos(fn), "pointer-shaped kinds are all recognised")
		}
	}
	return b.out
}

// flowOut: the kind set flowing along the edge pred -> succ.
func flowOut(flow map[*ssa.BasicBlock]kset, pred, succ *ssa.BasicBlock) kset {
	cur := flow[pred]
	if len(pred.Instrs) == 0 {
		return cur
	}
	ifi, ok := pred.Instrs[len(pred.Instrs)-1].(*ssa.If)
	if !ok {
		return cur
	}
	bo, ok := ifi.Cond.(*ssa.BinOp)
	if !ok || (bo.Op != token.EQL && bo.Op != token.NEQ) {
		return cur
	}
	var k int64 = -1
	if isKindValue(bo.X) {
		if c, ok := constInt(bo.Y); ok {
			k = c
		}
	} else if isKindValue(bo.Y) {
		if c, ok := constInt(bo.X); ok {
			k = c
		}
	}
	if k < 0 || k >= 27 {
		return cur
	}
	isTrueEdge := pred.Succs[0] == succ
	if (bo.Op == token.EQL) == isTrueEdge {
		return cur & (1 << uint(k))
	}
	return cur &^ (1 << uint(k))
}

// ---------------------------------------------------------------------------------------------

// canAddrTable: expected argument at each call site (caller -> callee) of json's type compiler.
//
//	"prop"  the caller's own canAddr parameter
//	"true" / "false"
//	"prop|ptr"  canAddr || (embedded field is a pointer)
//	"kind==Ptr" a comparison of the type's kind with reflect.Ptr
var canAddrTable = map[string]string{
	"json.constructCachedCodec->json.constructCodec":                "kind==Ptr",
	"json.constructCodec->json.constructArrayCodec":                 "prop",
	"json.constructCodec->json.constructStructCodec":                "prop",
	"json.constructStringCodec->json.constructCodec":                "prop",
	"json.constructArrayCodec->json.constructCodec":                 "prop",
	"json.constructSliceCodec->json.constructCodec":                 "true",
	"json.constructMapCodec->json.constructCodec":                   "false",
	"json.constructMapCodec->json.constructStringCodec":             "false",
	"json.constructStructCodec->json.constructStructType":           "prop",
	"json.constructStructType->json.appendStructFields":             "prop",
	"json.appendStructFields->json.constructStructType":             "prop|ptr",
	"json.appendStructFields->json.usesMarshaler":                   "prop",
	"json.appendStructFields->json.constructCodec":                  "prop",
	"json.constructPointerCodec->json.constructCodec":               "true",
	"json.constructEmbeddedStructPointerCodec->json.constructCodec": "true",
}

func runCanAddr(c *core.Ctx) []core.Obligation {
	b := newOb(c, "R-CANADDR")
	props := []string{"C01", "C09"} // a codec cached under the wrong addressability makes the result depend on which call came first
	canAddrParam := func(fn *ssa.Function) (int, *ssa.Parameter) {
		for i, p := range fn.Params {
			if p.Name() == "canAddr" {
				return i, p
			}
		}
		return -1, nil
	}
	seenSites := map[string]bool{}
	for _, fn := range c.RepoFunctions() {
		if fn.Blocks == nil || fn.Synthetic != "" || !strings.HasPrefix(shortName(fn), "json.") {
			continue
		}
		_, own := canAddrParam(fn)
		for _, ci := range callsIn(fn) {
			callee := staticCallee(ci.Common())
			if callee == nil || !c.InRepo(callee) {
				continue
			}
			idx, _ := canAddrParam(callee)
			if idx < 0 || idx >= len(ci.Common().Args) {
				continue
			}
			site := shortName(fn) + "->" + shortName(callee)
			arg := ci.Common().Args[idx]
			got := "other"
			isOwn := func(v ssa.Value) bool {
				if own == nil {
					return false
				}
				for _, o := range origins(v) {
					if o != ssa.Value(own) {
						return false
					}
				}
				return true
			}
			switch {
			case isOwn(arg):
				got = "prop"
			default:
				if k, ok := arg.(*ssa.Const); ok && k.Value != nil {
					got = k.Value.String()
				} else if bo, ok := arg.(*ssa.BinOp); ok && bo.Op == token.EQL && isKindValue(bo.X) {
					if k, ok := constInt(bo.Y); ok && k == 22 {
						got = "kind==Ptr"
					}
				} else if phi, ok := arg.(*ssa.Phi); ok {
					// canAddr || ptr lowers to φ(true, ptr)
					hasTrue, hasOther := false, false
					for i, e := range phi.Edges {
						if k, ok := e.(*ssa.Const); ok && k.Value != nil && k.Value.String() == "true" {
							// the true edge must come from the branch on own canAddr
							pred := phi.Block().Preds[i]
							if ifi, ok := pred.Instrs[len(pred.Instrs)-1].(*ssa.If); ok && isOwn(ifi.Cond) {
								hasTrue = true
							}
						} else {
							hasOther = true
						}
					}
					if hasTrue && hasOther {
						got = "prop|ptr"
					}
				}
			}
			want, listed := canAddrTable[site]
			n := 1
			key := "canaddr:" + site
			for seenSites[key] {
				n++
				key = fmt.Sprintf("canaddr:%s#%d", site, n)
			}
			seenSites[key] = true
			switch {
			case !listed:
				b.addP(props, core.Undecided, key, c.InstrPos(ci), "call site passing a canAddr argument is not in the table: addressability of what it compiles has not been confirmed")
			case got == want || (want == "prop|ptr" && got == "true"):
				b.addP(props, core.Discharged, key, c.InstrPos(ci), "passes "+got)
			default:
				b.addP(props, core.Violation, key, c.InstrPos(ci), fmt.Sprintf("%s compiles its component with canAddr=%s where reflect's addressability rules give %s: pointer-receiver MarshalJSON/MarshalText methods are then called (or skipped) on values for which encoding/json does the opposite", site, got, want))
			}
		}
	}
	// the memo key includes canAddr
	if fn := c.Lookup("json.constructStructType"); fn != nil {
		_, own := canAddrParam(fn)
		n, bad := 0, ""
		for _, blk := range fn.Blocks {
			for _, in := range blk.Instrs {
				var m, k ssa.Value
				switch x := in.(type) {
				case *ssa.Lookup:
					m, k = x.X, x.Index
				case *ssa.MapUpdate:
					m, k = x.Map, x.Key
				default:
					continue
				}
				if _, isParam := m.(*ssa.Parameter); !isParam {
					continue
				}
				n++
				if own == nil || !dependsOnThroughLocals(k, own, fn) {
					bad = c.InstrPos(in)
				}
			}
		}
		key := "canaddr:memo-key"
		switch {
		case n == 0:
			b.addP(props, core.Undecided, key, c.FuncPos(fn), "no lookup in the memo of compiled struct types found")
		case bad != "":
			b.addP(props, core.Violation, key, bad, "the memo of compiled struct types is keyed without canAddr: whichever variant (addressable or not) is compiled first is reused for the other, so struct{ A []T; B T } encodes B's fields with pointer-receiver marshalers that only A's elements may use")
		default:
			b.addP(props, core.Discharged, key, c.FuncPos(fn), "memo keyed by (type, canAddr)")
		}
	}
	// pointer-receiver marshalers only under canAddr
	if fn := c.Lookup("json.constructCodec"); fn != nil {
		_, own := canAddrParam(fn)
		n := 0
		for _, ci := range callsIn(fn) {
			callee := staticCallee(ci.Common())
			if callee == nil || !strings.HasSuffix(callee.Name(), "MarshalerEncodeFunc") || len(ci.Common().Args) != 2 {
				continue
			}
			k, ok := ci.Common().Args[1].(*ssa.Const)
			if !ok || k.Value == nil || k.Value.String() != "true" {
				continue
			}
			n++
			guarded := false
			for _, e := range dominatingEdges(ci.Block()) {
				if own != nil && e.succ == 0 {
					for _, o := range origins(e.ifi.Cond) {
						if o == ssa.Value(own) {
							guarded = true
						}
					}
				}
			}
			// canAddr && p.Implements(…) as a switch case is a φ of the short-circuit
			for _, a := range trueAtoms(ci.Block(), 0) {
				if own != nil && a == ssa.Value(own) {
					guarded = true
				}
			}
			key := "canaddr:pointer-receiver:" + callee.Name()
			if guarded {
				b.addP(props, core.Discharged, key, c.InstrPos(ci), "installed only on the canAddr branch")
			} else {
				b.addP(props, core.Violation, key, c.InstrPos(ci), "a pointer-receiver marshaler is installed without testing canAddr: it is then called on non-addressable values, for which encoding/json uses the plain encoding")
			}
		}
		if n == 0 {
			b.addP(props, core.Undecided, "canaddr:pointer-receiver", c.FuncPos(fn), "no pointer-receiver marshaler installation found in constructCodec")
		}
	}
	return b.out
}

// dependsOnThroughLocals: v is computed from target, also through a struct literal built in a
// local (key := K{typ: t, canAddr: canAddr}).
func dependsOnThroughLocals(v ssa.Value, target ssa.Value, fn *ssa.Function) bool {
	return dependsOn(v, func(x ssa.Value) bool {
		if x == target {
			return true
		}
		if al, ok := x.(*ssa.Alloc); ok {
			for _, blk := range fn.Blocks {
				for _, in := range blk.Instrs {
					if st, ok := in.(*ssa.Store); ok && rootLocal(st.Addr) == al && st.Val == target {
						return true
					}
				}
			}
		}
		return false
	})
}

// R-TAGUSE — the wire type of a protobuf struct tag selects the codec for every field shape it
// applies to.
func init() {
	Register(&Rule{
		ID:    "R-TAGUSE",
		Doc:   "proto.fixedCodecOf maps (Fixed32, uint32|int32|float32) and (Fixed64, uint64|int64|float64) to the 4- and 8-byte codecs (joint dataflow of the possible wire types and kinds to each returned codec); structCodecOf consults it for the field's base kind and for the element kind of a repeated field; the repeated-field compiler is only reached when the field's own kind is Slice",
		Props: []string{"C12", "C03", "C07"},
		Min:   map[string]int{"C12": 8, "C03": 8},
		Run:   runTagUse,
	})
}

func protoConst(c *core.Ctx, name string) (int64, bool) {
	pp := c.Pkg("proto")
	if pp == nil {
		return 0, false
	}
	k, _ := pp.Types.Scope().Lookup(name).(*types.Const)
	if k == nil {
		return 0, false
	}
	v, ok := constantUint(k)
	return int64(v), ok
}

func runTagUse(c *core.Ctx) []core.Obligation {
	b := newOb(c, "R-TAGUSE")
	props := []string{"C12", "C03"}
	fx32, ok1 := protoConst(c, "Fixed32")
	fx64, ok2 := protoConst(c, "Fixed64")
	fn := c.Lookup("proto.fixedCodecOf")
	if fn == nil || !ok1 || !ok2 {
		b.addP(props, core.Undecided, "taguse:table", "-", "proto.fixedCodecOf or the Fixed32/Fixed64 constants not found")
	} else {
		var kindP, wireP *ssa.Parameter
		for _, p := range fn.Params {
			if isKindValue(p) {
				kindP = p
			} else if strings.HasSuffix(typeShort(p.Type()), "WireType") {
				wireP = p
			}
		}
		covered := map[[2]int64]string{}
		if kindP != nil && wireP != nil {
			kf := kindFlow(fn, kindP)
			wf := constFlow(fn, wireP, []int64{fx32, fx64})
			for _, r := range returnsOf(fn) {
				if len(r.Results) != 1 {
					continue
				}
				g, ok := r.Results[0].(*ssa.Global)
				if !ok {
					continue
				}
				ks, ws := kf[r.Block()], wf[r.Block()]
				for wi, w := range []int64{fx32, fx64} {
					if ws&(1<<uint(wi)) == 0 || popcount(ws) != 1 {
						continue
					}
					for k := int64(0); k < 27; k++ {
						if ks&(1<<uint(k)) != 0 && popcount(uint32(ks)) <= 4 {
							covered[[2]int64{w, k}] = g.Name()
						}
					}
				}
			}
		}
		for _, want := range []struct {
			wire  int64
			wname string
			kind  int64
			codec string
		}{
			{fx32, "fixed32", 10, "fixed32Codec"}, {fx32, "fixed32", 5, "fixed32Codec"}, {fx32, "fixed32", 13, "float32Codec"},
			{fx64, "fixed64", 11, "fixed64Codec"}, {fx64, "fixed64", 6, "fixed64Codec"}, {fx64, "fixed64", 14, "float64Codec"},
		} {
			key := fmt.Sprintf("taguse:table:%s:%s", want.wname, kindNames[want.kind])
			got := covered[[2]int64{want.wire, want.kind}]
			switch {
			case got == want.codec:
				b.addP(props, core.Discharged, key, c.FuncPos(fn), "selects "+got)
			case got == "":
				b.addP(props, core.Violation, key, c.FuncPos(fn), fmt.Sprintf("a %s tag on a field of kind %s selects no fixed-width codec: the field silently falls back to the default (varint) encoding, which a standard decoder rejects for a %s field", want.wname, kindNames[want.kind], want.wname))
			default:
				b.addP(props, core.Violation, key, c.FuncPos(fn), fmt.Sprintf("a %s tag on a field of kind %s selects %s, expected %s", want.wname, kindNames[want.kind], got, want.codec))
			}
		}
	}
	sc := c.Lookup("proto.structCodecOf")
	if sc == nil {
		b.addP(props, core.Undecided, "taguse:consulted", "-", "proto.structCodecOf not found")
		return b.out
	}
	scalar, elem := false, false
	var sliceCalls []ssa.CallInstruction
	for _, ci := range callsIn(sc) {
		f := staticCallee(ci.Common())
		if f == nil {
			continue
		}
		switch f.Name() {
		case "fixedCodecOf":
			if len(ci.Common().Args) == 2 {
				for _, o := range origins(ci.Common().Args[0]) {
					call, ok := o.(*ssa.Call)
					if !ok {
						continue
					}
					if g := staticCallee(call.Common()); g != nil && g.Name() == "baseKindOf" {
						scalar = true
					}
					if call.Common().IsInvoke() && call.Common().Method.Name() == "Kind" {
						// elem.Kind() where elem = f.Type.Elem()
						for _, o2 := range origins(call.Common().Value) {
							if c2, ok := o2.(*ssa.Call); ok && c2.Common().IsInvoke() && c2.Common().Method.Name() == "Elem" {
								elem = true
							}
						}
					}
				}
			}
		case "sliceCodecOf":
			sliceCalls = append(sliceCalls, ci)
		}
	}
	if scalar {
		b.addP(props, core.Discharged, "taguse:consulted:scalar", c.FuncPos(sc), "the tag's wire type selects the codec of scalar fields")
	} else {
		b.addP(props, core.Violation, "taguse:consulted:scalar", c.FuncPos(sc), "structCodecOf does not consult the tag's wire type for scalar fields: fixed32/fixed64 tags are ignored")
	}
	if elem {
		b.addP(props, core.Discharged, "taguse:consulted:repeated", c.FuncPos(sc), "the tag's wire type selects the element codec of repeated fields")
	} else {
		b.addP(props, core.Violation, "taguse:consulted:repeated", c.FuncPos(sc), "structCodecOf does not consult the tag's wire type for the elements of a repeated field: []uint32 tagged fixed32 is written with varint elements, which a standard decoder rejects")
	}
	// the repeated-field compiler is reached only for fields whose own kind is Slice
	for i, ci := range sliceCalls {
		key := "taguse:slice-own-kind"
		if i > 0 {
			key = fmt.Sprintf("%s#%d", key, i+1)
		}
		own := false
		for _, blk := range sc.Blocks {
			for _, in := range blk.Instrs {
				call, ok := in.(*ssa.Call)
				if !ok || !call.Common().IsInvoke() || call.Common().Method.Name() != "Kind" {
					continue
				}
				if f, ok := fieldOfLoad(call.Common().Value); !ok || !strings.HasSuffix(f, "StructField.Type") {
					continue
				}
				if set := kindFlow(sc, call)[ci.Block()]; set == 1<<23 {
					own = true
				}
			}
		}
		if own {
			b.addP(append(append([]string{}, props...), "C07"), core.Discharged, key, c.InstrPos(ci), "sliceCodecOf is reached only where f.Type.Kind() == Slice")
		} else {
			b.addP(append(append([]string{}, props...), "C07"), core.Violation, key, c.InstrPos(ci), "sliceCodecOf is reached on the strength of the base kind alone: a field of type *[]T (a pointer) is compiled as a repeated field and its memory read as a slice header (SIGSEGV)")
		}
	}
	if len(sliceCalls) == 0 {
		b.addP(append(append([]string{}, props...), "C07"), core.Undecided, "taguse:slice-own-kind", c.FuncPos(sc), "no call of sliceCodecOf found in structCodecOf")
	}
	return b.out
}

// R-THRIFTTYPE — the thrift type announced in a field header is the type of the payload that the
// field's codec writes: in particular enum fields, whose codec is the i32 codec whatever the Go
// integer type, are announced as I32 by both the struct encoder and the struct decoder.
func init() {
	Register(&Rule{
		ID:    "R-THRIFTTYPE",
		Doc:   "in the struct encoder and decoder compilers of thrift, the value stored in the field descriptor's typ comes from a function that, like the codec selector (encode/decodeFuncStructFieldOf), tests the enum flag and returns the constant I32 on that branch; the codec selected on the same branch is the 32-bit one (calls WriteInt32 / ReadInt32)",
		Props: []string{"C08", "C04", "C13"},
		Min:   map[string]int{"C08": 4, "C04": 4, "C13": 4},
		Run:   runThriftType,
	})
}

func thriftConst(c *core.Ctx, name string) (int64, bool) {
	pp := c.Pkg("thrift")
	if pp == nil {
		return 0, false
	}
	k, _ := pp.Types.Scope().Lookup(name).(*types.Const)
	if k == nil {
		return 0, false
	}
	v, ok := constantUint(k)
	return int64(v), ok
}

// underEnumFlag: blk is dominated by the true edge of flags.have(enum).
func underEnumFlag(blk *ssa.BasicBlock, enumBit int64) bool {
	for _, cond := range trueAtoms(blk, 0) {
		call, ok := cond.(*ssa.Call)
		if !ok {
			continue
		}
		if f := staticCallee(call.Common()); f != nil && f.Name() == "have" && len(call.Common().Args) == 2 {
			if k, ok := constInt(call.Common().Args[1]); ok && k == enumBit {
				return true
			}
		}
	}
	return false
}

func runThriftType(c *core.Ctx) []core.Obligation {
	b := newOb(c, "R-THRIFTTYPE")
	props := []string{"C08", "C04", "C13"}
	i32, ok1 := thriftConst(c, "I32")
	enumBit, ok2 := thriftConst(c, "enum")
	if !ok1 || !ok2 {
		b.addP(props, core.Undecided, "thrifttype", "-", "thrift.I32 / thrift.enum constants not found")
		return b.out
	}
	for _, side := range []struct {
		name, desc, selector, prim string
	}{
		{"writer", "structEncoderField", "encodeFuncStructFieldOf", "WriteInt32"},
		{"reader", "structDecoderField", "decodeFuncStructFieldOf", "ReadInt32"},
	} {
		// 1. the typ stored in the descriptor
		key := "thrifttype:enum:announced-as-i32:" + side.name
		var typFn *ssa.Function
		var at ssa.Instruction
		for _, fn := range c.RepoFunctions() {
			if !strings.HasPrefix(shortName(fn), "thrift.") {
				continue
			}
			for _, blk := range fn.Blocks {
				for _, in := range blk.Instrs {
					st, ok := in.(*ssa.Store)
					if !ok {
						continue
					}
					fa, ok := st.Addr.(*ssa.FieldAddr)
					if !ok || fieldNameOf(fa) != "typ" || !strings.HasSuffix(typeShort(fa.X.Type()), side.desc) {
						continue
					}
					at = st
					if call, ok := st.Val.(*ssa.Call); ok {
						typFn = staticCallee(call.Common())
					}
				}
			}
		}
		switch {
		case at == nil:
			b.addP(props, core.Undecided, key, "-", "no store to "+side.desc+".typ found")
		case typFn == nil || typFn.Blocks == nil:
			b.addP(props, core.Violation, key, c.InstrPos(at), side.desc+".typ is not computed by a repository function: cannot see an enum case")
		default:
			okEnum := false
			for _, r := range returnsOf(typFn) {
				if len(r.Results) == 1 {
					if k, isK := constInt(r.Results[0]); isK && k == i32 && underEnumFlag(r.Block(), enumBit) {
						okEnum = true
					}
				}
			}
			if okEnum {
				b.addP(props, core.Discharged, key, c.InstrPos(at), fmt.Sprintf("%s returns I32 under flags.have(enum)", shortName(typFn)))
			} else {
				b.addP(props, core.Violation, key, c.InstrPos(at), fmt.Sprintf("the type announced for a field (%s) has no enum case returning I32, while the field's codec writes enums as 32-bit integers: a reader that skips the field by its announced type (I8, I64) consumes the wrong number of bytes and loses the fields that follow", shortName(typFn)))
			}
		}
		// 2. the codec selected under the enum flag is the 32-bit one
		key2 := "thrifttype:enum:codec-is-i32:" + side.name
		sel := c.Lookup("thrift." + side.selector)
		if sel == nil {
			b.addP(props, core.Undecided, key2, "-", "thrift."+side.selector+" not found")
			continue
		}
		good, n := true, 0
		for _, r := range returnsOf(sel) {
			if len(r.Results) != 1 || !underEnumFlag(r.Block(), enumBit) {
				continue
			}
			rv := r.Results[0]
			if ct, ok := rv.(*ssa.ChangeType); ok {
				rv = ct.X
			}
			f, ok := rv.(*ssa.Function)
			if !ok {
				continue
			}
			n++
			calls := false
			for _, ci := range callsIn(realFunc(c, f)) {
				if ci.Common().IsInvoke() && ci.Common().Method.Name() == side.prim {
					calls = true
				}
			}
			if !calls {
				good = false
			}
		}
		switch {
		case n == 0:
			b.addP(props, core.Undecided, key2, c.FuncPos(sel), "no codec is returned under flags.have(enum)")
		case good:
			b.addP(props, core.Discharged, key2, c.FuncPos(sel), "the enum codec calls "+side.prim)
		default:
			b.addP(props, core.Violation, key2, c.FuncPos(sel), "the codec selected for enum fields does not call "+side.prim+": its payload is not the i32 that the field header announces")
		}
	}
	// 3. the three places that special-case enum fields do so for the same kinds: the announced
	// type (typeOfStructField), the writer's codec and the reader's codec
	kindsOf := func(fnKey string) (kset, *ssa.Function) {
		fn := c.Lookup(fnKey)
		if fn == nil {
			return 0, nil
		}
		var set kset
		for _, blk := range fn.Blocks {
			for _, in := range blk.Instrs {
				call, ok := in.(*ssa.Call)
				if !ok || call.Common().Method == nil || call.Common().Method.Name() != "Kind" {
					continue
				}
				flow := kindFlow(fn, call)
				for _, r := range returnsOf(fn) {
					if !underEnumFlag(r.Block(), enumBit) || len(r.Results) != 1 {
						continue
					}
					special := false
					if k, isK := constInt(r.Results[0]); isK && k == i32 {
						special = true
					}
					rv := r.Results[0]
					if ct, ok := rv.(*ssa.ChangeType); ok {
						rv = ct.X
					}
					if _, isF := rv.(*ssa.Function); isF {
						special = true
					}
					if special && flow[r.Block()] != allKinds {
						set |= flow[r.Block()]
					}
				}
			}
		}
		return set, fn
	}
	kt, f1 := kindsOf("thrift.typeOfStructField")
	kw, f2 := kindsOf("thrift.encodeFuncStructFieldOf")
	kr, f3 := kindsOf("thrift.decodeFuncStructFieldOf")
	key3 := "thrifttype:enum:same-kinds"
	names := func(s kset) string {
		var out []string
		for k := int64(1); k < 27; k++ {
			if s&(1<<uint(k)) != 0 {
				out = append(out, kindNames[k])
			}
		}
		return strings.Join(out, ",")
	}
	switch {
	case f1 == nil || f2 == nil || f3 == nil:
		b.addP(props, core.Undecided, key3, "-", "typeOfStructField / encodeFuncStructFieldOf / decodeFuncStructFieldOf not found")
	case kt == 0 || kw == 0 || kr == 0:
		b.addP(props, core.Undecided, key3, c.FuncPos(f1), "the kinds under which enum fields are special-cased could not be extracted")
	case kt != kw || kw != kr:
		b.addP(props, core.Violation, key3, c.FuncPos(f2), fmt.Sprintf("enum fields are announced as I32 for kinds {%s}, written as 32 bits for {%s} and read as 32 bits for {%s}: for a kind in one set but not another the writer emits a payload of a different width than the header announces and the reader consumes, and everything after that field is misread", names(kt), names(kw), names(kr)))
	default:
		b.addP(props, core.Discharged, key3, c.FuncPos(f2), "announced type, writer codec and reader codec special-case enums for the same kinds {"+names(kt)+"}")
	}

	return b.out
}
