package rules

import (
	"fmt"
	"go/token"
	"go/types"
	"sort"
	"strings"

	"golang.org/x/tools/go/ssa"

	"verif/checker/core"
)

// R-OFFSET — provenance of the offsets added to unsafe pointers. The codecs reach struct fields,
// array elements and the halves of proto's scratch {Key, Elem} pair by pointer arithmetic; the
// layout is the compiler's (reflect's), padding included, so every offset must come from a layout
// query: a StructField.Offset (sums of them for nested structs), an index scaled by an element
// size, or a constant. The size of a sibling used as an offset ("the value is laid out right
// after the key") ignores alignment and addresses padding for map[int32]int64.
func init() {
	Register(&Rule{
		ID:    "R-OFFSET",
		Doc:   "every unsafe.Pointer(uintptr(p)+off) in json, proto and internal/runtime_reflect: off is traced backwards through conversions, φ, sums, struct fields of the repository (to every store into the field), parameters (to the arguments at every call site of the VTA call graph), captured variables (to the closure's bindings) and package variables (to their stores); the leaves must be reflect.StructField.Offset, a product with a Size()/Sizeof factor, or a constant; a bare Size() leaf is a violation, any other leaf is undecided",
		Props: []string{"C01", "C02", "C03", "C06", "C07"},
		Min:   map[string]int{"C01": 3, "C02": 4, "C03": 2},
		Run:   runOffset,
	})
}

type offTracer struct {
	c       *core.Ctx
	seen    map[ssa.Value]bool
	seenFld map[string]bool
	stores  map[string][]ssa.Value // field id -> stored values (repo-wide)
	gstores map[*ssa.Global][]ssa.Value
	astores map[*ssa.Alloc][]ssa.Value
	closers map[*ssa.Function][]*ssa.MakeClosure
	leaves  map[string]bool
}

func newOffTracer(c *core.Ctx) *offTracer {
	t := &offTracer{c: c, stores: map[string][]ssa.Value{}, gstores: map[*ssa.Global][]ssa.Value{}, astores: map[*ssa.Alloc][]ssa.Value{}, closers: map[*ssa.Function][]*ssa.MakeClosure{}}
	for fn := range c.AllFunctions() {
		if !c.InRepo(fn) || fn.Blocks == nil {
			continue
		}
		for _, blk := range fn.Blocks {
			for _, in := range blk.Instrs {
				switch x := in.(type) {
				case *ssa.Store:
					switch a := x.Addr.(type) {
					case *ssa.FieldAddr:
						t.stores[fieldAddrID(a)] = append(t.stores[fieldAddrID(a)], x.Val)
					case *ssa.Global:
						t.gstores[a] = append(t.gstores[a], x.Val)
					case *ssa.Alloc:
						t.astores[a] = append(t.astores[a], x.Val)
					}
				case *ssa.MakeClosure:
					if f, ok := x.Fn.(*ssa.Function); ok {
						t.closers[f] = append(t.closers[f], x)
					}
				}
			}
		}
	}
	return t
}

func (t *offTracer) trace(v ssa.Value, depth int) {
	if depth > 40 {
		t.leaves["other:depth"] = true
		return
	}
	if t.seen[v] {
		return
	}
	t.seen[v] = true
	switch x := v.(type) {
	case *ssa.Const:
		t.leaves["const"] = true
	case *ssa.Convert:
		t.trace(x.X, depth+1)
	case *ssa.ChangeType:
		t.trace(x.X, depth+1)
	case *ssa.Phi:
		for _, e := range x.Edges {
			t.trace(e, depth+1)
		}
	case *ssa.BinOp:
		switch x.Op {
		case token.ADD:
			t.trace(x.X, depth+1)
			t.trace(x.Y, depth+1)
		case token.QUO, token.REM, token.SUB:
			t.trace(x.X, depth+1)
			t.trace(x.Y, depth+1)
		case token.MUL:
			// index × element size: one factor must be a size, the other is free
			sized := false
			var all []string
			for _, f := range []ssa.Value{x.X, x.Y} {
				sub := &offTracer{c: t.c, seen: map[ssa.Value]bool{}, seenFld: map[string]bool{}, stores: t.stores, gstores: t.gstores, astores: t.astores, closers: t.closers, leaves: map[string]bool{}}
				sub.trace(f, depth+1)
				if sub.leaves["size"] || sub.leaves["scaled"] {
					sized = true
				}
				for l := range sub.leaves {
					all = append(all, l)
				}
			}
			if sized {
				t.leaves["scaled"] = true
			} else {
				sort.Strings(all)
				t.leaves["other:product without a size factor ("+strings.Join(all, ",")+")"] = true
			}
		case token.AND_NOT, token.AND:
			// (size + align - 1) &^ (align - 1): a size rounded up to the next member's alignment
			// is where that member starts
			sub := &offTracer{c: t.c, seen: map[ssa.Value]bool{}, seenFld: map[string]bool{}, stores: t.stores, gstores: t.gstores, astores: t.astores, closers: t.closers, leaves: map[string]bool{}}
			sub.trace(x.X, depth+1)
			sub.trace(x.Y, depth+1)
			if sub.leaves["alignment"] {
				t.leaves["rounded-to-alignment"] = true
			} else {
				t.leaves["other:"+x.Op.String()+" without an alignment operand"] = true
			}
		default:
			t.leaves["other:"+x.Op.String()] = true
		}
	case *ssa.Field: // field of a struct value (e.g. t.Field(1).Offset)
		st, _ := x.X.Type().Underlying().(*types.Struct)
		if st != nil && st.Field(x.Field).Name() == "Offset" && strings.HasSuffix(x.X.Type().String(), "reflect.StructField") {
			t.leaves["field-offset"] = true
		} else {
			t.leaves["other:field "+st.Field(x.Field).Name()] = true
		}
	case *ssa.UnOp:
		if x.Op != token.MUL {
			t.leaves["other:"+x.Op.String()] = true
			return
		}
		switch a := x.X.(type) {
		case *ssa.FieldAddr:
			id := fieldAddrID(a)
			if id == "reflect.StructField.Offset" {
				t.leaves["field-offset"] = true
				return
			}
			if t.seenFld[id] {
				return
			}
			t.seenFld[id] = true
			if len(t.stores[id]) == 0 {
				t.leaves["other:field "+id+" never stored"] = true
			}
			for _, sv := range t.stores[id] {
				t.trace(sv, depth+1)
			}
		case *ssa.Global:
			if len(t.gstores[a]) == 0 {
				t.leaves["other:global "+a.Name()] = true
			}
			for _, sv := range t.gstores[a] {
				t.trace(sv, depth+1)
			}
		case *ssa.Alloc:
			for _, sv := range t.astores[a] {
				t.trace(sv, depth+1)
			}
		case *ssa.FreeVar: // variable captured by reference
			t.traceFreeVar(a, depth, true)
		default:
			t.leaves["other:load"] = true
		}
	case *ssa.FreeVar:
		t.traceFreeVar(x, depth, false)
	case *ssa.Parameter:
		fn := x.Parent()
		idx := -1
		for i, p := range fn.Params {
			if p == x {
				idx = i
			}
		}
		node := t.c.CallGraph().Nodes[fn]
		n := 0
		if node != nil {
			for _, e := range node.In {
				if e.Site == nil {
					continue
				}
				args := e.Site.Common().Args
				if e.Site.Common().IsInvoke() {
					continue
				}
				if idx < len(args) {
					n++
					t.trace(args[idx], depth+1)
				}
			}
		}
		if n == 0 && fn.Synthetic != "" {
			return // a wrapper nobody calls contributes no value
		}
		if n == 0 {
			t.leaves["other:parameter "+x.Name()+" of "+shortName(fn)+" has no caller"] = true
		}
	case *ssa.Call:
		name := ""
		if x.Common().Method != nil {
			name = x.Common().Method.Name()
		} else if f := staticCallee(x.Common()); f != nil {
			name = f.Name()
		}
		switch name {
		case "Size":
			t.leaves["size"] = true
		case "Align", "FieldAlign":
			t.leaves["alignment"] = true
		case "Len":
			if x.Common().IsInvoke() && strings.HasSuffix(x.Common().Value.Type().String(), "reflect.Type") {
				t.leaves["array-len"] = true
			} else {
				t.leaves["other:call Len"] = true
			}
		case "Offsetof":
			t.leaves["field-offset"] = true
		default:
			if f := staticCallee(x.Common()); f != nil && t.c.InRepo(f) && f.Blocks != nil && f.Signature.Results().Len() == 1 {
				for _, blk := range f.Blocks {
					if ret, ok := blk.Instrs[len(blk.Instrs)-1].(*ssa.Return); ok {
						t.trace(ret.Results[0], depth+1)
					}
				}
				return
			}
			t.leaves["other:call "+name] = true
		}
	case *ssa.Extract:
		t.leaves["other:tuple"] = true
	default:
		t.leaves[fmt.Sprintf("other:%T", v)] = true
	}
}

func (t *offTracer) traceFreeVar(fv *ssa.FreeVar, depth int, byRef bool) {
	fn := fv.Parent()
	idx := -1
	for i, f := range fn.FreeVars {
		if f == fv {
			idx = i
		}
	}
	if len(t.closers[fn]) == 0 || idx < 0 {
		t.leaves["other:captured "+fv.Name()] = true
		return
	}
	for _, mc := range t.closers[fn] {
		bind := mc.Bindings[idx]
		if byRef {
			if a, ok := bind.(*ssa.Alloc); ok {
				for _, sv := range t.astores[a] {
					t.trace(sv, depth+1)
				}
				continue
			}
			if outer, ok := bind.(*ssa.FreeVar); ok {
				t.traceFreeVar(outer, depth+1, true)
				continue
			}
			t.leaves["other:captured "+fv.Name()] = true
			continue
		}
		t.trace(bind, depth+1)
	}
}

// domEdgeOf: the branch edge pred -> succ itself, when pred ends in an If.
func domEdgeOf(pred, succ *ssa.BasicBlock) []domEdge {
	if len(pred.Instrs) == 0 {
		return nil
	}
	ifi, ok := pred.Instrs[len(pred.Instrs)-1].(*ssa.If)
	if !ok {
		return nil
	}
	var out []domEdge
	for i, s := range pred.Succs {
		if s == succ && pred.Succs[1-i] != succ {
			out = append(out, domEdge{ifi, i})
		}
	}
	return out
}

func runOffset(c *core.Ctx) []core.Obligation {
	b := newOb(c, "R-OFFSET")
	tr := newOffTracer(c)
	type site struct {
		fn  *ssa.Function
		add *ssa.BinOp
		off ssa.Value
	}
	var sites []site
	for _, fn := range c.RepoFunctions() {
		if fn.Blocks == nil {
			continue
		}
		for _, blk := range fn.Blocks {
			for _, in := range blk.Instrs {
				cv, ok := in.(*ssa.Convert)
				if !ok || cv.Type().String() != "unsafe.Pointer" {
					continue
				}
				add, ok := cv.X.(*ssa.BinOp)
				if !ok || add.Op != token.ADD {
					continue
				}
				isPtr := func(v ssa.Value) bool {
					c2, ok := v.(*ssa.Convert)
					return ok && c2.X.Type().String() == "unsafe.Pointer"
				}
				switch {
				case isPtr(add.X):
					sites = append(sites, site{fn, add, add.Y})
				case isPtr(add.Y):
					sites = append(sites, site{fn, add, add.X})
				}
			}
		}
	}
	sort.Slice(sites, func(i, j int) bool { return sites[i].add.Pos() < sites[j].add.Pos() })
	count := map[string]int{}
	for _, s := range sites {
		name := shortName(s.fn)
		count[name]++
		key := "offset:" + name
		if count[name] > 1 {
			key += fmt.Sprintf("#%d", count[name])
		}
		var props []string
		switch {
		case s.fn.Pkg != nil && s.fn.Pkg.Pkg.Name() == "json" && strings.Contains(strings.ToLower(name), "encod"):
			props = []string{"C01"}
		case s.fn.Pkg != nil && s.fn.Pkg.Pkg.Name() == "json":
			props = []string{"C02"}
		default:
			props = []string{"C03", "C07"}
		}
		tr.seen, tr.seenFld, tr.leaves = map[ssa.Value]bool{}, map[string]bool{}, map[string]bool{}
		tr.trace(s.off, 0)
		var ls, others []string
		for l := range tr.leaves {
			ls = append(ls, l)
			if strings.HasPrefix(l, "other:") {
				others = append(others, l)
			}
		}
		sort.Strings(ls)
		sort.Strings(others)
		pos := c.InstrPos(s.add)
		switch {
		case tr.leaves["size"]:
			b.addP(props, core.Violation, key, pos, name+": the offset added to the pointer can be the bare size of a type (not scaled by an index): where the next member starts is decided by its alignment, not by the size of the one before it — for a narrower key than the value's alignment the pointer addresses padding")
		case len(others) > 0:
			b.addP(props, core.Undecided, key, pos, name+": the offset added to the pointer does not trace back to a layout query: "+strings.Join(others, ", "))
		case len(ls) == 0:
			b.addP(props, core.Undecided, key, pos, name+": no source found for the offset")
		default:
			b.addP(props, core.Discharged, key, pos, "offset comes from "+strings.Join(ls, " + "))
		}
	}
	// the base of the arithmetic: a pointer that was itself loaded from memory in this function
	// (the embedded struct pointer of a promoted field) may be nil; adding an offset to nil and
	// dereferencing the result faults. It must have been tested, or replaced by a fresh
	// allocation, on every path to the addition.
	cnt := map[string]int{}
	for _, s := range sites {
		var basePtr ssa.Value
		for _, op := range []ssa.Value{s.add.X, s.add.Y} {
			if cv, ok := op.(*ssa.Convert); ok && cv.X.Type().String() == "unsafe.Pointer" {
				basePtr = cv.X
			}
		}
		if basePtr == nil {
			continue
		}
		loaded := false
		var loads []ssa.Value
		for _, o := range origins(basePtr) {
			if ld, ok := o.(*ssa.UnOp); ok && ld.Op == token.MUL && ld.Type().String() == "unsafe.Pointer" {
				loaded = true
				loads = append(loads, ld)
			}
		}
		if !loaded {
			continue
		}
		// element i of a slice's backing array is another matter (bounded by len/cap)
		tr.seen, tr.seenFld, tr.leaves = map[ssa.Value]bool{}, map[string]bool{}, map[string]bool{}
		tr.trace(s.off, 0)
		if tr.leaves["scaled"] {
			continue
		}
		name := shortName(s.fn)
		cnt[name]++
		key := "offset-base-non-nil:" + name
		if cnt[name] > 1 {
			key += fmt.Sprintf("#%d", cnt[name])
		}
		props := []string{"C06"}
		tested := false
		for _, e := range dominatingEdges(s.add.Block()) {
			bo, ok := e.ifi.Cond.(*ssa.BinOp)
			if !ok || !(isNilConst(bo.X) || isNilConst(bo.Y)) {
				continue
			}
			other := bo.X
			if isNilConst(bo.X) {
				other = bo.Y
			}
			for _, ld := range loads {
				if other == ld || other == basePtr {
					if (bo.Op == token.EQL && e.succ == 1) || (bo.Op == token.NEQ && e.succ == 0) {
						tested = true
					}
				}
			}
		}
		// φ(loaded non-nil, fresh allocation): the nil case was replaced
		if phi, ok := basePtr.(*ssa.Phi); ok && !tested {
			allOK := true
			for i, e := range phi.Edges {
				pred := phi.Block().Preds[i]
				isLoad := false
				for _, ld := range loads {
					if e == ld {
						isLoad = true
					}
				}
				if !isLoad {
					continue // a fresh value
				}
				okEdge := false
				for _, de := range append(dominatingEdges(pred), domEdgeOf(pred, phi.Block())...) {
					bo, isB := de.ifi.Cond.(*ssa.BinOp)
					if !isB || !(isNilConst(bo.X) || isNilConst(bo.Y)) {
						continue
					}
					other := bo.X
					if isNilConst(bo.X) {
						other = bo.Y
					}
					if other == e && ((bo.Op == token.EQL && de.succ == 1) || (bo.Op == token.NEQ && de.succ == 0)) {
						okEdge = true
					}
				}
				if !okEdge {
					allOK = false
				}
			}
			tested = allOK
		}
		if tested {
			b.addP(props, core.Discharged, key, c.InstrPos(s.add), "the loaded pointer is tested (or replaced) before the offset is added")
		} else {
			b.addP(props, core.Violation, key, c.InstrPos(s.add), name+" adds an offset to a pointer it has just loaded from memory without testing it for nil: for a nil embedded struct pointer the result is a small invalid address, and the access through it faults (a nil-dereference panic, or an unrecoverable fault for a large offset)")
		}
	}
	if len(sites) == 0 {
		b.addP([]string{"C01", "C02", "C03"}, core.Undecided, "offset:-", "-", "no pointer arithmetic found")
	}
	return b.out
}
