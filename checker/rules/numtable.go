package rules

import (
	"fmt"
	"go/constant"
	"go/token"
	"strings"

	"golang.org/x/tools/go/ssa"

	"verif/checker/core"
)

// R-NUMTABLE — the decision table of json's dynamic number decoding. decodeDynamicNumber chooses
// the Go type of a number stored in an interface from the number's kind and four flags. The
// function's branch structure is evaluated over its whole finite abstract input space —
// 6 value classes (kind × which integer types the value fits) × 16 flag subsets — and the type of
// the value it ends up storing is compared with the documented precedence:
// UseUint64 > UseInt64 > UseBigInt > UseNumber > float64, each applying only where the value fits.
func init() {
	Register(&Rule{
		ID:    "R-NUMTABLE",
		Doc:   "exhaustive evaluation of decodeDynamicNumber's control flow over kind ∈ {Uint, Int, Float} × range class × the 16 subsets of {UseUint64, UseInt64, UseBigInt, UseNumber}: conditions are kind comparisons, anyFlagsSet(constant) and nil tests of the error of decodeInto[T], whose outcome is fixed by the class (T holds the value or not); the type stored on the returning path must be the one the flag documentation gives; any other condition makes the verdict undecided",
		Props: []string{"C14", "C02"},
		Min:   map[string]int{"C14": 6, "C02": 6},
		Run:   runNumTable,
	})
}

type numClass struct {
	name string
	kind string // Uint | Int | Float
	fits map[string]bool
}

var numClasses = []numClass{
	{"uint-fits-int64", "Uint", map[string]bool{"uint64": true, "int64": true, "big.Int": true}},
	{"uint-above-int64", "Uint", map[string]bool{"uint64": true, "big.Int": true}},
	{"uint-above-uint64", "Uint", map[string]bool{"big.Int": true}},
	{"negative-fits-int64", "Int", map[string]bool{"int64": true, "big.Int": true}},
	{"negative-below-int64", "Int", map[string]bool{"big.Int": true}},
	{"float", "Float", map[string]bool{}},
}

func numExpected(cl numClass, u64, i64, big, num bool) string {
	switch {
	case u64 && cl.fits["uint64"]:
		return "uint64"
	case i64 && cl.fits["int64"]:
		return "int64"
	case big && cl.fits["big.Int"]:
		return "big.Int"
	case num:
		return "Number"
	}
	return "float64"
}

func runNumTable(c *core.Ctx) []core.Obligation {
	b := newOb(c, "R-NUMTABLE", "C14", "C02")
	fn := c.Lookup("json.(decoder).decodeDynamicNumber")
	if fn == nil {
		b.und("number-result", "-", "json.(decoder).decodeDynamicNumber not found")
		return b.out
	}
	flagNames := []string{"UseUint64", "UseInt64", "UseBigInt", "UseNumber"}
	var flagVals [4]uint64
	for i, n := range flagNames {
		flagVals[i] = jsonConst(c, n)
		if flagVals[i] == 0 {
			b.und("number-result", "-", "json."+n+" not found")
			return b.out
		}
	}
	kindVal := map[string]int64{}
	for _, k := range []string{"Uint", "Int", "Float"} {
		kindVal[k] = int64(jsonConst(c, k))
	}
	for _, cl := range numClasses {
		key := "number-result:" + cl.name
		problem, und := "", ""
		for mask := 0; mask < 16 && problem == "" && und == ""; mask++ {
			var flags uint64
			var on [4]bool
			var names []string
			for i := range flagVals {
				if mask&(1<<uint(i)) != 0 {
					flags |= flagVals[i]
					on[i] = true
					names = append(names, flagNames[i])
				}
			}
			want := numExpected(cl, on[0], on[1], on[2], on[3])
			got, errNil, why := evalNumTable(fn, cl, kindVal, flags)
			fl := strings.Join(names, "|")
			if fl == "" {
				fl = "no flag"
			}
			switch {
			case why != "":
				und = fmt.Sprintf("with %s: %s", fl, why)
			case !errNil:
				problem = fmt.Sprintf("with %s a %s number makes decodeDynamicNumber return the error of decodeInto[%s] instead of falling back to %s", fl, cl.name, got, want)
			case got != want:
				problem = fmt.Sprintf("with %s a %s number is stored as %s; the documented precedence (UseUint64 > UseInt64 > UseBigInt > UseNumber > float64, each only where the value fits) gives %s", fl, cl.name, got, want)
			}
		}
		switch {
		case und != "":
			b.und(key, c.FuncPos(fn), "decodeDynamicNumber cannot be evaluated "+und)
		case problem != "":
			b.bad(key, c.FuncPos(fn), problem)
		default:
			b.ok(key, c.FuncPos(fn), "all 16 flag subsets give the documented type for a "+cl.name+" number")
		}
	}
	// the table above is the only decision: decodeInterface hands every number to
	// decodeDynamicNumber and decodes none itself (a float64 shortcut guarded by a flag mask that
	// forgets one of the four flags gives that flag's numbers the wrong type)
	if di := c.Lookup("json.(decoder).decodeInterface"); di != nil {
		key := "number-result:single-entry"
		bad := ""
		through := false
		for _, ci := range callsIn(di) {
			f := staticCallee(ci.Common())
			if f == nil {
				continue
			}
			switch f.Name() {
			case "decodeDynamicNumber":
				through = true
			case "decodeFloat64", "decodeFloat32", "decodeInt64", "decodeUint64", "decodeInt", "decodeUint", "decodeNumber", "parseFloat", "ParseFloat":
				bad = f.Name() + " at " + c.InstrPos(ci)
			}
		}
		switch {
		case bad != "":
			b.bad(key, c.FuncPos(di), "decodeInterface decodes a number itself ("+bad+") instead of leaving the choice of its Go type to decodeDynamicNumber: the flags that the shortcut's guard does not mention no longer select their type (with UseBigInt alone, integers in an interface become float64)")
		case !through:
			b.und(key, c.FuncPos(di), "decodeInterface does not call decodeDynamicNumber")
		default:
			b.ok(key, c.FuncPos(di), "numbers stored in an interface are all typed by decodeDynamicNumber")
		}
	} else {
		b.und("number-result:single-entry", "-", "json.(decoder).decodeInterface not found")
	}
	return b.out
}

// evalNumTable walks fn for one abstract input. Returns the type argument of the last decodeInto
// call on the path, whether the returned error is nil, and a reason when a condition is not one of
// the recognised forms.
func evalNumTable(fn *ssa.Function, cl numClass, kindVal map[string]int64, flags uint64) (string, bool, string) {
	type val struct {
		known bool
		i     int64 // kinds, bools (0/1), errors (0 = nil, 1 = non-nil)
	}
	env := map[ssa.Value]val{}
	get := func(v ssa.Value) val {
		if k, ok := v.(*ssa.Const); ok {
			if k.Value == nil {
				return val{true, 0} // nil
			}
			switch k.Value.Kind() {
			case constant.Int:
				n, _ := constant.Int64Val(k.Value)
				return val{true, n}
			case constant.Bool:
				if constant.BoolVal(k.Value) {
					return val{true, 1}
				}
				return val{true, 0}
			}
			return val{}
		}
		return env[v]
	}
	last := ""
	tupleErr := map[ssa.Value]val{}  // call -> error component
	tupleKind := map[ssa.Value]val{} // parseNumber call -> kind component
	var prev *ssa.BasicBlock
	blk := fn.Blocks[0]
	for steps := 0; steps < 400; steps++ {
		for _, in := range blk.Instrs {
			switch x := in.(type) {
			case *ssa.Phi:
				for i, p := range blk.Preds {
					if p == prev {
						env[x] = get(x.Edges[i])
					}
				}
			case *ssa.Call:
				f := staticCallee(x.Common())
				if f == nil {
					continue
				}
				name := f.Name()
				switch {
				case name == "anyFlagsSet" && len(x.Call.Args) == 2:
					if m, ok := constUint(x.Call.Args[1]); ok {
						if flags&m != 0 {
							env[x] = val{true, 1}
						} else {
							env[x] = val{true, 0}
						}
					}
				case name == "parseNumber":
					tupleKind[x] = val{true, kindVal[cl.kind]}
					tupleErr[x] = val{true, 0}
				case strings.HasPrefix(name, "decodeInto["):
					t := "?"
					if ta := f.TypeArgs(); len(ta) == 1 {
						t = ta[0].String()
					}
					switch {
					case strings.HasSuffix(t, "big.Int"):
						t = "big.Int"
					case strings.HasSuffix(t, "json.Number"):
						t = "Number"
					}
					last = t
					fits := t == "Number" || t == "float64" || cl.fits[t]
					if fits {
						tupleErr[x] = val{true, 0}
					} else {
						tupleErr[x] = val{true, 1}
					}
				}
			case *ssa.Extract:
				res := x.Tuple.Type().String()
				_ = res
				if e, ok := tupleErr[x.Tuple]; ok && x.Type().String() == "error" {
					env[x] = e
				} else if k, ok := tupleKind[x.Tuple]; ok && strings.HasSuffix(x.Type().String(), "json.Kind") {
					env[x] = k
				}
			case *ssa.BinOp:
				a, bb := get(x.X), get(x.Y)
				if a.known && bb.known && (x.Op == token.EQL || x.Op == token.NEQ) {
					eq := a.i == bb.i
					if x.Op == token.NEQ {
						eq = !eq
					}
					if eq {
						env[x] = val{true, 1}
					} else {
						env[x] = val{true, 0}
					}
				}
			case *ssa.UnOp:
				if x.Op == token.NOT {
					if a := get(x.X); a.known {
						env[x] = val{true, 1 - a.i}
					}
				}
			case *ssa.If:
				cv := get(x.Cond)
				if !cv.known {
					return last, false, "the condition at " + fn.Prog.Fset.Position(x.Cond.Pos()).String() + " is not a kind test, a flag test or an error test of a decode attempt"
				}
				prev = blk
				if cv.i != 0 {
					blk = blk.Succs[0]
				} else {
					blk = blk.Succs[1]
				}
			case *ssa.Jump:
				prev = blk
				blk = blk.Succs[0]
			case *ssa.Return:
				if len(x.Results) != 2 {
					return last, false, "unexpected result arity"
				}
				e := get(x.Results[1])
				if !e.known {
					return last, false, "the returned error is not the error of a decode attempt"
				}
				if last == "" {
					return last, false, "a return is reached before any decode attempt"
				}
				return last, e.i == 0, ""
			case *ssa.Panic:
				return last, false, "a panic is reached"
			}
		}
	}
	return last, false, "evaluation did not terminate in 400 steps"
}
