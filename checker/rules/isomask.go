package rules

import (
	"fmt"
	"go/ast"
	"go/token"
	"go/types"
	"math/big"
	"sort"
	"strings"

	"golang.org/x/tools/go/ssa"

	"verif/checker/core"
)

// R-ISOMASK — the word-at-a-time fast path of iso8601.Parse tests separators for equality, its
// replace constants are consistent with its masks, its table index is in range and its calendar
// table is the Gregorian one.
func init() {
	Register(&Rule{
		ID:    "R-ISOMASK",
		Doc:   "by constant evaluation: each separator test (u & A) == B constrains all 8 bits of every separator lane (A lane = 0xFF where B lane != 0); each XOR replace constant equals separator^'0' on separator lanes and 0 on data lanes; pow10's index interval fits its length; validate's 30-day months are {4,6,9,11}",
		Props: []string{"C18", "C06"},
		Min:   map[string]int{"C18": 8},
		Run:   runIsoMask,
	})
}

type maskTest struct {
	u    ssa.Value
	a, b uint64
	at   ssa.Instruction
}

// evalConstIn resolves v to a constant, substituting parameters by the arguments of `call`.
func evalConstIn(v ssa.Value, callee *ssa.Function, call *ssa.Call) (uint64, bool) {
	if k, ok := constUint(v); ok {
		return k, true
	}
	if p, ok := v.(*ssa.Parameter); ok && call != nil {
		for i, fp := range callee.Params {
			if fp == p && i < len(call.Common().Args) {
				return constUint(call.Common().Args[i])
			}
		}
	}
	return 0, false
}

func lanes(x uint64) [8]byte {
	var out [8]byte
	for i := 0; i < 8; i++ {
		out[i] = byte(x >> (8 * i))
	}
	return out
}

func runIsoMask(c *core.Ctx) []core.Obligation {
	b := newOb(c, "R-ISOMASK", "C18")
	parse := c.Lookup("iso8601.Parse")
	if parse == nil {
		b.und("anchor", "-", "iso8601.Parse not found")
		return b.out
	}

	// ---- 1. separator tests
	var tests []maskTest
	collect := func(fn *ssa.Function, call *ssa.Call) {
		for _, blk := range fn.Blocks {
			for _, in := range blk.Instrs {
				eq, ok := in.(*ssa.BinOp)
				if !ok || (eq.Op != token.EQL && eq.Op != token.NEQ) {
					continue
				}
				for _, pair := range [][2]ssa.Value{{eq.X, eq.Y}, {eq.Y, eq.X}} {
					and, ok := pair[0].(*ssa.BinOp)
					if !ok || and.Op != token.AND {
						continue
					}
					bv, ok := evalConstIn(pair[1], fn, call)
					if !ok {
						continue
					}
					for _, ap := range [][2]ssa.Value{{and.X, and.Y}, {and.Y, and.X}} {
						av, ok := evalConstIn(ap[1], fn, call)
						if !ok {
							continue
						}
						u := ap[0]
						if p, isP := u.(*ssa.Parameter); isP && call != nil {
							for i, fp := range fn.Params {
								if fp == p {
									u = call.Common().Args[i]
								}
							}
						}
						var at ssa.Instruction = eq
						if call != nil {
							at = call
						}
						if bv > 0xFFFF { // word-sized separator masks only
							tests = append(tests, maskTest{u, av, bv, at})
						}
					}
				}
			}
		}
	}
	collect(parse, nil)
	for _, ci := range callsIn(parse) {
		if call, ok := ci.(*ssa.Call); ok {
			if f := staticCallee(call.Common()); f != nil && c.InRepo(f) && f.Blocks != nil && len(f.Blocks) == 1 {
				collect(f, call)
			}
		}
	}
	if len(tests) < 3 {
		b.und("separator-tests", c.FuncPos(parse), fmt.Sprintf("found %d word-sized separator tests of the form (u & A) == B, expected 3", len(tests)))
	}
	sepOf := map[ssa.Value]uint64{}
	for _, t := range tests {
		key := fmt.Sprintf("separator-test:%#016x", t.b)
		la, lb := lanes(t.a), lanes(t.b)
		var bad []string
		for j := 0; j < 8; j++ {
			switch {
			case lb[j] != 0 && la[j] != 0xFF:
				var also []string
				for x := 0; x < 256 && len(also) < 6; x++ {
					if byte(x)&la[j] == lb[j] && byte(x) != lb[j] {
						also = append(also, fmt.Sprintf("%q", rune(x)))
					}
				}
				bad = append(bad, fmt.Sprintf("lane %d expects %q but only bits %#02x are compared, so %s also pass", j, rune(lb[j]), la[j], strings.Join(also, " ")))
			case lb[j] == 0 && la[j] != 0:
				bad = append(bad, fmt.Sprintf("lane %d is a digit lane but is constrained by mask byte %#02x", j, la[j]))
			}
		}
		if len(bad) > 0 {
			b.bad(key, c.InstrPos(t.at), fmt.Sprintf("(u & %#016x) == %#016x is a subset test, not an equality test: %s; the following XOR turns those bytes into digits, so malformed timestamps parse", t.a, t.b, strings.Join(bad, "; ")))
		} else {
			b.ok(key, c.InstrPos(t.at), fmt.Sprintf("(u & %#016x) == %#016x compares every separator byte for equality", t.a, t.b))
		}
		sepOf[t.u] = t.b
	}

	// ---- 2. replace constants
	nx := 0
	for _, blk := range parse.Blocks {
		for _, in := range blk.Instrs {
			x, ok := in.(*ssa.BinOp)
			if !ok || x.Op != token.XOR {
				continue
			}
			r, ok := constUint(x.Y)
			if !ok {
				continue
			}
			sep, ok := sepOf[x.X]
			if !ok {
				continue
			}
			nx++
			key := fmt.Sprintf("replace:%#016x", sep)
			lr, ls := lanes(r), lanes(sep)
			zeroLanes := knownZeroLanes(x.X)
			var bad []string
			for j := 0; j < 8; j++ {
				switch {
				case ls[j] != 0 && lr[j] != ls[j]^'0':
					bad = append(bad, fmt.Sprintf("lane %d: %#02x != %q^'0'", j, lr[j], rune(ls[j])))
				case ls[j] == 0 && !zeroLanes[j] && lr[j] != 0:
					bad = append(bad, fmt.Sprintf("digit lane %d is XOR-ed with %#02x", j, lr[j]))
				}
			}
			if len(bad) > 0 {
				b.bad(key, c.InstrPos(x), fmt.Sprintf("replace constant %#016x is inconsistent with separator mask %#016x: %s", r, sep, strings.Join(bad, "; ")))
			} else {
				b.ok(key, c.InstrPos(x), fmt.Sprintf("%#016x = separators^'0' on separator lanes, 0 on digit lanes", r))
			}
		}
	}
	if nx < 3 {
		b.und("replace", c.FuncPos(parse), fmt.Sprintf("found %d XOR replace steps on masked words, expected 3", nx))
	}

	// ---- 3. pow10 index
	isoPkg := c.Pkg("iso8601")
	for _, blk := range parse.Blocks {
		for _, in := range blk.Instrs {
			ia, ok := in.(*ssa.IndexAddr)
			if !ok {
				continue
			}
			ld, ok := ia.X.(*ssa.UnOp)
			if !ok {
				continue
			}
			g, ok := ld.X.(*ssa.Global)
			if !ok {
				continue
			}
			n := globalLiteralLen(c, isoPkg.Syntax, g.Name())
			key := "table-index:" + g.Name()
			if n < 0 {
				b.addP([]string{"C18", "C06"}, core.Undecided, key, c.InstrPos(ia), "cannot determine the length of "+g.Name())
				continue
			}
			// index = K - len(b)
			sub, ok := ia.Index.(*ssa.BinOp)
			if !ok || sub.Op != token.SUB {
				b.addP([]string{"C18", "C06"}, core.Undecided, key, c.InstrPos(ia), "index is not of the form K - len(b)")
				continue
			}
			k, ok1 := constInt(sub.X)
			la, ok2 := lenArg(sub.Y)
			if !ok1 || !ok2 {
				b.addP([]string{"C18", "C06"}, core.Undecided, key, c.InstrPos(ia), "index is not of the form K - len(b)")
				continue
			}
			lo, hi, excl := lenInterval(la, blk)
			if lo == nil || hi == nil {
				b.addP([]string{"C18", "C06"}, core.Violation, key, c.InstrPos(ia), fmt.Sprintf("%s[%d-len(b)]: len(b) is not bounded on both sides at this point", g.Name(), k))
				continue
			}
			l, h := lo.Int64(), hi.Int64()
			for excl[l] && l <= h {
				l++
			}
			for excl[h] && h >= l {
				h--
			}
			imin, imax := k-h, k-l
			if imin < 0 || imax >= int64(n) {
				b.addP([]string{"C18", "C06"}, core.Violation, key, c.InstrPos(ia), fmt.Sprintf("%s has %d entries but is indexed with %d-len(b) where len(b) ∈ [%d,%d]: index range [%d,%d] leaves the table (panic on a %d-byte input)", g.Name(), n, k, l, h, imin, imax, l))
			} else {
				b.addP([]string{"C18", "C06"}, core.Discharged, key, c.InstrPos(ia), fmt.Sprintf("len(b) ∈ [%d,%d] ⇒ index ∈ [%d,%d] within %d entries", l, h, imin, imax, n))
			}
		}
	}

	// ---- 4. 30-day months
	if v := c.Lookup("iso8601.validate"); v != nil {
		months := map[int64]bool{}
		var monthParam, dayParam *ssa.Parameter
		for _, p := range v.Params {
			switch p.Name() {
			case "month":
				monthParam = p
			case "day":
				dayParam = p
			}
		}
		if monthParam == nil || dayParam == nil {
			b.und("months-30", c.FuncPos(v), "validate has no month/day parameters")
		} else {
			for _, blk := range v.Blocks {
				under31 := false
				for _, e := range dominatingEdges(blk) {
					if bo, ok := e.ifi.Cond.(*ssa.BinOp); ok && bo.Op == token.EQL && e.succ == 0 && bo.X == ssa.Value(dayParam) {
						if k, ok := constInt(bo.Y); ok && k == 31 {
							under31 = true
						}
					}
				}
				if !under31 {
					continue
				}
				for _, in := range blk.Instrs {
					if bo, ok := in.(*ssa.BinOp); ok && bo.Op == token.EQL && bo.X == ssa.Value(monthParam) {
						if k, ok := constInt(bo.Y); ok {
							months[k] = true
						}
					}
				}
			}
			var got []string
			for m := range months {
				got = append(got, fmt.Sprint(m))
			}
			sort.Strings(got)
			want := map[int64]bool{4: true, 6: true, 9: true, 11: true}
			same := len(months) == len(want)
			for m := range want {
				if !months[m] {
					same = false
				}
			}
			if same {
				b.ok("months-30", c.FuncPos(v), "day 31 is rejected exactly for months {4,6,9,11}")
			} else {
				b.bad("months-30", c.FuncPos(v), fmt.Sprintf("day 31 is rejected for months %v, the Gregorian 30-day months are [11 4 6 9]", got))
			}
		}
	} else {
		b.und("months-30", "-", "iso8601.validate not found")
	}
	// ---- layout mismatches fall back to time.Parse: the word-at-a-time tests recognise one fixed
	// layout; time.Parse accepts others of the same length (a one-digit hour before a fraction),
	// so failing those tests must not be an error by itself
	{
		callsTimeParse := map[*ssa.BasicBlock]bool{}
		for _, blk := range parse.Blocks {
			for _, in := range blk.Instrs {
				if call, ok := in.(*ssa.Call); ok && calleeName(call.Common()) == "time.Parse" {
					callsTimeParse[blk] = true
				}
			}
		}
		isLayoutCond := func(v ssa.Value) bool {
			return dependsOn(v, func(x ssa.Value) bool {
				if call, ok := x.(*ssa.Call); ok {
					if f := staticCallee(call.Common()); f != nil && f.Name() == "match" {
						return true
					}
				}
				// the separator byte at index 19
				if ld, ok := x.(*ssa.UnOp); ok {
					if ia, ok := ld.X.(*ssa.IndexAddr); ok {
						if i, isK := constInt(ia.Index); isK && i == 19 {
							return true
						}
					}
				}
				return false
			})
		}
		n, bad := 0, ""
		for _, blk := range parse.Blocks {
			if len(blk.Instrs) == 0 {
				continue
			}
			ifi, ok := blk.Instrs[len(blk.Instrs)-1].(*ssa.If)
			if !ok || !isLayoutCond(ifi.Cond) {
				continue
			}
			n++
			// a return reachable from either side without passing the time.Parse call and
			// without having decoded the fields (the success path calls time.Unix)
			for _, succ := range blk.Succs {
				reach := reachableFrom(succ, callsTimeParse)
				for rb := range reach {
					if len(rb.Instrs) == 0 {
						continue
					}
					r, isRet := rb.Instrs[len(rb.Instrs)-1].(*ssa.Return)
					if !isRet || len(r.Results) != 2 || isNilConst(r.Results[1]) {
						continue
					}
					// an error return: is it the direct consequence of the layout test
					// (no other test in between)?
					if rb == succ {
						bad = c.InstrPos(r)
					}
				}
			}
		}
		key := "layout-mismatch-falls-back"
		switch {
		case n == 0:
			b.und(key, c.FuncPos(parse), "no layout test (match / separator byte) found in the fast path")
		case bad != "":
			b.bad(key, bad, "the fast path returns an error as the direct consequence of a layout test (separator positions): time.Parse accepts other layouts of the same length, e.g. 2000-01-01T1:00:00.12Z, so Parse rejects what time.Parse(time.RFC3339Nano, s) accepts; the mismatch must take the time.Parse fallback")
		default:
			b.ok(key, c.FuncPos(parse), fmt.Sprintf("%d layout tests, none leads directly to an error return", n))
		}
	}

	// ---- the fast path may only reject what it has recognised: an error returned by Parse itself
	// (not the fallback's) is justified once the separators of the fixed layout have been matched
	// (then the string is that layout with a bad digit or an out-of-range field, which time.Parse
	// rejects too); a rejection on the way there — on length alone, say — drops layouts that only
	// time.Parse knows (2006-01-02T5:04:05Z has 19 bytes)
	{
		var matches []*ssa.Call
		for _, blk := range parse.Blocks {
			for _, in := range blk.Instrs {
				if call, ok := in.(*ssa.Call); ok {
					if f := staticCallee(call.Common()); f != nil && f.Name() == "match" {
						matches = append(matches, call)
					}
				}
			}
		}
		n, bad := 0, ""
		for _, r := range returnsOf(parse) {
			if len(r.Results) != 2 || isNilConst(r.Results[1]) {
				continue
			}
			// the fallback's own rejection follows the time.Parse call
			afterFallback := false
			for x := r.Block(); x != nil; x = x.Idom() {
				for _, ci := range callsIn2(x) {
					if calleeName(ci.Common()) == "time.Parse" {
						afterFallback = true
					}
				}
			}
			if afterFallback {
				continue
			}
			n++
			for _, m := range matches {
				if !(m.Block() == r.Block() || m.Block().Dominates(r.Block())) {
					bad = c.InstrPos(r)
				}
			}
			if len(matches) == 0 {
				bad = c.InstrPos(r)
			}
		}
		key := "reject-only-after-layout-match"
		switch {
		case n == 0:
			b.und(key, c.FuncPos(parse), "no rejection found in the fast path")
		case bad != "":
			b.bad(key, bad, "Parse returns an error of its own on a path where the separators of the fixed layout have not all been matched: inputs of another layout that time.Parse(time.RFC3339Nano, s) accepts (a one-digit hour makes a 19-byte timestamp) are rejected instead of being handed to the fallback")
		default:
			b.ok(key, c.FuncPos(parse), fmt.Sprintf("%d fast-path rejections, each after all %d separator matches", n, len(matches)))
		}
	}

	// ---- fraction separator: the fast path's early rejection must let through exactly the
	// separators time.Parse accepts before fractional seconds ('.' and ',')
	{
		seps := map[int64]bool{}
		var at ssa.Instruction
		for _, blk := range parse.Blocks {
			for _, in := range blk.Instrs {
				bo, ok := in.(*ssa.BinOp)
				if !ok || (bo.Op != token.NEQ && bo.Op != token.EQL) {
					continue
				}
				ld, ok := bo.X.(*ssa.UnOp)
				if !ok {
					continue
				}
				ia, ok := ld.X.(*ssa.IndexAddr)
				if !ok {
					continue
				}
				if i, isK := constInt(ia.Index); !isK || i != 19 {
					continue
				}
				if k, isK := constInt(bo.Y); isK {
					seps[k] = true
					at = bo
				}
			}
		}
		key := "fraction-separator"
		switch {
		case at == nil:
			b.und(key, c.FuncPos(parse), "no test of the byte that separates seconds from their fraction found")
		case len(seps) == 2 && seps['.'] && seps[',']:
			b.ok(key, c.InstrPos(at), "the fast path admits '.' and ',' before the fraction, like time.Parse")
		default:
			var got []string
			for k := range seps {
				got = append(got, fmt.Sprintf("%q", rune(k)))
			}
			sort.Strings(got)
			b.bad(key, c.InstrPos(at), fmt.Sprintf("the fast path rejects (without falling back to time.Parse) every long timestamp whose 20th byte is not in %v, but time.Parse accepts both '.' and ',' before fractional seconds: Parse and time.Parse disagree on 2021-03-25T21:36:12,5Z", got))
		}
	}

	return b.out
}

// knownZeroLanes: byte lanes of v that are provably zero (v built by OR-ing bytes shifted by constants).
func knownZeroLanes(v ssa.Value) [8]bool {
	var nonzero [8]bool
	var walk func(v ssa.Value, shift int64) bool
	walk = func(v ssa.Value, shift int64) bool {
		switch x := v.(type) {
		case *ssa.BinOp:
			switch x.Op {
			case token.OR:
				return walk(x.X, shift) && walk(x.Y, shift)
			case token.SHL:
				if k, ok := constInt(x.Y); ok {
					return walk(x.X, shift+k)
				}
			}
		case *ssa.Convert:
			if bt, ok := x.X.Type().Underlying().(*types.Basic); ok && (bt.Kind() == types.Uint8 || bt.Kind() == types.Byte) && shift%8 == 0 && shift < 64 {
				nonzero[shift/8] = true
				return true
			}
		case *ssa.Const:
			if k, ok := constUint(x); ok {
				k <<= uint(shift)
				for j := 0; j < 8; j++ {
					if byte(k>>(8*j)) != 0 {
						nonzero[j] = true
					}
				}
				return true
			}
		}
		return false
	}
	var out [8]bool
	if walk(v, 0) {
		for j := range out {
			out[j] = !nonzero[j]
		}
	}
	return out
}

// globalLiteralLen returns the number of elements of the composite literal initialising a
// package-level variable, or -1.
func globalLiteralLen(c *core.Ctx, files []*ast.File, name string) int {
	for _, f := range files {
		for _, d := range f.Decls {
			gd, ok := d.(*ast.GenDecl)
			if !ok || gd.Tok != token.VAR {
				continue
			}
			for _, s := range gd.Specs {
				vs := s.(*ast.ValueSpec)
				for i, n := range vs.Names {
					if n.Name == name && i < len(vs.Values) {
						if cl, ok := vs.Values[i].(*ast.CompositeLit); ok {
							return len(cl.Elts)
						}
					}
				}
			}
		}
	}
	return -1
}

// lenInterval: bounds on len(x) implied by branch edges dominating blk (every len(x) call with
// the same argument is the same quantity), plus excluded points.
func lenInterval(x ssa.Value, blk *ssa.BasicBlock) (lo, hi *big.Int, excl map[int64]bool) {
	excl = map[int64]bool{}
	isQ := func(v ssa.Value) bool {
		a, ok := lenArg(v)
		return ok && a == x
	}
	setLo := func(n int64) {
		if lo == nil || lo.Int64() < n {
			lo = big.NewInt(n)
		}
	}
	setHi := func(n int64) {
		if hi == nil || hi.Int64() > n {
			hi = big.NewInt(n)
		}
	}
	for _, e := range dominatingEdges(blk) {
		bo, ok := e.ifi.Cond.(*ssa.BinOp)
		if !ok {
			continue
		}
		l, r, op := bo.X, bo.Y, bo.Op
		if isQ(r) {
			l, r = r, l
			switch op {
			case token.LSS:
				op = token.GTR
			case token.GTR:
				op = token.LSS
			case token.LEQ:
				op = token.GEQ
			case token.GEQ:
				op = token.LEQ
			}
		}
		if !isQ(l) {
			continue
		}
		k, ok := constInt(r)
		if !ok {
			continue
		}
		taken := e.succ == 0
		switch {
		case op == token.LSS && taken:
			setHi(k - 1)
		case op == token.LSS && !taken:
			setLo(k)
		case op == token.LEQ && taken:
			setHi(k)
		case op == token.LEQ && !taken:
			setLo(k + 1)
		case op == token.GTR && taken:
			setLo(k + 1)
		case op == token.GTR && !taken:
			setHi(k)
		case op == token.GEQ && taken:
			setLo(k)
		case op == token.GEQ && !taken:
			setHi(k - 1)
		case op == token.EQL && taken:
			setLo(k)
			setHi(k)
		case op == token.EQL && !taken:
			excl[k] = true
		case op == token.NEQ && taken:
			excl[k] = true
		case op == token.NEQ && !taken:
			setLo(k)
			setHi(k)
		}
	}
	return
}
