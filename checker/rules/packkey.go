package rules

import (
	"fmt"
	"go/token"
	"go/types"
	"strings"

	"golang.org/x/tools/go/ssa"

	"verif/checker/core"
)

// R-PACKKEY — a word assembled from several values with shifts and | (a cache key, a packed
// descriptor) keeps its fields apart: the value or-ed in below a field shifted by s fits in s bits.
// Upper bounds are computed by interval arithmetic over masks, shifts, sums and products, refined
// by the package's own validation functions: after `if err := validate(a, b, …); err != nil
// { return }`, each argument is bounded by the comparison that makes validate fail. Fields that
// overlap make two different tuples equal as words — a "same date as last time" cache keyed by
// year<<9 | month<<4 | day returns the day number of January 1st for January 17th.
func init() {
	Register(&Rule{
		ID:    "R-PACKKEY",
		Doc:   "package iso8601: for every x | y where x contains a field shifted left by a constant s (the smallest such s over the operands of x) and y is not a constant: an upper bound of y (interval arithmetic over &K, >>K, *K, +, φ, conversions and integer widths; parameters of unexported functions take the maximum over their call sites; arguments of a call g(…) whose error result is tested nil on a dominating edge take the bound g's own failing comparisons give them) is below 2^s",
		Props: []string{"C18"},
		Run:   runPackKey,
	})
}

type ubCtx struct {
	c       *core.Ctx
	pkg     string
	callers map[*ssa.Function][]ssa.CallInstruction
	seen    map[ssa.Value]bool
}

const ubUnknown = ^uint64(0)

// guardSummary: for g returning an error, the upper bound each parameter has whenever g returns
// nil — from comparisons `p > K` / `p >= K` of the parameter itself whose true edge goes straight
// to a return of a non-nil error and whose block dominates every nil return.
func guardSummary(g *ssa.Function) map[int]uint64 {
	out := map[int]uint64{}
	if g == nil || g.Blocks == nil {
		return out
	}
	var nilRets []*ssa.BasicBlock
	for _, r := range returnsOf(g) {
		if len(r.Results) > 0 && isNilConst(r.Results[len(r.Results)-1]) {
			nilRets = append(nilRets, r.Block())
		}
	}
	if len(nilRets) == 0 {
		return out
	}
	failing := func(blk *ssa.BasicBlock) bool {
		if len(blk.Instrs) == 0 {
			return false
		}
		r, ok := blk.Instrs[len(blk.Instrs)-1].(*ssa.Return)
		return ok && len(r.Results) > 0 && !isNilConst(r.Results[len(r.Results)-1])
	}
	for _, blk := range g.Blocks {
		if len(blk.Instrs) == 0 {
			continue
		}
		ifi, ok := blk.Instrs[len(blk.Instrs)-1].(*ssa.If)
		if !ok {
			continue
		}
		bo, ok := ifi.Cond.(*ssa.BinOp)
		if !ok || !failing(blk.Succs[0]) {
			continue
		}
		dom := true
		for _, nr := range nilRets {
			if !(blk == nr || blk.Dominates(nr)) {
				dom = false
			}
		}
		if !dom {
			continue
		}
		k, isK := constUint(bo.Y)
		if !isK {
			continue
		}
		for i, p := range g.Params {
			if bo.X != ssa.Value(p) {
				continue
			}
			var bound uint64
			switch bo.Op {
			case token.GTR:
				bound = k
			case token.GEQ:
				if k == 0 {
					continue
				}
				bound = k - 1
			default:
				continue
			}
			if old, has := out[i]; !has || bound < old {
				out[i] = bound
			}
		}
	}
	return out
}

func typeMax(t types.Type) uint64 {
	bt, ok := t.Underlying().(*types.Basic)
	if !ok {
		return ubUnknown
	}
	switch bt.Kind() {
	case types.Uint8:
		return 0xFF
	case types.Uint16:
		return 0xFFFF
	case types.Uint32:
		return 0xFFFFFFFF
	case types.Bool:
		return 1
	}
	return ubUnknown
}

func (u *ubCtx) ub(v ssa.Value, at *ssa.BasicBlock) uint64 {
	best := u.ub0(v)
	// refinement by a dominating validation call
	if at != nil {
		for _, e := range dominatingEdges(at) {
			bo, ok := e.ifi.Cond.(*ssa.BinOp)
			if !ok {
				continue
			}
			okEdge := (bo.Op == token.NEQ && e.succ == 1) || (bo.Op == token.EQL && e.succ == 0)
			if !okEdge || !(isNilConst(bo.Y) || isNilConst(bo.X)) {
				continue
			}
			res := bo.X
			if isNilConst(bo.X) {
				res = bo.Y
			}
			var call *ssa.Call
			switch x := res.(type) {
			case *ssa.Call:
				call = x
			case *ssa.Extract:
				call, _ = x.Tuple.(*ssa.Call)
			}
			if call == nil {
				continue
			}
			g := staticCallee(call.Common())
			if g == nil {
				continue
			}
			sum := guardSummary(g)
			for i, a := range call.Common().Args {
				if a == v {
					if bnd, has := sum[i]; has && bnd < best {
						best = bnd
					}
				}
			}
		}
	}
	return best
}

func (u *ubCtx) ub0(v ssa.Value) uint64 {
	if k, ok := constUint(v); ok {
		return k
	}
	if u.seen[v] {
		return ubUnknown
	}
	u.seen[v] = true
	defer delete(u.seen, v)
	tm := typeMax(v.Type())
	min := func(a, b uint64) uint64 {
		if a < b {
			return a
		}
		return b
	}
	switch x := v.(type) {
	case *ssa.Convert:
		return min(u.ub0(x.X), tm)
	case *ssa.ChangeType:
		return u.ub0(x.X)
	case *ssa.Phi:
		m := uint64(0)
		for _, e := range x.Edges {
			b := u.ub0(e)
			if b > m {
				m = b
			}
		}
		return min(m, tm)
	case *ssa.BinOp:
		a, b := u.ub0(x.X), u.ub0(x.Y)
		switch x.Op {
		case token.AND:
			return min(min(a, b), tm)
		case token.SHR:
			if k, ok := constUint(x.Y); ok && k < 64 {
				if a == ubUnknown {
					return (^uint64(0)) >> k
				}
				return a >> k
			}
		case token.SHL:
			if k, ok := constUint(x.Y); ok && k < 64 && a != ubUnknown && a <= (^uint64(0))>>k {
				return min(a<<k, tm)
			}
		case token.ADD:
			if a != ubUnknown && b != ubUnknown && a+b >= a {
				return min(a+b, tm)
			}
		case token.MUL:
			if a != ubUnknown && b != ubUnknown && (a == 0 || (a*b)/a == b) {
				return min(a*b, tm)
			}
		case token.OR, token.XOR:
			if a != ubUnknown && b != ubUnknown {
				// below the next power of two of the larger
				m := a
				if b > m {
					m = b
				}
				p := uint64(1)
				for p <= m && p != 0 {
					p <<= 1
				}
				return min(p-1, tm)
			}
		case token.REM:
			if b != ubUnknown && b > 0 {
				return min(b-1, tm)
			}
		}
		return tm
	case *ssa.Parameter:
		fn := x.Parent()
		if fn == nil || fn.Object() == nil || fn.Object().Exported() {
			return tm
		}
		idx := -1
		for i, p := range fn.Params {
			if p == x {
				idx = i
			}
		}
		sites := u.callers[fn]
		if idx < 0 || len(sites) == 0 {
			return tm
		}
		m := uint64(0)
		for _, ci := range sites {
			if idx >= len(ci.Common().Args) {
				return tm
			}
			b := u.ub(ci.Common().Args[idx], ci.Block())
			if b > m {
				m = b
			}
		}
		return min(m, tm)
	}
	return tm
}

func minShift(v ssa.Value, depth int) uint64 {
	if depth > 6 {
		return 0
	}
	switch x := v.(type) {
	case *ssa.BinOp:
		switch x.Op {
		case token.SHL:
			if k, ok := constUint(x.Y); ok {
				return k
			}
		case token.OR:
			a, b := minShift(x.X, depth+1), minShift(x.Y, depth+1)
			if a < b {
				return a
			}
			return b
		}
	case *ssa.Convert:
		return minShift(x.X, depth+1)
	}
	return 0
}

func runPackKey(c *core.Ctx) []core.Obligation {
	b := newOb(c, "R-PACKKEY", "C18")
	u := &ubCtx{c: c, pkg: "iso8601", callers: map[*ssa.Function][]ssa.CallInstruction{}, seen: map[ssa.Value]bool{}}
	var fns []*ssa.Function
	for _, fn := range c.RepoFunctions() {
		if fn.Blocks == nil || !strings.HasPrefix(shortName(fn), "iso8601.") {
			continue
		}
		fns = append(fns, fn)
		for _, ci := range callsIn(fn) {
			if g := staticCallee(ci.Common()); g != nil {
				u.callers[g] = append(u.callers[g], ci)
			}
		}
	}
	n := 0
	for _, fn := range fns {
		k := 0
		for _, blk := range fn.Blocks {
			for _, in := range blk.Instrs {
				bo, ok := in.(*ssa.BinOp)
				if !ok || bo.Op != token.OR {
					continue
				}
				for _, pair := range [][2]ssa.Value{{bo.X, bo.Y}, {bo.Y, bo.X}} {
					s := minShift(pair[0], 0)
					if s == 0 || s >= 64 {
						continue
					}
					if _, isK := pair[1].(*ssa.Const); isK {
						continue
					}
					if minShift(pair[1], 0) >= s {
						continue // the higher field of the pair; the other orientation checks the lower one
					}
					n++
					k++
					key := fmt.Sprintf("packkey:%s#%d", shortName(fn), k)
					bound := u.ub(pair[1], blk)
					if bound != ubUnknown && bound < uint64(1)<<s {
						b.ok(key, c.InstrPos(bo), fmt.Sprintf("the value or-ed in below the field shifted by %d is at most %d", s, bound))
					} else {
						have := "no upper bound can be derived for it"
						if bound != ubUnknown {
							have = fmt.Sprintf("it can be as large as %d", bound)
						}
						b.bad(key, c.InstrPos(bo), fmt.Sprintf("%s packs %s below a field shifted left by %d, but %s: the fields overlap, so different tuples give the same word — used as a key (\"same date as the previous call\"), 01-17 is taken for 01-01 and Parse returns another day's instant", shortName(fn), texpr(pair[1], 0), s, have))
					}
				}
			}
		}
	}
	if n == 0 {
		b.ok("packkey:none", "-", "package iso8601 assembles no word from shifted fields")
	}
	return b.out
}
