package rules

import (
	"fmt"
	"go/ast"
	"go/types"
	"strings"

	"golang.org/x/tools/go/packages"

	"verif/checker/core"
)

// R-LINKABI — every bodiless //go:linkname stub of the repository has the same ABI word layout
// as the function it is bound to in the toolchain's runtime (parameters, results and, for
// pointers to repo structs that stand in for runtime structs, the pointee layout).
func init() {
	Register(&Rule{
		ID:    "R-LINKABI",
		Doc:   "each bodiless go:linkname stub flattens to the same ABI word sequence (params, results, mirrored struct layouts) as its target in GOROOT/src/runtime",
		Props: []string{"C03", "C07"},
		Min:   map[string]int{"C03": 7, "C07": 7},
		Run:   runLinkABI,
	})
}

type linkDirective struct {
	local, target string
	pos           ast.Node
}

func linknames(f *ast.File) []linkDirective {
	var out []linkDirective
	for _, cg := range f.Comments {
		for _, cm := range cg.List {
			if !strings.HasPrefix(cm.Text, "//go:linkname ") {
				continue
			}
			fs := strings.Fields(cm.Text)
			if len(fs) == 3 {
				out = append(out, linkDirective{fs[1], fs[2], cm})
			}
		}
	}
	return out
}

// abiWords flattens a type into the sequence of register-assignable words of the Go ABI.
func abiWords(t types.Type, sizes types.Sizes, out []string) []string {
	switch u := t.Underlying().(type) {
	case *types.Basic:
		switch u.Kind() {
		case types.UnsafePointer:
			return append(out, "P")
		case types.Int, types.Uint, types.Uintptr:
			return append(out, "W")
		case types.String:
			return append(out, "P", "W")
		case types.Float32:
			return append(out, "F32")
		case types.Float64:
			return append(out, "F64")
		case types.Complex64:
			return append(out, "F32", "F32")
		case types.Complex128:
			return append(out, "F64", "F64")
		default:
			return append(out, fmt.Sprintf("I%d", sizes.Sizeof(u)*8))
		}
	case *types.Pointer, *types.Map, *types.Chan, *types.Signature:
		return append(out, "P")
	case *types.Slice:
		return append(out, "P", "W", "W")
	case *types.Interface:
		return append(out, "P", "P")
	case *types.Struct:
		for i := 0; i < u.NumFields(); i++ {
			out = abiWords(u.Field(i).Type(), sizes, out)
		}
		return out
	case *types.Array:
		for i := int64(0); i < u.Len(); i++ {
			out = abiWords(u.Elem(), sizes, out)
		}
		return out
	}
	return append(out, "?"+t.String())
}

func sigWords(sig *types.Signature, sizes types.Sizes) (params, results []string) {
	for i := 0; i < sig.Params().Len(); i++ {
		params = abiWords(sig.Params().At(i).Type(), sizes, params)
	}
	for i := 0; i < sig.Results().Len(); i++ {
		results = abiWords(sig.Results().At(i).Type(), sizes, results)
	}
	return
}

// memLayout renders the in-memory layout of a struct: offset:size:pointerness per leaf field.
func memLayout(t types.Type, sizes types.Sizes, base int64, out []string) []string {
	switch u := t.Underlying().(type) {
	case *types.Struct:
		fields := make([]*types.Var, u.NumFields())
		for i := range fields {
			fields[i] = u.Field(i)
		}
		offs := sizes.Offsetsof(fields)
		for i, f := range fields {
			out = memLayout(f.Type(), sizes, base+offs[i], out)
		}
		return out
	case *types.Array:
		es := sizes.Sizeof(u.Elem())
		for i := int64(0); i < u.Len(); i++ {
			out = memLayout(u.Elem(), sizes, base+i*es, out)
		}
		return out
	}
	w := abiWords(t, sizes, nil)
	return append(out, fmt.Sprintf("%d:%s", base, strings.Join(w, "")))
}

func structPointee(t types.Type) (types.Type, bool) {
	p, ok := t.Underlying().(*types.Pointer)
	if !ok {
		return nil, false
	}
	if _, ok := p.Elem().Underlying().(*types.Struct); ok {
		return p.Elem(), true
	}
	return nil, false
}

func runLinkABI(c *core.Ctx) []core.Obligation {
	b := newOb(c, "R-LINKABI", "C03", "C07")
	arch := c.Cfg.GOARCH
	if arch == "" {
		arch = "amd64"
	}
	sizes := types.SizesFor("gc", arch)

	// push directives of the runtime: runtime function name by the foreign name it is pushed to.
	pushed := map[string]*types.Func{}
	for _, dep := range []string{"runtime", "reflect"} {
		p := c.Dep(dep)
		if p == nil {
			continue
		}
		for _, f := range p.Syntax {
			for _, d := range linknames(f) {
				if fn, ok := p.Types.Scope().Lookup(d.local).(*types.Func); ok {
					if fd, _ := c.DeclOf(fn); fd != nil && fd.Body != nil {
						pushed[d.target] = fn
					}
				}
			}
		}
	}
	resolve := func(target string) (*types.Func, string) {
		i := strings.LastIndex(target, ".")
		if i < 0 {
			return nil, "malformed target"
		}
		pkgPath, name := target[:i], target[i+1:]
		if fn := pushed[target]; fn != nil {
			return fn, ""
		}
		p := c.Dep(pkgPath)
		if p == nil {
			return nil, "package " + pkgPath + " not loaded"
		}
		fn, ok := p.Types.Scope().Lookup(name).(*types.Func)
		if !ok {
			return nil, "no function " + name + " in " + pkgPath
		}
		return fn, ""
	}

	for _, p := range c.Pkgs {
		for _, f := range p.Syntax {
			for _, d := range linknames(f) {
				obj, ok := p.Types.Scope().Lookup(d.local).(*types.Func)
				if !ok {
					continue
				}
				fd, _ := c.DeclOf(obj)
				if fd == nil || fd.Body != nil {
					continue // not a pull stub
				}
				key := p.Name + "." + d.local + "→" + d.target
				pos := c.PosOf(fd.Pos())
				tgt, why := resolve(d.target)
				if tgt == nil {
					b.und(key, pos, "cannot resolve link target: "+why)
					continue
				}
				ls, ts := obj.Type().(*types.Signature), tgt.Type().(*types.Signature)
				lp, lr := sigWords(ls, sizes)
				tp, tr := sigWords(ts, sizes)
				if strings.Join(lp, ",") != strings.Join(tp, ",") || strings.Join(lr, ",") != strings.Join(tr, ",") {
					b.bad(key, pos, fmt.Sprintf("stub %s%v→%v is bound to %s.%s%v→%v (%s): the argument words are assigned to different registers/stack slots than the runtime reads",
						d.local, lp, lr, tgt.Pkg().Name(), tgt.Name(), tp, tr, c.PosOf(tgt.Pos())))
					continue
				}
				// mirrored struct layouts behind pointer parameters
				bad := ""
				n := ls.Params().Len()
				if ts.Params().Len() == n {
					for i := 0; i < n; i++ {
						le, ok1 := structPointee(ls.Params().At(i).Type())
						te, ok2 := structPointee(ts.Params().At(i).Type())
						if !ok1 || !ok2 {
							continue
						}
						ll := strings.Join(memLayout(le, sizes, 0, nil), " ")
						tl := strings.Join(memLayout(te, sizes, 0, nil), " ")
						if ll != tl || sizes.Sizeof(le) != sizes.Sizeof(te) {
							bad = fmt.Sprintf("parameter %d: local %s layout {%s} (size %d) ≠ runtime %s layout {%s} (size %d)", i, le, ll, sizes.Sizeof(le), te, tl, sizes.Sizeof(te))
						}
					}
				}
				if bad != "" {
					b.bad(key, pos, bad)
					continue
				}
				b.ok(key, pos, fmt.Sprintf("%v→%v equals %s.%s at %s", lp, lr, tgt.Pkg().Name(), tgt.Name(), c.PosOf(tgt.Pos())))
			}
		}
	}
	return b.out
}

var _ = packages.NeedName
