package rules

import (
	"fmt"
	"go/token"
	"go/types"
	"regexp"
	"sort"
	"strings"

	"golang.org/x/tools/go/ssa"

	"verif/checker/core"
)

// R-ERRDROP — no error produced by a codec, parser, reader or writer is lost: every error value is
// tested, returned, wrapped or stored on every path; an error known to be non-nil never reaches a
// return that reports success.
func init() {
	Register(&Rule{
		ID:    "R-ERRDROP",
		Doc:   "forward may-dataflow over every error-typed call result {unchecked, pending-non-nil}: no unchecked error reaches a return, no pending non-nil error reaches a return whose error operand is nil, no error result is discarded unless the callee is infallible (all returns nil) or in the reasoned table",
		Props: []string{"C01", "C02", "C03", "C04", "C07", "C08", "C14", "C18", "C19", "C11"},
		Min:   map[string]int{"C01": 40, "C02": 60, "C03": 20, "C04": 40, "C07": 20, "C08": 40, "C14": 40, "C18": 1},
		Run:   runErrDrop,
	})
}

var errorType = types.Universe.Lookup("error").Type()

func isErrorType(t types.Type) bool { return types.Identical(t, errorType) }

// errIndex returns the index of the trailing error result of a signature, or -1.
func errIndex(sig *types.Signature) int {
	n := sig.Results().Len()
	if n == 0 {
		return -1
	}
	if isErrorType(sig.Results().At(n - 1).Type()) {
		return n - 1
	}
	return -1
}

// errDropTable: discarded or unchecked errors that are correct by contract. key: function|callee.
var errDropTable = map[string]string{
	"json.(*Tokenizer).Int|json.(decoder).parseInt":              "documented: the result is undefined if the token is not an integer",
	"json.(*Tokenizer).Uint|json.(decoder).parseUint":            "documented: the result is undefined if the token is not an unsigned integer",
	"json.(*Tokenizer).Float|strconv.ParseFloat":                 "documented: the result is undefined if the token is not a number",
	"json.(*Tokenizer).String|json.(decoder).parseStringUnquote": "documented: the result is undefined if the token is not a string",
	"proto.(RawValue).Varint|proto.decodeVarint":                 "documented: behaviour undefined when the value is not a varint returned by Parse",
	"proto.Scan|dynamic":                                         "API contract: fn's error is meaningful only when it returns ok == false, in which case it is returned",
	"json.MarshalIndent|json.Indent":                             "input was produced by Append in the same function: it is valid JSON",
	"json.(*Encoder).Encode|json.Indent":                         "input was produced by Append in the same function: it is valid JSON",
	"json.AppendUnescape|json.(decoder).decodeString":            "API has no error result; malformed input yields the documented best-effort result",
	"json.Unescape|json.(decoder).parseStringUnquote":            "API has no error result; malformed input yields the documented best-effort result",
	"proto.sliceEncodeFuncOf|proto.encodeTag":                    "pre-encoding of the tag into a buffer sized by sizeOfTag of the same arguments",
	"proto.mapEncodeFuncOf|proto.encodeTag":                      "pre-encoding of one-byte tags (field numbers 1 and 2) and of the map tag into a buffer sized by sizeOfTag of the same arguments",
	"json.constructMapCodec$|invoke MarshalText":                 "text of a key for the sort comparator: the same MarshalText is invoked again by the key encoder, which reports its error",
	"json.constructMapCodec$$|invoke MarshalText":                "sort comparator: the same MarshalText is invoked again by the key encoder, which reports its error",
}

type errState map[ssa.Value]byte // 1 = unchecked (U), 2 = pending non-nil (N)

func (s errState) clone() errState {
	o := make(errState, len(s))
	for k, v := range s {
		o[k] = v
	}
	return o
}

func joinErr(dst, src errState) bool {
	changed := false
	for k, v := range src {
		if dst[k] < v {
			dst[k] = v
			changed = true
		}
	}
	return changed
}

type errAnalysis struct {
	c          *core.Ctx
	infallible map[*ssa.Function]bool
	nonNil     map[*ssa.Function]bool
}

// computeInfallible: functions whose every return carries a nil error (directly or from another
// infallible function).
func (a *errAnalysis) compute(fns []*ssa.Function) {
	a.infallible = map[*ssa.Function]bool{}
	a.nonNil = map[*ssa.Function]bool{}
	cand := map[*ssa.Function]bool{}
	for _, fn := range fns {
		if errIndex(fn.Signature) >= 0 && fn.Blocks != nil {
			cand[fn] = true
		}
	}
	// optimistic fixpoint for infallible
	inf := map[*ssa.Function]bool{}
	for fn := range cand {
		inf[fn] = true
	}
	for changed := true; changed; {
		changed = false
		for fn := range cand {
			if !inf[fn] {
				continue
			}
			ei := errIndex(fn.Signature)
			for _, r := range returnsOf(fn) {
				if !a.nilError(r.Results[ei], inf, map[ssa.Value]bool{}) {
					inf[fn] = false
					changed = true
					break
				}
			}
		}
	}
	a.infallible = inf
	for fn := range cand {
		ei := errIndex(fn.Signature)
		all := true
		rs := returnsOf(fn)
		for _, r := range rs {
			if !a.nonNilError(r.Results[ei], 0) {
				all = false
			}
		}
		if all && len(rs) > 0 {
			a.nonNil[fn] = true
		}
	}
}

func (a *errAnalysis) nilError(v ssa.Value, inf map[*ssa.Function]bool, seen map[ssa.Value]bool) bool {
	if seen[v] {
		return true
	}
	seen[v] = true
	switch x := v.(type) {
	case *ssa.Const:
		return x.Value == nil
	case *ssa.Phi:
		for _, e := range x.Edges {
			if !a.nilError(e, inf, seen) {
				return false
			}
		}
		return true
	case *ssa.Extract:
		if call, ok := x.Tuple.(*ssa.Call); ok {
			if f := staticCallee(call.Common()); f != nil && inf[f] {
				return true
			}
		}
	case *ssa.Call:
		if f := staticCallee(x.Common()); f != nil && inf[f] {
			return true
		}
	case *ssa.UnOp:
		if vals, ok := localStored(x); ok {
			for _, s := range vals {
				if !a.nilError(s, inf, seen) {
					return false
				}
			}
			return len(vals) > 0
		}
	}
	return false
}

func (a *errAnalysis) nonNilError(v ssa.Value, depth int) bool {
	if depth > 6 {
		return false
	}
	switch x := v.(type) {
	case *ssa.UnOp:
		if x.Op == token.MUL {
			if _, ok := x.X.(*ssa.Global); ok {
				return true
			}
		}
	case *ssa.MakeInterface:
		return true
	case *ssa.Call:
		n := calleeName(x.Common())
		if n == "fmt.Errorf" || n == "errors.New" {
			return true
		}
		if f := staticCallee(x.Common()); f != nil && a.nonNil[f] {
			return true
		}
	case *ssa.Phi:
		for _, e := range x.Edges {
			if !a.nonNilError(e, depth+1) {
				return false
			}
		}
		return true
	}
	return false
}

func runErrDrop(c *core.Ctx) []core.Obligation {
	b := newOb(c, "R-ERRDROP")
	var fns []*ssa.Function
	for _, fn := range c.RepoFunctions() {
		n := shortName(fn)
		if strings.HasPrefix(n, "json.") || strings.HasPrefix(n, "proto.") || strings.HasPrefix(n, "thrift.") || strings.HasPrefix(n, "iso8601.") {
			fns = append(fns, fn)
		}
	}
	a := &errAnalysis{c: c}
	a.compute(fns)

	propsOf := func(fn *ssa.Function) []string {
		n := shortName(fn)
		switch {
		case strings.HasPrefix(n, "json.(encoder)"), strings.HasPrefix(n, "json.(*Encoder)"), strings.HasPrefix(n, "json.Marshal"), strings.HasPrefix(n, "json.Append"), strings.HasPrefix(n, "json.construct"):
			return []string{"C01", "C14"}
		case strings.HasPrefix(n, "json.(*Decoder)"):
			// what the Decoder does with its reader's errors is C11's subject
			return []string{"C02", "C14", "C11"}
		case strings.HasPrefix(n, "json."):
			return []string{"C02", "C14"}
		case strings.HasPrefix(n, "proto.Append"), strings.HasPrefix(n, "proto.(FieldNumber)"), strings.Contains(n, "ewrite"):
			// the message builders and the rewriters: what they drop is missing from a rewritten message
			return []string{"C03", "C07", "C19"}
		case strings.HasPrefix(n, "proto."):
			return []string{"C03", "C07"}
		case strings.HasPrefix(n, "thrift."):
			return []string{"C04", "C08"}
		case strings.HasPrefix(n, "iso8601."):
			return []string{"C18"}
		}
		return nil
	}

	for _, fn := range fns {
		a.function(b, fn, propsOf(fn))
	}
	return b.out
}

func (a *errAnalysis) function(b *ob, fn *ssa.Function, props []string) {
	c := a.c
	name := shortName(fn)
	fnErrIdx := errIndex(fn.Signature)

	// sources
	type source struct {
		v      ssa.Value
		at     ssa.Instruction
		callee string
	}
	sources := map[ssa.Value]*source{}
	sourceAt := map[ssa.Instruction]ssa.Value{}
	keyCount := map[string]int{}
	mkKey := func(callee string) string {
		k := name + "|" + callee
		keyCount[k]++
		if keyCount[k] > 1 {
			return fmt.Sprintf("%s#%d", k, keyCount[k])
		}
		return k
	}
	type siteInfo struct {
		key    string
		callee string
		pos    string
	}
	site := map[ssa.Value]*siteInfo{}
	var order []ssa.Value

	for _, blk := range fn.Blocks {
		for _, in := range blk.Instrs {
			call, ok := in.(*ssa.Call)
			if !ok {
				continue
			}
			sig := call.Common().Signature()
			ei := errIndex(sig)
			if ei < 0 {
				continue
			}
			callee := calleeName(call.Common())
			short := callee
			if f := staticCallee(call.Common()); f != nil {
				short = shortName(f)
				if a.infallible[f] {
					continue
				}
				if !c.InRepo(f) && !fallibleExternal(callee) {
					continue
				}
			} else if call.Common().IsInvoke() {
				short = "invoke " + call.Common().Method.Name()
			} else {
				short = "dynamic"
			}
			var ev ssa.Value
			if sig.Results().Len() == 1 {
				ev = call
			} else {
				for _, ref := range *call.Referrers() {
					if ex, ok := ref.(*ssa.Extract); ok && ex.Index == ei {
						ev = ex
					}
				}
			}
			si := &siteInfo{key: mkKey(short), callee: short, pos: c.InstrPos(call)}
			if ev == nil || (ev == ssa.Value(call) && len(*call.Referrers()) == 0) || (ev != ssa.Value(call) && len(*ev.Referrers()) == 0) {
				// discarded
				tk := name + "|" + short
				// closures inherit their parent's table entries
				pk := tk
				if fn.Parent() != nil {
					pk = shortName(fn.Parent()) + "|" + short
				}
				switch {
				case errDropLookup(tk) != "":
					b.addP(props, core.Discharged, si.key, si.pos, "discarded by contract: "+errDropLookup(tk))
				case errDropLookup(pk) != "":
					b.addP(props, core.Discharged, si.key, si.pos, "discarded by contract: "+errDropLookup(pk))
				case a.varintIntoLocalArray(call):
					b.addP(props, core.Discharged, si.key, si.pos, "encodeVarint into a local array of at least 10 bytes cannot fail")
				default:
					b.addP(props, core.Violation, si.key, si.pos, fmt.Sprintf("%s discards the error result of %s: a failure there is reported as success", name, short))
				}
				continue
			}
			sources[ev] = &source{ev, in, short}
			if ex, ok := ev.(*ssa.Extract); ok {
				sourceAt[ex] = ev
			} else {
				sourceAt[in] = ev
			}
			site[ev] = si
			order = append(order, ev)
		}
	}
	if len(sources) == 0 {
		return
	}

	// dataflow
	in := map[*ssa.BasicBlock]errState{fn.Blocks[0]: {}}
	violations := map[ssa.Value]string{}
	report := func(v ssa.Value, msg string) {
		root := v
		if _, ok := site[root]; !ok {
			return
		}
		if _, dup := violations[root]; !dup {
			violations[root] = msg
		}
	}
	// φ-derived values map back to their root sources for reporting
	rootOf := map[ssa.Value]ssa.Value{}
	for v := range sources {
		rootOf[v] = v
	}

	isNilTest := func(cond ssa.Value) (ssa.Value, bool, bool) { // value, trueMeansNonNil, ok
		bo, ok := cond.(*ssa.BinOp)
		if !ok || (bo.Op != token.EQL && bo.Op != token.NEQ) {
			return nil, false, false
		}
		var v ssa.Value
		if isNilConst(bo.Y) {
			v = bo.X
		} else if isNilConst(bo.X) {
			v = bo.Y
		} else {
			return nil, false, false
		}
		return v, bo.Op == token.NEQ, true
	}

	work := []*ssa.BasicBlock{fn.Blocks[0]}
	inWork := map[*ssa.BasicBlock]bool{fn.Blocks[0]: true}
	iter := 0
	for len(work) > 0 && iter < 5000 {
		iter++
		blk := work[0]
		work = work[1:]
		inWork[blk] = false
		st := in[blk].clone()
		for _, ins := range blk.Instrs {
			if _, isPhi := ins.(*ssa.Phi); isPhi {
				continue
			}
			// uses
			var ops []*ssa.Value
			ops = ins.Operands(ops)
			switch x := ins.(type) {
			case *ssa.BinOp:
				if v, _, ok := isNilTest(x); ok {
					if _, tracked := st[v]; tracked {
						allIf := true
						for _, ref := range *x.Referrers() {
							if _, isIf := ref.(*ssa.If); !isIf {
								allIf = false
							}
						}
						if !allIf {
							delete(st, v) // mapped into a boolean result
						}
						continue
					}
				}
			case *ssa.If:
				continue
			case *ssa.Return:
				for _, r := range x.Results {
					delete(st, r)
				}
				var errOp ssa.Value
				if fnErrIdx >= 0 {
					errOp = x.Results[fnErrIdx]
				}
				for v, s := range st {
					root := rootOf[v]
					if root == nil {
						continue
					}
					switch s {
					case 1:
						if errOp != nil && a.nonNilError(errOp, 0) {
							continue // some error is reported
						}
						report(root, fmt.Sprintf("%s: the error of %s is never examined on a path to the return at %s", name, site[root].callee, c.InstrPos(x)))
					case 2:
						if errOp != nil && (isNilConst(errOp) || provenNilAt(errOp, blk)) {
							report(root, fmt.Sprintf("%s: the error of %s is known to be non-nil (tested, then control leaves the loop/branch) but the return at %s reports nil", name, site[root].callee, c.InstrPos(x)))
						} else if errOp == nil {
							// no error result: the test mapped it to another result
						}
					}
				}
				continue
			case *ssa.Extract:
				if ev, ok := sourceAt[x]; ok {
					if st[ev] == 1 && blk.Dominates(blk) && loopHead(blk) {
						// re-executed while still unchecked
					}
					st[ev] = 1
					continue
				}
			case *ssa.Call:
				if ev, ok := sourceAt[ins]; ok && ev == ssa.Value(x) {
					st[ev] = 1
				}
			}
			for _, op := range ops {
				if *op == nil {
					continue
				}
				if _, tracked := st[*op]; tracked {
					if ex, isEx := ins.(*ssa.Extract); isEx && ssa.Value(ex) == *op {
						continue
					}
					// recording the error in the receiver's sticky field (enc.err = err) tells
					// the *next* call, not this caller: it does not discharge a method that
					// itself returns an error
					if sto, isStore := ins.(*ssa.Store); isStore && fnErrIdx >= 0 && sto.Val == *op && st[*op] == 2 {
						if fa, isFA := sto.Addr.(*ssa.FieldAddr); isFA && len(fn.Params) > 0 && fn.Signature.Recv() != nil {
							if base, isP := fa.X.(*ssa.Parameter); isP && base == fn.Params[0] {
								continue
							}
						}
					}
					// TypeAssert / comparisons with sentinels / calls / stores: consumed
					delete(st, *op)
				}
			}
		}
		// edges
		var ifi *ssa.If
		if n := len(blk.Instrs); n > 0 {
			ifi, _ = blk.Instrs[n-1].(*ssa.If)
		}
		for si, succ := range blk.Succs {
			out := st.clone()
			if ifi != nil {
				if v, trueNonNil, ok := isNilTest(ifi.Cond); ok {
					if _, tracked := out[v]; tracked {
						nonNilEdge := (si == 0) == trueNonNil
						if nonNilEdge {
							out[v] = 2
						} else {
							delete(out, v)
						}
					}
				}
			}
			// φ transfer
			pi := -1
			for i, p := range succ.Preds {
				if p == blk {
					pi = i
				}
			}
			for _, ins := range succ.Instrs {
				phi, ok := ins.(*ssa.Phi)
				if !ok {
					break
				}
				if !isErrorType(phi.Type()) || pi < 0 {
					continue
				}
				e := phi.Edges[pi]
				// the φ joins the values of one error variable: a tracked value that is another
				// incoming value of this φ, still live on this edge, was overwritten on the way here
				for j, other := range phi.Edges {
					if j == pi || other == e {
						continue
					}
					if s, live := out[other]; live {
						if isNilConst(e) && s == 1 {
							if root := rootOf[other]; root != nil {
								report(root, fmt.Sprintf("%s: the error of %s is overwritten with nil before being examined (edge into %s)", name, site[root].callee, c.InstrPos(phi)))
							}
						}
						delete(out, other) // superseded by the error assigned on this path
					}
				}
				if s, tracked := out[e]; tracked {
					if out[phi] < s {
						out[phi] = s
					}
					if rootOf[phi] == nil {
						rootOf[phi] = rootOf[e]
					}
					// the value lives on through the φ (a later direct use of e is not tracked: a
					// possible miss, never a false alarm)
					delete(out, e)
				}
			}
			if in[succ] == nil {
				in[succ] = errState{}
				joinErr(in[succ], out)
				if !inWork[succ] {
					work = append(work, succ)
					inWork[succ] = true
				}
			} else if joinErr(in[succ], out) && !inWork[succ] {
				work = append(work, succ)
				inWork[succ] = true
			}
		}
	}

	sort.Slice(order, func(i, j int) bool { return site[order[i]].key < site[order[j]].key })
	for _, v := range order {
		si := site[v]
		if msg, bad := violations[v]; bad {
			tk := name + "|" + si.callee
			if why := errDropLookup(tk); why != "" {
				b.addP(props, core.Discharged, si.key, si.pos, "by contract: "+why)
				continue
			}
			b.addP(props, core.Violation, si.key, si.pos, msg)
		} else {
			b.addP(props, core.Discharged, si.key, si.pos, "error of "+si.callee+" is tested, returned, wrapped or stored on every path")
		}
	}
}

func loopHead(b *ssa.BasicBlock) bool {
	for _, p := range b.Preds {
		if b.Dominates(p) {
			return true
		}
	}
	return false
}

func reachableFromBlock(from, to *ssa.BasicBlock) bool {
	return reachableFrom(from, nil)[to]
}

// fallibleExternal: functions outside the repository whose error matters to the properties.
func fallibleExternal(name string) bool {
	switch name {
	case "io.ReadFull", "io.CopyN", "io.WriteString", "strconv.ParseFloat", "strconv.ParseInt", "strconv.ParseUint",
		"time.Parse", "time.ParseDuration", "encoding/binary.ReadUvarint", "encoding/binary.ReadVarint",
		"(*bufio.Reader).Discard", "(*bufio.Reader).ReadByte", "(*bytes.Reader).ReadByte", "(*bytes.Buffer).ReadByte",
		"(*bytes.Buffer).WriteByte", "(*bufio.Writer).WriteByte", "(*encoding/base64.Encoding).Decode",
		"encoding/json.Indent", "encoding/json.Compact":
		return true
	}
	return false
}

// varintIntoLocalArray: proto.encodeVarint(b[:]...) where b is a local array of >= 10 bytes.
func (a *errAnalysis) varintIntoLocalArray(call *ssa.Call) bool {
	if !strings.HasSuffix(calleeName(call.Common()), "/proto.encodeVarint") {
		return false
	}
	sl, ok := call.Common().Args[0].(*ssa.Slice)
	if !ok {
		return false
	}
	pt, ok := sl.X.Type().Underlying().(*types.Pointer)
	if !ok {
		return false
	}
	arr, ok := pt.Elem().Underlying().(*types.Array)
	if !ok {
		return false
	}
	lo := int64(0)
	if sl.Low != nil {
		k, ok := constInt(sl.Low)
		if !ok {
			// b[n:] with n the result of a previous encodeVarint into the same 20/24-byte array
			return arr.Len() >= 20
		}
		lo = k
	}
	return arr.Len()-lo >= 10
}

var closureIndex = regexp.MustCompile(`\$[0-9]+`)

// errDropLookup: table lookup by exact site, then with the indices of anonymous functions
// erased (the numbering of closures shifts when an unrelated closure is added before them).
func errDropLookup(k string) string {
	if v := errDropTable[k]; v != "" {
		return v
	}
	return errDropTable[closureIndex.ReplaceAllString(k, "$")]
}

// provenNilAt: blk is dominated by the nil side of a nil test of v (the function returns another
// error variable that was checked earlier on this path: it reports success).
func provenNilAt(v ssa.Value, blk *ssa.BasicBlock) bool {
	for _, e := range dominatingEdges(blk) {
		bo, ok := e.ifi.Cond.(*ssa.BinOp)
		if !ok {
			continue
		}
		var x ssa.Value
		if isNilConst(bo.Y) {
			x = bo.X
		} else if isNilConst(bo.X) {
			x = bo.Y
		}
		if x != v {
			continue
		}
		if (bo.Op == token.NEQ && e.succ == 1) || (bo.Op == token.EQL && e.succ == 0) {
			return true
		}
	}
	return false
}
