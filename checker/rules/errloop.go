package rules

import (
	"fmt"
	"go/token"
	"sort"

	"golang.org/x/tools/go/ssa"

	"verif/checker/core"
)

// R-ERRLOOP — an error produced inside a loop is examined before the loop goes round. R-ERRDROP
// follows error values to a test or a return; a value that reaches the loop header's φ is "used"
// there, and is tested after the loop — but only the last iteration's. An error assigned to a
// variable that the next iteration overwrites (encode every element, look at err once at the end)
// is lost for every element but the last: invalid RawMessage values are emitted and nil returned.
func init() {
	Register(&Rule{
		ID:    "R-ERRLOOP",
		Doc:   "for every call inside a loop whose error result flows (through φ) into a φ of the loop header along a back edge: a nil test of that result must lie on every path from the call to the back edge (a test in the body that dominates the latch); otherwise the next iteration overwrites the error unexamined",
		Props: []string{"C01", "C05", "C02", "C03", "C04", "C07", "C08"},
		Min:   map[string]int{"C01": 1},
		Run:   runErrLoop,
	})
}

func runErrLoop(c *core.Ctx) []core.Obligation {
	b := newOb(c, "R-ERRLOOP")
	n := 0
	count := map[string]int{}
	fns := c.RepoFunctions()
	sort.Slice(fns, func(i, j int) bool { return shortName(fns[i]) < shortName(fns[j]) })
	for _, fn := range fns {
		if fn.Blocks == nil || fn.Pkg == nil {
			continue
		}
		var props []string
		switch fn.Pkg.Pkg.Name() {
		case "json":
			props = []string{"C01", "C05", "C02"}
		case "proto":
			props = []string{"C03", "C07"}
		case "thrift":
			props = []string{"C04", "C08"}
		default:
			continue
		}
		for _, h := range loopHeaders(fn) {
			body := loopBlocks(h)
			for _, in := range h.Instrs {
				phi, ok := in.(*ssa.Phi)
				if !ok {
					break
				}
				if phi.Type().String() != "error" {
					continue
				}
				for i, pred := range h.Preds {
					if !body[pred] {
						continue
					}
					// error-producing definitions reaching this back edge
					for _, d := range errDefsThroughPhis(phi.Edges[i], body, map[ssa.Value]bool{}) {
						di, _ := d.(ssa.Instruction)
						if di == nil || !body[di.Block()] {
							continue
						}
						n++
						name := shortName(fn)
						count[name]++
						key := fmt.Sprintf("errloop:%s#%d", name, count[name])
						if testedBefore(d, pred, body) {
							b.addP(props, core.Discharged, key, c.InstrPos(di), "the error is tested before the loop goes round")
						} else {
							b.addP(props, core.Violation, key, c.InstrPos(di), fmt.Sprintf("%s: the error produced here is carried to the next iteration in variable %q without being examined; the next iteration overwrites it, so only the last element's error is ever seen (earlier failures — an invalid RawMessage, a failing Marshaler — are emitted as they are and nil is returned)", name, phi.Comment))
						}
					}
				}
			}
		}
	}
	b.addP([]string{"C01", "C05", "C02", "C03", "C04", "C07", "C08"}, core.Discharged, "errloop:scan", "-", fmt.Sprintf("%d loop-carried error definitions examined", n))
	return b.out
}

// errDefsThroughPhis: the non-φ values that flow into v through φs of the loop body.
func errDefsThroughPhis(v ssa.Value, body map[*ssa.BasicBlock]bool, seen map[ssa.Value]bool) []ssa.Value {
	if seen[v] {
		return nil
	}
	seen[v] = true
	if phi, ok := v.(*ssa.Phi); ok {
		if !body[phi.Block()] {
			return nil
		}
		var out []ssa.Value
		for _, e := range phi.Edges {
			out = append(out, errDefsThroughPhis(e, body, seen)...)
		}
		return out
	}
	if k, ok := v.(*ssa.Const); ok && k.Value == nil {
		return nil
	}
	return []ssa.Value{v}
}

// testedBefore: a comparison of d (or of a φ fed by d) with nil controls an If in the loop body
// that dominates the latch block.
func testedBefore(d ssa.Value, latch *ssa.BasicBlock, body map[*ssa.BasicBlock]bool) bool {
	seen := map[ssa.Value]bool{}
	var vals []ssa.Value
	var walk func(v ssa.Value)
	walk = func(v ssa.Value) {
		if seen[v] {
			return
		}
		seen[v] = true
		vals = append(vals, v)
		for _, ref := range *v.Referrers() {
			if phi, ok := ref.(*ssa.Phi); ok && body[phi.Block()] {
				walk(phi)
			}
		}
	}
	walk(d)
	for _, v := range vals {
		for _, ref := range *v.Referrers() {
			cmp, ok := ref.(*ssa.BinOp)
			if !ok || (cmp.Op != token.EQL && cmp.Op != token.NEQ) {
				continue
			}
			if !isNilConst(cmp.X) && !isNilConst(cmp.Y) {
				continue
			}
			for _, r2 := range *cmp.Referrers() {
				ifi, isIf := r2.(*ssa.If)
				if !isIf || !body[ifi.Block()] {
					continue
				}
				if ifi.Block() == latch || ifi.Block().Dominates(latch) {
					return true
				}
			}
		}
		// a type switch / type assertion on the error also examines it
		for _, ref := range *v.Referrers() {
			if ta, ok := ref.(*ssa.TypeAssert); ok && (ta.Block() == latch || ta.Block().Dominates(latch)) {
				return true
			}
		}
	}
	return false
}
