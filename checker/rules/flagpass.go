package rules

import (
	"fmt"
	"sort"
	"strings"

	"golang.org/x/tools/go/ssa"

	"verif/checker/core"
)

// R-FLAGPASS — proto's wrapper codecs hand the field's encoding flags down. A struct field's
// zigzag option reaches its codec as a bit of the flags argument (structField.makeFlags); a codec
// that wraps another one — repeated elements, pointers — must pass that bit on to the element
// codec, in all three of size, encode and decode: a wrapper that ignores its flags parameter and
// calls the element codec with a constant encodes `repeated sint64` elements as plain varints
// (08 ff ff ff ff ff ff ff ff ff 01 for -1 where the wire format is 08 01), sizes included.
func init() {
	Register(&Rule{
		ID:    "R-FLAGPASS",
		Doc:   "every codec-typed closure of proto's wrapper constructors (slice*FuncOf, pointer*FuncOf) that calls the wrapped codec's size/encode/decode: the flags argument of that call depends on the closure's own flags parameter (data flow through |, &, conversions), so that the zigzag bit set from the field's tag reaches the element codec; in the struct codecs (struct*FuncOf) the flags argument of every field codec call goes through f.makeFlags; wrappers whose elements take their flags from elsewhere (map keys and values) are listed with the reason",
		Props: []string{"C12", "C03"},
		Min:   map[string]int{"C12": 6, "C03": 6},
		Run:   runFlagPass,
	})
}

// flagPassElsewhere: wrapper closures whose inner flags legitimately do not come from the
// closure's parameter.
var flagPassElsewhere = map[string]string{}

func runFlagPass(c *core.Ctx) []core.Obligation {
	b := newOb(c, "R-FLAGPASS", "C12", "C03")
	fns := c.RepoFunctions()
	sort.Slice(fns, func(i, j int) bool { return shortName(fns[i]) < shortName(fns[j]) })
	n := 0
	for _, fn := range fns {
		name := shortName(fn)
		if fn.Blocks == nil || fn.Parent() == nil || !strings.HasPrefix(name, "proto.") {
			continue
		}
		parent := fn.Parent().Name()
		if !(strings.HasPrefix(parent, "slice") || strings.HasPrefix(parent, "pointer")) || !strings.HasSuffix(parent, "FuncOf") {
			continue
		}
		var fp *ssa.Parameter
		for _, p := range fn.Params {
			if strings.HasSuffix(p.Type().String(), "proto.flags") {
				fp = p
			}
		}
		if fp == nil {
			continue
		}
		count := 0
		for _, ci := range callsIn(fn) {
			cc := ci.Common()
			if staticCallee(cc) != nil || cc.IsInvoke() {
				continue
			}
			if _, isB := cc.Value.(*ssa.Builtin); isB {
				continue
			}
			var farg ssa.Value
			for _, a := range cc.Args {
				if strings.HasSuffix(a.Type().String(), "proto.flags") {
					farg = a
				}
			}
			if farg == nil {
				continue
			}
			n++
			count++
			key := fmt.Sprintf("flagpass:%s:%s#%d", closureIndex.ReplaceAllString(name, ""), calleeLabel(cc), count)
			if why, ok := flagPassElsewhere[closureIndex.ReplaceAllString(name, "")]; ok {
				b.ok(key, c.InstrPos(ci), "flags come from elsewhere: "+why)
				continue
			}
			if dependsOn(farg, func(x ssa.Value) bool { return x == ssa.Value(fp) }) {
				b.ok(key, c.InstrPos(ci), "the element codec receives flags derived from the wrapper's own")
			} else {
				b.bad(key, c.InstrPos(ci), fmt.Sprintf("%s calls the wrapped codec with flags (%s) that do not depend on its own flags parameter: the field's zigzag option never reaches the elements, so a repeated (or pointer) sint32/sint64 field is sized, written and read as a plain varint — not the protobuf encoding of that field", name, texpr(farg, 0)))
			}
		}
	}
	// the struct codecs hand each field's codec the flags of that field: f.makeFlags(flags) adds
	// the zigzag bit of the field's tag in the size, encode and decode functions alike
	for _, fn := range fns {
		name := shortName(fn)
		if fn.Blocks == nil || fn.Parent() == nil || !strings.HasPrefix(name, "proto.") {
			continue
		}
		parent := fn.Parent().Name()
		if !strings.HasPrefix(parent, "struct") || !strings.HasSuffix(parent, "FuncOf") {
			continue
		}
		count := 0
		for _, ci := range callsIn(fn) {
			cc := ci.Common()
			if staticCallee(cc) != nil || cc.IsInvoke() {
				continue
			}
			if _, isB := cc.Value.(*ssa.Builtin); isB {
				continue
			}
			var farg ssa.Value
			for _, a := range cc.Args {
				if strings.HasSuffix(a.Type().String(), "proto.flags") {
					farg = a
				}
			}
			if farg == nil {
				continue
			}
			n++
			count++
			key := fmt.Sprintf("flagpass:%s:%s#%d", closureIndex.ReplaceAllString(name, ""), calleeLabel(cc), count)
			if dependsOn(farg, func(x ssa.Value) bool {
				call, ok := x.(*ssa.Call)
				return ok && strings.HasSuffix(calleeName(call.Common()), "structField).makeFlags")
			}) {
				b.ok(key, c.InstrPos(ci), "the field's codec receives f.makeFlags(flags)")
			} else {
				b.bad(key, c.InstrPos(ci), fmt.Sprintf("%s calls a field's codec with flags (%s) that did not go through f.makeFlags: the zigzag option of the field's tag does not reach this call while it reaches its siblings, so a (repeated) sint32/sint64 field is sized as a plain varint and written zig-zag — Marshal fails with a short buffer, or pads the message with zero bytes", name, texpr(farg, 0)))
			}
		}
	}
	if n == 0 {
		b.und("flagpass:-", "-", "no wrapped codec call found in proto's slice/pointer wrappers")
	}
	return b.out
}
